/-
  C14 — Serializers round-trip every message and agree with each other.

  "For every WAMP message of every type whose payload consists of WAMP data-model values
  (integers up to 2^53, floats, strings, booleans, null, nested lists and dicts, binary where
  the format supports it), deserialising the serialised form yields an equal message for JSON,
  MessagePack and CBOR alike, and the three formats decode each other's meaning identically;
  trailing empty arguments are omitted while a keyword-arguments dict without positional
  arguments keeps its position. Deserialising arbitrary bytes never panics and yields an error,
  not a message, for anything that is not a list starting with a known message code and
  compatible field types."

  Layer a = the repo's own code (`msgToList`/`listToMsg`/head checks), modelled in
  `Nexus/Codec/Msg.lean` generically over the schema regenerated from wamp/message.go.
  Layer b = the wire formats (third-party codec): format models in `Nexus/Codec/{MsgPack,CBOR,
  Json}.lean`, tied to the real codec by the `codec` family.

  clause                                         theorem
  ---------------------------------------------  ------------------------------------------
  wire layout of the 24 message types            C14_layout, C14_newMessage_complete,
                                                 C14_inits
  list round trip, every type, every payload     C14_list_roundtrip (+ C14_norm_fields,
                                                 C14_norm_id: what `norm` changes)
  trailing empty arguments are omitted           C14_trailing_omitted, C14_both_empty_omitted
  kwargs without args keeps its position         C14_kwargs_keeps_position, C14_args_shape
  never panics                                   C14_msgToList_no_panic, C14_listToMsg_no_panic,
                                                 C14_fromList_no_panic, C14_deserialize_no_panic
  error unless known code + compatible fields    C14_rejects (exact accept/reject condition, as coded),
                                                 C14_string_fields_strict (string/URI fields take
                                                 only strings: holds since the fix of C14-F1);
                                                 full statements that are still false, with
                                                 witnesses replayed on the implementation:
                                                 C14_rejects_strict / C14_rejects_strict_fails,
                                                 C14_negative_id_accepted (C14-F1b: float or
                                                 negative number for an id), C14_bin_for_list_accepted
                                                 (C14-F1d), C14_rejects_short /
                                                 C14_rejects_short_fails (C14-F1c: short list)
  error for anything that is not a list          C14_rejects_nonlist (proved at full strength since
                                                 the fix of C14-F2), C14_decodeList_everywhere,
                                                 C14_toplevel_map_rejected
  value round trip per format, any depth         C14_msgpack_roundtrip, C14_cbor_roundtrip,
                                                 C14_json_roundtrip (fragment without floats
                                                 and binaries)
  the formats agree with each other              C14_cross_format, C14_cross_format_json
  message round trip through each format         C14_wire_roundtrip
  JSON strings must be valid UTF-8 (audit c1)    Json.okB now demands it; C14_json_roundtrip_real,
                                                 C14_wire_roundtrip_json_real
                                                 (the codec's real bytes, `Json.encReal`),
                                                 C14_json_roundtrip_anystring /
                                                 C14_json_roundtrip_nonutf8_fails ("a\x80b" comes
                                                 back as "a\uFFFDb"), C14_json_string_roundtrip_iff
                                                 (what comes back in general; exactly the valid
                                                 UTF-8 strings survive), C14_nonutf8_formats_disagree,
                                                 C14_wire_nonutf8_witness
  compatible field types, closed form (audit b)  C14_compatible_cases, C14_compatible_table,
                                                 C14_rejects_closed
  when Deserialize answers at all (audit d8)     C14_deserialize_ok_iff, C14_deserialize_msg_iff,
                                                 C14_deserialize_error_iff
  the head is literally a known code (audit a6)  C14_accept_known_code
  further leniencies (audit a5)                  C14_rejects_long / C14_rejects_long_fails,
                                                 C14_extra_items_ignored(_msg), C14_nil_for_id_accepted

  Not proved, sampled by the family: that ugorji/go/codec implements these formats (encoder
  bytes, decoder verdicts), float <-> decimal text in JSON, Go's reflect conversions.
-/
import Nexus.Codec.MsgLemmas
import Nexus.Codec.WireLemmas
import Nexus.Codec.WpDJsonReal
import Nexus.Codec.WpDRange
import Nexus.Codec.WpDBinaryDataProofs

namespace Nexus.C14

open Nexus.Gen Nexus.Codec

/-! ## Layout -/

/-- The WAMP wire layout (basic + advanced profile message definitions), written by hand:
    code, Go struct, then per element after the code: Go field name, Go field type, and whether
    the element may be left out when it and everything after it is empty.
    WAMP names: HELLO [1, Realm|uri, Details|dict]; WELCOME [2, Session|id, Details|dict];
    ABORT [3, Details|dict, Reason|uri]; CHALLENGE [4, AuthMethod|string, Extra|dict];
    AUTHENTICATE [5, Signature|string, Extra|dict]; GOODBYE [6, Details|dict, Reason|uri];
    ERROR [8, REQUEST.Type|int, REQUEST.Request|id, Details|dict, Error|uri, Arguments|list, ArgumentsKw|dict];
    PUBLISH [16, Request|id, Options|dict, Topic|uri, Arguments|list, ArgumentsKw|dict]; ... -/
structure LField where
  name : String
  goType : String
  optional : Bool
  deriving DecidableEq, Repr

structure LRow where
  code : Nat
  struct : String
  fields : List LField
  deriving DecidableEq, Repr

private def lf (n t : String) (o : Bool) : LField := ⟨n, t, o⟩

def wireLayout : List LRow := [
  ⟨1, "Hello", [lf "Realm" "URI" false, lf "Details" "Dict" false]⟩,
  ⟨2, "Welcome", [lf "ID" "ID" false, lf "Details" "Dict" false]⟩,
  ⟨3, "Abort", [lf "Details" "Dict" false, lf "Reason" "URI" false]⟩,
  ⟨4, "Challenge", [lf "AuthMethod" "string" false, lf "Extra" "Dict" false]⟩,
  ⟨5, "Authenticate", [lf "Signature" "string" false, lf "Extra" "Dict" false]⟩,
  ⟨6, "Goodbye", [lf "Details" "Dict" false, lf "Reason" "URI" false]⟩,
  ⟨8, "Error", [lf "Type" "MessageType" false, lf "Request" "ID" false, lf "Details" "Dict" false,
                        lf "Error" "URI" false, lf "Arguments" "List" true, lf "ArgumentsKw" "Dict" true]⟩,
  ⟨16, "Publish", [lf "Request" "ID" false, lf "Options" "Dict" false, lf "Topic" "URI" false,
                        lf "Arguments" "List" true, lf "ArgumentsKw" "Dict" true]⟩,
  ⟨17, "Published", [lf "Request" "ID" false, lf "Publication" "ID" false]⟩,
  ⟨32, "Subscribe", [lf "Request" "ID" false, lf "Options" "Dict" false, lf "Topic" "URI" false]⟩,
  ⟨33, "Subscribed", [lf "Request" "ID" false, lf "Subscription" "ID" false]⟩,
  ⟨34, "Unsubscribe", [lf "Request" "ID" false, lf "Subscription" "ID" false]⟩,
  ⟨35, "Unsubscribed", [lf "Request" "ID" false]⟩,
  ⟨36, "Event", [lf "Subscription" "ID" false, lf "Publication" "ID" false, lf "Details" "Dict" false,
                        lf "Arguments" "List" true, lf "ArgumentsKw" "Dict" true]⟩,
  ⟨48, "Call", [lf "Request" "ID" false, lf "Options" "Dict" false, lf "Procedure" "URI" false,
                        lf "Arguments" "List" true, lf "ArgumentsKw" "Dict" true]⟩,
  ⟨49, "Cancel", [lf "Request" "ID" false, lf "Options" "Dict" false]⟩,
  ⟨50, "Result", [lf "Request" "ID" false, lf "Details" "Dict" false,
                        lf "Arguments" "List" true, lf "ArgumentsKw" "Dict" true]⟩,
  ⟨64, "Register", [lf "Request" "ID" false, lf "Options" "Dict" false, lf "Procedure" "URI" false]⟩,
  ⟨65, "Registered", [lf "Request" "ID" false, lf "Registration" "ID" false]⟩,
  ⟨66, "Unregister", [lf "Request" "ID" false, lf "Registration" "ID" false]⟩,
  ⟨67, "Unregistered", [lf "Request" "ID" false]⟩,
  ⟨68, "Invocation", [lf "Request" "ID" false, lf "Registration" "ID" false, lf "Details" "Dict" false,
                        lf "Arguments" "List" true, lf "ArgumentsKw" "Dict" true]⟩,
  ⟨69, "Interrupt", [lf "Request" "ID" false, lf "Options" "Dict" false]⟩,
  ⟨70, "Yield", [lf "Request" "ID" false, lf "Options" "Dict" false,
                        lf "Arguments" "List" true, lf "ArgumentsKw" "Dict" true]⟩
]

/-- Underlying Go kinds the model relies on (`type ID uint64`, `type URI string`, ...). -/
def expectedKinds : List (String × GoKind) := [
  ("Dict", .mapStringAny), ("ID", .uint64), ("List", .sliceAny), ("MessageType", .int),
  ("URI", .string), ("string", .string)]

def viewOf (s : MsgSchema) : LRow :=
  ⟨s.code, s.name, s.fields.map fun f => ⟨f.name, f.goType, f.omitempty⟩⟩

/-- The field order, field types and omitempty tags extracted from wamp/message.go are the WAMP
    wire layout: each layout row is the (unique) generated struct with that code, there are no
    other structs, and the named types have the kinds the model assumes.  Removing an
    `omitempty` tag, reordering fields or changing a constant in message.go breaks this. -/
theorem C14_layout :
    (∀ e ∈ wireLayout, (Gen.structs.filter fun s => s.code == e.code).map viewOf = [e])
    ∧ Gen.structs.length = wireLayout.length
    ∧ Gen.namedKinds = expectedKinds
    ∧ (∀ s ∈ Gen.structs, ∀ f ∈ s.fields, Gen.namedKinds.lookup f.goType = some f.kind) := by
  decide

/-- `NewMessage` has exactly one case per message struct and it allocates that struct:
    `NewMessage(s.MessageType())` is a fresh `s`; no other code is handled. -/
theorem C14_newMessage_complete :
    (∀ s ∈ Gen.structs, (newCase? s.code).bind structOf? = some s)
    ∧ Gen.newMessage.map (·.code) = wireLayout.map (·.code) := by
  decide

/-- The only non-zero initial values are `Error{Type: t, Details: Dict{}}`. -/
theorem C14_inits :
    ∀ c ∈ Gen.newMessage, c.inits = [] ∨
      (c.struct = "Error" ∧ c.inits = [("Type", .code), ("Details", .emptyDict)]) := by
  decide

/-! ## Round trip at list level -/

/-- A message value as Go's type system admits it: a struct of wamp/message.go whose field
    values have the fields' static types (ID: 0 ≤ i < 2^64; MessageType: int64 range; URI/string:
    any byte string; Dict: nil or a map; List: nil or a slice; contents arbitrary). -/
def WellTyped (m : Msg) : Prop :=
  m.schema ∈ Gen.structs ∧ TypedFields m.schema.fields m.fields

def omitKindsOkB (fs : List FieldSchema) : Bool :=
  fs.all fun f => !f.omitempty || f.kind == .mapStringAny || f.kind == .sliceAny || f.kind == .string

private theorem structs_facts : ∀ s ∈ Gen.structs,
    s.fields ≠ [] ∧ omitKindsOkB s.fields = true ∧ s.code < 256 := by decide

private theorem omitKindsOk_of {fs : List FieldSchema} (h : omitKindsOkB fs = true) : OmitKindsOk fs := by
  intro f hf ho
  have := List.all_eq_true.mp h f hf
  cases hk : f.kind <;> simp [ho, hk] at this ⊢

private theorem newMessage_of_mem {s : MsgSchema} (hs : s ∈ Gen.structs) :
    newMessage s.code = some { schema := s, fields := initFields s } := by
  have h := C14_newMessage_complete.1 s hs
  rw [newMessage_eq]
  unfold initFields
  cases hc : newCase? (s.code : Int) with
  | none => simp [hc] at h
  | some c =>
    simp [hc] at h
    simp [h]

private theorem headType_code (fmt : Format) {n : Nat} (h : n < 256) : headType fmt (.int n) = .ok n := by
  have h1 : (n : Int) < two63 := by unfold two63; omega
  have h2 : wrapI64 (n : Int) = n := wrapI64_id (by unfold two63; omega) h1
  cases fmt <;> simp [headType, h1, h2]

/-- **List round trip.** For every well-typed message of every type, `msgToList` yields a list
    and `listToMsg` — directly, and behind each serializer's head check — maps that list to
    `norm m`.  `norm` is characterised by `C14_norm_fields` / `C14_norm_id`. -/
theorem C14_list_roundtrip (m : Msg) (h : WellTyped m) :
    ∃ l, msgToList m = .ok l
      ∧ listToMsg m.schema.code l = .ok (norm m)
      ∧ ∀ fmt, fromList fmt l = .ok (norm m) := by
  obtain ⟨hs, ht⟩ := h
  obtain ⟨hne, hok, hcode⟩ := structs_facts _ hs
  have hlen : m.schema.fields.length - 1 < m.schema.fields.length := by
    cases hf : m.schema.fields with
    | nil => exact absurd hf hne
    | cons _ _ => simp
  obtain ⟨last, hfl, _, _, _⟩ := findLast_spec _ _ ht (omitKindsOk_of hok) _ hlen
  have hlast : lastIdx m = last := by simp [lastIdx, hfl]
  have hm2l : msgToList m = .ok (.int m.schema.code :: m.fields.take (last + 1)) := by
    unfold msgToList
    cases hf : m.schema.fields.length with
    | zero => have := List.length_eq_zero_iff.mp hf; exact absurd this hne
    | succ n => simp [hf] at hfl; simp [hfl]
  have hl2m : listToMsg m.schema.code (.int m.schema.code :: m.fields.take (last + 1)) = .ok (norm m) := by
    unfold listToMsg
    rw [newMessage_of_mem hs]
    simp only [List.tail_cons]
    rw [fill_take _ _ _ _ _ ht (initFields_length _)]
    simp [Res.map, norm, hlast]
  refine ⟨_, hm2l, hl2m, fun fmt => ?_⟩
  simp [fromList, headType_code fmt hcode, hl2m]

/-- What `norm` does, field by field: position `i` keeps its value when it was emitted
    (`i ≤ lastIdx m`) and is not nil; otherwise it holds the initial value of `NewMessage`
    (nil/zero, except `Error.Details = Dict{}` and `Error.Type = ERROR`, see `C14_inits`). -/
theorem C14_norm_fields (m : Msg) (hl : m.fields.length = m.schema.fields.length) (i : Nat) (v z : CVal)
    (hv : m.fields[i]? = some v) (hz : (initFields m.schema)[i]? = some z) :
    (norm m).fields[i]? = some (if i ≤ lastIdx m ∧ v.isNull = false then v else z) := by
  have key : ∀ (k : Nat) (zs vs : List CVal) (i : Nat) (v z : CVal), zs.length = vs.length →
      vs[i]? = some v → zs[i]? = some z →
      (normAux k zs vs)[i]? = some (if i < k ∧ v.isNull = false then v else z) := by
    intro k zs
    induction zs generalizing k with
    | nil => intro vs i v z _ _ hz; simp at hz
    | cons z0 zs ih =>
      intro vs i v z hlen hv hz
      cases vs with
      | nil => simp at hv
      | cons v0 vs =>
        cases k with
        | zero => simp [normAux, hz]
        | succ k =>
          cases i with
          | zero =>
            simp at hv hz; subst hv; subst hz
            cases hn : v0.isNull <;> simp [normAux, hn]
          | succ i =>
            simp at hv hz hlen
            have := ih k vs i v z hlen hv hz
            simp [normAux, this]
  have := key (lastIdx m + 1) (initFields m.schema) m.fields i v z
    (by rw [initFields_length, hl]) hv hz
  simpa [norm, Nat.lt_succ_iff] using this

/-- Fields beyond `lastIdx` are exactly the trailing empty `omitempty` ones, and the loop stopped
    for a reason: field `lastIdx` is field 0, or not `omitempty`, or not empty. -/
theorem C14_trailing_omitted (m : Msg) (h : WellTyped m) :
    msgToList m = .ok (.int m.schema.code :: m.fields.take (lastIdx m + 1))
    ∧ (∀ i f v, lastIdx m < i → m.schema.fields[i]? = some f → m.fields[i]? = some v →
        f.omitempty = true ∧ emptyVal v = true)
    ∧ (lastIdx m = 0 ∨ ∃ f v, m.schema.fields[lastIdx m]? = some f ∧ m.fields[lastIdx m]? = some v ∧
        (f.omitempty = false ∨ emptyVal v = false)) := by
  obtain ⟨hs, ht⟩ := h
  obtain ⟨hne, hok, _⟩ := structs_facts _ hs
  have hlen : m.schema.fields.length - 1 < m.schema.fields.length := by
    cases hf : m.schema.fields with
    | nil => exact absurd hf hne
    | cons _ _ => simp
  obtain ⟨last, hfl, _, h3, h4⟩ := findLast_spec _ _ ht (omitKindsOk_of hok) _ hlen
  have hlast : lastIdx m = last := by simp [lastIdx, hfl]
  refine ⟨?_, ?_, ?_⟩
  · unfold msgToList
    cases hf : m.schema.fields.length with
    | zero => have := List.length_eq_zero_iff.mp hf; exact absurd this hne
    | succ n => simp [hf] at hfl; simp [hfl, hlast]
  · intro i f v hi hf hv
    rw [hlast] at hi
    have hile : i ≤ m.schema.fields.length - 1 := by
      have := (List.getElem?_eq_some_iff.mp hf).1; omega
    exact h3 i f v hi hile hf hv
  · rw [hlast]; exact h4

/-- `norm m = m` unless `m` has an emitted nil field with a non-nil initial value (only
    `Error.Details`) or a trailing empty `omitempty` field that is not already in its initial
    state (an empty non-nil `List{}`/`Dict{}`, which comes back as nil). -/
theorem C14_norm_id (m : Msg) (hl : m.fields.length = m.schema.fields.length)
    (hkeep : ∀ i v z, i ≤ lastIdx m → m.fields[i]? = some v → (initFields m.schema)[i]? = some z →
      v.isNull = true → v = z)
    (hdrop : ∀ i v z, lastIdx m < i → m.fields[i]? = some v → (initFields m.schema)[i]? = some z → v = z) :
    (norm m).fields = m.fields := by
  apply List.ext_getElem?
  intro i
  by_cases hi : i < m.fields.length
  · have hv : m.fields[i]? = some m.fields[i] := List.getElem?_eq_getElem hi
    have hi' : i < (initFields m.schema).length := by rw [initFields_length, ← hl]; exact hi
    have hz : (initFields m.schema)[i]? = some (initFields m.schema)[i] := List.getElem?_eq_getElem hi'
    rw [C14_norm_fields m hl i _ _ hv hz, hv]
    by_cases hle : i ≤ lastIdx m
    · cases hn : (m.fields[i]).isNull with
      | false => simp [hle]
      | true => simp; exact (hkeep i _ _ hle hv hz hn).symm
    · have : lastIdx m < i := by omega
      simp [hle]; exact (hdrop i _ _ this hv hz).symm
  · have h1 : m.fields[i]? = none := List.getElem?_eq_none (by omega)
    have h2 : (norm m).fields[i]? = none := by
      apply List.getElem?_eq_none
      have : (norm m).fields.length = m.fields.length := by
        have key : ∀ (k : Nat) (zs vs : List CVal), zs.length = vs.length → (normAux k zs vs).length = vs.length := by
          intro k zs
          induction zs generalizing k with
          | nil => intro vs h; cases vs <;> simp_all [normAux]
          | cons z zs ih =>
            intro vs h
            cases vs with
            | nil => simp at h
            | cons v vs =>
              cases k with
              | zero => simpa [normAux] using h
              | succ k => simp at h; simp [normAux, ih k vs h]
        exact key _ _ _ (by rw [initFields_length, hl])
      omega
    rw [h1, h2]

/-! ## Arguments / ArgumentsKw -/

/-- Every struct with an `ArgumentsKw` field ends in `Arguments List omitempty,
    ArgumentsKw Dict omitempty`, preceded only by non-omitempty fields (at least one). -/
def argsShape (s : MsgSchema) : Bool :=
  match s.fields.reverse with
  | kw :: ar :: pre =>
    kw.name == "ArgumentsKw" && kw.kind == .mapStringAny && kw.omitempty &&
    ar.name == "Arguments" && ar.kind == .sliceAny && ar.omitempty &&
    !pre.isEmpty && pre.all (fun f => !f.omitempty)
  | _ => false

theorem C14_args_shape :
    (∀ s ∈ Gen.structs, (s.fields.any fun f => f.name == "ArgumentsKw" || f.name == "Arguments" || f.omitempty)
        → argsShape s = true)
    ∧ (Gen.structs.filter argsShape).map (·.code) = [8, 16, 36, 48, 68, 70, 50] := by
  decide

private theorem argsShape_split {s : MsgSchema} (h : argsShape s = true) :
    ∃ pre ar kw, s.fields = pre ++ [ar, kw] ∧ pre ≠ [] ∧ (∀ f ∈ pre, f.omitempty = false) ∧
      ar.omitempty = true ∧ kw.omitempty = true ∧ ar.kind = .sliceAny ∧ kw.kind = .mapStringAny := by
  unfold argsShape at h
  split at h
  · rename_i kw ar pre hrev
    simp at h
    obtain ⟨⟨⟨⟨⟨⟨⟨_, hkk⟩, hko⟩, _⟩, hak⟩, hao⟩, hpne⟩, hall⟩ := h
    refine ⟨pre.reverse, ar, kw, ?_, ?_, ?_, hao, hko, hak, hkk⟩
    · have := congrArg List.reverse hrev; simpa using this
    · intro hp; simp at hp; exact hpne hp
    · intro f hf; simp at hf; exact hall f hf
  · simp at h

/-- **Kwargs keeps its position.** A well-typed message of a type with Arguments/ArgumentsKw whose
    ArgumentsKw is non-empty is emitted in full: every field including Arguments, whatever it is
    (nil — encoded as null —, empty or not). -/
theorem C14_kwargs_keeps_position (m : Msg) (h : WellTyped m)
    (pre : List CVal) (args : CVal) (kw : CDict) (hm : m.fields = pre ++ [args, .dict kw]) (hkw : kw ≠ []) :
    msgToList m = .ok (.int m.schema.code :: (pre ++ [args, .dict kw])) := by
  obtain ⟨h1, h2, h3⟩ := C14_trailing_omitted m h
  have hlen := h.2.length_eq
  have hl : lastIdx m = pre.length + 1 := by
    by_cases hlt : lastIdx m < pre.length + 1
    · have hv : m.fields[pre.length + 1]? = some (.dict kw) := by simp [hm]
      have hfl : pre.length + 1 < m.schema.fields.length := by rw [hlen, hm]; simp
      have := (h2 _ _ _ hlt (List.getElem?_eq_getElem hfl) hv).2
      cases kw with
      | nil => exact absurd rfl hkw
      | cons _ _ => simp [emptyVal] at this
    · rcases h3 with h0 | ⟨f, v, _, hv, _⟩
      · omega
      · have := (List.getElem?_eq_some_iff.mp hv).1
        rw [hm] at this; simp at this; omega
  rw [h1, hl, hm, List.take_of_length_le (by simp)]

/-- **Both empty: both omitted.** With Arguments and ArgumentsKw empty (nil or empty non-nil) the
    emitted list stops at the field before Arguments. -/
theorem C14_both_empty_omitted (m : Msg) (h : WellTyped m) (hs : argsShape m.schema = true)
    (pre : List CVal) (args kw : CVal) (hm : m.fields = pre ++ [args, kw])
    (ha : emptyVal args = true) (hk : emptyVal kw = true) :
    msgToList m = .ok (.int m.schema.code :: pre) := by
  obtain ⟨h1, h2, h3⟩ := C14_trailing_omitted m h
  obtain ⟨spre, ar, skw, hsf, hne, hpre, hao, hko, _, _⟩ := argsShape_split hs
  have hlen := h.2.length_eq
  have hpl : spre.length = pre.length := by
    rw [hsf, hm] at hlen; simp at hlen; exact hlen
  have hpos : 0 < pre.length := by
    rw [← hpl]; cases spre with
    | nil => exact absurd rfl hne
    | cons _ _ => simp
  have hl : lastIdx m = pre.length - 1 := by
    rcases h3 with h0 | ⟨f, v, hf, hv, hor⟩
    · -- last = 0: then field 1.. are omitempty; if pre.length > 1 field 1 is in pre, not omitempty
      by_cases h1' : pre.length = 1
      · omega
      · have hlt : 1 < spre.length := by omega
        have hf1 : m.schema.fields[1]? = some (spre[1]) := by
          rw [hsf, List.getElem?_append_left hlt]; exact List.getElem?_eq_getElem hlt
        have hv1 : m.fields[1]? = some (pre[1]'(by omega)) := by
          rw [hm, List.getElem?_append_left (by omega)]; exact List.getElem?_eq_getElem (by omega)
        have := (h2 1 _ _ (by omega) hf1 hv1).1
        rw [hpre _ (List.getElem_mem hlt)] at this
        cases this
    · by_cases hlt : lastIdx m < pre.length
      · -- inside pre: must be the last of pre, else the next one (in pre) would be omitempty
        by_cases hlast : lastIdx m = pre.length - 1
        · exact hlast
        · have hlt2 : lastIdx m + 1 < spre.length := by omega
          have hf1 : m.schema.fields[lastIdx m + 1]? = some (spre[lastIdx m + 1]) := by
            rw [hsf, List.getElem?_append_left hlt2]; exact List.getElem?_eq_getElem hlt2
          have hv1 : m.fields[lastIdx m + 1]? = some (pre[lastIdx m + 1]'(by omega)) := by
            rw [hm, List.getElem?_append_left (by omega)]; exact List.getElem?_eq_getElem (by omega)
          have := (h2 _ _ _ (Nat.lt_succ_self _) hf1 hv1).1
          rw [hpre _ (List.getElem_mem hlt2)] at this
          cases this
      · -- at Arguments or ArgumentsKw: both omitempty and empty, contradiction
        have hb := (List.getElem?_eq_some_iff.mp hv).1
        rw [hm] at hb; simp at hb
        by_cases he : lastIdx m = pre.length
        · have hf' : m.schema.fields[lastIdx m]? = some ar := by
            rw [hsf, he, ← hpl, List.getElem?_append_right (Nat.le_refl _)]; simp
          have hv' : m.fields[lastIdx m]? = some args := by
            rw [hm, he, List.getElem?_append_right (Nat.le_refl _)]; simp
          rw [hf'] at hf; rw [hv'] at hv; cases hf; cases hv
          rcases hor with h | h <;> simp_all
        · have he2 : lastIdx m = pre.length + 1 := by omega
          have hf' : m.schema.fields[lastIdx m]? = some skw := by
            rw [hsf, he2, ← hpl, List.getElem?_append_right (Nat.le_succ _)]; simp
          have hv' : m.fields[lastIdx m]? = some kw := by
            rw [hm, he2, List.getElem?_append_right (Nat.le_succ _)]; simp
          rw [hf'] at hf; rw [hv'] at hv; cases hf; cases hv
          rcases hor with h | h <;> simp_all
  rw [h1, hl, hm]
  have : pre.length - 1 + 1 = pre.length := by omega
  simp [this]

/-! ## Never a panic -/

theorem C14_listToMsg_no_panic (t : Int) (vlist : List CVal) : (listToMsg t vlist).isPanic = false := by
  unfold listToMsg
  cases hn : newMessage t with
  | none => simp [Res.isPanic]
  | some m =>
    have hlen : m.fields.length = m.schema.fields.length := by
      rw [newMessage_eq] at hn
      split at hn
      · cases hn
      · split at hn
        · cases hn
        · cases hn; simp
    have := fill_no_panic m.schema.fields m.fields vlist.tail 1 hlen
    cases hr : fill 1 m.schema.fields m.fields vlist.tail <;> simp_all [Res.map, Res.isPanic]

theorem C14_fromList_no_panic (fmt : Format) (v : List CVal) : (fromList fmt v).isPanic = false := by
  unfold fromList
  cases v with
  | nil => simp [Res.isPanic]
  | cons v0 vs =>
    have : ∀ r, headType fmt v0 ≠ .panic r := by
      intro r; unfold headType; split <;> (try split) <;> simp
    cases hh : headType fmt v0 with
    | ok t => simpa [hh] using C14_listToMsg_no_panic t (v0 :: vs)
    | error e => simp [hh, Res.isPanic]
    | panic s => exact absurd hh (this s)

/-- `msgToList` never panics on a value Go's type system admits (`reflect.Value.Len` is only
    called on Dict/List fields because only those carry `omitempty`). -/
theorem C14_msgToList_no_panic (m : Msg) (h : WellTyped m) : (msgToList m).isPanic = false := by
  rw [(C14_trailing_omitted m h).1]; rfl

/-! ## Rejects -/

/-- What the code treats as a compatible item for a field: nil (skipped), anything Go can assign or
    is allowed to convert (`convertTo`: an integer or a float for an id or an int; a string — and,
    since the conversion is guarded, only a string — for a string/URI), and []byte for a List
    (copied element-wise by `assignSlice`). -/
def Compatible (k : GoKind) (v : CVal) : Bool :=
  v.isNull || (convertTo k v).isSome || (k == .sliceAny && match v with | .bin _ => true | _ => false)

def CompatibleAll : List FieldSchema → List CVal → Bool
  | f :: fs, it :: its => Compatible f.kind it && CompatibleAll fs its
  | _, _ => true     -- items beyond the last field are ignored; missing items leave fields untouched

private theorem assignField_ok_iff (i : Nat) (k : GoKind) (v : CVal) (hn : v.isNull = false) :
    (assignField i k v).isOk = Compatible k v := by
  cases k <;> cases v <;> simp [CVal.isNull] at hn <;>
    simp [assignField, convertTo, sameKind, Compatible, Res.isOk, CVal.isNull] <;>
    cases Gen.convertGuard <;> simp

private theorem fill_ok_iff : ∀ (fs : List FieldSchema) (zs its : List CVal) (i : Nat),
    zs.length = fs.length → (fill i fs zs its).isOk = CompatibleAll fs its
  | [], _, its, _, _ => by cases its <;> simp [fill, CompatibleAll, Res.isOk]
  | _ :: _, [], _, _, h => by simp at h
  | _ :: _, _ :: _, [], _, _ => by simp [fill, CompatibleAll, Res.isOk]
  | f :: fs, z :: zs, it :: its, i, h => by
      have ih := fill_ok_iff fs zs its (i + 1) (by simpa using h)
      unfold fill
      cases hn : it.isNull with
      | true =>
        simp [CompatibleAll, Compatible, hn, ← ih]
        cases fill (i + 1) fs zs its <;> simp [Res.map, Res.isOk]
      | false =>
        have ha := assignField_ok_iff i f.kind it hn
        simp only [CompatibleAll, ← ha, ← ih]
        cases hq : assignField i f.kind it with
        | ok v => cases fill (i + 1) fs zs its <;> simp [Res.map, Res.isOk]
        | error e => simp [Res.isOk]
        | panic s => simp [Res.isOk]

/-- **Rejects.** `Deserialize` (after the codec) yields a message exactly when the decoded list is
    non-empty, its head passes the format's integer check, the resulting code is handled by
    `NewMessage`, and every item facing a field is `Compatible` with it; in every other case it
    yields an error — never a panic (`C14_fromList_no_panic`), never a message. -/
theorem C14_rejects (fmt : Format) (v : List CVal) :
    (fromList fmt v).isOk =
      (match v with
       | [] => false
       | v0 :: items =>
         match headType fmt v0 with
         | .ok t => match newMessage t with
           | some m0 => CompatibleAll m0.schema.fields items
           | none => false
         | _ => false) := by
  cases v with
  | nil => simp [fromList, Res.isOk]
  | cons v0 items =>
    simp only [fromList]
    cases hh : headType fmt v0 with
    | error e => simp [Res.isOk]
    | panic s => simp [Res.isOk]
    | ok t =>
      simp only [listToMsg]
      cases hn : newMessage t with
      | none => simp [Res.isOk]
      | some m =>
        have hlen : m.fields.length = m.schema.fields.length := by
          rw [newMessage_eq] at hn
          split at hn
          · cases hn
          · split at hn
            · cases hn
            · cases hn; simp
        have := fill_ok_iff m.schema.fields m.fields items 1 hlen
        simp only [List.tail_cons]
        rw [← this]
        cases fill 1 m.schema.fields m.fields items <;> simp [Res.map, Res.isOk]

/-- The WAMP reading of "compatible field types": id ← non-negative integer, uri/string ← string,
    dict ← dict, list ← list, int ← integer; nil tolerated for dict/list. -/
def StrictCompatible : GoKind → CVal → Bool
  | .uint64, .int i => 0 ≤ i
  | .int, .int _ => true
  | .string, .str _ => true
  | .mapStringAny, .dict _ => true
  | .mapStringAny, .null => true
  | .sliceAny, .list _ => true
  | .sliceAny, .null => true
  | _, _ => false

def StrictAll : List FieldSchema → List CVal → Bool
  | f :: fs, it :: its => StrictCompatible f.kind it && StrictAll fs its
  | _, _ => true

/-- An item facing a string/URI field is a string (or nil, which leaves the field empty). -/
def StringStrict : GoKind → CVal → Bool
  | .string, .str _ => true
  | .string, .null => true
  | .string, _ => false
  | _, _ => true

def StringStrictAll : List FieldSchema → List CVal → Bool
  | f :: fs, it :: its => StringStrict f.kind it && StringStrictAll fs its
  | _, _ => true

private theorem compatible_stringStrict (hg : Gen.convertGuard = .stringFromStringOnly) :
    ∀ (fs : List FieldSchema) (its : List CVal), CompatibleAll fs its = true → StringStrictAll fs its = true
  | [], _, _ => by simp [StringStrictAll]
  | _ :: _, [], _ => by simp [StringStrictAll]
  | f :: fs, it :: its, h => by
      simp [CompatibleAll] at h
      have ih := compatible_stringStrict hg fs its h.2
      have h1 : StringStrict f.kind it = true := by
        have hc := h.1
        cases hk : f.kind <;> cases it <;>
          simp_all [Compatible, StringStrict, convertTo, CVal.isNull]
      simp [StringStrictAll, h1, ih]

/-- **String and URI fields accept only strings** (what the fix of C14-F1 established): whenever a
    list is accepted as a message, every item facing a `string`/`URI` field is a string (or nil).
    Depends on the regenerated fact `Gen.convertGuard = .stringFromStringOnly`: with the guard
    removed from listToMsg this no longer checks. -/
theorem C14_string_fields_strict (fmt : Format) (v0 : CVal) (items : List CVal) (m : Msg)
    (h : fromList fmt (v0 :: items) = .ok m) : StringStrictAll m.schema.fields items = true := by
  have hr := C14_rejects fmt (v0 :: items)
  rw [h] at hr
  simp only [Res.isOk] at hr
  -- unfold the characterisation
  cases hh : headType fmt v0 with
  | error e => simp [hh] at hr
  | panic s => simp [hh] at hr
  | ok t =>
    cases hn : newMessage t with
    | none => simp [hh, hn] at hr
    | some m0 =>
      simp [hh, hn] at hr
      have hm : m.schema = m0.schema := by
        simp [fromList, hh, listToMsg, hn] at h
        cases hf : fill 1 m0.schema.fields m0.fields items with
        | ok fs => simp [hf, Res.map] at h; rw [← h]
        | error e => simp [hf, Res.map] at h
        | panic s => simp [hf, Res.map] at h
      rw [hm]
      exact compatible_stringStrict (by decide) _ _ hr

/-- Full-strength statement: a message comes out only if every item is WAMP-compatible with its
    field. -/
def C14_rejects_strict : Prop :=
  ∀ (fmt : Format) (v0 : CVal) (items : List CVal) (m : Msg),
    fromList fmt (v0 :: items) = .ok m → StrictAll m.schema.fields items = true

/-- It is still false of the code as written (finding C14-F1b): `[33, 1.5, 2]` is accepted as
    SUBSCRIBED with request id 1 — Go converts the float 1.5 to the uint64 1 —, and `[33, -1, 2]`
    with request id 2^64-1.  Replayed on the implementation by the `codec` family. -/
theorem C14_rejects_strict_fails : ¬ C14_rejects_strict := by
  intro h
  have hacc : (match fromList .json [.int 33, .float 0x3FF8000000000000, .int 2] with
      | .ok m => m.schema.name == "Subscribed" && StrictAll m.schema.fields [.float 0x3FF8000000000000, .int 2] == false
      | _ => false) = true := by decide +kernel
  cases hr : fromList .json [.int 33, .float 0x3FF8000000000000, .int 2] with
  | error e => simp [hr] at hacc
  | panic s => simp [hr] at hacc
  | ok m =>
    have := h _ _ _ m hr
    simp [hr, this] at hacc

/-- The same with a negative integer in an id position. -/
theorem C14_negative_id_accepted :
    (match fromList .json [.int 33, .int (-1), .int 2] with
      | .ok m => m.schema.name == "Subscribed" && StrictAll m.schema.fields [.int (-1), .int 2] == false
      | _ => false) = true := by decide +kernel

/-- Finding C14-F1d: a `[]byte` is accepted for a List field (`assignSlice` copies it into a list of
    uint8): MessagePack `95 24 01 02 80 c4 03 01 02 03` is an EVENT with Arguments [1, 2, 3]. -/
theorem C14_bin_for_list_accepted :
    (match fromList .msgpack [.int 36, .int 1, .int 2, .dict [], .bin [1, 2, 3]] with
      | .ok m => m.schema.name == "Event"
      | _ => false) = true := by decide +kernel

/-- Full-strength statement about length: a message comes out only if the list has an item for
    every field that is not `omitempty`. -/
def C14_rejects_short : Prop :=
  ∀ (fmt : Format) (v0 : CVal) (items : List CVal) (m : Msg),
    fromList fmt (v0 :: items) = .ok m → (m.schema.fields.filter (fun f => !f.omitempty)).length ≤ items.length

/-- False of the code as written (finding C14-F1c): `[1]` is accepted as a HELLO with an empty
    realm and nil details; missing items leave the fields at their zero value. -/
theorem C14_rejects_short_fails : ¬ C14_rejects_short := by
  intro h
  have hacc : (match fromList .json [.int 1] with
      | .ok m => m.schema.name == "Hello" && (m.schema.fields.filter (fun f => !f.omitempty)).length == 2
      | _ => false) = true := by decide +kernel
  cases hr : fromList .json [.int 1] with
  | error e => simp [hr] at hacc
  | panic s => simp [hr] at hacc
  | ok m =>
    have := h _ _ _ m hr
    simp [hr] at hacc
    simp [hacc.2] at this

/-! ## Compatible field types in closed form (audit C14-b / d6) -/

/-- The (field kind × decoded value) pairs `listToMsg` lets through, read off
    /repo/transport/serialize/serializer.go without going through the model's `convertTo`:
    * nil item: `continue`, whatever the field (serializer.go:69-71);
    * `wamp.ID` (uint64) and `wamp.MessageType` (int): `uint64`/`int64` and `float64` are
      `ConvertibleTo` them, nothing else is (serializer.go:85-88; bool, string, []byte, []any and
      maps are neither convertible to an integer type nor of the same Kind, :91-94);
    * `string` / `wamp.URI`: a Go `string` only — integers and `[]byte` are `ConvertibleTo` string
      but the guard `f.Kind() != reflect.String || arg.Kind() == reflect.String` (:85-86) refuses
      them and their Kind differs (:91-94);
    * `wamp.Dict`: `map[string]any` is `AssignableTo` it (:78-81), every other value has another
      Kind (:91-94);
    * `wamp.List`: `[]any` is `AssignableTo` it (:78-81); `[]byte` is neither assignable nor
      convertible but has Kind Slice, and `assignSlice` copies it element-wise (:103-107, :163-174,
      `uint8` is assignable to `any`); everything else has another Kind. -/
def CompatibleTable : GoKind → CVal → Bool
  | _, .null => true
  | .uint64, .int _ => true
  | .uint64, .float _ => true
  | .int, .int _ => true
  | .int, .float _ => true
  | .string, .str _ => true
  | .mapStringAny, .dict _ => true
  | .sliceAny, .list _ => true
  | .sliceAny, .bin _ => true
  | _, _ => false

/-- `Compatible` — defined through the model's conversion function — is that table.  (Depends on
    the regenerated fact `Gen.convertGuard = .stringFromStringOnly`.) -/
theorem C14_compatible_table (k : GoKind) (v : CVal) : Compatible k v = CompatibleTable k v := by
  cases k <;> cases v <;> rfl

/-- **Closed form of "compatible field types", as coded** (audit b: `C14_rejects` spoke of
    `Compatible`, which is defined through `convertTo`; this says what it is).  An item is let
    through for a field exactly when it is nil; or the field is an id (`wamp.ID`) or an int
    (`wamp.MessageType`) and the item an integer or a float; or the field is a string/URI and the
    item a string; or the field is a Dict and the item a dict; or the field is a List and the item a
    list or a binary.  Rows checked against serializer.go:67-113, see `CompatibleTable`. -/
theorem C14_compatible_cases (k : GoKind) (v : CVal) :
    Compatible k v = true ↔
      v = .null
      ∨ ((k = .uint64 ∨ k = .int) ∧ ((∃ i, v = .int i) ∨ ∃ b, v = .float b))
      ∨ (k = .string ∧ ∃ s, v = .str s)
      ∨ (k = .mapStringAny ∧ ∃ d, v = .dict d)
      ∨ (k = .sliceAny ∧ ((∃ l, v = .list l) ∨ ∃ b, v = .bin b)) := by
  rw [C14_compatible_table]
  cases k <;> cases v <;> simp [CompatibleTable]

def CompatibleTableAll : List FieldSchema → List CVal → Bool
  | f :: fs, it :: its => CompatibleTable f.kind it && CompatibleTableAll fs its
  | _, _ => true     -- items beyond the last field are ignored; missing items leave fields untouched

private theorem compatibleAll_table : ∀ (fs : List FieldSchema) (its : List CVal),
    CompatibleAll fs its = CompatibleTableAll fs its
  | [], _ => by simp [CompatibleAll, CompatibleTableAll]
  | _ :: _, [] => by simp [CompatibleAll, CompatibleTableAll]
  | f :: fs, it :: its => by
      simp [CompatibleAll, CompatibleTableAll, C14_compatible_table, compatibleAll_table fs its]

/-- **Rejects, in closed form**: `C14_rejects` with the table in place of the model's conversion.
    `Deserialize` (after the codec) yields a message exactly when the list is non-empty, the head
    passes the format's integer check, `NewMessage` handles the code and every item facing a field
    is in `CompatibleTable` for that field's kind. -/
theorem C14_rejects_closed (fmt : Format) (v : List CVal) :
    (fromList fmt v).isOk =
      (match v with
       | [] => false
       | v0 :: items =>
         match headType fmt v0 with
         | .ok t => match newMessage t with
           | some m0 => CompatibleTableAll m0.schema.fields items
           | none => false
         | _ => false) := by
  rw [C14_rejects]
  cases v with
  | nil => rfl
  | cons v0 items =>
    simp only []
    cases headType fmt v0 with
    | ok t =>
      simp only []
      cases newMessage t with
      | none => rfl
      | some m0 => exact compatibleAll_table _ _
    | error e => rfl
    | panic s => rfl

/-! ## Further leniencies (audit C14-a5) -/

/-- Full-strength statement about length, upper side: a message comes out only of a list that has
    no more items than the message has fields. -/
def C14_rejects_long : Prop :=
  ∀ (fmt : Format) (v0 : CVal) (items : List CVal) (m : Msg),
    fromList fmt (v0 :: items) = .ok m → items.length ≤ m.schema.fields.length

/-- False of the code as written: the loop of `listToMsg` stops at `val.NumField()`
    (serializer.go:67), so `[33, 1, 2, "x", {}]` is a SUBSCRIBED; the two extra items are never
    looked at.  Replayed on the implementation (`[33,1,2,"extra",{"x":1}]` → Subscribed{1, 2}). -/
theorem C14_rejects_long_fails : ¬ C14_rejects_long := by
  intro h
  have hacc : (match fromList .json [.int 33, .int 1, .int 2, .str [0x78], .dict []] with
      | .ok m => m.schema.name == "Subscribed" && m.schema.fields.length == 2
      | _ => false) = true := by decide +kernel
  cases hr : fromList .json [.int 33, .int 1, .int 2, .str [0x78], .dict []] with
  | error e => simp [hr] at hacc
  | panic s => simp [hr] at hacc
  | ok m =>
    have := h _ _ _ m hr
    simp [hr] at hacc
    simp [hacc.2] at this

/-- In general: items beyond the last field never matter. -/
theorem C14_extra_items_ignored (fs : List FieldSchema) (its extra : List CVal) (h : fs.length ≤ its.length) :
    CompatibleAll fs (its ++ extra) = CompatibleAll fs its := by
  induction fs generalizing its with
  | nil => cases its <;> cases extra <;> simp [CompatibleAll]
  | cons f fs ih =>
    cases its with
    | nil => simp at h
    | cons it its => simp [CompatibleAll, ih its (by simpa using h)]

private theorem fill_extra : ∀ (fs : List FieldSchema) (zs its extra : List CVal) (i : Nat),
    fs.length ≤ its.length → fill i fs zs (its ++ extra) = fill i fs zs its
  | [], _, _, _, _, _ => by simp [fill]
  | _ :: _, [], _, _, _, _ => by simp [fill]
  | _ :: _, _ :: _, [], _, _, h => by simp at h
  | f :: fs, z :: zs, it :: its, extra, i, h => by
      have ih := fill_extra fs zs its extra (i + 1) (by simpa using h)
      simp only [List.cons_append, fill, ih]

private theorem structs_fields_le : ∀ s ∈ Gen.structs, s.fields.length ≤ 6 := by decide

/-- The same for the whole of `Deserialize` after the codec: no message has more than six fields,
    so whatever follows the sixth item after the code is never looked at — the outcome (message,
    error) is the same with and without it. -/
theorem C14_extra_items_ignored_msg (fmt : Format) (v0 : CVal) (its extra : List CVal) (h : 6 ≤ its.length) :
    fromList fmt (v0 :: (its ++ extra)) = fromList fmt (v0 :: its) := by
  simp only [fromList]
  cases hh : headType fmt v0 with
  | error e => rfl
  | panic s => rfl
  | ok t =>
    simp only [listToMsg]
    cases hn : newMessage t with
    | none => rfl
    | some m0 =>
      simp only [List.tail_cons]
      have hmem : m0.schema ∈ Gen.structs := by
        rw [newMessage_eq] at hn
        cases hc : newCase? t with
        | none => simp [hc] at hn
        | some c =>
          cases hs : structOf? c with
          | none => simp [hc, hs] at hn
          | some s =>
            simp [hc, hs] at hn
            subst hn
            exact List.mem_of_find?_eq_some hs
      rw [fill_extra _ _ _ _ _ (Nat.le_trans (structs_fields_le _ hmem) h)]

/-- `C14_extra_items_ignored_msg` applies to an EVENT list with all six items present plus two
    more. -/
example : fromList .json (.int 36 :: ([.int 1, .int 2, .dict [], .list [], .dict [], .null] ++ [.int 9, .int 9]))
    = fromList .json (.int 36 :: [.int 1, .int 2, .dict [], .list [], .dict [], .null]) :=
  C14_extra_items_ignored_msg .json (.int 36) [.int 1, .int 2, .dict [], .list [], .dict [], .null]
    [.int 9, .int 9] (by decide)

/-- nil is accepted for an id field (`continue` at serializer.go:69-71 precedes every type check):
    `[33, null, 2]` is a SUBSCRIBED with request id 0, although `StrictCompatible` (the WAMP
    reading) refuses nil for an id.  Replayed on the implementation.  The same holds for URI fields
    (`[32, 1, {}, null]` is a SUBSCRIBE with the empty topic). -/
theorem C14_nil_for_id_accepted :
    (match fromList .json [.int 33, .null, .int 2] with
      | .ok m => m.schema.name == "Subscribed" && StrictAll m.schema.fields [.null, .int 2] == false &&
          (match m.fields with | [.int 0, .int 2] => true | _ => false)
      | _ => false) = true
    ∧ (match fromList .json [.int 32, .int 1, .dict [], .null] with
      | .ok m => m.schema.name == "Subscribe" && StrictAll m.schema.fields [.int 1, .dict [], .null] == false &&
          (match m.fields with | [.int 1, .dict [], .str []] => true | _ => false)
      | _ => false) = true := by
  constructor <;> decide +kernel

/-! ## Layer b: wire formats -/

/-- **MessagePack round trip** for every value of the data model (integers in int64 ∪ uint64,
    float64 bit patterns, byte strings, binaries, lists and dicts of any nesting depth with fewer
    than 2^32 elements/bytes each): decoding the encoding, followed by any bytes, gives back the
    value and those bytes.  Dicts are encoded in list order and come back in that order. -/
theorem C14_msgpack_roundtrip (v : CVal) (rest : Bytes) (hv : validB MsgPack.maxLen v = true) :
    MsgPack.dec (MsgPack.enc v ++ rest) = .ok (v, rest) :=
  MsgPack.dec_enc v rest hv

/-- **CBOR round trip**, lengths below 2^64. -/
theorem C14_cbor_roundtrip (v : CVal) (rest : Bytes) (hv : validB CBOR.maxLen v = true) :
    CBOR.dec (CBOR.enc v ++ rest) = .ok (v, rest) :=
  CBOR.dec_enc v rest hv

/-- **The binary formats decode each other's meaning identically**: whatever MessagePack can
    carry, both formats decode back to the same value. -/
theorem C14_cross_format (v : CVal) (hv : validB MsgPack.maxLen v = true) :
    MsgPack.dec (MsgPack.enc v) = CBOR.dec (CBOR.enc v)
    ∧ MsgPack.dec (MsgPack.enc v) = .ok (v, []) := by
  have h1 := MsgPack.dec_enc v [] hv
  have h2 := CBOR.dec_enc v [] (validB_mono maxLen_le v hv)
  simp at h1 h2
  exact ⟨h1.trans h2.symm, h1⟩

/-- **JSON round trip** for the fragment null / bool / integer (int64 ∪ uint64) / string (any
    valid UTF-8 byte string — `Json.utf8OkB`, Go's `utf8.Valid`; the codec's escapes) / list / dict
    (keys valid UTF-8) of any nesting depth.  `rest` must not continue a
    number token (it is empty, or starts with anything but a digit + - . e E).  Floats and
    binaries are outside the fragment (see the header of Nexus/Codec/Json.lean); so are strings
    that are not valid UTF-8: the codec replaces each offending byte by U+FFFD
    (`C14_json_roundtrip_nonutf8_fails`). -/
theorem C14_json_roundtrip (v : CVal) (rest : Bytes) (hv : Json.okB v = true) (hr : Json.NumSafe rest) :
    Json.dec (Json.enc v ++ rest) = .ok (v, rest) :=
  Json.dec_enc v rest hv hr

/-- **The three formats decode each other's meaning identically** on the common fragment. -/
theorem C14_cross_format_json (v : CVal) (hj : Json.okB v = true) (hv : validB MsgPack.maxLen v = true) :
    Json.dec (Json.enc v) = .ok (v, [])
    ∧ MsgPack.dec (MsgPack.enc v) = .ok (v, [])
    ∧ CBOR.dec (CBOR.enc v) = .ok (v, []) := by
  have h0 := Json.dec_enc v [] hj Json.numSafe_nil
  have h1 := MsgPack.dec_enc v [] hv
  have h2 := CBOR.dec_enc v [] (validB_mono maxLen_le v hv)
  simp at h0 h1 h2
  exact ⟨h0, h1, h2⟩

/-- **Message round trip on the wire**: `Deserialize(Serialize(m)) = norm m` for the MessagePack,
    CBOR and JSON models, for every well-typed message of every type whose emitted list is encodable
    (JSON: payload within the fragment). -/
theorem C14_wire_roundtrip (m : Msg) (h : WellTyped m) :
    ∃ l, msgToList m = .ok l
      ∧ (validB MsgPack.maxLen (.list l) = true →
          Wire.deserialize .msgpack (MsgPack.enc (.list l)) = .ok (.ok (norm m)))
      ∧ (validB CBOR.maxLen (.list l) = true →
          Wire.deserialize .cbor (CBOR.enc (.list l)) = .ok (.ok (norm m)))
      ∧ (Json.okB (.list l) = true →
          Wire.deserialize .json (Json.enc (.list l)) = .ok (.ok (norm m))) := by
  obtain ⟨l, h1, _, h3⟩ := C14_list_roundtrip m h
  refine ⟨l, h1, fun hv => ?_, fun hv => ?_, fun hv => ?_⟩
  · have := MsgPack.dec_enc (.list l) [] hv
    simp only [List.append_nil] at this
    simp [Wire.deserialize, Wire.decode, this, h3]
  · have := CBOR.dec_enc (.list l) [] hv
    simp only [List.append_nil] at this
    simp [Wire.deserialize, Wire.decode, this, h3]
  · have := Json.dec_enc (.list l) [] hv Json.numSafe_nil
    simp only [List.append_nil] at this
    simp [Wire.deserialize, Wire.decode, this, h3]

/-- **Deserialising arbitrary bytes never panics**: whatever the codec hands over, the repo's code
    answers with a message or an error. -/
theorem C14_deserialize_no_panic (fmt : Format) (b : Bytes) (r : Res Msg)
    (h : Wire.deserialize fmt b = .ok r) : r.isPanic = false := by
  unfold Wire.deserialize at h
  split at h
  · cases h
  · cases h; exact C14_fromList_no_panic fmt _
  · split at h
    · cases h; rfl
    · cases h

/-- Every `Deserialize` goes through `decodeList` (regenerated from the three serializer files). -/
theorem C14_decodeList_everywhere (fmt : Format) : Wire.topDecodeOf fmt = .listChecked := by
  cases fmt <;> decide

/-- **An error for anything that is not a list** (what the fix of C14-F2 established): a message
    comes out only if the bytes decode to a list — a top-level map, scalar or nil is answered with
    "invalid message: not a list".  Depends on the regenerated fact that every `Deserialize` decodes
    through `decodeList`. -/
theorem C14_rejects_nonlist (fmt : Format) (b : Bytes) (m : Msg)
    (h : Wire.deserialize fmt b = .ok (.ok m)) : ∃ l rest, Wire.decode fmt b = .ok (.list l, rest) := by
  unfold Wire.deserialize at h
  split at h
  · cases h
  · rename_i l rest hd; exact ⟨l, rest, hd⟩
  · rw [C14_decodeList_everywhere] at h
    cases h

/-- A top-level map with string keys is "not a list" in every format (the non-string-key maps of the
    original witnesses are outside the value model; the family replays those on the implementation). -/
theorem C14_toplevel_map_rejected :
    let notList (r : DRes (Res Msg)) : Bool := match r with
      | .ok (.error .notAList) => true
      | _ => false
    notList (Wire.deserialize .msgpack [0x81, 0xa1, 0x61, 0x01]) = true
    ∧ notList (Wire.deserialize .cbor [0xa1, 0x61, 0x61, 0x01]) = true
    ∧ notList (Wire.deserialize .json [0x7b, 0x22, 0x61, 0x22, 0x3a, 0x31, 0x7d]) = true := by
  decide +kernel

/-! ## JSON strings and UTF-8 (audit C14-c1) -/

/-- **JSON round trip of the bytes the codec really writes.**  `Json.encReal` is `Json.enc` with
    the string writer of ugorji/go/codec v1.3.1 (`quoteStr`, json.go:399-470: `\uFFFD` for every
    byte that `utf8.DecodeRuneInString` rejects).  On the fragment `Json.okB` — which demands valid
    UTF-8 of every string and key — it equals `Json.enc` (`Json.encReal_eq_enc_of_okB`), hence
    round-trips.  Clause "deserialising the serialised form yields an equal message for JSON". -/
theorem C14_json_roundtrip_real (v : CVal) (rest : Bytes) (hv : Json.okB v = true) (hr : Json.NumSafe rest) :
    Json.encReal v = Json.enc v ∧ Json.dec (Json.encReal v ++ rest) = .ok (v, rest) :=
  ⟨Json.encReal_eq_enc_of_okB v hv, Json.dec_encReal v rest hv hr⟩

/-- The hypotheses of `C14_json_roundtrip_real` hold of a nested value with a two-byte, a
    three-byte and a four-byte character ("é", "€", U+1F600) and a non-ASCII key. -/
example : Json.okB (.list [.str [0xC3, 0xA9], .dict [([0xE2, 0x82, 0xAC], .str [0xF0, 0x9F, 0x98, 0x80])], .int (-5)]) = true
    ∧ Json.NumSafe [0x5d] := by
  refine ⟨by decide, ?_⟩
  intro b r h; cases h; decide

/-- **Message round trip through the codec's real JSON bytes**: the JSON branch of
    `C14_wire_roundtrip` with `Json.encReal` (what `JSONSerializer.Serialize` emits) in place of
    the model encoder. -/
theorem C14_wire_roundtrip_json_real (m : Msg) (h : WellTyped m) :
    ∃ l, msgToList m = .ok l
      ∧ (Json.okB (.list l) = true →
          Wire.deserialize .json (Json.encReal (.list l)) = .ok (.ok (norm m))) := by
  obtain ⟨l, h1, _, _, h4⟩ := C14_wire_roundtrip m h
  exact ⟨l, h1, fun hv => by rw [Json.encReal_eq_enc_of_okB _ hv]; exact h4 hv⟩

/-- The hypotheses are met by a PUBLISH to the topic "café" (63 61 66 C3 A9) with one argument. -/
example :
    let pub : Msg := { schema := (Gen.structs.filter (·.code == 16)).head!,
                       fields := [.int 1, .dict [], .str [0x63, 0x61, 0x66, 0xC3, 0xA9], .list [.int 7], .null] }
    WellTyped pub ∧ msgToList pub = .ok [.int 16, .int 1, .dict [], .str [0x63, 0x61, 0x66, 0xC3, 0xA9], .list [.int 7]]
      ∧ Json.okB (.list [.int 16, .int 1, .dict [], .str [0x63, 0x61, 0x66, 0xC3, 0xA9], .list [.int 7]]) = true := by
  exact ⟨⟨by decide, ⟨by decide, by decide⟩, trivial, trivial, trivial, trivial, trivial⟩, by rfl, by decide⟩

/-- Full-strength statement the property text suggests ("strings"): every Go string survives the
    codec's JSON. -/
def C14_json_roundtrip_anystring : Prop :=
  ∀ (s : Bytes), Json.dec (Json.encReal (.str s)) = .ok (.str s, [])

/-- It is false, of the model of the real codec and of the implementation alike (replayed:
    `JSONSerializer.SerializeDataItem("a\x80b")` = `"a\uFFFDb"`, which deserialises to
    "a\xef\xbf\xbdb"): the byte 0x80 is not valid UTF-8 and comes back as U+FFFD. -/
theorem C14_json_roundtrip_nonutf8_fails : ¬ C14_json_roundtrip_anystring := by
  intro h
  have h1 := h [0x61, 0x80, 0x62]
  rw [Json.dec_encReal_a80b] at h1
  injection h1 with h1
  injection h1 with h1 _
  injection h1 with h1
  exact absurd h1 (by decide)

/-- **What JSON hands back for an arbitrary Go string, and exactly which strings survive**: the
    real writer followed by the decoder yields `Json.sanitize s` — every byte that does not start
    a valid UTF-8 encoding replaced by U+FFFD, i.e. Go's `string([]rune(s))` —, and that is `s`
    itself iff `s` is valid UTF-8.  So the condition `Json.utf8OkB` in the fragment is necessary as
    well as sufficient (for strings; audit c1/d1 "or model the substitution"). -/
theorem C14_json_string_roundtrip_iff (s rest : Bytes) :
    Json.dec (Json.encReal (.str s) ++ rest) = .ok (.str (Json.sanitize s), rest)
    ∧ (Json.dec (Json.encReal (.str s)) = .ok (.str s, []) ↔ Json.utf8OkB s = true) :=
  ⟨Json.dec_encReal_str s rest, Json.dec_encReal_str_iff s⟩

/-- **The formats do not "decode each other's meaning identically" on such a string**: MessagePack
    and CBOR hand the Go string "a\x80b" back unchanged (the codec does not validate their
    strings), JSON hands back "a\uFFFDb".  A router relaying a msgpack client's PUBLISH to a JSON
    subscriber alters the string. -/
theorem C14_nonutf8_formats_disagree :
    MsgPack.dec (MsgPack.enc (.str [0x61, 0x80, 0x62])) = .ok (.str [0x61, 0x80, 0x62], [])
    ∧ CBOR.dec (CBOR.enc (.str [0x61, 0x80, 0x62])) = .ok (.str [0x61, 0x80, 0x62], [])
    ∧ Json.dec (Json.encReal (.str [0x61, 0x80, 0x62])) = .ok (.str [0x61, 0xEF, 0xBF, 0xBD, 0x62], []) := by
  refine ⟨?_, ?_, Json.dec_encReal_a80b⟩
  · simpa using MsgPack.dec_enc (.str [0x61, 0x80, 0x62]) [] (by decide)
  · simpa using CBOR.dec_enc (.str [0x61, 0x80, 0x62]) [] (by decide)

/-- The same at message level: PUBLISH [16, 1, {}, "a\x80b"] serialised by the real JSON writer
    deserialises to a PUBLISH whose Topic is "a\uFFFDb" (61 EF BF BD 62) — replayed on the
    implementation (`Serialize` gives `[16,1,{},"a\uFFFDb"]`). -/
theorem C14_wire_nonutf8_witness :
    (match Wire.deserialize .json (Json.encReal (.list [.int 16, .int 1, .dict [], .str [0x61, 0x80, 0x62]])) with
      | .ok (.ok m) => m.schema.name == "Publish" &&
          (match m.fields with
           | [.int 1, .dict [], .str s, .null, .null] => s == [0x61, 0xEF, 0xBF, 0xBD, 0x62]
           | _ => false)
      | _ => false) = true := by decide +kernel

/-! ## When `Deserialize` answers, and with what (audit C14-d8, a6) -/

/-- **Exactly when `Deserialize` gets past the codec, and what it then answers**: the model of
    `Deserialize` returns `r` (a message or one of the repo's errors) iff either the bytes decode to
    a list `l` (followed by anything) and `r` is what `fromList` makes of `l`, or they decode to a
    value that is not a list and `r` is the error "invalid message: not a list".  (Audit b: the
    theorem `C14_rejects_nonlist` did not say `r = fromList fmt l`.) -/
theorem C14_deserialize_ok_iff (fmt : Format) (b : Bytes) (r : Res Msg) :
    Wire.deserialize fmt b = .ok r ↔
      (∃ l rest, Wire.decode fmt b = .ok (.list l, rest) ∧ r = fromList fmt l)
      ∨ (∃ v rest, Wire.decode fmt b = .ok (v, rest) ∧ (∀ l, v ≠ .list l) ∧ r = .error .notAList) := by
  unfold Wire.deserialize
  rw [C14_decodeList_everywhere]
  cases hd : Wire.decode fmt b with
  | error e => simp
  | ok p =>
    obtain ⟨v, rest⟩ := p
    cases v <;> simp [eq_comm]

/-- The codec's verdict is passed on unchanged: `Deserialize` fails with the codec's error exactly
    when decoding the first value fails. -/
theorem C14_deserialize_error_iff (fmt : Format) (b : Bytes) (e : DErr) :
    Wire.deserialize fmt b = .error e ↔ Wire.decode fmt b = .error e := by
  unfold Wire.deserialize
  rw [C14_decodeList_everywhere]
  cases hd : Wire.decode fmt b with
  | error e' => simp
  | ok p =>
    obtain ⟨v, rest⟩ := p
    cases v <;> simp

/-- **A message comes out exactly when** the bytes decode to a list that `fromList` accepts, and it
    is that message. -/
theorem C14_deserialize_msg_iff (fmt : Format) (b : Bytes) (m : Msg) :
    Wire.deserialize fmt b = .ok (.ok m) ↔
      ∃ l rest, Wire.decode fmt b = .ok (.list l, rest) ∧ fromList fmt l = .ok m := by
  rw [C14_deserialize_ok_iff]
  constructor
  · rintro (⟨l, rest, hd, hr⟩ | ⟨_, _, _, _, hr⟩)
    · exact ⟨l, rest, hd, hr.symm⟩
    · cases hr
  · rintro ⟨l, rest, hd, hr⟩
    exact Or.inl ⟨l, rest, hd, hr.symm⟩

/-- The three statements are about something: `[33,1,2]` in JSON is a SUBSCRIBED, `{"a":1}` is
    "not a list", `[` is a codec error. -/
example :
    (∃ m, Wire.deserialize .json [0x5b, 0x33, 0x33, 0x2c, 0x31, 0x2c, 0x32, 0x5d] = .ok (.ok m))
    ∧ Wire.deserialize .json [0x7b, 0x22, 0x61, 0x22, 0x3a, 0x31, 0x7d] = .ok (.error .notAList)
    ∧ Wire.deserialize .json [0x5b] = .error .malformed := by
  refine ⟨?_, by rfl, by rfl⟩
  cases h : Wire.deserialize .json [0x5b, 0x33, 0x33, 0x2c, 0x31, 0x2c, 0x32, 0x5d] with
  | error e =>
    have : (match Wire.deserialize .json [0x5b, 0x33, 0x33, 0x2c, 0x31, 0x2c, 0x32, 0x5d] with
      | .ok (.ok _) => true | _ => false) = true := by decide +kernel
    simp [h] at this
  | ok r =>
    cases r with
    | ok m => exact ⟨m, rfl⟩
    | error e =>
      have : (match Wire.deserialize .json [0x5b, 0x33, 0x33, 0x2c, 0x31, 0x2c, 0x32, 0x5d] with
        | .ok (.ok _) => true | _ => false) = true := by decide +kernel
      simp [h] at this
    | panic s =>
      have : (match Wire.deserialize .json [0x5b, 0x33, 0x33, 0x2c, 0x31, 0x2c, 0x32, 0x5d] with
        | .ok (.ok _) => true | _ => false) = true := by decide +kernel
      simp [h] at this

private theorem structs_view_in_layout : ∀ s ∈ Gen.structs, viewOf s ∈ wireLayout := by decide

private theorem newCase_struct_code :
    ∀ c ∈ Gen.newMessage, ∀ s ∈ Gen.structs, structOf? c = some s → s.code = c.code := by decide

/-- What `NewMessage` allocates for `t` is one of the generated structs, and `t` is its code. -/
private theorem newMessage_known {t : Int} {m0 : Msg} (h : newMessage t = some m0) :
    m0.schema ∈ Gen.structs ∧ t = (m0.schema.code : Int) := by
  rw [newMessage_eq] at h
  cases hc : newCase? t with
  | none => simp [hc] at h
  | some c =>
    cases hs : structOf? c with
    | none => simp [hc, hs] at h
    | some s =>
      simp [hc, hs] at h
      subst h
      have hcm : c ∈ Gen.newMessage := List.mem_of_find?_eq_some hc
      have hct : ((c.code : Int) == t) = true := by
        have := List.find?_some hc
        simpa using this
      have hsm : s ∈ Gen.structs := List.mem_of_find?_eq_some hs
      have := newCase_struct_code c hcm s hsm hs
      refine ⟨hsm, ?_⟩
      simp only []
      rw [this]
      exact (eq_of_beq hct).symm

/-- The head the format's check lets through is literally the code, provided an integer head is
    one Go can hold (which the decoders guarantee, Nexus/Codec/WpDRange.lean; MessagePack's check
    does not convert and needs no such fact). -/
private theorem head_is_code {fmt : Format} {v0 : CVal} {code : Nat} (hc : code < 256)
    (h : headType fmt v0 = .ok (code : Int))
    (hr : fmt ≠ .msgpack → ∀ i, v0 = .int i → IntRange i) : v0 = .int code := by
  cases v0 with
  | int i =>
    cases fmt with
    | msgpack =>
      simp only [headType] at h
      split at h
      · cases h; rfl
      · cases h
    | json =>
      have hi := hr (by decide) i rfl
      simp only [headType] at h
      split at h
      · injection h with h
        unfold IntRange at hi
        unfold wrapI64 two63 two64 at h
        congr 1; omega
      · cases h
    | cbor =>
      have hi := hr (by decide) i rfl
      simp only [headType] at h
      split at h
      · injection h with h
        unfold IntRange at hi
        unfold wrapI64 two63 two64 at h
        congr 1; omega
      · cases h
  | _ => cases fmt <;> simp [headType] at h

/-- **Only a list starting with a known message code becomes a message — literally.**  Whenever
    `Deserialize` yields a message, the bytes decode to a list whose first item is the integer
    `e.code` itself for one of the 24 rows `e` of the WAMP wire layout, and the message is of that
    row's type (struct name, field names, types, omitempty flags: `viewOf m.schema = e`).
    Audit a6: `headType` converts the head with `wrapI64`, so at `CVal` level the integer 2^64+1
    would pass for HELLO; the decoders never produce such an integer
    (`Json.dec_list_head_range`, `CBOR.dec_list_head_range`: an integer head is within
    int64 ∪ uint64; MessagePack's check does not wrap), hence no wrap-around can occur. -/
theorem C14_accept_known_code (fmt : Format) (b : Bytes) (m : Msg)
    (h : Wire.deserialize fmt b = .ok (.ok m)) :
    ∃ e ∈ wireLayout, viewOf m.schema = e ∧
      ∃ items rest, Wire.decode fmt b = .ok (.list (.int e.code :: items), rest) := by
  obtain ⟨l, rest, hd, hf⟩ := (C14_deserialize_msg_iff fmt b m).mp h
  cases l with
  | nil => simp [fromList] at hf
  | cons v0 items =>
    cases hh : headType fmt v0 with
    | error e => simp [fromList, hh] at hf
    | panic s => simp [fromList, hh] at hf
    | ok t =>
      cases hn : newMessage t with
      | none => simp [fromList, hh, listToMsg, hn] at hf
      | some m0 =>
        have hm : m.schema = m0.schema := by
          simp [fromList, hh, listToMsg, hn] at hf
          cases hfl : fill 1 m0.schema.fields m0.fields items with
          | ok fs => simp [hfl, Res.map] at hf; rw [← hf]
          | error e => simp [hfl, Res.map] at hf
          | panic s => simp [hfl, Res.map] at hf
        obtain ⟨hmem, ht⟩ := newMessage_known hn
        obtain ⟨_, _, hcode⟩ := structs_facts _ hmem
        have hv0 : v0 = .int (m0.schema.code : Int) := by
          apply head_is_code hcode (by rw [← ht]; exact hh)
          intro hfmt i hi
          subst hi
          cases fmt with
          | msgpack => exact absurd rfl hfmt
          | json => exact Json.dec_list_head_range (l := items) (rest := rest) hd
          | cbor => exact CBOR.dec_list_head_range (l := items) (rest := rest) hd
        refine ⟨viewOf m0.schema, structs_view_in_layout _ hmem, by rw [hm], items, rest, ?_⟩
        rw [hd, hv0]
        rfl

/-- The hypothesis of `C14_accept_known_code` is met by the MessagePack bytes `93 21 01 02`
    (SUBSCRIBED [33, 1, 2]). -/
example : (match Wire.deserialize .msgpack [0x93, 0x21, 0x01, 0x02] with
    | .ok (.ok m) => m.schema.name == "Subscribed" | _ => false) = true := by decide +kernel

/-! ## JSON floats and binaries (audit C14-a2, a3, a1)

`Json.encO` / `Json.decO` (Nexus/Codec/WpDJsonO.lean) extend the JSON fragment by floats, through
an oracle `orc : Json.FloatOrc` for Go's decimal printing and parsing, and by `[]byte` (base64,
Nexus/Codec/WpDBase64.lean).  `orc.Faithful` is what the real `strconv` / ugorji functions are
assumed to satisfy; the codec family evaluates it on every float it generates (driver request
`jorc`) and compares the real serializer with the model under the sampled oracle (`jenc`, `jdec`).
`Json.toyOrc_faithful` shows the hypothesis is consistent. -/

/-- **JSON round trip of values containing floats** (no binaries), under the oracle hypotheses:
    every value of `okFB` — the old fragment plus every FINITE float that is not an integer with
    2^52 ≤ |f| < 2^64 — comes back as itself. -/
theorem C14_json_roundtrip_floats (orc : Json.FloatOrc) (hF : orc.Faithful) (v : CVal) (rest : Bytes)
    (hv : Json.okFB v = true) (hn : Json.noBinB v = true) (hr : Json.NumSafe rest) :
    Json.decO orc (Json.encO orc v ++ rest) = .ok (v, rest) := by
  rw [Json.decO_encO orc hF v rest hv hr, Json.binView_noBin v hn]

/-- The hypotheses of `C14_json_roundtrip_floats` are satisfiable by a non-trivial value:
    PUBLISH-like list with 0.5, -0.0, 1e300-ish bit patterns and 2^64 (an integer token again, but
    parsed as a float). -/
example : Json.toyOrc.Faithful ∧
    Json.okFB (.list [.int 16, .float 0x3FE0000000000000, .float 0x8000000000000000,
      .dict [([0x6b], .float 0x7E37E43C8800759C)], .float 0x43F0000000000000]) = true
    ∧ Json.noBinB (.list [.int 16, .float 0x3FE0000000000000, .float 0x8000000000000000,
      .dict [([0x6b], .float 0x7E37E43C8800759C)], .float 0x43F0000000000000]) = true
    ∧ Json.NumSafe [] :=
  ⟨Json.toyOrc_faithful, by decide, by decide, Json.numSafe_nil⟩

/-- Full-strength statement the property text suggests ("floats"): every float survives JSON. -/
def C14_json_roundtrip_anyfloat : Prop :=
  ∀ (orc : Json.FloatOrc), orc.Faithful → ∀ (b : UInt64),
    Json.decO orc (Json.encO orc (.float b)) = .ok (.float b, [])

/-- NaN and ±Inf are written `null` (ugorji json.go:203-207) and come back as nil — for any
    oracle.  Replayed: `SerializeDataItem(math.NaN())` = `null`. -/
theorem C14_json_float_nonfinite_null (orc : Json.FloatOrc) (b : UInt64) (hb : Json.isFinite b = false)
    (rest : Bytes) :
    Json.encO orc (.float b) = [0x6e, 0x75, 0x6c, 0x6c]
    ∧ Json.decO orc (Json.encO orc (.float b) ++ rest) = .ok (.null, rest) :=
  Json.decO_encO_nonFinite orc b hb rest

/-- An integral float with 2^52 ≤ |f| < 2^64 is printed without a decimal point and comes back
    as an INTEGER, or — negative beyond -2^63 — is refused by the decoder (replayed:
    2^53 → `9007199254740992` → uint64; -1e19 → `-10000000000000000000` → "strconv.ParseInt:
    invalid syntax"; known finding "JSON float in (-2^64,-2^63) does not round-trip"). -/
theorem C14_json_float_integral_lossy (orc : Json.FloatOrc) (hF : orc.Faithful) (b : UInt64)
    (hb : Json.isFinite b = true) (hl : Json.lossyIntegral b = true) (rest : Bytes) (hr : Json.NumSafe rest) :
    (∃ i, Json.decO orc (Json.encO orc (.float b) ++ rest) = .ok (.int i, rest))
      ∨ (∃ e, Json.decO orc (Json.encO orc (.float b) ++ rest) = .error e) :=
  Json.decO_encO_lossyIntegral orc hF b hb hl rest hr

/-- **Exactly which floats survive JSON** (under the oracle hypotheses): the finite ones that
    are not integers of magnitude in [2^52, 2^64). -/
theorem C14_json_float_roundtrip_iff (orc : Json.FloatOrc) (hF : orc.Faithful) (b : UInt64) :
    Json.decO orc (Json.encO orc (.float b)) = .ok (.float b, [])
      ↔ (Json.isFinite b = true ∧ Json.lossyIntegral b = false) := by
  constructor
  · intro h
    by_cases hb : Json.isFinite b = true
    · refine ⟨hb, ?_⟩
      by_cases hl : Json.lossyIntegral b = true
      · exfalso
        have := Json.decO_encO_lossyIntegral orc hF b hb hl [] Json.numSafe_nil
        simp only [List.append_nil] at this
        rcases this with ⟨i, hi⟩ | ⟨e, he⟩
        · rw [hi] at h; cases h
        · rw [he] at h; cases h
      · simpa using hl
    · exfalso
      have := (Json.decO_encO_nonFinite orc b (by simpa using hb) []).2
      simp only [List.append_nil] at this
      rw [this] at h; cases h
  · intro ⟨hb, hl⟩
    have := Json.decO_encO orc hF (.float b) [] (by simp [Json.okFB, hb, hl]) Json.numSafe_nil
    simpa [Json.binView] using this

/-- The full statement is false: NaN (0x7FF8000000000000) comes back as nil, 2^53
    (0x4340000000000000) as an integer.  Both replayed on the implementation. -/
theorem C14_json_roundtrip_floats_full_fails : ¬ C14_json_roundtrip_anyfloat := by
  intro h
  have h1 := (C14_json_float_roundtrip_iff Json.toyOrc Json.toyOrc_faithful 0x7FF8000000000000).mp
    (h _ Json.toyOrc_faithful _)
  exact absurd h1.1 (by decide)

/-- The second witness: an integral float at 2^53. -/
theorem C14_json_roundtrip_floats_full_fails_integral :
    ¬ (Json.decO Json.toyOrc (Json.encO Json.toyOrc (.float 0x4340000000000000)) = .ok (.float 0x4340000000000000, [])) := by
  intro h
  have h1 := (C14_json_float_roundtrip_iff Json.toyOrc Json.toyOrc_faithful 0x4340000000000000).mp h
  exact absurd h1.2 (by decide)

/-- **What a value containing binaries looks like after a JSON round trip**: `.bin b ↦ .str
    (base64 b)` (`Json.binView`), everything else unchanged.  A `[]byte` does not survive JSON as a
    `[]byte`; MessagePack and CBOR keep it (`C14_msgpack_roundtrip`, `C14_cbor_roundtrip`). -/
theorem C14_json_bin_view (orc : Json.FloatOrc) (hF : orc.Faithful) (v : CVal) (rest : Bytes)
    (hv : Json.okFB v = true) (hr : Json.NumSafe rest) :
    Json.decO orc (Json.encO orc v ++ rest) = .ok (Json.binView v, rest) :=
  Json.decO_encO orc hF v rest hv hr

example : Json.okFB (.list [.bin [1, 2, 3], .dict [([0x6b], .bin [])], .bin [0xfb, 0xff]]) = true
    ∧ Json.binView (.list [.bin [1, 2, 3], .dict [([0x6b], .bin [])], .bin [0xfb, 0xff]])
      = .list [.str [0x41, 0x51, 0x49, 0x44], .dict [([0x6b], .str [])], .str [0x2b, 0x2f, 0x38, 0x3d]] :=
  ⟨by decide, by rfl⟩

/-- Base64 itself round-trips (`encoding/base64.StdEncoding`, padding, non-strict decoder). -/
theorem C14_base64_roundtrip (b : Bytes) : B64.dec (B64.enc b) = some b := B64.dec_enc b

/-- `encO` is `enc` on the old fragment: the oracle-free theorems above are about the same bytes. -/
theorem C14_json_encO_extends (orc : Json.FloatOrc) (v : CVal) (hv : Json.okB v = true) :
    Json.encO orc v = Json.enc v := Json.encO_eq_enc_of_okB orc v hv

/-- **`BinaryData` round trip**: `UnmarshalJSON(MarshalJSON(b)) = b` for every byte string, and
    the wire form is `"\u0000` ++ base64 ++ `"` (the WAMP convention for binaries in JSON). -/
theorem C14_binaryData_roundtrip (b rest : Bytes) :
    Json.unmarshalBD (Json.marshalBD b ++ rest) = .ok b
    ∧ Json.marshalBD b = [0x22, 0x5c, 0x75, 0x30, 0x30, 0x30, 0x30] ++ B64.enc b ++ [0x22] :=
  ⟨Json.unmarshalBD_marshalBD b rest, Json.marshalBD_bytes b⟩

/-- **`BinaryData.UnmarshalJSON` never panics**, on any input (the code as it is now; the panic
    site of finding C14-F3). -/
theorem C14_unmarshalBD_no_panic (s : Bytes) : (Json.unmarshalBD s).isPanic = false :=
  Json.unmarshalBD_no_panic s

/-- Regression for C14-F3 (fixed in 80d0460): the pre-fix condition `s[0] != 0` panics exactly
    on the inputs that decode to the empty string, e.g. `""`; the present code answers an error
    there and agrees with the old one everywhere else. -/
theorem C14_unmarshalBD_prefix_regression :
    (∀ v, (Json.unmarshalBDPre v).isPanic = true ↔ Json.decStringTyped v = .ok [])
    ∧ (Json.unmarshalBDPre [0x22, 0x22]).isPanic = true ∧ Json.unmarshalBD [0x22, 0x22] = .error
    ∧ (∀ v, (Json.unmarshalBDPre v).isPanic = false → Json.unmarshalBD v = Json.unmarshalBDPre v) :=
  ⟨Json.unmarshalBDPre_panics_iff, Json.unmarshalBDPre_witness.1, Json.unmarshalBDPre_witness.2.2.2.1,
    Json.unmarshalBD_eq_pre⟩

/-! ## Non-vacuity -/

/-- An EVENT with nil Arguments and a non-empty ArgumentsKw is well-typed and keeps all six
    positions. -/
example :
    let ev : Msg := { schema := (Gen.structs.filter (·.code == 36)).head!,
                      fields := [.int 1, .int 2, .dict [], .null, .dict [([97], .int 1)]] }
    msgToList ev = .ok [.int 36, .int 1, .int 2, .dict [], .null, .dict [([97], .int 1)]] := by
  rfl

example :
    let ev : Msg := { schema := (Gen.structs.filter (·.code == 36)).head!,
                      fields := [.int 1, .int 2, .null, .list [], .dict []] }
    msgToList ev = .ok [.int 36, .int 1, .int 2, .null] := by
  rfl

end Nexus.C14
