/-
  C14 — Serializers round-trip every message and agree with each other.

  "For every WAMP message of every type whose payload consists of WAMP data-model values
  (integers up to 2^53, floats, strings, booleans, null, nested lists and dicts, binary where
  the format supports it), deserialising the serialised form yields an equal message for JSON,
  MessagePack and CBOR alike, and the three formats decode each other's meaning identically;
  trailing empty arguments are omitted while a keyword-arguments dict without positional
  arguments keeps its position. Deserialising arbitrary bytes never panics and yields an error,
  not a message, for anything that is not a list starting with a known message code and
  compatible field types."

  Layer a = the repo's own code (`msgToList`/`listToMsg`/head checks), modelled in
  `Nexus/Codec/Msg.lean` generically over the schema regenerated from wamp/message.go.
  Layer b = the wire formats (third-party codec): format models in `Nexus/Codec/{MsgPack,CBOR,
  Json}.lean`, tied to the real codec by the `codec` family.

  clause                                         theorem
  ---------------------------------------------  ------------------------------------------
  wire layout of the 24 message types            C14_layout, C14_newMessage_complete,
                                                 C14_inits
  list round trip, every type, every payload     C14_list_roundtrip (+ C14_norm_fields,
                                                 C14_norm_id: what `norm` changes)
  trailing empty arguments are omitted           C14_trailing_omitted, C14_both_empty_omitted
  kwargs without args keeps its position         C14_kwargs_keeps_position, C14_args_shape
  never panics                                   C14_msgToList_no_panic, C14_listToMsg_no_panic,
                                                 C14_fromList_no_panic, C14_deserialize_no_panic
  error unless known code + compatible fields    C14_rejects (exact accept/reject condition, as coded),
                                                 C14_string_fields_strict (string/URI fields take
                                                 only strings: holds since the fix of C14-F1);
                                                 full statements that are still false, with
                                                 witnesses replayed on the implementation:
                                                 C14_rejects_strict / C14_rejects_strict_fails,
                                                 C14_negative_id_accepted (C14-F1b: float or
                                                 negative number for an id), C14_bin_for_list_accepted
                                                 (C14-F1d), C14_rejects_short /
                                                 C14_rejects_short_fails (C14-F1c: short list)
  error for anything that is not a list          C14_rejects_nonlist (proved at full strength since
                                                 the fix of C14-F2), C14_decodeList_everywhere,
                                                 C14_toplevel_map_rejected
  value round trip per format, any depth         C14_msgpack_roundtrip, C14_cbor_roundtrip,
                                                 C14_json_roundtrip (fragment without floats
                                                 and binaries)
  the formats agree with each other              C14_cross_format, C14_cross_format_json
  message round trip through each format         C14_wire_roundtrip

  Not proved, sampled by the family: that ugorji/go/codec implements these formats (encoder
  bytes, decoder verdicts), float <-> decimal text in JSON, Go's reflect conversions.
-/
import Nexus.Codec.MsgLemmas
import Nexus.Codec.WireLemmas

namespace Nexus.C14

open Nexus.Gen Nexus.Codec

/-! ## Layout -/

/-- The WAMP wire layout (basic + advanced profile message definitions), written by hand:
    code, Go struct, then per element after the code: Go field name, Go field type, and whether
    the element may be left out when it and everything after it is empty.
    WAMP names: HELLO [1, Realm|uri, Details|dict]; WELCOME [2, Session|id, Details|dict];
    ABORT [3, Details|dict, Reason|uri]; CHALLENGE [4, AuthMethod|string, Extra|dict];
    AUTHENTICATE [5, Signature|string, Extra|dict]; GOODBYE [6, Details|dict, Reason|uri];
    ERROR [8, REQUEST.Type|int, REQUEST.Request|id, Details|dict, Error|uri, Arguments|list, ArgumentsKw|dict];
    PUBLISH [16, Request|id, Options|dict, Topic|uri, Arguments|list, ArgumentsKw|dict]; ... -/
structure LField where
  name : String
  goType : String
  optional : Bool
  deriving DecidableEq, Repr

structure LRow where
  code : Nat
  struct : String
  fields : List LField
  deriving DecidableEq, Repr

private def lf (n t : String) (o : Bool) : LField := ⟨n, t, o⟩

def wireLayout : List LRow := [
  ⟨1, "Hello", [lf "Realm" "URI" false, lf "Details" "Dict" false]⟩,
  ⟨2, "Welcome", [lf "ID" "ID" false, lf "Details" "Dict" false]⟩,
  ⟨3, "Abort", [lf "Details" "Dict" false, lf "Reason" "URI" false]⟩,
  ⟨4, "Challenge", [lf "AuthMethod" "string" false, lf "Extra" "Dict" false]⟩,
  ⟨5, "Authenticate", [lf "Signature" "string" false, lf "Extra" "Dict" false]⟩,
  ⟨6, "Goodbye", [lf "Details" "Dict" false, lf "Reason" "URI" false]⟩,
  ⟨8, "Error", [lf "Type" "MessageType" false, lf "Request" "ID" false, lf "Details" "Dict" false,
                        lf "Error" "URI" false, lf "Arguments" "List" true, lf "ArgumentsKw" "Dict" true]⟩,
  ⟨16, "Publish", [lf "Request" "ID" false, lf "Options" "Dict" false, lf "Topic" "URI" false,
                        lf "Arguments" "List" true, lf "ArgumentsKw" "Dict" true]⟩,
  ⟨17, "Published", [lf "Request" "ID" false, lf "Publication" "ID" false]⟩,
  ⟨32, "Subscribe", [lf "Request" "ID" false, lf "Options" "Dict" false, lf "Topic" "URI" false]⟩,
  ⟨33, "Subscribed", [lf "Request" "ID" false, lf "Subscription" "ID" false]⟩,
  ⟨34, "Unsubscribe", [lf "Request" "ID" false, lf "Subscription" "ID" false]⟩,
  ⟨35, "Unsubscribed", [lf "Request" "ID" false]⟩,
  ⟨36, "Event", [lf "Subscription" "ID" false, lf "Publication" "ID" false, lf "Details" "Dict" false,
                        lf "Arguments" "List" true, lf "ArgumentsKw" "Dict" true]⟩,
  ⟨48, "Call", [lf "Request" "ID" false, lf "Options" "Dict" false, lf "Procedure" "URI" false,
                        lf "Arguments" "List" true, lf "ArgumentsKw" "Dict" true]⟩,
  ⟨49, "Cancel", [lf "Request" "ID" false, lf "Options" "Dict" false]⟩,
  ⟨50, "Result", [lf "Request" "ID" false, lf "Details" "Dict" false,
                        lf "Arguments" "List" true, lf "ArgumentsKw" "Dict" true]⟩,
  ⟨64, "Register", [lf "Request" "ID" false, lf "Options" "Dict" false, lf "Procedure" "URI" false]⟩,
  ⟨65, "Registered", [lf "Request" "ID" false, lf "Registration" "ID" false]⟩,
  ⟨66, "Unregister", [lf "Request" "ID" false, lf "Registration" "ID" false]⟩,
  ⟨67, "Unregistered", [lf "Request" "ID" false]⟩,
  ⟨68, "Invocation", [lf "Request" "ID" false, lf "Registration" "ID" false, lf "Details" "Dict" false,
                        lf "Arguments" "List" true, lf "ArgumentsKw" "Dict" true]⟩,
  ⟨69, "Interrupt", [lf "Request" "ID" false, lf "Options" "Dict" false]⟩,
  ⟨70, "Yield", [lf "Request" "ID" false, lf "Options" "Dict" false,
                        lf "Arguments" "List" true, lf "ArgumentsKw" "Dict" true]⟩
]

/-- Underlying Go kinds the model relies on (`type ID uint64`, `type URI string`, ...). -/
def expectedKinds : List (String × GoKind) := [
  ("Dict", .mapStringAny), ("ID", .uint64), ("List", .sliceAny), ("MessageType", .int),
  ("URI", .string), ("string", .string)]

def viewOf (s : MsgSchema) : LRow :=
  ⟨s.code, s.name, s.fields.map fun f => ⟨f.name, f.goType, f.omitempty⟩⟩

/-- The field order, field types and omitempty tags extracted from wamp/message.go are the WAMP
    wire layout: each layout row is the (unique) generated struct with that code, there are no
    other structs, and the named types have the kinds the model assumes.  Removing an
    `omitempty` tag, reordering fields or changing a constant in message.go breaks this. -/
theorem C14_layout :
    (∀ e ∈ wireLayout, (Gen.structs.filter fun s => s.code == e.code).map viewOf = [e])
    ∧ Gen.structs.length = wireLayout.length
    ∧ Gen.namedKinds = expectedKinds
    ∧ (∀ s ∈ Gen.structs, ∀ f ∈ s.fields, Gen.namedKinds.lookup f.goType = some f.kind) := by
  decide

/-- `NewMessage` has exactly one case per message struct and it allocates that struct:
    `NewMessage(s.MessageType())` is a fresh `s`; no other code is handled. -/
theorem C14_newMessage_complete :
    (∀ s ∈ Gen.structs, (newCase? s.code).bind structOf? = some s)
    ∧ Gen.newMessage.map (·.code) = wireLayout.map (·.code) := by
  decide

/-- The only non-zero initial values are `Error{Type: t, Details: Dict{}}`. -/
theorem C14_inits :
    ∀ c ∈ Gen.newMessage, c.inits = [] ∨
      (c.struct = "Error" ∧ c.inits = [("Type", .code), ("Details", .emptyDict)]) := by
  decide

/-! ## Round trip at list level -/

/-- A message value as Go's type system admits it: a struct of wamp/message.go whose field
    values have the fields' static types (ID: 0 ≤ i < 2^64; MessageType: int64 range; URI/string:
    any byte string; Dict: nil or a map; List: nil or a slice; contents arbitrary). -/
def WellTyped (m : Msg) : Prop :=
  m.schema ∈ Gen.structs ∧ TypedFields m.schema.fields m.fields

def omitKindsOkB (fs : List FieldSchema) : Bool :=
  fs.all fun f => !f.omitempty || f.kind == .mapStringAny || f.kind == .sliceAny || f.kind == .string

private theorem structs_facts : ∀ s ∈ Gen.structs,
    s.fields ≠ [] ∧ omitKindsOkB s.fields = true ∧ s.code < 256 := by decide

private theorem omitKindsOk_of {fs : List FieldSchema} (h : omitKindsOkB fs = true) : OmitKindsOk fs := by
  intro f hf ho
  have := List.all_eq_true.mp h f hf
  cases hk : f.kind <;> simp [ho, hk] at this ⊢

private theorem newMessage_of_mem {s : MsgSchema} (hs : s ∈ Gen.structs) :
    newMessage s.code = some { schema := s, fields := initFields s } := by
  have h := C14_newMessage_complete.1 s hs
  rw [newMessage_eq]
  unfold initFields
  cases hc : newCase? (s.code : Int) with
  | none => simp [hc] at h
  | some c =>
    simp [hc] at h
    simp [h]

private theorem headType_code (fmt : Format) {n : Nat} (h : n < 256) : headType fmt (.int n) = .ok n := by
  have h1 : (n : Int) < two63 := by unfold two63; omega
  have h2 : wrapI64 (n : Int) = n := wrapI64_id (by unfold two63; omega) h1
  cases fmt <;> simp [headType, h1, h2]

/-- **List round trip.** For every well-typed message of every type, `msgToList` yields a list
    and `listToMsg` — directly, and behind each serializer's head check — maps that list to
    `norm m`.  `norm` is characterised by `C14_norm_fields` / `C14_norm_id`. -/
theorem C14_list_roundtrip (m : Msg) (h : WellTyped m) :
    ∃ l, msgToList m = .ok l
      ∧ listToMsg m.schema.code l = .ok (norm m)
      ∧ ∀ fmt, fromList fmt l = .ok (norm m) := by
  obtain ⟨hs, ht⟩ := h
  obtain ⟨hne, hok, hcode⟩ := structs_facts _ hs
  have hlen : m.schema.fields.length - 1 < m.schema.fields.length := by
    cases hf : m.schema.fields with
    | nil => exact absurd hf hne
    | cons _ _ => simp
  obtain ⟨last, hfl, _, _, _⟩ := findLast_spec _ _ ht (omitKindsOk_of hok) _ hlen
  have hlast : lastIdx m = last := by simp [lastIdx, hfl]
  have hm2l : msgToList m = .ok (.int m.schema.code :: m.fields.take (last + 1)) := by
    unfold msgToList
    cases hf : m.schema.fields.length with
    | zero => have := List.length_eq_zero_iff.mp hf; exact absurd this hne
    | succ n => simp [hf] at hfl; simp [hfl]
  have hl2m : listToMsg m.schema.code (.int m.schema.code :: m.fields.take (last + 1)) = .ok (norm m) := by
    unfold listToMsg
    rw [newMessage_of_mem hs]
    simp only [List.tail_cons]
    rw [fill_take _ _ _ _ _ ht (initFields_length _)]
    simp [Res.map, norm, hlast]
  refine ⟨_, hm2l, hl2m, fun fmt => ?_⟩
  simp [fromList, headType_code fmt hcode, hl2m]

/-- What `norm` does, field by field: position `i` keeps its value when it was emitted
    (`i ≤ lastIdx m`) and is not nil; otherwise it holds the initial value of `NewMessage`
    (nil/zero, except `Error.Details = Dict{}` and `Error.Type = ERROR`, see `C14_inits`). -/
theorem C14_norm_fields (m : Msg) (hl : m.fields.length = m.schema.fields.length) (i : Nat) (v z : CVal)
    (hv : m.fields[i]? = some v) (hz : (initFields m.schema)[i]? = some z) :
    (norm m).fields[i]? = some (if i ≤ lastIdx m ∧ v.isNull = false then v else z) := by
  have key : ∀ (k : Nat) (zs vs : List CVal) (i : Nat) (v z : CVal), zs.length = vs.length →
      vs[i]? = some v → zs[i]? = some z →
      (normAux k zs vs)[i]? = some (if i < k ∧ v.isNull = false then v else z) := by
    intro k zs
    induction zs generalizing k with
    | nil => intro vs i v z _ _ hz; simp at hz
    | cons z0 zs ih =>
      intro vs i v z hlen hv hz
      cases vs with
      | nil => simp at hv
      | cons v0 vs =>
        cases k with
        | zero => simp [normAux, hz]
        | succ k =>
          cases i with
          | zero =>
            simp at hv hz; subst hv; subst hz
            cases hn : v0.isNull <;> simp [normAux, hn]
          | succ i =>
            simp at hv hz hlen
            have := ih k vs i v z hlen hv hz
            simp [normAux, this]
  have := key (lastIdx m + 1) (initFields m.schema) m.fields i v z
    (by rw [initFields_length, hl]) hv hz
  simpa [norm, Nat.lt_succ_iff] using this

/-- Fields beyond `lastIdx` are exactly the trailing empty `omitempty` ones, and the loop stopped
    for a reason: field `lastIdx` is field 0, or not `omitempty`, or not empty. -/
theorem C14_trailing_omitted (m : Msg) (h : WellTyped m) :
    msgToList m = .ok (.int m.schema.code :: m.fields.take (lastIdx m + 1))
    ∧ (∀ i f v, lastIdx m < i → m.schema.fields[i]? = some f → m.fields[i]? = some v →
        f.omitempty = true ∧ emptyVal v = true)
    ∧ (lastIdx m = 0 ∨ ∃ f v, m.schema.fields[lastIdx m]? = some f ∧ m.fields[lastIdx m]? = some v ∧
        (f.omitempty = false ∨ emptyVal v = false)) := by
  obtain ⟨hs, ht⟩ := h
  obtain ⟨hne, hok, _⟩ := structs_facts _ hs
  have hlen : m.schema.fields.length - 1 < m.schema.fields.length := by
    cases hf : m.schema.fields with
    | nil => exact absurd hf hne
    | cons _ _ => simp
  obtain ⟨last, hfl, _, h3, h4⟩ := findLast_spec _ _ ht (omitKindsOk_of hok) _ hlen
  have hlast : lastIdx m = last := by simp [lastIdx, hfl]
  refine ⟨?_, ?_, ?_⟩
  · unfold msgToList
    cases hf : m.schema.fields.length with
    | zero => have := List.length_eq_zero_iff.mp hf; exact absurd this hne
    | succ n => simp [hf] at hfl; simp [hfl, hlast]
  · intro i f v hi hf hv
    rw [hlast] at hi
    have hile : i ≤ m.schema.fields.length - 1 := by
      have := (List.getElem?_eq_some_iff.mp hf).1; omega
    exact h3 i f v hi hile hf hv
  · rw [hlast]; exact h4

/-- `norm m = m` unless `m` has an emitted nil field with a non-nil initial value (only
    `Error.Details`) or a trailing empty `omitempty` field that is not already in its initial
    state (an empty non-nil `List{}`/`Dict{}`, which comes back as nil). -/
theorem C14_norm_id (m : Msg) (hl : m.fields.length = m.schema.fields.length)
    (hkeep : ∀ i v z, i ≤ lastIdx m → m.fields[i]? = some v → (initFields m.schema)[i]? = some z →
      v.isNull = true → v = z)
    (hdrop : ∀ i v z, lastIdx m < i → m.fields[i]? = some v → (initFields m.schema)[i]? = some z → v = z) :
    (norm m).fields = m.fields := by
  apply List.ext_getElem?
  intro i
  by_cases hi : i < m.fields.length
  · have hv : m.fields[i]? = some m.fields[i] := List.getElem?_eq_getElem hi
    have hi' : i < (initFields m.schema).length := by rw [initFields_length, ← hl]; exact hi
    have hz : (initFields m.schema)[i]? = some (initFields m.schema)[i] := List.getElem?_eq_getElem hi'
    rw [C14_norm_fields m hl i _ _ hv hz, hv]
    by_cases hle : i ≤ lastIdx m
    · cases hn : (m.fields[i]).isNull with
      | false => simp [hle]
      | true => simp; exact (hkeep i _ _ hle hv hz hn).symm
    · have : lastIdx m < i := by omega
      simp [hle]; exact (hdrop i _ _ this hv hz).symm
  · have h1 : m.fields[i]? = none := List.getElem?_eq_none (by omega)
    have h2 : (norm m).fields[i]? = none := by
      apply List.getElem?_eq_none
      have : (norm m).fields.length = m.fields.length := by
        have key : ∀ (k : Nat) (zs vs : List CVal), zs.length = vs.length → (normAux k zs vs).length = vs.length := by
          intro k zs
          induction zs generalizing k with
          | nil => intro vs h; cases vs <;> simp_all [normAux]
          | cons z zs ih =>
            intro vs h
            cases vs with
            | nil => simp at h
            | cons v vs =>
              cases k with
              | zero => simpa [normAux] using h
              | succ k => simp at h; simp [normAux, ih k vs h]
        exact key _ _ _ (by rw [initFields_length, hl])
      omega
    rw [h1, h2]

/-! ## Arguments / ArgumentsKw -/

/-- Every struct with an `ArgumentsKw` field ends in `Arguments List omitempty,
    ArgumentsKw Dict omitempty`, preceded only by non-omitempty fields (at least one). -/
def argsShape (s : MsgSchema) : Bool :=
  match s.fields.reverse with
  | kw :: ar :: pre =>
    kw.name == "ArgumentsKw" && kw.kind == .mapStringAny && kw.omitempty &&
    ar.name == "Arguments" && ar.kind == .sliceAny && ar.omitempty &&
    !pre.isEmpty && pre.all (fun f => !f.omitempty)
  | _ => false

theorem C14_args_shape :
    (∀ s ∈ Gen.structs, (s.fields.any fun f => f.name == "ArgumentsKw" || f.name == "Arguments" || f.omitempty)
        → argsShape s = true)
    ∧ (Gen.structs.filter argsShape).map (·.code) = [8, 16, 36, 48, 68, 70, 50] := by
  decide

private theorem argsShape_split {s : MsgSchema} (h : argsShape s = true) :
    ∃ pre ar kw, s.fields = pre ++ [ar, kw] ∧ pre ≠ [] ∧ (∀ f ∈ pre, f.omitempty = false) ∧
      ar.omitempty = true ∧ kw.omitempty = true ∧ ar.kind = .sliceAny ∧ kw.kind = .mapStringAny := by
  unfold argsShape at h
  split at h
  · rename_i kw ar pre hrev
    simp at h
    obtain ⟨⟨⟨⟨⟨⟨⟨_, hkk⟩, hko⟩, _⟩, hak⟩, hao⟩, hpne⟩, hall⟩ := h
    refine ⟨pre.reverse, ar, kw, ?_, ?_, ?_, hao, hko, hak, hkk⟩
    · have := congrArg List.reverse hrev; simpa using this
    · intro hp; simp at hp; exact hpne hp
    · intro f hf; simp at hf; exact hall f hf
  · simp at h

/-- **Kwargs keeps its position.** A well-typed message of a type with Arguments/ArgumentsKw whose
    ArgumentsKw is non-empty is emitted in full: every field including Arguments, whatever it is
    (nil — encoded as null —, empty or not). -/
theorem C14_kwargs_keeps_position (m : Msg) (h : WellTyped m)
    (pre : List CVal) (args : CVal) (kw : CDict) (hm : m.fields = pre ++ [args, .dict kw]) (hkw : kw ≠ []) :
    msgToList m = .ok (.int m.schema.code :: (pre ++ [args, .dict kw])) := by
  obtain ⟨h1, h2, h3⟩ := C14_trailing_omitted m h
  have hlen := h.2.length_eq
  have hl : lastIdx m = pre.length + 1 := by
    by_cases hlt : lastIdx m < pre.length + 1
    · have hv : m.fields[pre.length + 1]? = some (.dict kw) := by simp [hm]
      have hfl : pre.length + 1 < m.schema.fields.length := by rw [hlen, hm]; simp
      have := (h2 _ _ _ hlt (List.getElem?_eq_getElem hfl) hv).2
      cases kw with
      | nil => exact absurd rfl hkw
      | cons _ _ => simp [emptyVal] at this
    · rcases h3 with h0 | ⟨f, v, _, hv, _⟩
      · omega
      · have := (List.getElem?_eq_some_iff.mp hv).1
        rw [hm] at this; simp at this; omega
  rw [h1, hl, hm, List.take_of_length_le (by simp)]

/-- **Both empty: both omitted.** With Arguments and ArgumentsKw empty (nil or empty non-nil) the
    emitted list stops at the field before Arguments. -/
theorem C14_both_empty_omitted (m : Msg) (h : WellTyped m) (hs : argsShape m.schema = true)
    (pre : List CVal) (args kw : CVal) (hm : m.fields = pre ++ [args, kw])
    (ha : emptyVal args = true) (hk : emptyVal kw = true) :
    msgToList m = .ok (.int m.schema.code :: pre) := by
  obtain ⟨h1, h2, h3⟩ := C14_trailing_omitted m h
  obtain ⟨spre, ar, skw, hsf, hne, hpre, hao, hko, _, _⟩ := argsShape_split hs
  have hlen := h.2.length_eq
  have hpl : spre.length = pre.length := by
    rw [hsf, hm] at hlen; simp at hlen; exact hlen
  have hpos : 0 < pre.length := by
    rw [← hpl]; cases spre with
    | nil => exact absurd rfl hne
    | cons _ _ => simp
  have hl : lastIdx m = pre.length - 1 := by
    rcases h3 with h0 | ⟨f, v, hf, hv, hor⟩
    · -- last = 0: then field 1.. are omitempty; if pre.length > 1 field 1 is in pre, not omitempty
      by_cases h1' : pre.length = 1
      · omega
      · have hlt : 1 < spre.length := by omega
        have hf1 : m.schema.fields[1]? = some (spre[1]) := by
          rw [hsf, List.getElem?_append_left hlt]; exact List.getElem?_eq_getElem hlt
        have hv1 : m.fields[1]? = some (pre[1]'(by omega)) := by
          rw [hm, List.getElem?_append_left (by omega)]; exact List.getElem?_eq_getElem (by omega)
        have := (h2 1 _ _ (by omega) hf1 hv1).1
        rw [hpre _ (List.getElem_mem hlt)] at this
        cases this
    · by_cases hlt : lastIdx m < pre.length
      · -- inside pre: must be the last of pre, else the next one (in pre) would be omitempty
        by_cases hlast : lastIdx m = pre.length - 1
        · exact hlast
        · have hlt2 : lastIdx m + 1 < spre.length := by omega
          have hf1 : m.schema.fields[lastIdx m + 1]? = some (spre[lastIdx m + 1]) := by
            rw [hsf, List.getElem?_append_left hlt2]; exact List.getElem?_eq_getElem hlt2
          have hv1 : m.fields[lastIdx m + 1]? = some (pre[lastIdx m + 1]'(by omega)) := by
            rw [hm, List.getElem?_append_left (by omega)]; exact List.getElem?_eq_getElem (by omega)
          have := (h2 _ _ _ (Nat.lt_succ_self _) hf1 hv1).1
          rw [hpre _ (List.getElem_mem hlt2)] at this
          cases this
      · -- at Arguments or ArgumentsKw: both omitempty and empty, contradiction
        have hb := (List.getElem?_eq_some_iff.mp hv).1
        rw [hm] at hb; simp at hb
        by_cases he : lastIdx m = pre.length
        · have hf' : m.schema.fields[lastIdx m]? = some ar := by
            rw [hsf, he, ← hpl, List.getElem?_append_right (Nat.le_refl _)]; simp
          have hv' : m.fields[lastIdx m]? = some args := by
            rw [hm, he, List.getElem?_append_right (Nat.le_refl _)]; simp
          rw [hf'] at hf; rw [hv'] at hv; cases hf; cases hv
          rcases hor with h | h <;> simp_all
        · have he2 : lastIdx m = pre.length + 1 := by omega
          have hf' : m.schema.fields[lastIdx m]? = some skw := by
            rw [hsf, he2, ← hpl, List.getElem?_append_right (Nat.le_succ _)]; simp
          have hv' : m.fields[lastIdx m]? = some kw := by
            rw [hm, he2, List.getElem?_append_right (Nat.le_succ _)]; simp
          rw [hf'] at hf; rw [hv'] at hv; cases hf; cases hv
          rcases hor with h | h <;> simp_all
  rw [h1, hl, hm]
  have : pre.length - 1 + 1 = pre.length := by omega
  simp [this]

/-! ## Never a panic -/

theorem C14_listToMsg_no_panic (t : Int) (vlist : List CVal) : (listToMsg t vlist).isPanic = false := by
  unfold listToMsg
  cases hn : newMessage t with
  | none => simp [Res.isPanic]
  | some m =>
    have hlen : m.fields.length = m.schema.fields.length := by
      rw [newMessage_eq] at hn
      split at hn
      · cases hn
      · split at hn
        · cases hn
        · cases hn; simp
    have := fill_no_panic m.schema.fields m.fields vlist.tail 1 hlen
    cases hr : fill 1 m.schema.fields m.fields vlist.tail <;> simp_all [Res.map, Res.isPanic]

theorem C14_fromList_no_panic (fmt : Format) (v : List CVal) : (fromList fmt v).isPanic = false := by
  unfold fromList
  cases v with
  | nil => simp [Res.isPanic]
  | cons v0 vs =>
    have : ∀ r, headType fmt v0 ≠ .panic r := by
      intro r; unfold headType; split <;> (try split) <;> simp
    cases hh : headType fmt v0 with
    | ok t => simpa [hh] using C14_listToMsg_no_panic t (v0 :: vs)
    | error e => simp [hh, Res.isPanic]
    | panic s => exact absurd hh (this s)

/-- `msgToList` never panics on a value Go's type system admits (`reflect.Value.Len` is only
    called on Dict/List fields because only those carry `omitempty`). -/
theorem C14_msgToList_no_panic (m : Msg) (h : WellTyped m) : (msgToList m).isPanic = false := by
  rw [(C14_trailing_omitted m h).1]; rfl

/-! ## Rejects -/

/-- What the code treats as a compatible item for a field: nil (skipped), anything Go can assign or
    is allowed to convert (`convertTo`: an integer or a float for an id or an int; a string — and,
    since the conversion is guarded, only a string — for a string/URI), and []byte for a List
    (copied element-wise by `assignSlice`). -/
def Compatible (k : GoKind) (v : CVal) : Bool :=
  v.isNull || (convertTo k v).isSome || (k == .sliceAny && match v with | .bin _ => true | _ => false)

def CompatibleAll : List FieldSchema → List CVal → Bool
  | f :: fs, it :: its => Compatible f.kind it && CompatibleAll fs its
  | _, _ => true     -- items beyond the last field are ignored; missing items leave fields untouched

private theorem assignField_ok_iff (i : Nat) (k : GoKind) (v : CVal) (hn : v.isNull = false) :
    (assignField i k v).isOk = Compatible k v := by
  cases k <;> cases v <;> simp [CVal.isNull] at hn <;>
    simp [assignField, convertTo, sameKind, Compatible, Res.isOk, CVal.isNull] <;>
    cases Gen.convertGuard <;> simp

private theorem fill_ok_iff : ∀ (fs : List FieldSchema) (zs its : List CVal) (i : Nat),
    zs.length = fs.length → (fill i fs zs its).isOk = CompatibleAll fs its
  | [], _, its, _, _ => by cases its <;> simp [fill, CompatibleAll, Res.isOk]
  | _ :: _, [], _, _, h => by simp at h
  | _ :: _, _ :: _, [], _, _ => by simp [fill, CompatibleAll, Res.isOk]
  | f :: fs, z :: zs, it :: its, i, h => by
      have ih := fill_ok_iff fs zs its (i + 1) (by simpa using h)
      unfold fill
      cases hn : it.isNull with
      | true =>
        simp [CompatibleAll, Compatible, hn, ← ih]
        cases fill (i + 1) fs zs its <;> simp [Res.map, Res.isOk]
      | false =>
        have ha := assignField_ok_iff i f.kind it hn
        simp only [CompatibleAll, ← ha, ← ih]
        cases hq : assignField i f.kind it with
        | ok v => cases fill (i + 1) fs zs its <;> simp [Res.map, Res.isOk]
        | error e => simp [Res.isOk]
        | panic s => simp [Res.isOk]

/-- **Rejects.** `Deserialize` (after the codec) yields a message exactly when the decoded list is
    non-empty, its head passes the format's integer check, the resulting code is handled by
    `NewMessage`, and every item facing a field is `Compatible` with it; in every other case it
    yields an error — never a panic (`C14_fromList_no_panic`), never a message. -/
theorem C14_rejects (fmt : Format) (v : List CVal) :
    (fromList fmt v).isOk =
      (match v with
       | [] => false
       | v0 :: items =>
         match headType fmt v0 with
         | .ok t => match newMessage t with
           | some m0 => CompatibleAll m0.schema.fields items
           | none => false
         | _ => false) := by
  cases v with
  | nil => simp [fromList, Res.isOk]
  | cons v0 items =>
    simp only [fromList]
    cases hh : headType fmt v0 with
    | error e => simp [Res.isOk]
    | panic s => simp [Res.isOk]
    | ok t =>
      simp only [listToMsg]
      cases hn : newMessage t with
      | none => simp [Res.isOk]
      | some m =>
        have hlen : m.fields.length = m.schema.fields.length := by
          rw [newMessage_eq] at hn
          split at hn
          · cases hn
          · split at hn
            · cases hn
            · cases hn; simp
        have := fill_ok_iff m.schema.fields m.fields items 1 hlen
        simp only [List.tail_cons]
        rw [← this]
        cases fill 1 m.schema.fields m.fields items <;> simp [Res.map, Res.isOk]

/-- The WAMP reading of "compatible field types": id ← non-negative integer, uri/string ← string,
    dict ← dict, list ← list, int ← integer; nil tolerated for dict/list. -/
def StrictCompatible : GoKind → CVal → Bool
  | .uint64, .int i => 0 ≤ i
  | .int, .int _ => true
  | .string, .str _ => true
  | .mapStringAny, .dict _ => true
  | .mapStringAny, .null => true
  | .sliceAny, .list _ => true
  | .sliceAny, .null => true
  | _, _ => false

def StrictAll : List FieldSchema → List CVal → Bool
  | f :: fs, it :: its => StrictCompatible f.kind it && StrictAll fs its
  | _, _ => true

/-- An item facing a string/URI field is a string (or nil, which leaves the field empty). -/
def StringStrict : GoKind → CVal → Bool
  | .string, .str _ => true
  | .string, .null => true
  | .string, _ => false
  | _, _ => true

def StringStrictAll : List FieldSchema → List CVal → Bool
  | f :: fs, it :: its => StringStrict f.kind it && StringStrictAll fs its
  | _, _ => true

private theorem compatible_stringStrict (hg : Gen.convertGuard = .stringFromStringOnly) :
    ∀ (fs : List FieldSchema) (its : List CVal), CompatibleAll fs its = true → StringStrictAll fs its = true
  | [], _, _ => by simp [StringStrictAll]
  | _ :: _, [], _ => by simp [StringStrictAll]
  | f :: fs, it :: its, h => by
      simp [CompatibleAll] at h
      have ih := compatible_stringStrict hg fs its h.2
      have h1 : StringStrict f.kind it = true := by
        have hc := h.1
        cases hk : f.kind <;> cases it <;>
          simp_all [Compatible, StringStrict, convertTo, CVal.isNull]
      simp [StringStrictAll, h1, ih]

/-- **String and URI fields accept only strings** (what the fix of C14-F1 established): whenever a
    list is accepted as a message, every item facing a `string`/`URI` field is a string (or nil).
    Depends on the regenerated fact `Gen.convertGuard = .stringFromStringOnly`: with the guard
    removed from listToMsg this no longer checks. -/
theorem C14_string_fields_strict (fmt : Format) (v0 : CVal) (items : List CVal) (m : Msg)
    (h : fromList fmt (v0 :: items) = .ok m) : StringStrictAll m.schema.fields items = true := by
  have hr := C14_rejects fmt (v0 :: items)
  rw [h] at hr
  simp only [Res.isOk] at hr
  -- unfold the characterisation
  cases hh : headType fmt v0 with
  | error e => simp [hh] at hr
  | panic s => simp [hh] at hr
  | ok t =>
    cases hn : newMessage t with
    | none => simp [hh, hn] at hr
    | some m0 =>
      simp [hh, hn] at hr
      have hm : m.schema = m0.schema := by
        simp [fromList, hh, listToMsg, hn] at h
        cases hf : fill 1 m0.schema.fields m0.fields items with
        | ok fs => simp [hf, Res.map] at h; rw [← h]
        | error e => simp [hf, Res.map] at h
        | panic s => simp [hf, Res.map] at h
      rw [hm]
      exact compatible_stringStrict (by decide) _ _ hr

/-- Full-strength statement: a message comes out only if every item is WAMP-compatible with its
    field. -/
def C14_rejects_strict : Prop :=
  ∀ (fmt : Format) (v0 : CVal) (items : List CVal) (m : Msg),
    fromList fmt (v0 :: items) = .ok m → StrictAll m.schema.fields items = true

/-- It is still false of the code as written (finding C14-F1b): `[33, 1.5, 2]` is accepted as
    SUBSCRIBED with request id 1 — Go converts the float 1.5 to the uint64 1 —, and `[33, -1, 2]`
    with request id 2^64-1.  Replayed on the implementation by the `codec` family. -/
theorem C14_rejects_strict_fails : ¬ C14_rejects_strict := by
  intro h
  have hacc : (match fromList .json [.int 33, .float 0x3FF8000000000000, .int 2] with
      | .ok m => m.schema.name == "Subscribed" && StrictAll m.schema.fields [.float 0x3FF8000000000000, .int 2] == false
      | _ => false) = true := by decide +kernel
  cases hr : fromList .json [.int 33, .float 0x3FF8000000000000, .int 2] with
  | error e => simp [hr] at hacc
  | panic s => simp [hr] at hacc
  | ok m =>
    have := h _ _ _ m hr
    simp [hr, this] at hacc

/-- The same with a negative integer in an id position. -/
theorem C14_negative_id_accepted :
    (match fromList .json [.int 33, .int (-1), .int 2] with
      | .ok m => m.schema.name == "Subscribed" && StrictAll m.schema.fields [.int (-1), .int 2] == false
      | _ => false) = true := by decide +kernel

/-- Finding C14-F1d: a `[]byte` is accepted for a List field (`assignSlice` copies it into a list of
    uint8): MessagePack `95 24 01 02 80 c4 03 01 02 03` is an EVENT with Arguments [1, 2, 3]. -/
theorem C14_bin_for_list_accepted :
    (match fromList .msgpack [.int 36, .int 1, .int 2, .dict [], .bin [1, 2, 3]] with
      | .ok m => m.schema.name == "Event"
      | _ => false) = true := by decide +kernel

/-- Full-strength statement about length: a message comes out only if the list has an item for
    every field that is not `omitempty`. -/
def C14_rejects_short : Prop :=
  ∀ (fmt : Format) (v0 : CVal) (items : List CVal) (m : Msg),
    fromList fmt (v0 :: items) = .ok m → (m.schema.fields.filter (fun f => !f.omitempty)).length ≤ items.length

/-- False of the code as written (finding C14-F1c): `[1]` is accepted as a HELLO with an empty
    realm and nil details; missing items leave the fields at their zero value. -/
theorem C14_rejects_short_fails : ¬ C14_rejects_short := by
  intro h
  have hacc : (match fromList .json [.int 1] with
      | .ok m => m.schema.name == "Hello" && (m.schema.fields.filter (fun f => !f.omitempty)).length == 2
      | _ => false) = true := by decide +kernel
  cases hr : fromList .json [.int 1] with
  | error e => simp [hr] at hacc
  | panic s => simp [hr] at hacc
  | ok m =>
    have := h _ _ _ m hr
    simp [hr] at hacc
    simp [hacc.2] at this

/-! ## Layer b: wire formats -/

/-- **MessagePack round trip** for every value of the data model (integers in int64 ∪ uint64,
    float64 bit patterns, byte strings, binaries, lists and dicts of any nesting depth with fewer
    than 2^32 elements/bytes each): decoding the encoding, followed by any bytes, gives back the
    value and those bytes.  Dicts are encoded in list order and come back in that order. -/
theorem C14_msgpack_roundtrip (v : CVal) (rest : Bytes) (hv : validB MsgPack.maxLen v = true) :
    MsgPack.dec (MsgPack.enc v ++ rest) = .ok (v, rest) :=
  MsgPack.dec_enc v rest hv

/-- **CBOR round trip**, lengths below 2^64. -/
theorem C14_cbor_roundtrip (v : CVal) (rest : Bytes) (hv : validB CBOR.maxLen v = true) :
    CBOR.dec (CBOR.enc v ++ rest) = .ok (v, rest) :=
  CBOR.dec_enc v rest hv

/-- **The binary formats decode each other's meaning identically**: whatever MessagePack can
    carry, both formats decode back to the same value. -/
theorem C14_cross_format (v : CVal) (hv : validB MsgPack.maxLen v = true) :
    MsgPack.dec (MsgPack.enc v) = CBOR.dec (CBOR.enc v)
    ∧ MsgPack.dec (MsgPack.enc v) = .ok (v, []) := by
  have h1 := MsgPack.dec_enc v [] hv
  have h2 := CBOR.dec_enc v [] (validB_mono maxLen_le v hv)
  simp at h1 h2
  exact ⟨h1.trans h2.symm, h1⟩

/-- **JSON round trip** for the fragment null / bool / integer (int64 ∪ uint64) / string (any byte
    string; the codec's escapes) / list / dict of any nesting depth.  `rest` must not continue a
    number token (it is empty, or starts with anything but a digit + - . e E).  Floats and
    binaries are outside the fragment (see the header of Nexus/Codec/Json.lean). -/
theorem C14_json_roundtrip (v : CVal) (rest : Bytes) (hv : Json.okB v = true) (hr : Json.NumSafe rest) :
    Json.dec (Json.enc v ++ rest) = .ok (v, rest) :=
  Json.dec_enc v rest hv hr

/-- **The three formats decode each other's meaning identically** on the common fragment. -/
theorem C14_cross_format_json (v : CVal) (hj : Json.okB v = true) (hv : validB MsgPack.maxLen v = true) :
    Json.dec (Json.enc v) = .ok (v, [])
    ∧ MsgPack.dec (MsgPack.enc v) = .ok (v, [])
    ∧ CBOR.dec (CBOR.enc v) = .ok (v, []) := by
  have h0 := Json.dec_enc v [] hj Json.numSafe_nil
  have h1 := MsgPack.dec_enc v [] hv
  have h2 := CBOR.dec_enc v [] (validB_mono maxLen_le v hv)
  simp at h0 h1 h2
  exact ⟨h0, h1, h2⟩

/-- **Message round trip on the wire**: `Deserialize(Serialize(m)) = norm m` for the MessagePack,
    CBOR and JSON models, for every well-typed message of every type whose emitted list is encodable
    (JSON: payload within the fragment). -/
theorem C14_wire_roundtrip (m : Msg) (h : WellTyped m) :
    ∃ l, msgToList m = .ok l
      ∧ (validB MsgPack.maxLen (.list l) = true →
          Wire.deserialize .msgpack (MsgPack.enc (.list l)) = .ok (.ok (norm m)))
      ∧ (validB CBOR.maxLen (.list l) = true →
          Wire.deserialize .cbor (CBOR.enc (.list l)) = .ok (.ok (norm m)))
      ∧ (Json.okB (.list l) = true →
          Wire.deserialize .json (Json.enc (.list l)) = .ok (.ok (norm m))) := by
  obtain ⟨l, h1, _, h3⟩ := C14_list_roundtrip m h
  refine ⟨l, h1, fun hv => ?_, fun hv => ?_, fun hv => ?_⟩
  · have := MsgPack.dec_enc (.list l) [] hv
    simp only [List.append_nil] at this
    simp [Wire.deserialize, Wire.decode, this, h3]
  · have := CBOR.dec_enc (.list l) [] hv
    simp only [List.append_nil] at this
    simp [Wire.deserialize, Wire.decode, this, h3]
  · have := Json.dec_enc (.list l) [] hv Json.numSafe_nil
    simp only [List.append_nil] at this
    simp [Wire.deserialize, Wire.decode, this, h3]

/-- **Deserialising arbitrary bytes never panics**: whatever the codec hands over, the repo's code
    answers with a message or an error. -/
theorem C14_deserialize_no_panic (fmt : Format) (b : Bytes) (r : Res Msg)
    (h : Wire.deserialize fmt b = .ok r) : r.isPanic = false := by
  unfold Wire.deserialize at h
  split at h
  · cases h
  · cases h; exact C14_fromList_no_panic fmt _
  · split at h
    · cases h; rfl
    · cases h

/-- Every `Deserialize` goes through `decodeList` (regenerated from the three serializer files). -/
theorem C14_decodeList_everywhere (fmt : Format) : Wire.topDecodeOf fmt = .listChecked := by
  cases fmt <;> decide

/-- **An error for anything that is not a list** (what the fix of C14-F2 established): a message
    comes out only if the bytes decode to a list — a top-level map, scalar or nil is answered with
    "invalid message: not a list".  Depends on the regenerated fact that every `Deserialize` decodes
    through `decodeList`. -/
theorem C14_rejects_nonlist (fmt : Format) (b : Bytes) (m : Msg)
    (h : Wire.deserialize fmt b = .ok (.ok m)) : ∃ l rest, Wire.decode fmt b = .ok (.list l, rest) := by
  unfold Wire.deserialize at h
  split at h
  · cases h
  · rename_i l rest hd; exact ⟨l, rest, hd⟩
  · rw [C14_decodeList_everywhere] at h
    cases h

/-- A top-level map with string keys is "not a list" in every format (the non-string-key maps of the
    original witnesses are outside the value model; the family replays those on the implementation). -/
theorem C14_toplevel_map_rejected :
    let notList (r : DRes (Res Msg)) : Bool := match r with
      | .ok (.error .notAList) => true
      | _ => false
    notList (Wire.deserialize .msgpack [0x81, 0xa1, 0x61, 0x01]) = true
    ∧ notList (Wire.deserialize .cbor [0xa1, 0x61, 0x61, 0x01]) = true
    ∧ notList (Wire.deserialize .json [0x7b, 0x22, 0x61, 0x22, 0x3a, 0x31, 0x7d]) = true := by
  decide +kernel

/-! ## Non-vacuity -/

/-- An EVENT with nil Arguments and a non-empty ArgumentsKw is well-typed and keeps all six
    positions. -/
example :
    let ev : Msg := { schema := (Gen.structs.filter (·.code == 36)).head!,
                      fields := [.int 1, .int 2, .dict [], .null, .dict [([97], .int 1)]] }
    msgToList ev = .ok [.int 36, .int 1, .int 2, .dict [], .null, .dict [([97], .int 1)]] := by
  rfl

example :
    let ev : Msg := { schema := (Gen.structs.filter (·.code == 36)).head!,
                      fields := [.int 1, .int 2, .null, .list [], .dict []] }
    msgToList ev = .ok [.int 36, .int 1, .int 2, .null] := by
  rfl

end Nexus.C14
