/-
  C08 (history level) — the SUBSCRIBED … UNSUBSCRIBED bracket over WHOLE REALM HISTORIES.

  Property text (the clause proved here).  "A session sees SUBSCRIBED before the first EVENT and no
  EVENT after UNSUBSCRIBED for that subscription […] regardless of what any other sessions do at the
  same time."

  Nexus/Props/C08Realm.lean proves the bracket for the three broker-facing handlers only.  Here it is
  proved for EVERY history of `Realm.step` from a reachable realm: joins, departures (lost, killed,
  aborted, protocol violations, shutdown), meta events published through `metaPub` tasks, testaments,
  meta-procedure calls, all dealer traffic (calls, yields, timers, the yield retry loop), `flush`.

  Vocabulary (Nexus/L2/Proofs/WpETrace.lean, WpEShape.lean, WpEQueue.lean).
  `traceHist r ops : List Rec`  — the GHOST TRACE: the atomic actions the realm performs for the
      inputs `ops`, in order, each with the state it starts in (`x.pre`); `x.post` is the state it ends in.
      It is a function of `r` and `ops` (the unrolling of `Realm.step`: `drain`, `advance`, `flush`),
      and it chains from `r` to `runOps r ops` (`C08_hist_trace`).
  `x.script`       — what the action hands to the broker goroutine (`bsteps`), to the dealer goroutine
      (`dsteps`) and, in order, to `Realm.trySend` (`offers`), given explicitly per kind of action.
  `x.enqueued`     — the offers that `trySend` appends to a queue (recipient attached, queue not full):
      a sub-list of the offers.  The queue table changes in no other way (`C08_hist_trace`).

  clause                                                                theorem
  --------------------------------------------------------------------  ------------------------------------
  the ghost trace is faithful: it chains; an action other than `flush`
    extends the queue of every session k by exactly the enqueued
    offers addressed to k; `flush` only removes                          C08_hist_trace
  EVERY EVENT(i) OFFERED to a session k — a fortiori every one
    appended to its queue — is offered by an action at whose start AND
    end k is a member of subscription i                                  C08_hist_event_needs_membership
  … queue form: an action at whose start or end k is not a member of i
    adds no EVENT of i to the queue of k                                 C08_hist_no_event_for_nonmember
  the memberships of k change only in an action that hands the broker
    k's own SUBSCRIBE, UNSUBSCRIBE or departure                          C08_hist_membership_changes
  k's SUBSCRIBE action offers k SUBSCRIBED(req, id) FIRST, everything
    else it offers goes to other sessions, and it adds exactly the
    membership (k, id)                                                   C08_hist_subscribed_first
  k's UNSUBSCRIBE(i) action, k being a member of i: UNSUBSCRIBED(req)
    first, the rest to others, exactly the membership (k, i) ends;
    k not a member: one ERROR, nothing changes                           C08_hist_unsubscribed_last
  k's departure: k is a member of nothing and not attached afterwards
    (so nothing more is appended to its queue); what the action offers
    k is its handler's last message only                                 C08_hist_departure
  what k READS: every EVENT(i) in what a client reads at the end of a
    step was appended by an action of the history at whose start and
    end it was a member of i                                             C08_hist_read_event

  Together: between two actions that change k's membership in i (by the above: k's own SUBSCRIBE —
  which queues SUBSCRIBED(i) for k before anything that follows — and k's own UNSUBSCRIBE(i) / its
  departure — which queue UNSUBSCRIBED after everything before) the EVENTs of i queued for k are
  queued while k is a member; outside, none is.  The queues are lossy (a full queue drops the message,
  SUBSCRIBED included), hence the statement is about what is offered / appended, as the task says.

  No hypothesis beyond `Realm.Reachable cfg r`; the invariants used (`BrokerInv`, and that the GOODBYE
  of a pending kill is no EVENT: `WpE.KillOk`) are proved for every state of every ghost trace.
-/
import Nexus.L2.Proofs.WpEKinds
import Nexus.Props.C08Realm

namespace Nexus.C08
open Nexus.L2 Nexus.L2.Realm Nexus.L2.WpE Gen.N

/-- THE GHOST TRACE IS FAITHFUL.  For any realm state and inputs: the trace chains from `r` to the state after the
    inputs; every action but `flush` extends the queue of each session `k` by the enqueued offers addressed to `k`,
    which are a sub-list of its offers; `flush` leaves or shows the clients only queues that were there (or empty
    ones). -/
theorem C08_hist_trace (r : Realm) (ops : List Op) :
    Chain r (traceHist r ops) (runOps r ops) ∧
    (∀ x ∈ traceHist r ops, x.enqueued.Sublist x.script.offers) ∧
    (∀ x ∈ traceHist r ops, x.act.isFlush = false → ∀ k, x.post.queueOf k = x.pre.queueOf k ++ msgsTo k x.enqueued) ∧
    (∀ x ∈ traceHist r ops, x.act.isFlush = true →
      x.post = x.pre.flush.2 ∧ (∀ q ∈ x.post.queues, q ∈ x.pre.queues ∨ q.2 = []) ∧
      ∀ q ∈ x.pre.flush.1.out, q ∈ x.pre.queues) := by
  refine ⟨chain_hist ops r, fun x _ => taken_sublist _ _, fun x _ hf k => x.queueOf_post hf k, ?_⟩
  intro x _ hf
  have ha : x.act = .flush := by
    cases ha : x.act <;> rw [ha] at hf <;> first | rfl | cases hf
  have hp : x.post = x.pre.flush.2 := by unfold Rec.post; rw [ha]; rfl
  refine ⟨hp, ?_, (flush_entries x.pre).2⟩
  rw [hp]
  exact (flush_entries x.pre).1

/-- NO EVENT FOR A NON-MEMBER, over whole histories.  In every atomic action `x` of the history of any inputs `ops`
    from a reachable realm, every EVENT of subscription `i` that the action OFFERS to a session `s.to` (whether
    `trySend` appends it or finds the queue full) goes to a session that is a member of `i` in the broker state
    the action starts with and in the one it ends with. -/
theorem C08_hist_event_needs_membership {cfg : Config} {r : Realm} (h : Realm.Reachable cfg r) (ops : List Op) :
    ∀ x ∈ traceHist r ops, ∀ s ∈ x.script.offers, ∀ i pub d a kw, s.msg = .event i pub d a kw →
      x.pre.broker.isMember s.to i ∧ x.post.broker.isMember s.to i := by
  intro x hx s hs i pub d a kw hm
  exact hist_evOk h ops x hx s hs i (by rw [hm]; rfl)

theorem evPubOf_some {i : Nat} {m : Msg} {p : Nat} (h : evPubOf i m = some p) : m.eventSub? = some i := by
  unfold evPubOf at h
  split at h
  · split at h
    · rename_i e; rw [e]; rfl
    · cases h
  · cases h

/-- … in terms of the queues: an action (other than `flush`, which only removes) at whose start or end `k` is not
    a member of `i` leaves the EVENTs of `i` in the queue of `k` as they were. -/
theorem C08_hist_no_event_for_nonmember {cfg : Config} {r : Realm} (h : Realm.Reachable cfg r) (ops : List Op) :
    ∀ x ∈ traceHist r ops, x.act.isFlush = false → ∀ k i,
      ¬ (x.pre.broker.isMember k i ∧ x.post.broker.isMember k i) →
      eventsOf i (x.post.queueOf k) = eventsOf i (x.pre.queueOf k) := by
  intro x hx hf k i hn
  rw [x.queueOf_post hf k]
  unfold eventsOf
  rw [List.filterMap_append]
  have : (msgsTo k x.enqueued).filterMap (evPubOf i) = [] := by
    rw [List.filterMap_eq_nil_iff]
    intro m hm
    cases he : evPubOf i m with
    | none => rfl
    | some p =>
      exfalso
      unfold msgsTo at hm
      obtain ⟨s, hs, rfl⟩ := List.mem_map.mp hm
      obtain ⟨hs1, hs2⟩ := List.mem_filter.mp hs
      have hto : s.to = k := by simpa using hs2
      have := hist_evOk h ops x hx s (Rec.enqueued_offers hs1) i (evPubOf_some he)
      rw [hto] at this
      exact hn this
  rw [this, List.append_nil]

/-- WHO CHANGES A MEMBERSHIP.  If the membership of `k` in `i` differs between the start and the end of an action of
    the history, the action hands the broker goroutine a step whose actor is `k`: `k`'s own SUBSCRIBE or UNSUBSCRIBE,
    or the departure of `k`. -/
theorem C08_hist_membership_changes {cfg : Config} {r : Realm} (h : Realm.Reachable cfg r) (ops : List Op) :
    ∀ x ∈ traceHist r ops, ∀ k i, ¬ (x.post.broker.isMember k i ↔ x.pre.broker.isMember k i) →
      ∃ e ∈ x.script.bsteps, stepActor e = some k := by
  intro x hx k i hne
  apply Classical.byContradiction
  intro hno
  exact hne (x.member_change (hist_inv h ops x hx).1 k i (fun e he ha => hno ⟨e, he, ha⟩))

/-- SUBSCRIBED COMES FIRST.  If an action of the history hands the broker the SUBSCRIBE(req) of `k`, then what it
    offers is SUBSCRIBED(req, id) to `k` followed by messages for OTHER sessions only, and the memberships at its
    end are those at its start plus (k, id). -/
theorem C08_hist_subscribed_first {cfg : Config} {r : Realm} (h : Realm.Reachable cfg r) (ops : List Op) :
    ∀ x ∈ traceHist r ops, ∀ k req topic m p, BStep.subscribe k req topic m p ∈ x.script.bsteps →
      ∃ id rest, x.script.offers = ⟨k, .subscribed req id⟩ :: rest ∧ (∀ y ∈ rest, y.to ≠ k) ∧
        ∀ k' i, x.post.broker.isMember k' i ↔ x.pre.broker.isMember k' i ∨ (k' = k ∧ i = id) := by
  intro x hx k req topic m p hmem
  have hb := (hist_inv h ops x hx).1
  obtain ⟨hbs, _, hoff⟩ := x.subscribe_inv hmem
  obtain ⟨id, rest, h1, h2, h3⟩ := bsyncSubscribe_full hb k req topic m x.pre.pubCount
  refine ⟨id, rest, by rw [hoff]; exact h1, h2, ?_⟩
  intro k' i
  rw [x.spec.1, hbs]
  exact h3 k' i

/-- UNSUBSCRIBED COMES LAST.  If an action of the history hands the broker the UNSUBSCRIBE(req, i) of `k`:
    * `k` being a member of `i`: it offers UNSUBSCRIBED(req) to `k` followed by messages for OTHER sessions only, and
      the memberships at its end are those at its start minus (k, i) — by `C08_hist_event_needs_membership` no
      later action offers `k` an EVENT of `i` until `k` subscribes again;
    * otherwise it offers `k` the ERROR no_such_subscription and the broker is unchanged. -/
theorem C08_hist_unsubscribed_last {cfg : Config} {r : Realm} (h : Realm.Reachable cfg r) (ops : List Op) :
    ∀ x ∈ traceHist r ops, ∀ k req i p, BStep.unsubscribe k req i p ∈ x.script.bsteps →
      (x.pre.broker.isMember k i →
        ∃ rest, x.script.offers = ⟨k, .unsubscribed req⟩ :: rest ∧ (∀ y ∈ rest, y.to ≠ k) ∧
          ∀ k' j, x.post.broker.isMember k' j ↔ x.pre.broker.isMember k' j ∧ ¬ (k' = k ∧ j = i)) ∧
      (¬ x.pre.broker.isMember k i →
        x.script.offers = [⟨k, errMsg tUNSUBSCRIBE req ErrNoSuchSubscription⟩] ∧ x.post.broker = x.pre.broker) := by
  intro x hx k req i p hmem
  have hb := (hist_inv h ops x hx).1
  obtain ⟨hbs, _, hoff⟩ := x.unsubscribe_inv hmem
  constructor
  · intro hm
    obtain ⟨rest, h1, h2, _, h4⟩ := bsyncUnsubscribe_spec hb k req i x.pre.pubCount hm
    refine ⟨rest, by rw [hoff]; exact h1, fun y hy => (h2 y hy).1, ?_⟩
    intro k' j
    rw [x.spec.1, hbs]
    exact h4 k' j
  · intro hm
    have he := syncUnsubscribe_err_state x.pre.broker k req i x.pre.pubCount (by
      intro sb hf hk
      exact hm ⟨sb, (findId_some hf).1, (findId_some hf).2, hk⟩)
    refine ⟨by rw [hoff, he], ?_⟩
    rw [x.spec.1, hbs]
    show (x.pre.broker.syncUnsubscribe k req i x.pre.pubCount).1 = _
    rw [he]

theorem accepts_not_client {r : Realm} {s : Send} (h : ¬ r.isClient s.to) : accepts r s = false := by
  unfold accepts
  cases hc : r.client? s.to with
  | none => simp
  | some c => exact absurd ⟨c, (client?_mem hc).1, (client?_mem hc).2⟩ h

/-- A DEPARTURE ENDS EVERYTHING.  If an action of the history hands the broker the departure of `k` (any mode: lost,
    killed, aborted, violation, shutdown): at its end `k` is a member of no subscription and is not attached —
    so no later `trySend` to `k` appends anything (until a session joins under that key again) —, and nobody
    else's membership has changed. -/
theorem C08_hist_departure {cfg : Config} {r : Realm} (h : Realm.Reachable cfg r) (ops : List Op) :
    ∀ x ∈ traceHist r ops, ∀ k p, BStep.removeSession k p ∈ x.script.bsteps →
      (∀ i, ¬ x.post.broker.isMember k i) ∧ ¬ x.post.isClient k ∧ (∀ s : Send, s.to = k → accepts x.post s = false) ∧
      (∀ k' i, k' ≠ k → (x.post.broker.isMember k' i ↔ x.pre.broker.isMember k' i)) := by
  intro x hx k p hmem
  have hb := (hist_inv h ops x hx).1
  obtain ⟨mode, s, hl⟩ := x.leave_inv hmem
  obtain ⟨_, hpost, hbs⟩ := hl.script
  have hmemb : ∀ k' i, x.post.broker.isMember k' i ↔ x.pre.broker.isMember k' i ∧ k' ≠ k := by
    intro k' i
    rw [x.spec.1, hbs]
    exact syncRemoveSession_isMember hb k x.pre.pubCount k' i
  have hnc : ¬ x.post.isClient k := by
    rintro ⟨c, hc, hck⟩
    rw [hpost, leave_clients mode (r := { x.pre with tasks := x.pre.tasks.tail }) hl.2.2] at hc
    have := (List.mem_filter.mp hc).2
    simp [hck] at this
  refine ⟨fun i hm => ((hmemb k i).mp hm).2 rfl, hnc, ?_, ?_⟩
  · intro s' hs'
    exact accepts_not_client (by rw [hs']; exact hnc)
  · intro k' i hne
    rw [hmemb]
    exact ⟨fun hh => hh.1, fun hh => ⟨hh, hne⟩⟩

/-- WHAT A CLIENT READS.  Start from a fresh realm, run the inputs `ops`, then `op`: every EVENT of subscription `i`
    among the messages session `q.1` reads at the end of that step was appended to its queue by an atomic action of
    the history at whose start and end that session was a member of `i`. -/
theorem C08_hist_read_event {cfg : Config} {r0 : Realm} (h0 : Realm.create cfg = some r0) (ops : List Op) (op : Op) :
    ∀ q ∈ ((runOps r0 ops).step op).1.out, ∀ m ∈ q.2, ∀ i pub d a kw, m = .event i pub d a kw →
      ∃ x ∈ traceHist r0 (ops ++ [op]), (⟨q.1, m⟩ : Send) ∈ x.enqueued ∧
        x.pre.broker.isMember q.1 i ∧ x.post.broker.isMember q.1 i := by
  intro q hq m hm i pub d a kw he
  obtain ⟨x, hx, hs⟩ := read_src h0 ops op q hq m hm
  have := hist_evOk (Realm.Reachable.init h0) (ops ++ [op]) x hx ⟨q.1, m⟩ (Rec.enqueued_offers hs) i (by rw [he]; rfl)
  exact ⟨x, hx, hs, this⟩

/-! ### non-vacuity: a history in which an EVENT is appended, a subscription ends, and a session departs -/

/-- subscriber 1 and publisher 2 join; 1 subscribes to "t"; 2 publishes to "t"; 1 unsubscribes; 2 publishes again;
    1 is dropped -/
def exOps : List Op :=
  [ .join 1 false [] [] 8, .join 2 false [] [] 8,
    .msg 1 (.subscribe 1 [] "t"), .msg 2 (.publish 1 [] "t" [.int 7] []),
    .msg 1 (.unsubscribe 2 1), .msg 2 (.publish 2 [] "t" [.int 8] []), .drop 1 ]

def exR0 : Realm := (Realm.create {}).getD default

theorem exR0_create : Realm.create {} = some exR0 := by
  have : (Realm.create {}).isSome = true := by decide +kernel
  unfold exR0
  cases h : Realm.create {} with
  | none => rw [h] at this; cases this
  | some r => rfl

theorem exR0_reachable : Realm.Reachable {} exR0 := .init exR0_create

/-- the kind of a broker step -/
def stepTag : BStep → String
  | .publish .. => "publish"
  | .subscribe .. => "subscribe"
  | .unsubscribe .. => "unsubscribe"
  | .removeSession .. => "removeSession"

set_option maxRecDepth 100000 in
/-- the ghost trace of the example history has 18 atomic actions.  The ones that append something to a queue append, in
    order: SUBSCRIBED to session 1 (its SUBSCRIBE action), EVENT of subscription 1 to session 1 (the first
    publication), UNSUBSCRIBED to session 1 (its UNSUBSCRIBE action) — the second publication, made after the
    UNSUBSCRIBE, appends nothing.  The broker steps handed over are: the `on_join` meta publications of the two joins,
    the SUBSCRIBE of 1, a publication, the UNSUBSCRIBE of 1, a publication, the departure of 1 and its `on_leave` meta
    publication.  So the hypotheses of the theorems above — an EVENT offered; a SUBSCRIBE, an UNSUBSCRIBE, a
    departure step in a script; a membership that changes — are all met in one reachable history. -/
example :
    ((traceHist exR0 exOps).map (fun x => x.enqueued.map (fun s => (s.to, s.msg.typeCode, s.msg.eventSub?)))).filter
        (· ≠ []) = [[(1, 33, none)], [(1, 36, some 1)], [(1, 35, none)]] ∧
    (traceHist exR0 exOps).flatMap (fun x => x.script.bsteps.map (fun e => (stepTag e, stepActor e))) =
      [("publish", none), ("publish", none), ("subscribe", some 1), ("publish", none), ("unsubscribe", some 1),
       ("publish", none), ("removeSession", some 1), ("publish", none)] := by
  decide +kernel

set_option maxRecDepth 100000 in
/-- … and the hypotheses of `C08_hist_read_event`: at the end of the step for the fourth input (the first publication)
    session 1 reads one message, the EVENT of subscription 1 -/
example :
    ((runOps exR0 (exOps.take 3)).step (.msg 2 (.publish 1 [] "t" [.int 7] []))).1.out.map
      (fun q => (q.1, q.2.map (fun m => (m.typeCode, m.eventSub?)))) = [(1, [(36, some 1)])] := by
  decide +kernel

end Nexus.C08
