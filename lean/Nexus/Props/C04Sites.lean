/-
C04 — "No client input or timing can crash or wedge the router": the site-table half.
(Auxiliary check; the L2 `Outcome` theorems and the hostile family are the lead's.)

Every site in the non-test code of router/, transport/, wamp/ (with sub-packages) that can panic —
a bare (non-comma-ok) type assertion, an explicit `panic(…)`, an index or slice expression on
message data, a write to a map taken from message data, a `close(ch)`, a `Close()` on a peer or
session — is listed in Nexus/L3/Expect.lean with the reason why a client cannot make it fire.

clause → theorem
  table (a) accounted ............ sites_accounted, no_bare_assertions
  table (b) accounted ............ closes_accounted
  the context computation ........ closures_inventory
  no routing state is global ..... globals_inventory   (support for C11)
  the dispatch ................... inbound_switch, authz_gate_before_switch   (support for C10)
A new site anywhere in those trees makes `sites_accounted` / `closes_accounted` false (the build of this
module fails and `bin/check` reports the violation); a removed site is harmless. Sites that ARE
client-reachable are not accounted away: at present there is none (the last ones were F2, F3, F4, F10;
see known_findings.json). One entry deserves a remark: the `nil session or message` guards of broker
and dealer can be tripped by an *in-process* peer that sends a typed nil pointer such as
`(*wamp.Publish)(nil)`; no serializing transport can produce that value.
-/
import Nexus.L3.Expect
import Nexus.Gen.Sites
import Nexus.L3.WpL3Wait

namespace Nexus.C04Sites
open Nexus.Gen.Sites Nexus.L3 Nexus.L3.Expect

/-- Close sites that exist once more in a second goroutine context (the patched generator emits a
    site inside a closure held in a local variable once per context in which the variable is called;
    Nexus/L3/WpL3Wait.lean). -/
def accountedCloseSitesX : List (Nat × String) := [
  (key! "router.router.AttachClient|Close|client@posted router.actionChan",
    "the `client.Close()` of the sendAbort closure, executed inside the action AttachClient posts to the router goroutine (router closed, unknown realm, auto-creation failed): the action then sends the error on `sync` and AttachClient returns it without touching the peer again; no handler exists for the peer")]

def accountedPanicKeys : List Nat := accountedPanicSites.map (·.1)
def accountedCloseKeys : List Nat := (accountedCloseSites ++ accountedCloseSitesX).map (·.1)

/-- Every site of table (a) is of a kind that cannot panic (a map read) or is accounted for. -/
theorem sites_accounted :
    ∀ s ∈ panicSites, harmlessKind s.kind = true ∨ s.key ∈ accountedPanicKeys := by
  have h : panicSites.all (fun s => harmlessKind s.kind || memN s.key accountedPanicKeys) = true := by
    decide +kernel
  intro s hs
  have := forall_of_all h s hs
  simp only [Bool.or_eq_true] at this
  rcases this with h | h
  · exact Or.inl h
  · exact Or.inr (memN_iff.mp h)

/-- There is no bare type assertion at all in the three trees (every `x.(T)` is in comma-ok form or
    a type switch). -/
theorem no_bare_assertions : ∀ s ∈ panicSites, s.kind ≠ .assert := by
  have h : panicSites.all (fun s => !decide (s.kind = .assert)) = true := by decide +kernel
  intro s hs
  simpa using forall_of_all h s hs

/-- Every `close(ch)` and every `X.Close()` is accounted for (table (b) with the records of closures
    called in a second goroutine context, `WpL3.allCloseSites`). -/
theorem closes_accounted : ∀ c ∈ WpL3.allCloseSites, c.key ∈ accountedCloseKeys := by
  have h : WpL3.allCloseSites.all (fun c => memN c.key accountedCloseKeys) = true := by decide +kernel
  intro c hc
  exact memN_iff.mp (forall_of_all h c hc)

/-- The function literals are exactly the expected ones (the goroutine context that gen assigns to
    the sites inside a literal depends on how the literal is used). -/
theorem closures_inventory : closures.map (·.key) = expectedClosures := by decide +kernel

/-- The package-level variables of the three trees are exactly the expected ones, with the expected
    mutability: no table, id generator, session or realm is global. -/
theorem globals_inventory :
    globals.map (fun g => (g.key, g.written, g.addrTaken)) = expectedGlobals := by decide +kernel

/-- The dispatch of handleInboundMessages: case types in order and what each case calls. -/
theorem inbound_switch :
    inboundSwitch = [
      (key! "*wamp.Publish", key! "router.broker.publish"),
      (key! "*wamp.Yield", key! "router.dealer.yield"),
      (key! "*wamp.Call", key! "router.dealer.call"),
      (key! "*wamp.Cancel", key! "router.dealer.cancel"),
      (key! "*wamp.Subscribe", key! "router.broker.subscribe"),
      (key! "*wamp.Register", key! "router.dealer.register"),
      (key! "*wamp.Unsubscribe", key! "router.broker.unsubscribe"),
      (key! "*wamp.Unregister", key! "router.dealer.unregister"),
      (key! "*wamp.Error", key! "router.dealer.error"),
      (key! "*wamp.Goodbye", key! "return"),
      (key! "default", key! "return")] := by decide +kernel

/-- The authorization gate `if … !r.authzMessage(sess, msg) { continue }` is the statement right
    before the switch, with nothing in between. -/
theorem authz_gate_before_switch :
    authzGateIndex + 1 = inboundSwitchIndex ∧ betweenGateAndSwitch = [] ∧
    authzGateCond = key! "realm.authorizer != nil && sess != realm.metaSess && !realm.authzMessage(sess, msg)" := by
  decide +kernel

/-- Non-vacuity: an unlisted site is rejected. -/
example : ¬ ((key! "router.broker.publish|assert|msg.Options[\"x\"].(string)") ∈ accountedPanicKeys) := by
  intro h
  have := memN_iff.mpr h
  revert this
  decide +kernel

end Nexus.C04Sites
