/-
  C17 — "The client never crashes or hangs, whatever the router sends"

  Whatever messages arrive from the router side - any type in any order, unknown ids, any value
  types in details and arguments (including payload-passthru fields set by other, possibly
  hostile, clients), replies arriving exactly as a timeout or cancellation fires, abrupt
  disconnects - the client neither panics nor stops processing further messages, every pending
  and later API call returns (with an error where appropriate), Done() is signalled once the
  router says GOODBYE/ABORT or the transport ends, and Close() always returns, after which no
  goroutine or handler of the client remains.

  clause                                              theorem(s)
  --------------------------------------------------  ------------------------------------------
  never panics on any details/arguments (L1)          unpack_total_full (FALSE today, F15):
                                                        unpack_total_full_fails, unpack_total_partial,
                                                        unpack_panics_iff (exact guard),
                                                        unpack_total_checked (the fixed code)
  every bare assertion / unchecked index is known     sites_accounted, model_sites_in_table,
                                                        model_sites_reachable
  the receive loop never gets stuck (L3)              run_never_stuck_full (FALSE today, F16):
                                                        run_never_stuck_full_fails (two witnesses),
                                                        stuck_is_forever, run_never_stuck_partial
                                                        (exact guard), run_can_always_be_unblocked
  … nor in the invocation queue                       inv_queue_never_blocks_full (FALSE, F42):
                                                        inv_queue_never_blocks_full_fails,
                                                        inv_queue_blocked_until_handler_returns
  Close() always returns                              close_returns_full (FALSE, F16):
                                                        close_returns_full_fails, close_returns_partial
  … and never panics                                  close_never_panics_full (FALSE, F41):
                                                        close_never_panics_full_fails
  Done() signalled once, on GOODBYE/ABORT/transport   done_signalled, session_end_closes_done,
    end                                                 goodbye_abort_end_session

  The L3 theorems are about the transition systems `Nexus.Client.R` / `Nexus.Client.I`, whose
  events are the atomic steps of the client's goroutines (every schedule is an event sequence),
  instantiated with facts regenerated from client/*.go (`cfgToday`). Goroutine leaks are observed
  by the family, not proved.
-/
import Nexus.Client.PptLemmas
import Nexus.Client.RendezvousAll
import Nexus.Client.InvokeProps

namespace Nexus.C17
open Nexus.Client Nexus.Gen

/-! ## unpack_total -/

/-- Full strength: for ANY details / arguments / decoder behaviour, none of the five functions
    that touch router-supplied PPT data panics (instantiated with the regenerated fact
    `pptChecked`: does client code still contain a bare site in the unpack functions). -/
def unpack_total_full : Prop :=
  ∀ (deser : Deser) (details : Dict) (args : List Val) (kw : Dict) (dealerPPT : Bool),
    (unpackPPTPayload pptChecked deser details args).isPanic = false ∧
    (unpackE2EEPayload pptChecked deser details args).isPanic = false ∧
    (eventPpt pptChecked deser details args kw).isPanic = false ∧
    (invocationPpt pptChecked deser details args kw).isPanic = false ∧
    (prepareCallResult pptChecked deser dealerPPT details args kw).isPanic = false

/-- The regenerated site table still lists bare sites in the unpack functions. -/
theorem pptChecked_today : pptChecked = false := by decide

/-- F15 witness: an EVENT (to a subscription with a handler) whose details carry
    `ppt_scheme = "mqtt"` and which has no arguments. `runHandleEvent` → `unpackPPTPayload`
    → `args[0]` → index out of range, in the `run` goroutine: the process dies. -/
def f15Details : Dict := [(N.OptPPTScheme, .str "mqtt")]

theorem f15_event_panics (deser : Deser) :
    eventPpt false deser f15Details [] [] = .panic (siteText "unpackPPTPayload" "index" "args[0]") := by
  rfl

theorem unpack_total_full_fails : ¬ unpack_total_full := by
  intro h
  have := (h (fun _ _ => .err) f15Details [] [] true).2.2.1
  rw [pptChecked_today, f15_event_panics] at this
  exact absurd this (by decide)

/-- The exact guard: today's code panics on precisely the inputs outside `pptSafe` / `e2eeSafe`
    (`callerSafe` for the three callers). -/
theorem unpack_panics_iff (deser : Deser) (details : Dict) (args : List Val) (kw : Dict) :
    (unpackPPTPayload false deser details args).isPanic = !pptSafe deser details args ∧
    (unpackE2EEPayload false deser details args).isPanic = !e2eeSafe details args ∧
    (eventPpt false deser details args kw).isPanic = !callerSafe deser details args ∧
    (invocationPpt false deser details args kw).isPanic = !callerSafe deser details args ∧
    (prepareCallResult false deser true details args kw).isPanic = !callerSafe deser details args ∧
    (prepareCallResult false deser false details args kw).isPanic = false :=
  ⟨unpackPPT_panics_iff .., unpackE2EE_panics_iff .., eventPpt_panics_iff .., invocationPpt_panics_iff ..,
   prepareCallResult_panics_iff .., prepareCallResult_noPPT ..⟩

/-- Partial: under the guard nothing panics. -/
theorem unpack_total_partial (deser : Deser) (details : Dict) (args : List Val) (kw : Dict) (dealerPPT : Bool)
    (hp : pptSafe deser details args = true) (he : e2eeSafe details args = true)
    (hc : callerSafe deser details args = true) :
    (unpackPPTPayload pptChecked deser details args).isPanic = false ∧
    (unpackE2EEPayload pptChecked deser details args).isPanic = false ∧
    (eventPpt pptChecked deser details args kw).isPanic = false ∧
    (invocationPpt pptChecked deser details args kw).isPanic = false ∧
    (prepareCallResult pptChecked deser dealerPPT details args kw).isPanic = false := by
  rw [pptChecked_today]
  refine ⟨?_, ?_, ?_, ?_, ?_⟩
  · rw [unpackPPT_panics_iff, hp]; rfl
  · rw [unpackE2EE_panics_iff, he]; rfl
  · rw [eventPpt_panics_iff, hc]; rfl
  · rw [invocationPpt_panics_iff, hc]; rfl
  · cases dealerPPT
    · exact prepareCallResult_noPPT ..
    · rw [prepareCallResult_panics_iff, hc]; rfl

/-- Non-vacuity: a well-formed mqtt-scheme EVENT with a native payload meets all three guards. -/
example : pptSafe (fun _ _ => .err) [(N.OptPPTScheme, .str "mqtt")] [.payload false [.int 1] []] = true ∧
    callerSafe (fun _ _ => .err) [(N.OptPPTScheme, .str "mqtt")] [.payload false [.int 1] []] = true := by
  decide

example : e2eeSafe [(N.OptPPTScheme, .str "wamp"), (N.OptPPTSerializer, .str "cbor")] [.bin [0xa0]] = true := by
  decide

/-- The fixed code (every bare site checked) is total, for all inputs. -/
theorem unpack_total_checked (deser : Deser) (details : Dict) (args : List Val) (kw : Dict) (dealerPPT : Bool) :
    (unpackPPTPayload true deser details args).isPanic = false ∧
    (unpackE2EEPayload true deser details args).isPanic = false ∧
    (eventPpt true deser details args kw).isPanic = false ∧
    (invocationPpt true deser details args kw).isPanic = false ∧
    (prepareCallResult true deser dealerPPT details args kw).isPanic = false :=
  ⟨unpackPPT_checked .., unpackE2EE_checked .., eventPpt_checked .., invocationPpt_checked ..,
   prepareCallResult_checked ..⟩

/-! ## sites_accounted -/

/-- Every bare type assertion and every unchecked index in client/*.go (regenerated table) is in
    the hand-written account: modelled as a panic, unreachable, or application-supplied. -/
theorem sites_accounted : ∀ s ∈ Client.sites, siteAccounted s = true := by decide

/-- Conversely every panic the model can raise is a row of the regenerated table (or the nil
    dereference, which the syntactic extractor does not list). -/
theorem model_sites_in_table : ∀ p ∈ modelSites, modelSiteInTable p = true := by decide

/-- …and each is reachable: a concrete hostile input for every model site. -/
theorem model_sites_reachable :
    unpackPPTPayload false (fun _ _ => .err) [(N.OptPPTSerializer, .int 1)] [] =
      .panic (siteText "unpackPPTPayload" "assert" "pptSerializerStr.(string)") ∧
    unpackPPTPayload false (fun _ _ => .err) [] [] =
      .panic (siteText "unpackPPTPayload" "index" "args[0]") ∧
    unpackPPTPayload false (fun _ _ => .err) [(N.OptPPTSerializer, .str "json")] [.str "x"] =
      .panic (siteText "unpackPPTPayload" "assert" "args[0].([]byte)") ∧
    unpackPPTPayload false (fun _ _ => .err) [] [.dict []] =
      .panic (siteText "unpackPPTPayload" "assert" "args[0].(*wamp.PassthruPayload)") ∧
    unpackPPTPayload false (fun _ _ => .nil) [(N.OptPPTSerializer, .str "json")] [.bin [110, 117, 108, 108]] =
      .panic (siteText "unpackPPTPayload" "deref" nilDeref) ∧
    unpackE2EEPayload false (fun _ _ => .err) [] [.bin []] =
      .panic (siteText "unpackE2EEPayload" "assert" "details[wamp.OptPPTSerializer].(string)") ∧
    unpackE2EEPayload false (fun _ _ => .err) [(N.OptPPTSerializer, .str "cbor")] [] =
      .panic (siteText "unpackE2EEPayload" "index" "args[0]") ∧
    unpackE2EEPayload false (fun _ _ => .err) [(N.OptPPTSerializer, .str "cbor")] [.int 0] =
      .panic (siteText "unpackE2EEPayload" "assert" "args[0].([]byte)") := by
  refine ⟨?_, ?_, ?_, ?_, ?_, ?_, ?_, ?_⟩ <;> rfl

/-! ## run_never_stuck -/

open Nexus.Client.R in
/-- Full strength: in no reachable state of the rendezvous is the receive loop blocked for good. -/
def run_never_stuck_full : Prop :=
  ∀ evs st, R.steps R.cfgToday {} evs = some st → ¬ R.RunStuck R.cfgToday st

/-- F16, witness 1 (`Witness.f16`): SUBSCRIBE; the response timer fires; SUBSCRIBED arrives and
    `run` looks the waiter up before the waiter has deleted its entry; the waiter deletes the
    entry and returns ErrReplyTimeout; `run` stays in `w <- msg` for ever.
    Witness 2 (`Witness.f16dup`): the router answers one SUBSCRIBE twice; `run` hands over the
    first, looks up the second before the waiter has deleted its entry, and blocks. -/
theorem run_never_stuck_full_fails : ¬ run_never_stuck_full := by
  intro h
  obtain ⟨st, hst, hb⟩ := R.exists_of_map R.f16_runs
  exact h _ st hst (R.stuck_of_stuckB _ st hb)

theorem run_never_stuck_dup_witness :
    ∃ st, R.steps R.cfgToday {} Witness.f16dup = some st ∧ R.RunStuck R.cfgToday st := by
  obtain ⟨st, hst, hb⟩ := R.exists_of_map R.f16dup_runs
  exact ⟨st, hst, R.stuck_of_stuckB _ st hb⟩

/-- `RunStuck` really is "for good": no event of the loop is enabled, and whatever the other
    goroutines, timers, the router and Close do afterwards, it stays that way. -/
theorem stuck_is_forever (cfg : R.Cfg) (st : R.State) (hs : R.RunStuck cfg st) :
    (∀ ev, ev.isRun = true → R.step cfg st ev = none) ∧
    (∀ evs st', R.steps cfg st evs = some st' → R.RunStuck cfg st') :=
  ⟨fun ev he => R.stuck_no_run_step cfg st ev hs he, fun evs st' h => R.stuck_forever cfg st evs st' hs h⟩

/-- Partial, with the exact guard: along every event sequence in which (1) no response timer
    fires for a waiter the loop is already sending to and (2) the loop never takes a reply whose
    waiter has left its select but not yet deleted its entry (`R.racy`), the loop is never stuck. -/
theorem run_never_stuck_partial (cfg : R.Cfg) (evs : List R.Ev) (st : R.State)
    (h : R.stepsGuarded cfg {} evs = some st) : ¬ R.RunStuck cfg st :=
  R.never_stuck_guarded cfg evs st h

/-- Non-vacuity: an ordinary exchange (subscribe, reply, hand-over, return) passes the guard. -/
example : (R.stepsGuarded {} {} [.apiStart 1 .subscribe "t" false, .apiWait 1, .inject (.subscribed 1 5), .runRecv,
    .deliver, .finish 1]).map (fun st => (match (st.ws 1).phase with | .returned _ => true | _ => false)) =
    some true := by decide

/-- With the proposed fix (`signalEscapes`: the select in `runSignalReply` also watches a channel
    the waiter closes when it leaves) the loop is never stuck, whatever the schedule. -/
theorem run_never_stuck_fixed (cfg : R.Cfg) (hfix : cfg.signalEscapes = true) (st : R.State) :
    ¬ R.RunStuck cfg st := by
  rintro ⟨h, _⟩; rw [hfix] at h; cases h

/-- Whenever the loop is not stuck for good it can be brought back to its select by steps of the
    goroutines it waits for — so `RunStuck` is exactly "blocked for good". -/
theorem run_can_always_be_unblocked (st : R.State) (hr : R.Reachable R.cfgToday st)
    (hc : st.crashed = none) (hsc : st.sendClosed = false) (hns : ¬ R.RunStuck R.cfgToday st) :
    ∃ evs, (R.steps R.cfgToday st evs).map R.quietB = some true :=
  R.unblock_run R.cfgToday st (R.inv_reachable _ st hr) hc hsc R.today_no_escape hns

/-! ## the invocation queue -/

/-- Full strength: the loop is never blocked in `handlerQueue <- msg`. -/
def inv_queue_never_blocks_full : Prop :=
  ∀ evs st, I.steps {} {} evs = some st → st.pendingSend = none

/-- F42 (`Witness.dupInv`): three INVOCATIONs with one request id while the handler runs the
    first: the second fills the queue (capacity 1), the third blocks the loop. -/
theorem inv_queue_never_blocks_full_fails : ¬ inv_queue_never_blocks_full := by
  intro h
  cases hs : I.steps {} {} Witness.dupInv with
  | none => have := I.dupInv_blocks; rw [hs] at this; simp at this
  | some st =>
    have hb := I.dupInv_blocks
    rw [hs] at hb
    have := h _ st hs
    simp [this] at hb

/-- … and it stays blocked until the application's handler returns: an INTERRUPT that would end
    a handler waiting for its context is behind the blocked message and is never read. -/
theorem inv_queue_blocked_until_handler_returns (cfg : I.Cfg) (st : I.State) (ev : I.Ev) (st' : I.State)
    (w : Nat) (i j : I.Inv) (hp : st.pendingSend = some (w, i))
    (hfull : ¬ (st.ws w).queue.length < cfg.queueCap) (hrun : (st.ws w).inner = .running j)
    (hev : ∀ r d, ev ≠ .handlerReturn w r d) (h : I.step cfg st ev = some st') :
    st'.pendingSend = some (w, i) ∧ ¬ (st'.ws w).queue.length < cfg.queueCap ∧ (st'.ws w).inner = .running j :=
  I.queue_blocked_until_handler_returns cfg st ev st' w i j hp hfull hrun hev h

/-! ## close_returns -/

/-- Full strength: from every reachable state some continuation lets Close() return. -/
def close_returns_full : Prop :=
  ∀ evs st, R.steps R.cfgToday {} evs = some st → st.crashed = none →
    ∃ evs' st', R.steps R.cfgToday st evs' = some st' ∧ st'.close = .returned

/-- F16 again: after the wedge (witness above, which goes on to call Close: GOODBYE, the router's
    GOODBYE is never read, EndRecv, `<-c.Done()`) no continuation whatsoever lets Close return,
    and Done() is never signalled. -/
theorem close_returns_full_fails : ¬ close_returns_full := by
  intro h
  obtain ⟨st, hst, hb⟩ := R.exists_of_map R.f16_runs
  have hs := R.stuck_of_stuckB _ st hb
  have hcr : st.crashed = none := by
    have : (R.steps R.cfgToday {} Witness.f16).map (fun s => s.crashed.isNone) = some true := by decide
    rw [hst] at this
    simpa using this
  obtain ⟨evs', st', h1, h2⟩ := h _ st hst hcr
  exact (R.stuck_close_never_returns _ st ⟨_, hst⟩ hs evs' st' h1).2 h2

/-- Partial: from every reachable state in which the loop is not stuck for good, nothing crashed
    and the send side is still open, Close() can return (handlers return, workers finish). -/
theorem close_returns_partial (st : R.State) (hr : R.Reachable R.cfgToday st) (hc : st.crashed = none)
    (hsc : st.sendClosed = false) (hns : ¬ R.RunStuck R.cfgToday st) :
    ∃ evs st', R.steps R.cfgToday st evs = some st' ∧ st'.close = .returned ∧ st'.crashed = none :=
  R.close_can_return R.cfgToday st hr hc hsc R.today_no_escape hns

/-- Full strength: no API call or Close() ever panics, whatever the router sent before. -/
def close_never_panics_full : Prop :=
  ∀ cfg evs st, R.steps cfg {} evs = some st → st.crashed = none

/-- F41 (`Witness.pptAbort`): the router (which did not announce payload passthru) answers a CALL
    with a RESULT carrying `ppt_scheme`; Call sends ABORT and closes the session's send side;
    Close() then sends GOODBYE on the closed channel. -/
theorem close_never_panics_full_fails : ¬ close_never_panics_full := by
  intro h
  cases hs : R.steps Witness.pptAbortCfg {} Witness.pptAbort with
  | none => have := R.pptAbort_runs; rw [hs] at this; simp at this
  | some st =>
    have hb := R.pptAbort_runs
    rw [hs] at hb
    have := h _ _ st hs
    simp [this] at hb

/-! ## done_signalled -/

/-- Done() is closed exactly when the loop has exited, and exactly once. -/
theorem done_signalled (cfg : R.Cfg) (st : R.State) (hr : R.Reachable cfg st) :
    (st.done = true ↔ st.run = .exited) ∧ List.countP R.isDoneOut st.out = if st.done then 1 else 0 := by
  have hi := R.allInv_reachable cfg st hr
  exact ⟨hi.state.1, hi.doneOnce⟩

/-- When the loop (at its select) finds the transport closed, or a message whose case in
    `runReceiveFromRouter` returns true, at the head of its queue, taking it exits the loop and
    closes Done(). -/
theorem session_end_closes_done (cfg : R.Cfg) (st : R.State) (x : Option RMsg) (rest : List (Option RMsg))
    (hc : st.crashed = none) (hrun : st.run = .idle) (hin : st.inbox = x :: rest)
    (hx : R.endsSession x = true) :
    ∃ st', R.step cfg st .runRecv = some st' ∧ st'.done = true ∧ st'.run = .exited :=
  R.session_end_signals_done cfg st x rest hc hrun hin hx

/-- GOODBYE and ABORT are such messages (regenerated switch), the transport closing is one too. -/
theorem goodbye_abort_end_session (d : Dict) (reason : String) :
    R.endsSession (some (.goodbye d reason)) = true ∧ R.endsSession (some (.abort d reason)) = true ∧
    R.endsSession none = true := by
  refine ⟨?_, ?_, rfl⟩ <;> simp [R.endsSession, R.actionOf, RMsg.typeName, Client.recvSwitch]

end Nexus.C17
