/-
  C17 — "The client never crashes or hangs, whatever the router sends"

  Whatever messages arrive from the router side - any type in any order, unknown ids, any value
  types in details and arguments (including payload-passthru fields set by other, possibly
  hostile, clients), replies arriving exactly as a timeout or cancellation fires, abrupt
  disconnects - the client neither panics nor stops processing further messages, every pending
  and later API call returns (with an error where appropriate), Done() is signalled once the
  router says GOODBYE/ABORT or the transport ends, and Close() always returns, after which no
  goroutine or handler of the client remains.

  clause                                              theorem(s)
  --------------------------------------------------  ------------------------------------------
  never panics on any details/arguments (L1)          unpack_total (full strength since fix 652e15e);
                                                        regression: unpack_old_code_panics
  every bare assertion / unchecked index is known     sites_accounted, no_bare_site_left
  the receive loop never gets stuck handing over a    run_never_stuck (full strength since fix 710325f:
    reply (L3)                                          every schedule, duplicate replies included),
                                                        run_can_always_be_unblocked, stuck_is_forever;
                                                        regression: f16_witnesses_pass, f16_old_code_stuck
  … nor for good in the invocation queue              repeated_final_invocation_dropped, enqueue_escapes
                                                        (fix c166f26), regression: f42_witness_passes,
                                                        f42_old_code_blocks; BY DESIGN (an assumption,
                                                        not a finding) progressive chunks arriving faster
                                                        than the handler takes them make the loop wait:
                                                        inv_queue_never_blocks_full_fails,
                                                        inv_queue_blocks_only_open_invocation (partial),
                                                        inv_queue_wait_ends
  Close() always returns                              close_returns (full strength)
  only Close() closes the peer, once                  peer_closed_once (fix aee6f97); regression:
                                                        f41_witness_passes, f41_old_code_panics
  … and nothing panics                                STILL FALSE (open finding F43: a send concurrent
                                                        with Close): no_panic_full_fails (witness),
                                                        no_panic_partial (the only panic left is a send
                                                        on the channel Close() has closed), delimited
                                                        exactly by f43_exact (iff),
                                                        f43_every_send_after_close, f43_progressive_sender,
                                                        f43_blocked_sender
  Done() signalled once, on GOODBYE/ABORT/transport   done_signalled, session_end_closes_done,
    end                                                 goodbye_abort_end_session

  The L3 theorems are about the transition systems `Nexus.Client.R` / `Nexus.Client.I`, whose
  events are the atomic steps of the client's goroutines (every schedule is an event sequence),
  instantiated with facts regenerated from client/*.go (`R.cfgToday`, `({} : I.Cfg)`); reverting
  a fix changes a regenerated fact and breaks the corresponding proof. Goroutine leaks are
  observed by the family, not proved.
-/
import Nexus.Client.PptLemmas
import Nexus.Client.RendezvousAll
import Nexus.Client.InvokeProps
import Nexus.Client.ProgressiveProps

namespace Nexus.C17
open Nexus.Client Nexus.Gen

/-! ## unpack_total -/

/-- The regenerated site table lists no bare assertion / unguarded index in the PPT code, and the
    decoded payload pointer is nil-checked. -/
theorem no_bare_site_left : PptFacts.gen.clean := gen_clean

/-- Full strength: for ANY details / arguments / decoder behaviour, none of the five functions that
    touch router-supplied PPT data panics. -/
theorem unpack_total (deser : Deser) (details : Dict) (args : List Val) (kw : Dict) (dealerPPT : Bool) :
    (unpackPPTPayload PptFacts.gen deser details args).isPanic = false ∧
    (unpackE2EEPayload PptFacts.gen deser details args).isPanic = false ∧
    (eventPpt PptFacts.gen deser details args kw).isPanic = false ∧
    (invocationPpt PptFacts.gen deser details args kw).isPanic = false ∧
    (prepareCallResult PptFacts.gen deser dealerPPT details args kw).isPanic = false :=
  ⟨unpackPPT_clean gen_clean .., unpackE2EE_clean gen_clean .., eventPpt_clean gen_clean ..,
   invocationPpt_clean gen_clean .., prepareCallResult_clean gen_clean ..⟩

/-- Non-vacuity / what the fixed code answers on the former crash inputs: an error, no panic. -/
example : (match eventPpt PptFacts.gen (fun _ _ => .err) [(N.OptPPTScheme, .str "mqtt")] [] [] with
    | .ok (.dropped .serialization) => true
    | _ => false) = true := by decide

/-- Regression witness (F15): with the site table of the code before the fix (every site bare,
    no nil check) the same EVENT — `ppt_scheme = "mqtt"`, no arguments — panics in `args[0]`. -/
theorem unpack_old_code_panics (deser : Deser) :
    eventPpt PptFacts.allBare deser [(N.OptPPTScheme, .str "mqtt")] [] [] =
      .panic (siteText "unpackPPTPayload" "index" "args[0]") := by rfl

/-! ## sites_accounted -/

/-- Every bare type assertion and every unchecked index in client/*.go (regenerated table) is in
    the hand-written account: guarded by a length check, bounded by a range loop, or
    application-supplied. A new bare site breaks this theorem. -/
theorem sites_accounted : ∀ s ∈ Client.sites, siteAccounted s = true := by decide

/-! ## run_never_stuck -/

/-- Full strength: in no reachable state of the rendezvous — whatever the schedule, whatever the
    router sent (duplicate replies, replies at the instant a timer fires) — is the receive loop
    blocked for good in `runSignalReply`. -/
theorem run_never_stuck (evs : List R.Ev) (st : R.State) (_h : R.steps R.cfgToday {} evs = some st) :
    ¬ R.RunStuck R.cfgToday st := by
  rintro ⟨h, _⟩
  rw [R.today_escapes] at h
  cases h

/-- … and that is not a matter of definition: from every reachable state in which nothing has
    crashed and the send side is open, the loop can be brought back to its select by steps of the
    goroutines it waits for (for a waiter that has gone: its own exit path, which closes `gone`). -/
theorem run_can_always_be_unblocked (st : R.State) (hr : R.Reachable R.cfgToday st)
    (hc : st.crashed = none) (hsc : st.sendClosed = false) :
    ∃ evs, (R.steps R.cfgToday st evs).map R.quietB = some true :=
  R.unblock_run R.cfgToday st (R.inv_reachable _ st hr) hc hsc R.today_ppt R.today_abort
    (by rintro ⟨h, _⟩; rw [R.today_escapes] at h; cases h)

/-- What `RunStuck` means (for any configuration): no event of the loop is enabled, and whatever
    the other goroutines, timers, the router and Close do afterwards, it stays that way. -/
theorem stuck_is_forever (cfg : R.Cfg) (st : R.State) (hs : R.RunStuck cfg st) :
    (∀ ev, ev.isRun = true → R.step cfg st ev = none) ∧
    (∀ evs st', R.steps cfg st evs = some st' → R.RunStuck cfg st') :=
  ⟨fun ev he => R.stuck_no_run_step cfg st ev hs he, fun evs st' h => R.stuck_forever cfg st evs st' hs h⟩

/-- Regression witnesses (F16) on today's code: the reply arriving as its waiter times out, and
    the duplicate reply, end with the loop taking the `gone` case and Close() returning. -/
theorem f16_witnesses_pass :
    (R.steps R.cfgToday {} (Witness.f16 ++ Witness.f16Tail)).map R.closedOK = some true ∧
    (R.steps R.cfgToday {} (Witness.f16dup ++ Witness.f16Tail)).map R.closedOK = some true :=
  ⟨R.f16_fixed, R.f16dup_fixed⟩

/-- … whereas with the two-way select of before the fix both leave the loop stuck for good. -/
theorem f16_old_code_stuck :
    (∃ st, R.steps R.cfgOld {} Witness.f16 = some st ∧ R.RunStuck R.cfgOld st) ∧
    (∃ st, R.steps R.cfgOld {} Witness.f16dup = some st ∧ R.RunStuck R.cfgOld st) := by
  obtain ⟨s1, h1, b1⟩ := R.exists_of_map R.f16_old_stuck
  obtain ⟨s2, h2, b2⟩ := R.exists_of_map R.f16dup_old_stuck
  exact ⟨⟨s1, h1, R.stuck_of_stuckB _ s1 b1⟩, ⟨s2, h2, R.stuck_of_stuckB _ s2 b2⟩⟩

/-! ## the invocation queue -/

/-- A further INVOCATION for a live worker whose final (non-progressive) message was already
    received — a repeat from the router — is dropped: the state does not change. -/
theorem repeated_final_invocation_dropped (st : I.State) (i : I.Inv) (w : Nat)
    (hl : I.findLive st i.reg i.req st.n = some w) (hf : (st.ws w).final = true) :
    I.accept {} st i = st.emit (.repeated i.req) :=
  I.repeated_final_dropped {} st i w I.today_final_gate hl hf

/-- The wait for room in a worker's queue ends as soon as that worker's context has ended or the
    session has stopped receiving (which Close() forces after its grace period). -/
theorem enqueue_escapes (st : I.State) (w : Nat) (i : I.Inv) (hc : st.crashed = none)
    (hp : st.pendingSend = some (w, i)) (hx : (st.ws w).ctx.isSome = true ∨ st.recvDone = true) :
    ∃ st', I.step {} st .queueSendAbandon = some st' ∧ st'.pendingSend = none :=
  I.enqueue_escapes {} st w i I.today_enqueue_escapes hc hp hx

/-- Regression witness (F42) on today's code: three INVOCATIONs with one request id while the
    handler runs the first — the repeats are dropped, the loop is free, one worker. -/
theorem f42_witness_passes :
    ((I.steps {} {} Witness.dupInv).map fun st => st.pendingSend.isNone && st.n == 1) = some true :=
  I.dupInv_fixed

theorem f42_old_code_blocks :
    ((I.steps { finalGate := false } {} Witness.dupInv).map fun st => st.pendingSend.isSome) = some true :=
  I.dupInv_old_blocks

/-- Full strength "the loop never waits in `handlerQueue <- msg`" … -/
def inv_queue_never_blocks_full : Prop :=
  ∀ evs st, I.steps {} {} evs = some st → st.pendingSend = none

/-- … is false BY DESIGN, not as a defect: progressive chunks of one invocation arriving faster
    than the application's handler takes them fill the one-slot queue and the loop waits
    (back-pressure; `Witness.progChunks`). This is an assumption of C17 (handlers of progressive
    invocations keep up or honour their context), not a finding. -/
theorem inv_queue_never_blocks_full_fails : ¬ inv_queue_never_blocks_full := by
  intro h
  cases hs : I.steps {} {} Witness.progChunks with
  | none => have := I.progChunks_block; rw [hs] at this; simp at this
  | some st =>
    have hb := I.progChunks_block
    rw [hs] at hb
    have := h _ st hs
    simp [this] at hb

/-- Partial: the loop only ever comes to wait behind an invocation that is still open (its final
    message not yet received) and whose worker is live … -/
theorem inv_queue_blocks_only_open_invocation (st : I.State) (i : I.Inv) (w : Nat) (j : I.Inv)
    (hp : st.pendingSend = none) (h : (I.accept {} st i).pendingSend = some (w, j)) :
    (st.ws w).final = false ∧ (st.ws w).live = true :=
  I.blocks_only_on_open_invocation {} st i w j I.today_final_gate hp h

/-- … and while it waits, only the return of that worker's handler or the escapes of the select
    (`enqueue_escapes`) end the wait. -/
theorem inv_queue_wait_ends (cfg : I.Cfg) (st : I.State) (ev : I.Ev) (st' : I.State)
    (w : Nat) (i j : I.Inv) (hp : st.pendingSend = some (w, i))
    (hfull : ¬ (st.ws w).queue.length < cfg.queueCap) (hrun : (st.ws w).inner = .running j)
    (hev : ∀ r d, ev ≠ .handlerReturn w r d) (hev2 : ev ≠ .queueSendAbandon) (h : I.step cfg st ev = some st') :
    st'.pendingSend = some (w, i) ∧ ¬ (st'.ws w).queue.length < cfg.queueCap ∧ (st'.ws w).inner = .running j :=
  I.queue_blocked_until_handler_returns cfg st ev st' w i j hp hfull hrun hev hev2 h

/-! ## close_returns -/

/-- Full strength: from every reachable state in which nothing has crashed, some continuation lets
    Close() return (the application's handlers return, the workers finish). -/
theorem close_returns (st : R.State) (hr : R.Reachable R.cfgToday st) (hc : st.crashed = none) :
    ∃ evs st', R.steps R.cfgToday st evs = some st' ∧ st'.close = .returned ∧ st'.crashed = none :=
  R.close_can_return R.cfgToday R.today_ppt R.today_abort st hr hc
    (by rintro ⟨h, _⟩; rw [R.today_escapes] at h; cases h)

/-- Only `Close()` closes the peer, as its last act: the send side is closed exactly when Close()
    has returned (no second close, no close from the ABORT path). -/
theorem peer_closed_once (st : R.State) (hr : R.Reachable R.cfgToday st) (h : st.sendClosed = true) :
    st.close = .returned :=
  (R.invClose_reachable R.cfgToday R.today_ppt R.today_abort st hr).1 h

/-- Regression witness (F41) on today's code: RESULT with `ppt_scheme` from a router that did not
    announce PPT, then Close(): ABORT, EndRecv, the loop exits, Close() returns, no panic. -/
theorem f41_witness_passes :
    (R.steps Witness.pptAbortCfg {} Witness.pptAbort).map R.closedOK = some true := R.pptAbort_fixed

theorem f41_old_code_panics :
    ((R.steps { Witness.pptAbortCfg with abortClosesSend := true } {}
      [.apiStart 1 .call "p1" false, .apiWait 1, .inject (.result 1 [(N.OptPPTScheme, .str "x_a")] [] []),
       .runRecv, .deliver, .finish 1, .closeStart]).map (·.crashed)) = some (some "send on closed channel") :=
  R.pptAbort_old_crashes

/-! ## no panic — still open: F43 -/

/-- Full strength: no API call, no goroutine of the client and no Close() ever panics. -/
def no_panic_full : Prop :=
  ∀ evs st, R.steps R.cfgToday {} evs = some st → st.crashed = none

/-- Open finding F43 (`Witness.closeRace`): a Call is waiting; Close() completes and closes the
    send channel; the Call's context ends and its goroutine takes the ctx.Done branch before it
    sees Done(): CANCEL goes to the closed channel. (The same happens to any goroutine blocked in
    a send when Close() closes the channel.) -/
theorem no_panic_full_fails : ¬ no_panic_full := by
  intro h
  cases hs : R.steps R.cfgToday {} Witness.closeRace with
  | none => have := R.closeRace_crashes; rw [hs] at this; simp at this
  | some st =>
    have hb := R.closeRace_crashes
    rw [hs] at hb
    have := h _ st hs
    simp [this] at hb

/-- Partial, with the exact guard: the ONLY panic left in the model is a send on the channel that
    Close() has closed — in particular nothing the router sends makes the client panic before
    Close() has returned. -/
theorem no_panic_partial (st : R.State) (hr : R.Reachable R.cfgToday st) (s : String)
    (h : st.crashed = some s) : s = "send on closed channel" ∧ st.sendClosed = true ∧ st.close = .returned := by
  have hi := R.invClose_reachable R.cfgToday R.today_ppt R.today_abort st hr
  obtain ⟨h1, h2⟩ := hi.2 s h
  exact ⟨h1, h2, hi.1 h2⟩

/-- F43 delimited by a theorem instead of an assumption. In the model a goroutine blocked in a send
    (a router that has stopped reading) is a goroutine whose sending event has not been taken yet, so
    a non-draining router only removes schedules; whenever the event is finally taken after `Close()`
    closed the channel — whether the goroutine was blocked in the send or arrives at it — it panics.
    EXACTLY: a run of today's client ends in a panic if and only if its last event was taken in an
    uncrashed state in which `Close()` had returned and closed the send channel and that event is
    such a send; the panic changes nothing else, and nothing can follow it. -/
theorem f43_exact (evs : List R.Ev) (st : R.State) (h : R.steps R.cfgToday {} evs = some st) :
    st.crashed.isSome = true ↔
    ∃ pre ev st1, evs = pre ++ [ev] ∧ R.steps R.cfgToday {} pre = some st1 ∧ st1.crashed = none ∧
      st1.close = .returned ∧ st1.sendClosed = true ∧
      R.step R.cfgToday st1 ev = some { st1 with crashed := some "send on closed channel" } ∧
      st = { st1 with crashed := some "send on closed channel" } :=
  R.crash_iff R.cfgToday R.today_ppt R.today_abort evs st h

/-- … and every send after `Close()` has closed the channel is such an event, whichever goroutine
    performs it (the request of an API call that passed its `Connected()` check, the CANCEL of a
    Call, …). -/
theorem f43_every_send_after_close (st st2 : R.State) (ev : R.Ev) (hc : st.crashed = none)
    (hsc : st.sendClosed = true) (h : R.stepCore R.cfgToday st ev = some st2) (hs : R.sentSomething st st2 = true) :
    R.step R.cfgToday st ev = some { st with crashed := some "send on closed channel" } :=
  R.send_after_close_panics R.cfgToday st st2 ev hc hsc h hs

/-- One more instance: the sender goroutine of a `CallProgressive`, which watches neither the call's
    return nor Done, sends its next chunk after `Close()` (explicit non-draining router: `P.State.stalled`;
    a blocked sender panics when the channel is closed under it). -/
theorem f43_progressive_sender :
    (RP.steps {} {} RP.senderAfterClose).map (fun st => (st.r.close, st.p.crashed)) =
      some (.returned, some "send on closed channel") := by decide

/-- A sender blocked by a router that does not read takes no step until the router reads again or
    the channel is closed; then it panics. -/
theorem f43_blocked_sender (cfg : P.Cfg) (st : P.State) (g : Nat) (hc : st.crashed = none)
    (hph : (st.ss g).phase = .sendingChunk true) (hst : st.stalled = true) :
    (st.sendClosed = false → P.step cfg st (.sendDone g) = none) ∧
    (st.sendClosed = true → P.step cfg st (.sendDone g) = some { st with crashed := some "send on closed channel" }) := by
  constructor <;> intro h <;> simp [P.step, hc, hph, hst, h]

/-- Non-vacuity: a reachable crashed state exists (the F43 witness). -/
example : ((R.steps R.cfgToday {} Witness.closeRace).map fun st => st.crashed.isSome && st.sendClosed) = some true := by
  decide

/-! ## done_signalled -/

/-- Done() is closed exactly when the loop has exited, and exactly once. -/
theorem done_signalled (cfg : R.Cfg) (st : R.State) (hr : R.Reachable cfg st) :
    (st.done = true ↔ st.run = .exited) ∧ List.countP R.isDoneOut st.out = if st.done then 1 else 0 := by
  have hi := R.allInv_reachable cfg st hr
  exact ⟨hi.state.1, hi.doneOnce⟩

/-- When the loop (at its select) finds the transport closed, or a message whose case in
    `runReceiveFromRouter` returns true, at the head of its queue, taking it exits the loop and
    closes Done(). -/
theorem session_end_closes_done (cfg : R.Cfg) (st : R.State) (x : Option RMsg) (rest : List (Option RMsg))
    (hc : st.crashed = none) (hrun : st.run = .idle) (hin : st.inbox = x :: rest)
    (hx : R.endsSession x = true) :
    ∃ st', R.step cfg st .runRecv = some st' ∧ st'.done = true ∧ st'.run = .exited :=
  R.session_end_signals_done cfg st x rest hc hrun hin hx

/-- GOODBYE and ABORT are such messages (regenerated switch), the transport closing is one too. -/
theorem goodbye_abort_end_session (d : Dict) (reason : String) :
    R.endsSession (some (.goodbye d reason)) = true ∧ R.endsSession (some (.abort d reason)) = true ∧
    R.endsSession none = true := by
  refine ⟨?_, ?_, rfl⟩ <;> simp [R.endsSession, R.actionOf, RMsg.typeName, Client.recvSwitch]

end Nexus.C17
