/-
  C17 — "The client never crashes or hangs, whatever the router sends"

  Whatever messages arrive from the router side - any type in any order, unknown ids, any value
  types in details and arguments (including payload-passthru fields set by other, possibly
  hostile, clients), replies arriving exactly as a timeout or cancellation fires, abrupt
  disconnects - the client neither panics nor stops processing further messages, every pending
  and later API call returns (with an error where appropriate), Done() is signalled once the
  router says GOODBYE/ABORT or the transport ends, and Close() always returns, after which no
  goroutine or handler of the client remains.

  clause                                              theorem(s)
  --------------------------------------------------  ------------------------------------------
  never panics on any details/arguments (L1)          unpack_total_full (FALSE today, F15):
                                                        unpack_total_full_fails, unpack_total_partial,
                                                        unpack_panics_iff (exact guard),
                                                        unpack_total_checked (the fixed code)
  every bare assertion / unchecked index is known     sites_accounted, model_sites_in_table,
                                                        model_sites_reachable
-/
import Nexus.Client.PptLemmas

namespace Nexus.C17
open Nexus.Client Nexus.Gen

/-! ## unpack_total -/

/-- Full strength: for ANY details / arguments / decoder behaviour, none of the five functions
    that touch router-supplied PPT data panics (instantiated with the regenerated fact
    `pptChecked`: does client code still contain a bare site in the unpack functions). -/
def unpack_total_full : Prop :=
  ∀ (deser : Deser) (details : Dict) (args : List Val) (kw : Dict) (dealerPPT : Bool),
    (unpackPPTPayload pptChecked deser details args).isPanic = false ∧
    (unpackE2EEPayload pptChecked deser details args).isPanic = false ∧
    (eventPpt pptChecked deser details args kw).isPanic = false ∧
    (invocationPpt pptChecked deser details args kw).isPanic = false ∧
    (prepareCallResult pptChecked deser dealerPPT details args kw).isPanic = false

/-- The regenerated site table still lists bare sites in the unpack functions. -/
theorem pptChecked_today : pptChecked = false := by decide

/-- F15 witness: an EVENT (to a subscription with a handler) whose details carry
    `ppt_scheme = "mqtt"` and which has no arguments. `runHandleEvent` → `unpackPPTPayload`
    → `args[0]` → index out of range, in the `run` goroutine: the process dies. -/
def f15Details : Dict := [(N.OptPPTScheme, .str "mqtt")]

theorem f15_event_panics (deser : Deser) :
    eventPpt false deser f15Details [] [] = .panic (siteText "unpackPPTPayload" "index" "args[0]") := by
  rfl

theorem unpack_total_full_fails : ¬ unpack_total_full := by
  intro h
  have := (h (fun _ _ => .err) f15Details [] [] true).2.2.1
  rw [pptChecked_today, f15_event_panics] at this
  exact absurd this (by decide)

/-- The exact guard: today's code panics on precisely the inputs outside `pptSafe` / `e2eeSafe`
    (`callerSafe` for the three callers). -/
theorem unpack_panics_iff (deser : Deser) (details : Dict) (args : List Val) (kw : Dict) :
    (unpackPPTPayload false deser details args).isPanic = !pptSafe deser details args ∧
    (unpackE2EEPayload false deser details args).isPanic = !e2eeSafe details args ∧
    (eventPpt false deser details args kw).isPanic = !callerSafe deser details args ∧
    (invocationPpt false deser details args kw).isPanic = !callerSafe deser details args ∧
    (prepareCallResult false deser true details args kw).isPanic = !callerSafe deser details args ∧
    (prepareCallResult false deser false details args kw).isPanic = false :=
  ⟨unpackPPT_panics_iff .., unpackE2EE_panics_iff .., eventPpt_panics_iff .., invocationPpt_panics_iff ..,
   prepareCallResult_panics_iff .., prepareCallResult_noPPT ..⟩

/-- Partial: under the guard nothing panics. -/
theorem unpack_total_partial (deser : Deser) (details : Dict) (args : List Val) (kw : Dict) (dealerPPT : Bool)
    (hp : pptSafe deser details args = true) (he : e2eeSafe details args = true)
    (hc : callerSafe deser details args = true) :
    (unpackPPTPayload pptChecked deser details args).isPanic = false ∧
    (unpackE2EEPayload pptChecked deser details args).isPanic = false ∧
    (eventPpt pptChecked deser details args kw).isPanic = false ∧
    (invocationPpt pptChecked deser details args kw).isPanic = false ∧
    (prepareCallResult pptChecked deser dealerPPT details args kw).isPanic = false := by
  rw [pptChecked_today]
  refine ⟨?_, ?_, ?_, ?_, ?_⟩
  · rw [unpackPPT_panics_iff, hp]; rfl
  · rw [unpackE2EE_panics_iff, he]; rfl
  · rw [eventPpt_panics_iff, hc]; rfl
  · rw [invocationPpt_panics_iff, hc]; rfl
  · cases dealerPPT
    · exact prepareCallResult_noPPT ..
    · rw [prepareCallResult_panics_iff, hc]; rfl

/-- Non-vacuity: a well-formed mqtt-scheme EVENT with a native payload meets all three guards. -/
example : pptSafe (fun _ _ => .err) [(N.OptPPTScheme, .str "mqtt")] [.payload false [.int 1] []] = true ∧
    callerSafe (fun _ _ => .err) [(N.OptPPTScheme, .str "mqtt")] [.payload false [.int 1] []] = true := by
  decide

example : e2eeSafe [(N.OptPPTScheme, .str "wamp"), (N.OptPPTSerializer, .str "cbor")] [.bin [0xa0]] = true := by
  decide

/-- The fixed code (every bare site checked) is total, for all inputs. -/
theorem unpack_total_checked (deser : Deser) (details : Dict) (args : List Val) (kw : Dict) (dealerPPT : Bool) :
    (unpackPPTPayload true deser details args).isPanic = false ∧
    (unpackE2EEPayload true deser details args).isPanic = false ∧
    (eventPpt true deser details args kw).isPanic = false ∧
    (invocationPpt true deser details args kw).isPanic = false ∧
    (prepareCallResult true deser dealerPPT details args kw).isPanic = false :=
  ⟨unpackPPT_checked .., unpackE2EE_checked .., eventPpt_checked .., invocationPpt_checked ..,
   prepareCallResult_checked ..⟩

/-! ## sites_accounted -/

/-- Every bare type assertion and every unchecked index in client/*.go (regenerated table) is in
    the hand-written account: modelled as a panic, unreachable, or application-supplied. -/
theorem sites_accounted : ∀ s ∈ Client.sites, siteAccounted s = true := by decide

/-- Conversely every panic the model can raise is a row of the regenerated table (or the nil
    dereference, which the syntactic extractor does not list). -/
theorem model_sites_in_table : ∀ p ∈ modelSites, modelSiteInTable p = true := by decide

/-- …and each is reachable: a concrete hostile input for every model site. -/
theorem model_sites_reachable :
    unpackPPTPayload false (fun _ _ => .err) [(N.OptPPTSerializer, .int 1)] [] =
      .panic (siteText "unpackPPTPayload" "assert" "pptSerializerStr.(string)") ∧
    unpackPPTPayload false (fun _ _ => .err) [] [] =
      .panic (siteText "unpackPPTPayload" "index" "args[0]") ∧
    unpackPPTPayload false (fun _ _ => .err) [(N.OptPPTSerializer, .str "json")] [.str "x"] =
      .panic (siteText "unpackPPTPayload" "assert" "args[0].([]byte)") ∧
    unpackPPTPayload false (fun _ _ => .err) [] [.dict []] =
      .panic (siteText "unpackPPTPayload" "assert" "args[0].(*wamp.PassthruPayload)") ∧
    unpackPPTPayload false (fun _ _ => .nil) [(N.OptPPTSerializer, .str "json")] [.bin [110, 117, 108, 108]] =
      .panic (siteText "unpackPPTPayload" "deref" nilDeref) ∧
    unpackE2EEPayload false (fun _ _ => .err) [] [.bin []] =
      .panic (siteText "unpackE2EEPayload" "assert" "details[wamp.OptPPTSerializer].(string)") ∧
    unpackE2EEPayload false (fun _ _ => .err) [(N.OptPPTSerializer, .str "cbor")] [] =
      .panic (siteText "unpackE2EEPayload" "index" "args[0]") ∧
    unpackE2EEPayload false (fun _ _ => .err) [(N.OptPPTSerializer, .str "cbor")] [.int 0] =
      .panic (siteText "unpackE2EEPayload" "assert" "args[0].([]byte)") := by
  refine ⟨?_, ?_, ?_, ?_, ?_, ?_, ?_, ?_⟩ <;> rfl

end Nexus.C17
