/-
  C01 — Pub/Sub delivers each event to exactly the matching, eligible subscribers (broker, L2).

  Property text.  "When a session publishes to a topic, an EVENT is delivered exactly once per
  matching subscription to exactly those sessions of the same realm that at that moment hold a
  subscription matching the topic under its policy (exact, prefix or wildcard), minus the
  publisher unless exclude_me is false, minus sessions ruled out by the publication's
  exclude/eligible lists (by session id, authid, authrole or any other session attribute).  Each
  such EVENT carries that subscription's id, one publication id shared by all receivers (the one
  reported in PUBLISHED when acknowledged), the original topic for pattern subscriptions, and the
  publisher's arguments unchanged; no other session receives anything, and SUBSCRIBE/UNSUBSCRIBE
  answer with a stable per-(topic,policy) subscription id or the proper error (invalid_uri,
  no_such_subscription) without touching other sessions' subscriptions."

  The theorems are about the model `Nexus.L2.Broker` (router/broker.go, router/publishfilter.go),
  for EVERY broker state satisfying `BrokerInv` (Nexus/L2/Proofs/BrokerInv.lean) — hence, by
  `C01_reachable`, every state reachable from the pre-initialised broker by any sequence of
  publish / subscribe / unsubscribe / session-removal steps — every session table and every
  publication.  The declarative vocabulary (`ruledOut`, `Expected`, `expectedEvent`, `through`) is
  defined, without reference to the code it specifies, in Nexus/L2/Proofs/BrokerSpec.lean.

  clause                                                          theorem
  --------------------------------------------------------------  ---------------------------------
  the invariant holds in every reachable broker state             C01_reachable
  every EVENT sent belongs to an expected (subscription, member)
    pair and is exactly `expectedEvent` (sub id, pub id, details,
    args, kw); each expected pair gets exactly one; a pair that is
    not expected gets none; sessions that are not such members get
    nothing at all (frame)                                        C01_delivery_exact
  … hence no (recipient, subscription id) pair occurs twice       C01_delivery_nodup
  … read for a coherent session table ("is not the publisher")    C01_expected_coherent
  "the original topic for pattern subscriptions": details.topic =
    p.topic iff pattern-based (needs: no `topic` among the payload
    passthru details, which is what the realm passes)             C01_event_topic, C01_event_topic_full,
                                                                  C01_event_topic_full_fails, C01_realm_base_has_no_topic
  filter built from ANY options dict allows ⇔ not ruled out       C01_filter_iff
  SUBSCRIBE to an existing (topic, policy): that id, nothing
    created; a member's second SUBSCRIBE: same id, state unchanged;
    otherwise a fresh id nextSub+1 unused before                  C01_subscribe_stable_id
  UNSUBSCRIBE of unknown id / by a non-member: exactly one ERROR
    no_such_subscription to the sender, state unchanged           C01_unsubscribe_errors
  UNSUBSCRIBE / session removal leave every other session's
    memberships and the ids of remaining subscriptions unchanged  C01_unsub_others_untouched

  REALM LEVEL (`Realm.handlePublish` / `handleSubscribe` / `handleUnsubscribe`, Nexus/L2/Realm.lean:
  the handler-goroutine half of broker.go plus the delivery of the broker goroutine's sends to the
  bounded router→client queues; vocabulary `pubOf`, `pptRefused`, `discloseRefused`, `ackList` in
  Nexus/L2/Proofs/RealmPublish.lean, `queueOf`, `accept`, `msgsTo`, `client?` in RealmQueue.lean)

  PUBLISH to an invalid topic (strict × exact): the state is unchanged
    except one ERROR(PUBLISH, req, invalid_uri) offered to the
    publisher's own queue iff `acknowledge` is the bool true
    (dropped, changing nothing, if that queue is full)               C01_publish_invalid_uri
  PUBLISH valid and allowed: queues = old queues offered, in order,
    the EVENTs of `C01_delivery_exact` for pubId = pubBase + pubCount
    then PUBLISHED(req, that id) to the publisher iff acknowledged
    (a full queue drops that message and nothing else); pubCount + 1;
    the broker changes only in its history stores                    C01_publish_ack
  PUBLISH with payload passthru by a publisher lacking the feature:
    ABORT to the publisher, a `leave … aborted` task, nothing delivered C01_publish_ppt_abort
  (PUBLISH with disclose_me refused by the realm: Nexus.C12.C12_refused)
  SUBSCRIBE: invalid (strict × match) topic → one ERROR invalid_uri to
    the sender, nothing else; otherwise the broker-level sends of
    `syncSubscribe` offered to the queues, SUBSCRIBED first            C01_subscribe_realm
  UNSUBSCRIBE: the broker-level sends of `syncUnsubscribe` offered to
    the queues (UNSUBSCRIBED or ERROR no_such_subscription first)      C01_unsubscribe_realm

  EVERY REACHABLE REALM (`Realm.Reachable cfg r`; proofs in Nexus/L2/Proofs/WpAEvo.lean, WpARealm.lean,
  WpABkC01.lean — added by work package A)

  in every reachable realm: `BrokerInv r.broker`, the session table is
    coherent, every member of every subscription is an attached client   C01_reachable_realm
  a PUBLISH / SUBSCRIBE / UNSUBSCRIBE from an attached client whose
    handler is free and which the authorizer allows IS the handler call
    of the realm-level theorems; a refused one never reaches the broker  C01_step_publish, C01_step_subscribe,
                                                                         C01_step_unsubscribe, C01_step_denied
  all clauses of a PUBLISH together, for a reachable realm, with
    `Expected` in its coherent reading and the hypotheses stated on the
    configuration                                                        C01_publish_reachable
  "stable id", history level: after any steps a subscription is an old
    one (same id, topic, policy) or has an id above every id handed out
    before; an id never denotes another (topic, policy); a deleted id is
    never handed out again; the same per realm input                     C01_id_never_reused, C01_id_stable,
                                                                         C01_id_stable_between,
                                                                         C01_id_not_reused_after_delete, C01_id_stable_realm
  the publication handed to the broker (`pubOf`) has no `topic` /
    publisher key among its payload-passthru details; exclude_me reading  C01_pubOf_base, C01_event_topic_realm

  Explicit assumption: the subscription id generator does not wrap (`nextSub : Nat`; the 2^53 wrap
  of `wamp.IDGen` is not modelled).  Interpretation recorded: an `eligible`/`exclude` list without
  any valid entry imposes nothing (that is what the code does).
  The `invalid_uri` answers are produced by the realm handler before the broker is reached
  (`Realm.handleSubscribe`/`handlePublish`): see the realm-level theorems.
-/
import Nexus.L2.Proofs.BrokerDeliver
import Nexus.L2.Proofs.BrokerBase
import Nexus.L2.Proofs.RealmPublish
import Nexus.L2.Proofs.WpARealm
import Nexus.L2.Proofs.WpABkC01
import Nexus.L2.Proofs.RealmKeys

namespace Nexus.C01
open Nexus.L2 Gen.N

/-! ### a concrete non-trivial state used by the `example`s -/

/-- history store on prefix "a."; then exact "a.b" (members 1, 2), prefix "a." (member 2),
    wildcard "a." (member 1): three overlapping subscriptions all matching topic "a.b". -/
def exB : Broker :=
  let b0 := ({} : Broker).preInit [("a.", "prefix", 2)]
  let b1 := (b0.syncSubscribe 1 1 "a.b" "exact" 0).1
  let b2 := (b1.syncSubscribe 2 1 "a." "prefix" 0).1
  let b3 := (b2.syncSubscribe 1 2 "a." "wildcard" 0).1
  (b3.syncSubscribe 2 2 "a.b" "exact" 0).1

def exSession (k : SessKey) : Session :=
  { key := k, details := [("authid", .str "u")],
    roles := [("subscriber", ["publisher_identification"])], isLocal := false }

def exSess : SessKey → Option Session := fun k => if k = 1 ∨ k = 2 then some (exSession k) else none

def exPub : Publication :=
  { publisher := 1, pubDetails := [("authid", .str "u")], topic := "a.b", pubId := 77, args := [.int 5], kw := [],
    opts := [], excludePub := true, disclose := false, baseDetails := [] }

def exSub : Sub := { id := 2, topic := "a.b", «match» := "exact", members := [1, 2] }

theorem exB_subs : exB.subs =
    [{ id := 1, topic := "a.", «match» := "prefix", members := [2] }, exSub,
     { id := 3, topic := "a.", «match» := "wildcard", members := [1] }] := by rfl

theorem exB_inv : BrokerInv exB :=
  ((((BrokerInv.preInit false false _).subscribe ..).subscribe ..).subscribe ..).subscribe ..

/-! ### the invariant is reachable-state-wide -/

/-- Every broker state reachable from the broker a realm starts with (any configuration, any
    sequence of steps with any arguments) satisfies `BrokerInv`. -/
theorem C01_reachable (strict allowDisclose : Bool) (cfg : List (String × String × Nat)) (steps : List BStep) :
    BrokerInv ((({ strict := strict, allowDisclose := allowDisclose } : Broker).preInit cfg).run steps) :=
  (BrokerInv.preInit strict allowDisclose cfg).run steps

/-! ### delivery -/

/-- For every broker state satisfying the invariant, every session table and every publication:
    (a) every message `syncPublish` sends is the expected EVENT of an expected pair;
    (b) each expected pair `(s, k)` gets exactly one message through `s.id`, namely that EVENT;
    (c) a (session, subscription id) pair that is not expected gets nothing;
    (d) frame: a session that is not an expected member of any subscription gets nothing. -/
theorem C01_delivery_exact {b : Broker} (hb : BrokerInv b) (sess : SessKey → Option Session) (now : Nat)
    (p : Publication) :
    (∀ x ∈ (b.syncPublish sess now p).2,
        ∃ s k c, Expected b sess p s k c ∧ x = ⟨k, expectedEvent p s c⟩) ∧
    (∀ s k c, Expected b sess p s k c →
        through (b.syncPublish sess now p).2 k s.id = [⟨k, expectedEvent p s c⟩]) ∧
    (∀ k id, (¬ ∃ s c, s.id = id ∧ Expected b sess p s k c) →
        through (b.syncPublish sess now p).2 k id = []) ∧
    (∀ k, (¬ ∃ s c, Expected b sess p s k c) → ∀ x ∈ (b.syncPublish sess now p).2, x.to ≠ k) :=
  delivery_exact hb sess now p

/-- The same "exactly once" as a `Nodup` statement: among the EVENTs of one publication no
    (recipient, subscription id) pair occurs twice. -/
theorem C01_delivery_nodup {b : Broker} (hb : BrokerInv b) (sess : SessKey → Option Session) (now : Nat)
    (p : Publication) :
    ((b.syncPublish sess now p).2.map (fun x => (x.to, x.msg.eventSub?))).Nodup :=
  syncPublish_pairs_nodup hb sess now p

/-- non-vacuity: an expected pair in the example state (session 2 through the exact subscription),
    and a ruled-out one (the publisher, session 1, is excluded). -/
example : Expected exB exSess exPub exSub 2 (exSession 2) := by
  refine ⟨by rw [exB_subs]; simp, by decide, by simp [exSub], by simp [exSess], by simp [exSession, exPub], ?_⟩
  rintro (⟨_, _, _, h, _⟩ | ⟨⟨_, _, _, _, h, _⟩, _⟩ | ⟨_, _, _, _, h, _⟩ | ⟨_, _, _, h, _⟩) <;>
    simp [exPub, Dict.get?] at h

example : ¬ ∃ s c, Expected exB exSess exPub s 1 c := by
  rintro ⟨s, c, _, _, _, hc, hp, _⟩
  simp only [exSess, true_or, if_true, Option.some.injEq] at hc
  subst hc
  exact hp ⟨rfl, rfl⟩

/-- hence, by clause (b): session 2 gets exactly this one EVENT through subscription 2
    (`#eval` of the whole output: `[(2, some 2), (2, some 1)]` — also one through prefix "a."). -/
example : through (exB.syncPublish exSess 0 exPub).2 2 2 =
    [⟨2, .event 2 77 [] [.int 5] []⟩] := by
  have h : Expected exB exSess exPub exSub 2 (exSession 2) := by
    refine ⟨by rw [exB_subs]; simp, by decide, by simp [exSub], by simp [exSess], by simp [exSession, exPub], ?_⟩
    rintro (⟨_, _, _, h, _⟩ | ⟨⟨_, _, _, _, h, _⟩, _⟩ | ⟨_, _, _, _, h, _⟩ | ⟨_, _, _, h, _⟩) <;>
      simp [exPub, Dict.get?] at h
  exact (C01_delivery_exact exB_inv exSess 0 exPub).2.1 exSub 2 (exSession 2) h

/-- With a coherent session table the publisher clause of `Expected` reads "k is not the
    publisher when `excludePub`". -/
theorem C01_expected_coherent {b : Broker} {sess : SessKey → Option Session} (hc : SessCoherent sess)
    (p : Publication) (s : Sub) (k : SessKey) (c : Session) :
    Expected b sess p s k c ↔
      s ∈ b.subs ∧ s.matchesTopic p.topic = true ∧ k ∈ s.members ∧ sess k = some c ∧
      ¬(k = p.publisher ∧ p.excludePub = true) ∧ ¬ ruledOut p.opts (sidOf k) c.details := by
  unfold Expected
  constructor
  · rintro ⟨h1, h2, h3, h4, h5, h6⟩
    have := hc k c h4
    exact ⟨h1, h2, h3, h4, this ▸ h5, this ▸ h6⟩
  · rintro ⟨h1, h2, h3, h4, h5, h6⟩
    have := hc k c h4
    exact ⟨h1, h2, h3, h4, this.symm ▸ h5, this.symm ▸ h6⟩

example : SessCoherent exSess := by
  intro k c h
  unfold exSess at h
  split at h
  · simp at h; subst h; rfl
  · simp at h

/-- "the original topic for pattern subscriptions": if the payload-passthru details handed to the
    broker have no `topic` key, the EVENT details have `topic = p.topic` exactly for pattern-based
    subscriptions, and no `topic` key for exact ones. -/
theorem C01_event_topic (p : Publication) (s : Sub) (c : Session)
    (hbase : p.baseDetails.get? "topic" = none) :
    ((eventDetails p s.isPattern (some c)).get? "topic" = some (.str p.topic) ↔ s.isPattern = true) ∧
    (s.isPattern = false → (eventDetails p s.isPattern (some c)).get? "topic" = none) := by
  rw [eventDetails_get?_topic]
  cases s.isPattern <;> simp [hbase]

/-- the clause without the side condition … -/
def C01_event_topic_full : Prop :=
  ∀ (p : Publication) (s : Sub) (c : Session),
    ((eventDetails p s.isPattern (some c)).get? "topic" = some (.str p.topic) ↔ s.isPattern = true)

/-- … is false of the broker taken alone: `baseDetails` already holding `topic = p.topic` shows up
    in the EVENT of an exact subscription.  (Not reachable through the realm: see
    `C01_realm_base_has_no_topic`.) -/
theorem C01_event_topic_full_fails : ¬ C01_event_topic_full := by
  intro h
  have := h { exPub with baseDetails := [("topic", .str "a.b")] } exSub (exSession 2)
  rw [eventDetails_get?_topic] at this
  have hp : exSub.isPattern = false := by decide
  rw [hp] at this
  exact absurd (this.mp rfl) (by simp)

/-- The realm passes only payload-passthru keys: never `topic`. -/
theorem C01_realm_base_has_no_topic (opts : Dict) (usesPPT : Bool) :
    (if usesPPT then pptInto opts [] else ([] : Dict)).get? "topic" = none :=
  realm_base_ok opts usesPPT "topic" (Or.inl rfl)

example : exPub.baseDetails.get? "topic" = none := rfl

/-! ### the publish filter -/

/-- For ANY options dict (any value types): the filter built by the model of
    `NewSimplePublishFilter` allows a session iff it is not ruled out. -/
theorem C01_filter_iff (opts : Dict) (sid : Nat) (details : Dict) :
    (mkFilter opts).allowed sid details = true ↔ ¬ ruledOut opts sid details :=
  mkFilter_allowed_iff opts sid details

/-- non-vacuity: options that rule a session out by attribute, and ill-typed options that do not. -/
example : ruledOut [("exclude_authid", .list [.int 3, .str "u"])] 5 [("authid", .str "u")] :=
  Or.inr (Or.inr (Or.inl ⟨"authid", .list [.int 3, .str "u"], [.int 3, .str "u"], "u",
    List.mem_singleton.mpr rfl, rfl, ⟨by decide, rfl⟩, by simp⟩))

example : ruledOut [("eligible", .list [.str "y", .int 0, .int 7])] 5 [] :=
  Or.inr (Or.inl ⟨⟨7, .list [.str "y", .int 0, .int 7], _, .int 7, rfl, rfl, by simp, by decide⟩, by
    rintro ⟨v, l, x, h1, h2, h3, h4⟩
    simp [Dict.get?] at h1; subst h1
    simp [WVal.asList] at h2; subst h2
    simp at h3
    rcases h3 with rfl | rfl | rfl <;> revert h4 <;> decide⟩)

example : ¬ ruledOut [] 5 [("authid", .str "u")] := by
  rintro (⟨_, _, _, h, _⟩ | ⟨⟨_, _, _, _, h, _⟩, _⟩ | ⟨_, _, _, _, h, _⟩ | ⟨_, _, _, h, _⟩) <;>
    simp [Dict.get?] at h

/-! ### SUBSCRIBE -/

/-- (1) SUBSCRIBE (by any session `k`) to a (topic, policy) for which subscription `s` exists is
    answered SUBSCRIBED with `s.id` (followed only by meta EVENTs to other sessions), creates
    nothing (ids, topics, policies and the id counter are unchanged) and adds exactly the
    membership (k, s.id);
    (2) if `k` is already a member the state does not change at all and the answer is that id;
    (3) if no subscription exists for (topic, policy): the answer carries `nextSub + 1`, an id no
    existing subscription has, and exactly that subscription is created. -/
theorem C01_subscribe_stable_id {b : Broker} (hb : BrokerInv b) (k : SessKey) (req : Nat)
    (topic m : String) (pub0 : Nat) :
    (∀ s ∈ b.subs, s.topic = topic → s.kind = matchKind m → k ∉ s.members →
      (∃ rest, (b.syncSubscribe k req topic m pub0).2.1 = ⟨k, .subscribed req s.id⟩ :: rest ∧
          ∀ x ∈ rest, x.msg.eventSub? ≠ none ∧ x.to ≠ k) ∧
      (b.syncSubscribe k req topic m pub0).1.subs.map (fun x => (x.id, x.topic, x.«match»)) =
          b.subs.map (fun x => (x.id, x.topic, x.«match»)) ∧
      (b.syncSubscribe k req topic m pub0).1.nextSub = b.nextSub ∧
      (∀ k' id, (b.syncSubscribe k req topic m pub0).1.isMember k' id ↔
          b.isMember k' id ∨ (k' = k ∧ id = s.id))) ∧
    (∀ s ∈ b.subs, s.topic = topic → s.kind = matchKind m → k ∈ s.members →
      b.syncSubscribe k req topic m pub0 = (b, [⟨k, .subscribed req s.id⟩], 0)) ∧
    ((∀ s ∈ b.subs, ¬(s.topic = topic ∧ s.kind = matchKind m)) →
      (∃ rest, (b.syncSubscribe k req topic m pub0).2.1 = ⟨k, .subscribed req (b.nextSub + 1)⟩ :: rest ∧
          ∀ x ∈ rest, x.msg.eventSub? ≠ none ∧ x.to ≠ k) ∧
      (∀ s ∈ b.subs, s.id ≠ b.nextSub + 1) ∧
      (b.syncSubscribe k req topic m pub0).1.subs =
          b.subs ++ [{ id := b.nextSub + 1, topic := topic, «match» := m, members := [k] }] ∧
      (b.syncSubscribe k req topic m pub0).1.nextSub = b.nextSub + 1) := by
  refine ⟨?_, ?_, ?_⟩
  · intro s hs ht hk hm; subst ht; exact syncSubscribe_join hb hs k req m pub0 hk hm
  · intro s hs ht hk hm; subst ht; exact syncSubscribe_member hb hs k req m pub0 hk hm
  · intro hno; exact syncSubscribe_new hb k req topic m pub0 hno

/-- non-vacuity of the three cases in the example state -/
example : exSub ∈ exB.subs ∧ exSub.kind = matchKind "exact" ∧ (3 : SessKey) ∉ exSub.members ∧
    (1 : SessKey) ∈ exSub.members := by
  refine ⟨by rw [exB_subs]; simp, by decide, by decide, by decide⟩
example : ∀ s ∈ exB.subs, ¬(s.topic = "zz" ∧ s.kind = matchKind "exact") := by
  rw [exB_subs]; intro s hs; simp at hs; rcases hs with rfl | rfl | rfl <;> decide

/-! ### UNSUBSCRIBE -/

/-- UNSUBSCRIBE naming an unknown subscription id, or one the sender is not a member of, is
    answered by exactly one ERROR `wamp.error.no_such_subscription` to the sender; the broker
    state is unchanged and no publication id is drawn.  (No invariant needed.) -/
theorem C01_unsubscribe_errors (b : Broker) (k : SessKey) (req subId pub0 : Nat)
    (h : ¬ b.isMember k subId) :
    b.syncUnsubscribe k req subId pub0 =
      (b, [⟨k, .error tUNSUBSCRIBE req [] ErrNoSuchSubscription [] []⟩], 0) := by
  apply syncUnsubscribe_err_state
  intro sub hf hk
  obtain ⟨hs, hid⟩ := findId_some hf
  exact h ⟨sub, hs, hid, hk⟩

example : ¬ exB.isMember 1 1 ∧ ¬ exB.isMember 1 99 := by
  unfold Broker.isMember; rw [exB_subs]
  constructor <;> (rintro ⟨s, hs, h1, h2⟩; simp at hs; rcases hs with rfl | rfl | rfl <;> simp_all [exSub])

/-- After UNSUBSCRIBE of (k, subId) — successful or not — and after removal of session k:
    every OTHER session's memberships (as a set of subscription ids) are unchanged; k itself loses
    exactly (k, subId), resp. everything; every remaining subscription is an old one with the same
    id, topic and policy. -/
theorem C01_unsub_others_untouched {b : Broker} (hb : BrokerInv b) (k : SessKey) (req subId pub0 : Nat) :
    ((∀ k' id, k' ≠ k → ((b.syncUnsubscribe k req subId pub0).1.isMember k' id ↔ b.isMember k' id)) ∧
     (∀ id, (b.syncUnsubscribe k req subId pub0).1.isMember k id ↔ b.isMember k id ∧ id ≠ subId) ∧
     (∀ s' ∈ (b.syncUnsubscribe k req subId pub0).1.subs,
        ∃ s ∈ b.subs, s'.id = s.id ∧ s'.topic = s.topic ∧ s'.«match» = s.«match»)) ∧
    ((∀ k' id, k' ≠ k → ((b.syncRemoveSession k pub0).1.isMember k' id ↔ b.isMember k' id)) ∧
     (∀ id, ¬ (b.syncRemoveSession k pub0).1.isMember k id) ∧
     (∀ s' ∈ (b.syncRemoveSession k pub0).1.subs,
        ∃ s ∈ b.subs, s'.id = s.id ∧ s'.topic = s.topic ∧ s'.«match» = s.«match»)) := by
  constructor
  · by_cases h : b.isMember k subId
    · obtain ⟨s, hs, hid, hk⟩ := h
      have hf : b.findId subId = some s := hid ▸ findId_of_mem hb.ids_nodup hs
      obtain ⟨h1, _, _, _⟩ := syncUnsubscribe_state hb.ids_nodup k req subId pub0 hf hk
      refine ⟨?_, ?_, subs_stripped h1⟩
      · intro k' id hne
        rw [isMember_stripped h1]
        exact ⟨fun h => h.1, fun h => ⟨h, fun hh => hne hh.1⟩⟩
      · intro id
        rw [isMember_stripped h1]
        simp
    · rw [C01_unsubscribe_errors b k req subId pub0 h]
      refine ⟨fun _ _ _ => Iff.rfl, ?_, fun s' hs' => ⟨s', hs', rfl, rfl, rfl⟩⟩
      intro id
      exact ⟨fun hm => ⟨hm, fun he => h (he ▸ hm)⟩, fun hm => hm.1⟩
  · obtain ⟨P, hP, h1, _, _⟩ := syncRemoveSession_state hb k pub0
    refine ⟨?_, ?_, subs_stripped h1⟩
    · intro k' id hne
      rw [isMember_stripped h1]
      exact ⟨fun h => h.1, fun h => ⟨h, fun hh => hne hh.1⟩⟩
    · intro id
      rw [isMember_stripped h1]
      rintro ⟨hm, hn⟩
      exact hn ⟨rfl, (hP id).mpr hm⟩

/-! ### realm level: PUBLISH -/

open Realm in
/-- PUBLISH to a topic that is not a valid URI for (strict, exact): the realm is `r` after offering
    the publisher's own queue one ERROR(PUBLISH, req, wamp.error.invalid_uri) — iff the option
    `acknowledge` is the bool `true`; otherwise nothing at all happens.  For an attached (non-meta)
    publisher: if its queue is full the ERROR is dropped and the state is exactly `r`; if there is
    room, exactly that message is appended to exactly that queue and everything else (all tables, all
    other queues, tasks, panic flag) is unchanged.  No publication id is drawn, the broker is untouched. -/
theorem C01_publish_invalid_uri (r : Realm) (s : Session) (req : Nat) (opts : Dict) (topic : String)
    (args : List WVal) (kw : Dict) (hv : validUri r.broker.strict "" topic = false) :
    (opts.optFlag OptAcknowledge = true ↔ opts.get? OptAcknowledge = some (.bool true)) ∧
    (opts.optFlag OptAcknowledge = false → handlePublish r s req opts topic args kw = r) ∧
    (opts.optFlag OptAcknowledge = true →
      handlePublish r s req opts topic args kw =
        r.trySend ⟨s.key, .error tPUBLISH req [] ErrInvalidURI [.str "<text>"] []⟩ ∧
      ∀ c, s.key ≠ metaKey → r.client? s.key = some c →
        (c.cap ≤ r.queueLen s.key → handlePublish r s req opts topic args kw = r) ∧
        (r.queueLen s.key < c.cap →
          (handlePublish r s req opts topic args kw).queueOf s.key =
            r.queueOf s.key ++ [.error tPUBLISH req [] ErrInvalidURI [.str "<text>"] []] ∧
          (∀ k, k ≠ s.key → (handlePublish r s req opts topic args kw).queueOf k = r.queueOf k) ∧
          SendFrame r (handlePublish r s req opts topic args kw) ∧
          (handlePublish r s req opts topic args kw).tasks = r.tasks ∧
          (handlePublish r s req opts topic args kw).panic = r.panic)) := by
  have heq := handlePublish_invalid r s req opts topic args kw hv
  refine ⟨optFlag_iff opts OptAcknowledge, ?_, ?_⟩
  · intro ha; rw [heq]; unfold ackList; rw [ha]; rfl
  · intro ha
    have heq' : handlePublish r s req opts topic args kw =
        r.trySend ⟨s.key, .error tPUBLISH req [] ErrInvalidURI [.str "<text>"] []⟩ := by
      rw [heq]; unfold ackList; rw [ha]; rfl
    refine ⟨heq', ?_⟩
    intro c hk hc
    rw [heq']
    exact trySend_client_effect r ⟨s.key, _⟩ hk hc

/-- non-vacuity: an invalid topic (empty component) for loose, exact -/
example : validUri false "" "a..b" = false := by decide +kernel

open Realm in
/-- PUBLISH to a valid topic, not refused (payload passthru allowed or unused, disclose_me allowed or
    not requested).  With `p := pubOf r s opts topic args kw` — publisher `s`, publication id
    `pubBase + r.pubCount` — and `(b', evs) := r.broker.syncPublish r.session? r.now p` (so `evs` are
    exactly the EVENTs of `C01_delivery_exact` for `p`, when `BrokerInv r.broker`):
    * the new state is `{ r with pubCount := r.pubCount + 1, broker := b' }` after `deliver` of `evs`
      followed by PUBLISHED(req, p.pubId) to the publisher iff `acknowledge` is the bool true;
    * hence for every attached client `k`: its queue is its old queue offered, in order, the messages
      of that list addressed to `k`, each appended if there is room at that moment and lost otherwise;
      every other queue is untouched;
    * the publication counter grows by one; clients, dealer, closed peers, ghosts, ending, testaments,
      retries, clock and configuration are unchanged; the broker changes only in its history stores. -/
theorem C01_publish_ack (r : Realm) (s : Session) (req : Nat) (opts : Dict) (topic : String)
    (args : List WVal) (kw : Dict) (hv : validUri r.broker.strict "" topic = true)
    (hp : pptRefused s opts = false) (hd : discloseRefused r opts = false) :
    (pubOf r s opts topic args kw).pubId = pubBase + r.pubCount ∧
    handlePublish r s req opts topic args kw =
      ({ r with pubCount := r.pubCount + 1,
                broker := (r.broker.syncPublish r.session? r.now (pubOf r s opts topic args kw)).1 } : Realm).deliver
        ((r.broker.syncPublish r.session? r.now (pubOf r s opts topic args kw)).2 ++
          ackList opts ⟨s.key, .published req (pubBase + r.pubCount)⟩) ∧
    (∀ k c, k ≠ metaKey → r.client? k = some c →
      (handlePublish r s req opts topic args kw).queueOf k =
        accept c.cap (r.queueOf k)
          (msgsTo k ((r.broker.syncPublish r.session? r.now (pubOf r s opts topic args kw)).2 ++
            ackList opts ⟨s.key, .published req (pubBase + r.pubCount)⟩))) ∧
    (∀ k, (k = metaKey ∨ r.client? k = none) →
      (handlePublish r s req opts topic args kw).queueOf k = r.queueOf k) ∧
    (handlePublish r s req opts topic args kw).pubCount = r.pubCount + 1 ∧
    (handlePublish r s req opts topic args kw).broker =
      (r.broker.syncPublish r.session? r.now (pubOf r s opts topic args kw)).1 ∧
    ((handlePublish r s req opts topic args kw).broker.subs = r.broker.subs ∧
     (handlePublish r s req opts topic args kw).broker.index = r.broker.index ∧
     (handlePublish r s req opts topic args kw).broker.nextSub = r.broker.nextSub) ∧
    ((handlePublish r s req opts topic args kw).clients = r.clients ∧
     (handlePublish r s req opts topic args kw).ds = r.ds ∧
     (handlePublish r s req opts topic args kw).closedPeers = r.closedPeers ∧
     (handlePublish r s req opts topic args kw).ghosts = r.ghosts ∧
     (handlePublish r s req opts topic args kw).ending = r.ending ∧
     (handlePublish r s req opts topic args kw).testaments = r.testaments ∧
     (handlePublish r s req opts topic args kw).retries = r.retries ∧
     (handlePublish r s req opts topic args kw).now = r.now ∧
     (handlePublish r s req opts topic args kw).cfg = r.cfg) := by
  have heq := handlePublish_ok r s req opts topic args kw hv hp hd
  obtain ⟨f1, f2, f3, f4, f5, f6, f7, f8, f9, f10, f11⟩ := brokerStep_frame r
    (r.broker.syncPublish r.session? r.now (pubOf r s opts topic args kw)).1 (r.pubCount + 1)
    ((r.broker.syncPublish r.session? r.now (pubOf r s opts topic args kw)).2 ++
      ackList opts ⟨s.key, .published req (pubBase + r.pubCount)⟩)
  refine ⟨rfl, heq, ?_, ?_, by rw [heq, f2], by rw [heq, f1], ?_, ?_⟩
  · intro k c hk hc
    rw [heq]
    exact brokerStep_queue r _ _ _ k c hk hc
  · intro k hk
    rw [heq]
    exact brokerStep_queue_other r _ _ _ k hk
  · rw [heq, f1]
    exact syncPublish_subs _ _ _ _
  · rw [heq]
    exact ⟨f3, f4, f5, f6, f7, f8, f9, f10, f11⟩

/-- non-vacuity of the three hypotheses: a valid topic, no passthru, no disclose_me -/
example : validUri false "" "a.b" = true ∧
    Realm.pptRefused (exSession 1) [("acknowledge", .bool true)] = false ∧
    Realm.discloseRefused {} [("acknowledge", .bool true)] = false := by
  refine ⟨by decide +kernel, by decide +kernel, by decide +kernel⟩

open Realm in
/-- PUBLISH using payload passthru by a publisher that has not announced the feature: ABORT is offered
    to the publisher's queue, the handler schedules its own departure (`leave … aborted`) and marks the
    session as ending; nothing is delivered to anybody else, no publication id is drawn, the broker
    (subscriptions and history) is untouched. -/
theorem C01_publish_ppt_abort (r : Realm) (s : Session) (req : Nat) (opts : Dict) (topic : String)
    (args : List WVal) (kw : Dict) (hv : validUri r.broker.strict "" topic = true)
    (hp : pptRefused s opts = true) :
    handlePublish r s req opts topic args kw =
      { (r.trySend ⟨s.key, abortMsg "<text>"⟩) with
        tasks := (r.trySend ⟨s.key, abortMsg "<text>"⟩).tasks ++ [.leave s.key .aborted],
        ending := (r.trySend ⟨s.key, abortMsg "<text>"⟩).ending ++ [s.key] } ∧
    (∀ k, k ≠ s.key → (handlePublish r s req opts topic args kw).queueOf k = r.queueOf k) ∧
    (handlePublish r s req opts topic args kw).broker = r.broker ∧
    (handlePublish r s req opts topic args kw).pubCount = r.pubCount ∧
    (handlePublish r s req opts topic args kw).clients = r.clients := by
  have heq := handlePublish_ppt r s req opts topic args kw hv hp
  have hf := trySend_frame r ⟨s.key, abortMsg "<text>"⟩
  refine ⟨heq, ?_, ?_, ?_, ?_⟩
  · intro k hk
    rw [heq]
    show (r.trySend ⟨s.key, abortMsg "<text>"⟩).queueOf k = _
    rw [queueOf_trySend, if_neg (fun h => hk h.1.symm)]
  · rw [heq]; exact hf.broker
  · rw [heq]; exact hf.pubCount
  · rw [heq]; exact hf.clients

/-! ### realm level: SUBSCRIBE / UNSUBSCRIBE -/

open Realm in
/-- SUBSCRIBE at realm level.  Invalid topic for (strict, match option): exactly one
    ERROR(SUBSCRIBE, req, invalid_uri) is offered to the sender's queue and nothing else happens (the
    broker is not reached).  Otherwise, with `(b', sends, n) := r.broker.syncSubscribe s.key req topic m
    r.pubCount`: the new state is `{ r with broker := b', pubCount := r.pubCount + n }` after `deliver
    sends` — i.e. every attached client's queue is offered the broker-level sends addressed to it, in
    order (SUBSCRIBED(req, id) for the subscriber, meta EVENTs for the others: `C01_subscribe_stable_id`). -/
theorem C01_subscribe_realm (r : Realm) (s : Session) (req : Nat) (opts : Dict) (topic : String) :
    (validUri r.broker.strict (opts.optString OptMatch) topic = false →
      handleSubscribe r s req opts topic =
        r.trySend ⟨s.key, .error tSUBSCRIBE req [] ErrInvalidURI [.str "<text>"] []⟩ ∧
      (handleSubscribe r s req opts topic).broker = r.broker ∧
      (∀ k, k ≠ s.key → (handleSubscribe r s req opts topic).queueOf k = r.queueOf k)) ∧
    (validUri r.broker.strict (opts.optString OptMatch) topic = true →
      handleSubscribe r s req opts topic =
        ({ r with pubCount := r.pubCount +
                    (r.broker.syncSubscribe s.key req topic (opts.optString OptMatch) r.pubCount).2.2,
                  broker := (r.broker.syncSubscribe s.key req topic (opts.optString OptMatch) r.pubCount).1 } : Realm).deliver
          (r.broker.syncSubscribe s.key req topic (opts.optString OptMatch) r.pubCount).2.1 ∧
      (∀ k c, k ≠ metaKey → r.client? k = some c →
        (handleSubscribe r s req opts topic).queueOf k =
          accept c.cap (r.queueOf k)
            (msgsTo k (r.broker.syncSubscribe s.key req topic (opts.optString OptMatch) r.pubCount).2.1)) ∧
      (∀ k, (k = metaKey ∨ r.client? k = none) → (handleSubscribe r s req opts topic).queueOf k = r.queueOf k) ∧
      (handleSubscribe r s req opts topic).clients = r.clients) := by
  constructor
  · intro hv
    have heq := handleSubscribe_invalid r s req opts topic hv
    have hf := trySend_frame r ⟨s.key, invalidUriErr tSUBSCRIBE req⟩
    refine ⟨heq, by rw [heq]; exact hf.broker, ?_⟩
    intro k hk
    rw [heq]
    show (r.trySend ⟨s.key, invalidUriErr tSUBSCRIBE req⟩).queueOf k = _
    rw [queueOf_trySend, if_neg (fun h => hk h.1.symm)]
  · intro hv
    have heq := handleSubscribe_ok r s req opts topic hv
    refine ⟨heq, ?_, ?_, by rw [heq]; exact (brokerStep_frame r _ _ _).2.2.1⟩
    · intro k c hk hc; rw [heq]; exact brokerStep_queue r _ _ _ k c hk hc
    · intro k hk; rw [heq]; exact brokerStep_queue_other r _ _ _ k hk

open Realm in
/-- UNSUBSCRIBE at realm level: the broker-level sends of `syncUnsubscribe` (UNSUBSCRIBED or ERROR
    no_such_subscription for the sender — `C01_unsubscribe_errors` —, meta EVENTs for the others)
    offered to the queues, on the state with the broker and the publication counter updated. -/
theorem C01_unsubscribe_realm (r : Realm) (s : Session) (req sub : Nat) :
    handleUnsubscribe r s req sub =
      ({ r with pubCount := r.pubCount + (r.broker.syncUnsubscribe s.key req sub r.pubCount).2.2,
                broker := (r.broker.syncUnsubscribe s.key req sub r.pubCount).1 } : Realm).deliver
        (r.broker.syncUnsubscribe s.key req sub r.pubCount).2.1 ∧
    (∀ k c, k ≠ metaKey → r.client? k = some c →
      (handleUnsubscribe r s req sub).queueOf k =
        accept c.cap (r.queueOf k) (msgsTo k (r.broker.syncUnsubscribe s.key req sub r.pubCount).2.1)) ∧
    (∀ k, (k = metaKey ∨ r.client? k = none) → (handleUnsubscribe r s req sub).queueOf k = r.queueOf k) ∧
    (handleUnsubscribe r s req sub).clients = r.clients := by
  have heq := handleUnsubscribe_eq r s req sub
  refine ⟨heq, ?_, ?_, by rw [heq]; exact (brokerStep_frame r _ _ _).2.2.1⟩
  · intro k c hk hc; rw [heq]; exact brokerStep_queue r _ _ _ k c hk hc
  · intro k hk; rw [heq]; exact brokerStep_queue_other r _ _ _ k hk

/-! ### every reachable realm (work package A)

  `Realm.Reachable cfg r` (Nexus/L2/Proofs/RealmInv.lean): `r` is obtained from `Realm.create cfg` by
  external inputs, each run to quiescence (`Realm.step`).  The theorems below discharge, for such
  `r`, the hypotheses under which the broker-level and handler-level theorems above are stated. -/

open Realm in
/-- In every reachable realm the broker satisfies `BrokerInv` (so `C01_delivery_exact`,
    `C01_subscribe_stable_id`, `C01_unsub_others_untouched` apply to `r.broker`), the session table
    `r.session?` is coherent (so `C01_expected_coherent` applies), and every member of every
    subscription is an attached client — not the meta session — found under its own key, as ONE AND THE
    SAME record, in the client table and in the session table: "the sessions that hold a subscription"
    are all attached sessions of this realm.  (The former double statement — some client record and
    some session record — collapses: no client is stored under the meta session's key in a reachable
    realm, so `session?` and `client?` agree on every client key, `Realm.Reachable.session?_of_client?`.) -/
theorem C01_reachable_realm {cfg : Config} {r : Realm} (h : Realm.Reachable cfg r) :
    BrokerInv r.broker ∧ SessCoherent r.session? ∧
    ∀ s ∈ r.broker.subs, ∀ k ∈ s.members,
      k ≠ metaKey ∧ ∃ c ∈ r.clients, c.key = k ∧ r.client? k = some c ∧ r.session? k = some c := by
  obtain ⟨h1, h2, h3⟩ := WpA.reachable_realm h
  refine ⟨h1, h2, fun s hs k hk => ?_⟩
  obtain ⟨⟨c, hc, hck⟩, _⟩ := h3 s hs k hk
  exact ⟨h.client?_ne_meta hc, c, (client?_mem hc).1, hck, hc, h.session?_of_client? hc⟩

open Realm in
/-- the two tables of a reachable realm: on every key but the meta session's `session?` is `client?`; the
    client table has nothing under the meta session's key; client keys are pairwise distinct, so every
    attached client is found under its own key in both tables -/
theorem C01_reachable_tables {cfg : Config} {r : Realm} (h : Realm.Reachable cfg r) :
    (∀ k, k ≠ metaKey → r.session? k = r.client? k) ∧ r.client? metaKey = none ∧
    r.session? metaKey = some r.metaS ∧
    (∀ c ∈ r.clients, c.key ≠ metaKey ∧ r.client? c.key = some c ∧ r.session? c.key = some c) :=
  ⟨fun k => (h.session?_eq k).1, (h.session?_eq metaKey).2.1, (h.session?_eq metaKey).2.2,
   fun c hc => ⟨h.metaSafe.noClient c hc, h.find?_client hc, h.session?_client hc⟩⟩

/-- a concrete reachable realm: history on prefix "a.", session 1 attached and subscribed to "a.b" -/
def exCfg : Config := { history := [("a.", "prefix", 2)] }
def exR0 : Realm := (Realm.create exCfg).getD {}
theorem exR0_create : Realm.create exCfg = some exR0 := by
  have h : (Realm.create exCfg).isSome = true := by decide +kernel
  unfold exR0
  cases hc : Realm.create exCfg with
  | none => rw [hc] at h; cases h
  | some r => rfl
def exR : Realm :=
  ((exR0.step (.join 1 false [("authid", .str "u")] [("subscriber", ["publisher_identification"])] 8)).2.step
    (.msg 1 (.subscribe 1 [] "a.b"))).2
theorem exR_reachable : Realm.Reachable exCfg exR := .step _ (.step _ (.init exR0_create))

example : exR.broker.subs.map (fun s => (s.id, s.topic, s.members)) = [(1, "a.", []), (2, "a.b", [1])] := by
  decide +kernel

open Realm in
/-- The message switch.  A PUBLISH / SUBSCRIBE / UNSUBSCRIBE received from the attached client `k`
    (client record `s`), whose handler is not ending and not busy in the yield retry loop, and which
    the authorizer lets through, IS the call of the handler the realm-level theorems above are about
    (`stepOp` is the first half of `Realm.step`; the rest is the draining of internal tasks). -/
theorem C01_step_publish (r : Realm) (k : SessKey) (s : Session) (req : Nat) (opts : Dict) (topic : String)
    (args : List WVal) (kw : Dict)
    (hc : r.client? k = some s) (he : r.ending.contains k = false) (hb : r.busy k = false)
    (ha : (authzGate r s (.publish req opts topic args kw)).1 = true) :
    r.stepOp (.msg k (.publish req opts topic args kw)) = handlePublish r s req opts topic args kw :=
  WpA.stepOp_msg_dispatch r k s _ hc he hb ha

open Realm in
theorem C01_step_subscribe (r : Realm) (k : SessKey) (s : Session) (req : Nat) (opts : Dict) (topic : String)
    (hc : r.client? k = some s) (he : r.ending.contains k = false) (hb : r.busy k = false)
    (ha : (authzGate r s (.subscribe req opts topic)).1 = true) :
    r.stepOp (.msg k (.subscribe req opts topic)) = handleSubscribe r s req opts topic :=
  WpA.stepOp_msg_dispatch r k s _ hc he hb ha

open Realm in
theorem C01_step_unsubscribe (r : Realm) (k : SessKey) (s : Session) (req sub : Nat)
    (hc : r.client? k = some s) (he : r.ending.contains k = false) (hb : r.busy k = false)
    (ha : (authzGate r s (.unsubscribe req sub)).1 = true) :
    r.stepOp (.msg k (.unsubscribe req sub)) = handleUnsubscribe r s req sub :=
  WpA.stepOp_msg_dispatch r k s _ hc he hb ha

open Realm in
/-- … and a message the authorizer refuses never reaches the broker: the state is `r` after the
    authorizer's (at most one) ERROR reply; broker and publication counter are untouched. -/
theorem C01_step_denied (r : Realm) (k : SessKey) (s : Session) (m : Msg)
    (hc : r.client? k = some s) (he : r.ending.contains k = false) (hb : r.busy k = false)
    (ha : (authzGate r s m).1 = false) :
    r.stepOp (.msg k m) = (authzGate r s m).2 ∧
    (r.stepOp (.msg k m)).broker = r.broker ∧ (r.stepOp (.msg k m)).pubCount = r.pubCount := by
  have h := WpA.stepOp_msg_denied r k s m hc he hb ha
  have q := WpA.quiet_authzGate r s m
  exact ⟨h, by rw [h]; exact q.broker, by rw [h]; exact q.pubCount⟩

open Realm in
/-- non-vacuity: in the example realm session 1 is attached, not ending, not busy, and (no authorizer
    configured) every message passes the gate -/
example : ∃ s, exR.client? 1 = some s ∧ exR.ending.contains 1 = false ∧ exR.busy 1 = false ∧
    (authzGate exR s (.publish 7 [] "a.b" [] [])).1 = true := by
  have h : (exR.client? 1).isSome = true := by decide +kernel
  cases hc : exR.client? 1 with
  | none => rw [hc] at h; cases h
  | some s =>
    refine ⟨s, rfl, by decide +kernel, by decide +kernel, ?_⟩
    have hcfg : exR.cfg.authz = none := by decide +kernel
    unfold authzGate; rw [hcfg]

open Realm in
/-- PUBLISH in a reachable realm, all clauses together.  Let `r` be reachable, `k` an attached
    client (record `s`) whose handler is free, the PUBLISH allowed by the authorizer, the topic valid
    for the realm's strictness, payload passthru and `disclose_me` not refused.  With
    `p := pubOf r s opts topic args kw` (publisher `k`, id `pubBase + r.pubCount`) and
    `evs := (r.broker.syncPublish r.session? r.now p).2`:
    * the input is handled as `C01_publish_ack` says;
    * `Expected` reads: `s'` is a subscription of the realm matching the topic under its policy, `k'` is
      a member, attached as `c`, `k'` is not the publisher `k` unless `exclude_me` is the bool false,
      and `k'` is not ruled out by the options; every member of every subscription IS attached;
    * `evs` are exactly the expected EVENTs, each expected pair exactly once, nothing else;
    * every attached client's queue is its old queue offered, in order, its part of `evs` and (for the
      publisher, iff acknowledged) PUBLISHED with the same publication id. -/
theorem C01_publish_reachable {cfg : Config} {r : Realm} (h : Realm.Reachable cfg r)
    (k : SessKey) (s : Session) (req : Nat) (opts : Dict) (topic : String) (args : List WVal) (kw : Dict)
    (hc : r.client? k = some s) (he : r.ending.contains k = false) (hb : r.busy k = false)
    (ha : (authzGate r s (.publish req opts topic args kw)).1 = true)
    (hv : validUri cfg.strict "" topic = true) (hp : pptRefused s opts = false)
    (hd : (opts.optFlag OptDiscloseMe && !cfg.allowDisclose) = false) :
    r.stepOp (.msg k (.publish req opts topic args kw)) =
      ({ r with pubCount := r.pubCount + 1,
                broker := (r.broker.syncPublish r.session? r.now (pubOf r s opts topic args kw)).1 } : Realm).deliver
        ((r.broker.syncPublish r.session? r.now (pubOf r s opts topic args kw)).2 ++
          ackList opts ⟨k, .published req (pubBase + r.pubCount)⟩) ∧
    (pubOf r s opts topic args kw).publisher = k ∧
    (pubOf r s opts topic args kw).pubId = pubBase + r.pubCount ∧
    ((pubOf r s opts topic args kw).excludePub = false ↔ opts.get? OptExcludeMe = some (.bool false)) ∧
    (∀ s' k' c, Expected r.broker r.session? (pubOf r s opts topic args kw) s' k' c ↔
        s' ∈ r.broker.subs ∧ s'.matchesTopic topic = true ∧ k' ∈ s'.members ∧ r.session? k' = some c ∧
        ¬(k' = k ∧ (pubOf r s opts topic args kw).excludePub = true) ∧ ¬ ruledOut opts (sidOf k') c.details) ∧
    (∀ s' ∈ r.broker.subs, ∀ k' ∈ s'.members, ∃ c, r.session? k' = some c ∧ c.key = k') ∧
    (∀ x ∈ (r.broker.syncPublish r.session? r.now (pubOf r s opts topic args kw)).2,
        ∃ s' k' c, Expected r.broker r.session? (pubOf r s opts topic args kw) s' k' c ∧
          x = ⟨k', expectedEvent (pubOf r s opts topic args kw) s' c⟩) ∧
    (∀ s' k' c, Expected r.broker r.session? (pubOf r s opts topic args kw) s' k' c →
        through (r.broker.syncPublish r.session? r.now (pubOf r s opts topic args kw)).2 k' s'.id =
          [⟨k', expectedEvent (pubOf r s opts topic args kw) s' c⟩]) ∧
    (∀ k' id, (¬ ∃ s' c, s'.id = id ∧ Expected r.broker r.session? (pubOf r s opts topic args kw) s' k' c) →
        through (r.broker.syncPublish r.session? r.now (pubOf r s opts topic args kw)).2 k' id = []) ∧
    (∀ k', (¬ ∃ s' c, Expected r.broker r.session? (pubOf r s opts topic args kw) s' k' c) →
        ∀ x ∈ (r.broker.syncPublish r.session? r.now (pubOf r s opts topic args kw)).2, x.to ≠ k') ∧
    (∀ k' c, r.client? k' = some c →
      (r.stepOp (.msg k (.publish req opts topic args kw))).queueOf k' =
        accept c.cap (r.queueOf k')
          (msgsTo k' ((r.broker.syncPublish r.session? r.now (pubOf r s opts topic args kw)).2 ++
            ackList opts ⟨k, .published req (pubBase + r.pubCount)⟩))) := by
  obtain ⟨hbi, hco, hmem⟩ := C01_reachable_realm h
  obtain ⟨f1, _, f3, _, _, _⟩ := WpA.flags_const h
  have hk : s.key = k := (client?_mem hc).2
  subst hk
  have hv' : validUri r.broker.strict "" topic = true := by rw [f3]; exact hv
  have hd' : discloseRefused r opts = false := by unfold discloseRefused; rw [f1]; exact hd
  have hstep := C01_step_publish r s.key s req opts topic args kw hc he hb ha
  obtain ⟨a1, a2, a3, _⟩ := C01_publish_ack r s req opts topic args kw hv' hp hd'
  obtain ⟨d1, d2, d3, d4⟩ := C01_delivery_exact hbi r.session? r.now (pubOf r s opts topic args kw)
  refine ⟨hstep.trans a2, rfl, rfl, ?_, ?_, ?_, d1, d2, d3, d4, ?_⟩
  · show (match opts.get? OptExcludeMe with | some (.bool b) => b | _ => true) = false ↔ _
    split
    · rename_i b hb'; rw [hb']; constructor
      · intro e; rw [e]
      · intro e; cases e; rfl
    · rename_i hne
      constructor
      · intro e; cases e
      · intro e; exact absurd e (hne false)
  · intro s' k' c
    exact C01_expected_coherent hco _ s' k' c
  · intro s' hs' k' hk'
    obtain ⟨_, c, _, hck, _, hcs⟩ := hmem s' hs' k' hk'
    exact ⟨c, hcs, hck⟩
  · intro k' c hc'
    rw [hstep]
    exact a3 k' c (h.client?_ne_meta hc') hc'

open Realm in
/-- non-vacuity of the remaining hypotheses for the example realm -/
example : validUri exCfg.strict "" "a.b" = true ∧
    (Dict.optFlag ([] : Dict) OptDiscloseMe && !exCfg.allowDisclose) = false ∧
    ∀ s, pptRefused s [] = false := by
  refine ⟨by decide +kernel, by decide +kernel, fun s => ?_⟩
  unfold pptRefused
  have : (pptScheme [] != "") = false := by decide +kernel
  rw [this]; rfl

/-! ### subscription ids over whole histories (work package A) -/

/-- History-level stability of subscription ids.  From any broker state satisfying the invariant,
    after ANY sequence of steps: every subscription is either an old one (same id, same topic, same
    policy) or carries an id greater than every id handed out before (`nextSub`). -/
theorem C01_id_never_reused {b : Broker} (hb : BrokerInv b) (steps : List BStep) :
    ∀ s' ∈ (b.run steps).subs,
      (∃ s ∈ b.subs, s'.id = s.id ∧ s'.topic = s.topic ∧ s'.«match» = s.«match») ∨ b.nextSub < s'.id :=
  WpA.C01_id_never_reused hb steps

/-- … hence the id generator never goes back and, as long as an id denotes a subscription, it denotes
    the same (topic, policy). -/
theorem C01_id_stable {b : Broker} (hb : BrokerInv b) (steps : List BStep) :
    b.nextSub ≤ (b.run steps).nextSub ∧
    ∀ s ∈ b.subs, ∀ s' ∈ (b.run steps).subs, s'.id = s.id →
      s'.topic = s.topic ∧ s'.«match» = s.«match» :=
  WpA.C01_id_stable hb steps

/-- … between any two moments of a history -/
theorem C01_id_stable_between {b : Broker} (hb : BrokerInv b) (steps1 steps2 : List BStep) :
    ∀ s ∈ (b.run steps1).subs, ∀ s' ∈ (b.run (steps1 ++ steps2)).subs, s'.id = s.id →
      s'.topic = s.topic ∧ s'.«match» = s.«match» :=
  WpA.C01_id_stable_between hb steps1 steps2

/-- … and once its subscription has been deleted an id is never handed out again. -/
theorem C01_id_not_reused_after_delete {b : Broker} (hb : BrokerInv b) (steps1 steps2 steps3 : List BStep)
    {s : Sub} (hs : s ∈ (b.run steps1).subs)
    (hgone : ∀ s2 ∈ (b.run (steps1 ++ steps2)).subs, s2.id ≠ s.id) :
    ∀ s3 ∈ (b.run (steps1 ++ steps2 ++ steps3)).subs, s3.id ≠ s.id :=
  WpA.C01_id_not_reused_after_delete hb steps1 steps2 steps3 hs hgone

/-- non-vacuity (see Nexus/L2/Proofs/WpABkC01.lean for the evaluated history): subscribe "t" → id 1,
    unsubscribe → deleted, subscribe "t" again → id 2 -/
example : ∃ s ∈ (({} : Broker).run WpA.exSteps1).subs, s.id = 1 ∧
    ∀ s2 ∈ (({} : Broker).run (WpA.exSteps1 ++ WpA.exSteps2)).subs, s2.id ≠ s.id := by
  have h1 : (({} : Broker).run WpA.exSteps1).subs.map (·.id) = [1] := by decide
  have h2 : (({} : Broker).run (WpA.exSteps1 ++ WpA.exSteps2)).subs.map (·.id) = [] := by decide
  have hm : 1 ∈ (({} : Broker).run WpA.exSteps1).subs.map (·.id) := by rw [h1]; simp
  obtain ⟨s, hs, hid⟩ := List.mem_map.mp hm
  refine ⟨s, hs, hid, ?_⟩
  intro s2 hs2
  have : s2.id ∈ (({} : Broker).run (WpA.exSteps1 ++ WpA.exSteps2)).subs.map (·.id) := List.mem_map.mpr ⟨s2, hs2, rfl⟩
  rw [h2] at this
  cases this

/-- The same for realms: one external input (run to quiescence) takes a reachable realm's broker
    through some broker steps, so every subscription after it is an old one with the same id, topic
    and policy, or has a fresh id; by induction along `Realm.Reachable` this covers whole realm
    histories. -/
theorem C01_id_stable_realm {cfg : Config} {r : Realm} (h : Realm.Reachable cfg r) (op : Realm.Op) :
    (∀ s' ∈ (r.step op).2.broker.subs,
      (∃ s ∈ r.broker.subs, s'.id = s.id ∧ s'.topic = s.topic ∧ s'.«match» = s.«match») ∨
        r.broker.nextSub < s'.id) ∧
    r.broker.nextSub ≤ (r.step op).2.broker.nextSub := by
  obtain ⟨steps, hb, _⟩ := (WpA.evo_step r op).run
  have hbi := (C01_reachable_realm h).1
  rw [hb]
  exact ⟨C01_id_never_reused hbi steps, (C01_id_stable hbi steps).1⟩

/-! ### the publication the realm hands to the broker -/

open Realm in
/-- `pubOf` — the publication `handlePublish` hands to the broker (`C01_publish_ack`) — carries
    payload-passthru details WITHOUT `topic` and without publisher keys (so the side condition of
    `C01_event_topic` holds for it, not just for a look-alike expression), and excludes the publisher
    unless `exclude_me` is the bool false. -/
theorem C01_pubOf_base (r : Realm) (s : Session) (opts : Dict) (topic : String) (args : List WVal) (kw : Dict) :
    (∀ key, key = "topic" ∨ isPublisherKey key →
        (pubOf r s opts topic args kw).baseDetails.get? key = none) ∧
    ((pubOf r s opts topic args kw).excludePub = false ↔ opts.get? OptExcludeMe = some (.bool false)) :=
  WpA.C01_pubOf_base r s opts topic args kw

/-- hence, for the publication actually handed over: EVENT details carry `topic = the published topic`
    exactly for pattern-based subscriptions -/
theorem C01_event_topic_realm (r : Realm) (s : Session) (opts : Dict) (topic : String) (args : List WVal) (kw : Dict)
    (sub : Sub) (c : Session) :
    ((eventDetails (Realm.pubOf r s opts topic args kw) sub.isPattern (some c)).get? "topic" = some (.str topic) ↔
        sub.isPattern = true) ∧
    (sub.isPattern = false →
      (eventDetails (Realm.pubOf r s opts topic args kw) sub.isPattern (some c)).get? "topic" = none) :=
  C01_event_topic (Realm.pubOf r s opts topic args kw) sub c ((C01_pubOf_base r s opts topic args kw).1 "topic" (Or.inl rfl))

end Nexus.C01
