/-
  C08 (realm-model half) — Per-peer ordering guarantees.

  Property text (the clauses proved here).  "Events published by one session to one topic reach each
  subscriber, per subscription, in publication order; […] A session sees SUBSCRIBED before the first
  EVENT and no EVENT after UNSUBSCRIBED for that subscription […] regardless of what any other
  sessions do at the same time."

  About the realm model's handlers `Realm.handlePublish` / `handleSubscribe` / `handleUnsubscribe`
  (Nexus/L2/Realm.lean) INCLUDING the bounded router→client queues: a message that finds its queue
  full is lost, so the statements are about subsequences.  Vocabulary in
  Nexus/L2/Proofs/RealmPublish.lean (`PubReq`, `publishSeq`, `publishedIds`, `evPubOf`, `eventsOf`,
  `BMsg`, `handleB`, `runB`) and RealmQueue.lean (`queueOf`, `accept`, `client?`).  The broker-level
  statement without queues is Nexus/Props/C08Broker.lean; the arrival order of one session's messages
  at the broker goroutine is the L3 part (Nexus/Props/C08.lean).

  clause                                                              theorem
  ------------------------------------------------------------------  --------------------------------
  for a sequence of PUBLISH messages of one session handled in order,
    the queue of recipient k only grows, and the EVENTs it gains
    through subscription i carry, in queue order, a SUBSEQUENCE of the
    publication ids drawn for those requests in request order (an EVENT
    is missing iff k's queue was full then); those ids are strictly
    increasing                                                         C08_realm_event_order
  EVENTs for (k, i) are only produced while k is a member of i: a
    broker-facing step of ANY session adds no EVENT of subscription i
    to the queue of a session that is not a member of i when the step
    begins — nor does any sequence of such steps throughout which k is
    not a member                                                       C08_sub_bracket (1), (2)
  the SUBSCRIBE step of k offers k's queue exactly SUBSCRIBED(req, i)
    — no EVENT — and makes k a member of i: so no EVENT of i can be
    queued to k before the SUBSCRIBED that starts its membership        C08_sub_bracket (3)
  the UNSUBSCRIBE step of a member k offers k's queue exactly
    UNSUBSCRIBED(req) and ends the membership: so no EVENT of i is
    queued to k after it (until k subscribes again)                     C08_sub_bracket (4)

  the messages ONE session sends to the router are read in the order
    sent, also across a stay of its handler in the yield retry loop:
    what it sends meanwhile is appended to `inbox` behind what already
    waits, and is released in that order (as consecutive `inMsg` tasks,
    which `drain` runs oldest first) when the loop ends; nothing of
    another session's waiting messages is reordered                    C08_inbox_order

  What is NOT proved here: the bracket as a single statement over arbitrary `Realm.step` histories
  (joins, departures, meta-API calls, dealer traffic, `flush`).  The pieces above cover the three
  broker-facing handlers run by any sessions in any order; that no other part of the realm model
  queues EVENTs except through `handlePublish` (meta publications) and `syncRemoveSession`'s meta
  events (to members, by `Nexus.L2.bmetaEvent_member`) is visible in the model but not stated as a
  trace theorem.
-/
import Nexus.L2.Proofs.RealmPublish
import Nexus.L2.Proofs.DealerRealmRpc
import Nexus.L2.Proofs.RealmKeys

namespace Nexus.C08
open Nexus.L2 Nexus.L2.Realm Gen.N

/-- One publisher `s`, a sequence of PUBLISH requests handled one after the other (whatever their
    topics and options; refused ones draw no id), a recipient `k` attached with session record `c`,
    a subscription id `i`, from any realm state whose broker satisfies `BrokerInv`:
    the queue of `k` afterwards is its queue before plus `added`; the publication ids of the EVENTs of
    subscription `i` in `added`, in queue order, form a sublist of the ids drawn for the requests in
    request order; and those ids are pairwise increasing (so the EVENTs are in publication order). -/
theorem C08_realm_event_order {r : Realm} (hb : BrokerInv r.broker) (s : Session) (ps : List PubReq)
    (k : SessKey) (c : Session) (hk : k ≠ metaKey) (hc : r.client? k = some c) (i : Nat) :
    (∃ added, (publishSeq r s ps).queueOf k = r.queueOf k ++ added ∧
        (added.filterMap (evPubOf i)).Sublist (publishedIds r s ps)) ∧
    (publishedIds r s ps).Pairwise (· < ·) ∧
    (∀ n ∈ publishedIds r s ps, pubBase + r.pubCount ≤ n) :=
  ⟨publishSeq_events s k c hk i ps hb hc, (publishedIds_increasing s ps r).2, (publishedIds_increasing s ps r).1⟩

/-- The SUBSCRIBED … UNSUBSCRIBED bracket, for the broker-facing handlers run by any sessions:
    (1) a step adds no EVENT of subscription `i` to the queue of a session `k` that is not a member of
        `i` when the step begins;
    (2) hence neither does a sequence of steps before each of which `k` is not a member of `i`;
    (3) `k`'s own SUBSCRIBE (valid URI) offers its queue exactly SUBSCRIBED(req, id), no EVENT, and
        afterwards `k` is a member of `id`;
    (4) `k`'s UNSUBSCRIBE from a subscription it is a member of offers its queue exactly
        UNSUBSCRIBED(req) and afterwards `k` is not a member (so (1)/(2) apply again). -/
theorem C08_sub_bracket {r : Realm} (hb : BrokerInv r.broker) (k : SessKey) (i : Nat) :
    (∀ m, ¬ r.broker.isMember k i → eventsOf i ((handleB r m).queueOf k) = eventsOf i (r.queueOf k)) ∧
    (∀ l, (∀ pre m post, l = pre ++ m :: post → ¬ (runB r pre).broker.isMember k i) →
      eventsOf i ((runB r l).queueOf k) = eventsOf i (r.queueOf k)) ∧
    (∀ (s c : Session) req opts topic, s.key = k → k ≠ metaKey → r.client? k = some c →
      validUri r.broker.strict (opts.optString OptMatch) topic = true →
      ∃ id, (handleSubscribe r s req opts topic).queueOf k = accept c.cap (r.queueOf k) [.subscribed req id] ∧
        (handleSubscribe r s req opts topic).broker.isMember k id) ∧
    (∀ (s c : Session) req, s.key = k → k ≠ metaKey → r.client? k = some c → r.broker.isMember k i →
      (handleUnsubscribe r s req i).queueOf k = accept c.cap (r.queueOf k) [.unsubscribed req] ∧
      ¬ (handleUnsubscribe r s req i).broker.isMember k i) := by
  refine ⟨fun m h => handleB_no_events hb m k i h, fun l h => runB_no_events k i l hb h, ?_, ?_⟩
  · intro s c req opts topic hs hk hc hv
    subst hs
    exact handleSubscribe_reply hb s c req opts topic hv hk hc
  · intro s c req hs hk hc hm
    subst hs
    exact (handleUnsubscribe_reply hb s c req i hk hc).1 hm

/-- `C08_realm_event_order` and the reply clauses (3), (4) of `C08_sub_bracket` in every REACHABLE realm
    (any history of inputs): the hypotheses `BrokerInv r.broker` and `k ≠ metaKey` are discharged — the
    broker invariant holds in every reachable realm, and no client is stored under the meta session's key
    (`Realm.Reachable.client?_ne_meta`), so "k is attached with record c" is all that is asked. -/
theorem C08_realm_event_order_reachable {cfg : Config} {r : Realm} (h : Realm.Reachable cfg r) (s : Session)
    (ps : List PubReq) (k : SessKey) (c : Session) (hc : r.client? k = some c) (i : Nat) :
    (∃ added, (publishSeq r s ps).queueOf k = r.queueOf k ++ added ∧
        (added.filterMap (evPubOf i)).Sublist (publishedIds r s ps)) ∧
    (publishedIds r s ps).Pairwise (· < ·) ∧
    (∀ n ∈ publishedIds r s ps, pubBase + r.pubCount ≤ n) :=
  C08_realm_event_order h.inv.1.binv s ps k c (h.client?_ne_meta hc) hc i

theorem C08_sub_bracket_reachable {cfg : Config} {r : Realm} (h : Realm.Reachable cfg r) (k : SessKey) (i : Nat) :
    (∀ m, ¬ r.broker.isMember k i → eventsOf i ((handleB r m).queueOf k) = eventsOf i (r.queueOf k)) ∧
    (∀ l, (∀ pre m post, l = pre ++ m :: post → ¬ (runB r pre).broker.isMember k i) →
      eventsOf i ((runB r l).queueOf k) = eventsOf i (r.queueOf k)) ∧
    (∀ (s c : Session) req opts topic, s.key = k → r.client? k = some c →
      validUri r.broker.strict (opts.optString OptMatch) topic = true →
      ∃ id, (handleSubscribe r s req opts topic).queueOf k = accept c.cap (r.queueOf k) [.subscribed req id] ∧
        (handleSubscribe r s req opts topic).broker.isMember k id) ∧
    (∀ (s c : Session) req, s.key = k → r.client? k = some c → r.broker.isMember k i →
      (handleUnsubscribe r s req i).queueOf k = accept c.cap (r.queueOf k) [.unsubscribed req] ∧
      ¬ (handleUnsubscribe r s req i).broker.isMember k i) := by
  obtain ⟨b1, b2, b3, b4⟩ := C08_sub_bracket h.inv.1.binv k i
  exact ⟨b1, b2, fun s c req opts topic hs hc hv => b3 s c req opts topic hs (h.client?_ne_meta hc) hc hv,
    fun s c req hs hc hm => b4 s c req hs (h.client?_ne_meta hc) hc hm⟩

/-- NOT REORDERED.  Session `k` (attached, `buffered`, not ending) sends `m1`, then `m2`, while its handler is in
    the yield retry loop; then the loop ends (the turn `x` of callee `k` answers `again = false`).  The task
    list then is: the tasks from before, what the turn itself queued, then `k`'s waiting messages as
    `inMsg` tasks — those that already waited, then `m1`, then `m2` — then `k`'s deferred departures.
    `drain` runs the task list from the front (`Realm.drain_succ_cons`), so `m1` is read before `m2`.
    The waiting messages of any other session are the same, in the same order, before and after. -/
theorem C08_inbox_order (r : Realm) (k : SessKey) (s : Session) (m1 m2 : Msg) (x : Retry)
    (hb : r.busy k = true) (hf : r.clients.find? (fun c => c.key == k) = some s) (hbuf : s.buffered = true)
    (he : r.ending.contains k = false) (hx : x.callee = k) :
    let r2 := (r.stepOp (.msg k m1)).stepOp (.msg k m2)
    r2 = { r with inbox := r.inbox ++ [(k, m1), (k, m2)] } ∧
    ((retryOut r2 x).again = false →
      (r2.retryDue x).tasks =
        r.tasks ++ retryTasks r2 x ++ (inboxOf r k ++ [m1, m2]).map (Task.inMsg k) ++
          ((r.deferred.filter (fun d => d.1 == k)).map (·.2)).map (Task.leave k) ∧
      inboxOf (r2.retryDue x) k = [] ∧
      (∀ k', k' ≠ k → inboxOf (r2.retryDue x) k' = inboxOf r k')) := by
  intro r2
  have e1 : r.stepOp (.msg k m1) = { r with inbox := r.inbox ++ [(k, m1)] } := by
    rw [stepOp_msg]; exact recvMsg_buffered m1 hb hf hbuf he
  have e2 : r2 = { r with inbox := r.inbox ++ [(k, m1), (k, m2)] } := by
    show (r.stepOp (.msg k m1)).stepOp (.msg k m2) = _
    rw [e1, stepOp_msg,
      recvMsg_buffered (r := { r with inbox := r.inbox ++ [(k, m1)] }) m2 hb hf hbuf he]
    simp only [List.append_assoc, List.cons_append, List.nil_append]
  refine ⟨e2, fun ha => ?_⟩
  obtain ⟨h1, _, _, h4, h5⟩ := retryDue_release r2 x ha
  have hin : inboxOf r2 k = inboxOf r k ++ [m1, m2] := by
    rw [e2]
    unfold inboxOf
    simp [List.filter_append]
  have hin' : ∀ k', k' ≠ k → inboxOf r2 k' = inboxOf r k' := by
    intro k' hk'
    have : ¬ k = k' := fun e => hk' e.symm
    rw [e2]
    unfold inboxOf
    simp [List.filter_append, this]
  rw [hx] at h1 h4 h5
  refine ⟨?_, h4, fun k' hk' => (h5 k' hk').trans (hin' k' hk')⟩
  rw [h1, hin, e2]

-- `drain` takes the oldest task first
example (fuel : Nat) (r : Realm) (t : Task) (ts : List Task) (h : r.tasks = t :: ts) :
    drain (fuel + 1) r = drain fuel (runTask { r with tasks := ts } t) := drain_succ_cons fuel r t ts h

/-- the invariant `BrokerInv r.broker` used above is kept by every broker-facing step -/
theorem C08_steps_keep_inv {r : Realm} (hb : BrokerInv r.broker) (m : BMsg) : BrokerInv (handleB r m).broker :=
  handleB_binv hb m

/-- non-vacuity: a realm state with an attached non-member (session 2 of subscription 1) -/
example : ∃ (r : Realm) (c : Session), BrokerInv r.broker ∧ r.client? 2 = some c ∧ (2 : SessKey) ≠ metaKey ∧
    ¬ r.broker.isMember 2 1 ∧ r.broker.isMember 1 1 := by
  refine ⟨{ broker := (({} : Broker).syncSubscribe 1 1 "t" "exact" 0).1,
            clients := [{ key := 1, details := [], roles := [], isLocal := false },
                        { key := 2, details := [], roles := [], isLocal := false }] },
    { key := 2, details := [], roles := [], isLocal := false },
    (BrokerInv.empty false false).subscribe 1 1 "t" "exact" 0, by rfl, by decide, ?_, ?_⟩
  · rintro ⟨s, hs, h1, h2⟩
    have : (({} : Broker).syncSubscribe 1 1 "t" "exact" 0).1.subs =
        [{ id := 1, topic := "t", «match» := "exact", members := [1] }] := by rfl
    rw [this] at hs
    simp at hs; subst hs; simp at h2
  · exact ⟨{ id := 1, topic := "t", «match» := "exact", members := [1] }, by
      have : (({} : Broker).syncSubscribe 1 1 "t" "exact" 0).1.subs =
          [{ id := 1, topic := "t", «match» := "exact", members := [1] }] := by rfl
      show _ ∈ (({} : Broker).syncSubscribe 1 1 "t" "exact" 0).1.subs
      rw [this]; simp, rfl, by simp⟩

end Nexus.C08
