/-
  C06 (realm/router-model half) — Router.Close and RemoveRealm are safe at any moment.

  Property text.  "Closing the router or removing a realm at any point - with handshakes,
  publications, calls, call timers, kills and disconnects in flight - always returns, never panics
  then or later (for instance when a timer of a call that was pending expires), tells every attached
  client GOODBYE wamp.close.system_shutdown or closes its transport, answers later attach attempts
  with an error or ABORT rather than a crash, and leaves no goroutine of the router behind.  Sessions
  of realms that were not removed are unaffected."

  This file is about the L2 model: `Router.shutdownRealm` (realm.close: the retry loops, deferred
  departures, waiting inbound messages and pending tasks are dropped — the handlers see `recvDone` —,
  then every attached client leaves in mode `.shutdown`, then the clients look: `flush`),
  `Router.step` for `.close`, `.removeRealm`, `.join`, `.addRealm`, `.sess`, `.tick`.  "At any
  moment" = the theorems hold for EVERY realm state satisfying the invariant `RealmInv` (every
  reachable state does, with calls, invocations, retry loops, deferred departures, pending tasks …
  in flight) and for every router state.  The concurrency half ("always returns", "no goroutine
  left", no post to a stopped goroutine) is Nexus/Props/C06.lean (L3).

  Vocabulary (Nexus/L2/Proofs/WpCShutdown.lean, WpCShutdownRouter.lean, RealmQueue.lean):
    `byeMsg`        GOODBYE [] wamp.close.system_shutdown;
    `r.queueOf k`   the messages buffered for session k (first queue entry of k), `qlook` on a table;
    `sayBye qs c`   the queue table after GOODBYE has been offered to client c (appended iff room);
    `isAttach op`   op is a `.join` or an `.addRealm`;  `runROps rt ops` the router after a list of ops;
    `RealmsOk rt`   every realm of the table satisfies `RealmInv` and holds at most a fuel marker.

  clause                                                            theorem
  ----------------------------------------------------------------  ---------------------------------
  "tells every attached client GOODBYE system_shutdown or closes     C06_shutdown_tells_everyone
  its transport": after `shutdownRealm` nobody is attached, nothing
  is pending (retries, deferred, inbox, tasks), no panic; broker and
  dealer hold nothing of a client (C05_returns_to_empty), no
  testament of a client is left; EVERY client's peer is closed (seen
  at once by a reading client, after `resume` by a stalled one);
  EVERY client whose queue has room gets GOODBYE as its LAST message;
  a full queue is left as it is; nothing but those GOODBYEs is
  produced (quiet: no ERROR to callers, no meta event, no testament)
  … the exact observation: `out`, `closed`, the queues, ghosts and     C06_shutdown_exact
  closed peers kept, as functions of the state before
  … in a REACHABLE realm (any history of inputs) no hypothesis on      C06_shutdown_reachable,
  keys is left: client keys are distinct, none is the meta key, so      C06_goodbye_any_key_full (def),
  EVERY reading client with room reads its buffer, then GOODBYE         C06_goodbye_any_key_full_holds
  … at the level of arbitrary states satisfying `RealmInv` the          C06_goodbye_any_key_state (def),
  GOODBYE clause does need "the client does not carry the meta key"     C06_goodbye_any_key_state_fails
  … for every realm of a router reachable by ANY history the           C06_reachable_realms_ok
  invariant holds (so only "distinct client keys" is assumed)
  Router.Close / RemoveRealm tell every client of every / the realm    C06_close_tells_everyone,
                                                                     C06_remove_tells_everyone
  … in a REACHABLE router with no hypothesis on the realm or its keys    C06_close_tells_everyone_reachable,
                                                                     C06_remove_tells_everyone_reachable,
                                                                     C06_close_no_panic_reachable
  "answers later attach attempts with an error": once closed, every   C06_closed_forever,
  later operation leaves the router unchanged, produces nothing, and   C06_close_is_final,
  every `.join` / `.addRealm` is refused — for every later history      C06_closed_realms_empty
  after RemoveRealm A: A is gone from the table; a join to A is        C06_removed_realm_refuses
  refused (no template) until an AddRealm with that URI; operations
  of A's former sessions produce nothing and change nothing; the
  clock does not touch A (none of its timers can fire); with a
  template the join re-creates A FRESH from the template
  "Sessions of realms that were not removed are unaffected"            C06_others_unaffected (= C11_remove_add),
                                                                     C06_close_only_own_sessions (= C11_close)

  HYPOTHESES ON SESSION KEYS (state-level theorems): client keys of one realm are distinct; the
  GOODBYE clause excludes a client carrying `metaKey` (= 0, the meta session).  Both hold in EVERY
  reachable realm, for any history of inputs (`Realm.Reachable.clients_wf`: `join` under a key in use
  or under the meta key is a no-op of the model), so `C06_shutdown_reachable` has neither.  Where a
  clause is about a reading client, its key is not the key of a ghost (a departed stalled session
  whose key was reused — the model names queues by session key).

  NOT here: "always returns" and "no goroutine left" (L3 / observed); `realms := []` makes "a call
  timer of a closed realm fires later" impossible in L2 by construction (audit C06 (c)).
-/
import Nexus.L2.Proofs.WpCShutdown
import Nexus.L2.Proofs.WpCShutdownRouter
import Nexus.Props.C05
import Nexus.L2.Proofs.RealmKeys
import Nexus.L2.Proofs.RouterKeys
import Nexus.Props.C11

namespace Nexus.C06
open Nexus.L2 Nexus.L2.Realm Nexus.L2.Router Nexus.L2.WpC Nexus.Gen.N

/-! ## `realm.close`: everybody is told -/

/-- THE EXACT OBSERVATION of `realm.close`.  With `T` = the queue table after GOODBYE has been offered
    to every client in turn (`sayBye`: appended iff the queue has room), `G` = the old ghosts plus the
    clients that were not reading, `P` = the peers closed (the old unobserved closures plus every
    client):
    * `out`: the non-empty buffers of `T` of everybody who reads (not in `G`);
    * `closed`: the peers of `P` whose owner reads; the others stay in `closedPeers` until `resume`;
    * the queues kept are those of `G` (plus emptied entries of readers that are not closed: none of
      a client);
    * first-entry view of `T`: a client's queue is its old queue, plus GOODBYE iff it had room (and
      the client does not carry the meta key); every other queue is unchanged;
    * entry view of `T`: every buffer is an old buffer, or the old buffer of a client with exactly
      one GOODBYE appended, or the single GOODBYE.
    So the shutdown is QUIET: no caller gets an ERROR for a call the leaving callee was serving, no
    `on_leave` / `on_unsubscribe` / `on_unregister` / testament event is published. -/
theorem C06_shutdown_exact (r : Realm) (hi : RealmInv r) (hn : (r.clients.map (·.key)).Nodup) :
    let o := (Router.shutdownRealm r).1
    let r' := (Router.shutdownRealm r).2
    let T := r.clients.foldl sayBye r.queues
    let G := r.ghosts ++ (r.clients.filter (·.stalled)).map (·.key)
    let P := r.closedPeers ++ r.clients.map (·.key)
    o.out = T.filter (fun q => !G.contains q.1 && !q.2.isEmpty) ∧
    o.closed = P.filter (fun k => !G.contains k) ∧
    o.panic = r.panic ∧
    r'.queues = T.filter (fun q => G.contains q.1) ++
      (T.filter (fun q => !G.contains q.1 && !P.contains q.1)).map (fun q => (q.1, [])) ∧
    r'.ghosts = G ∧ r'.closedPeers = P.filter (fun k => G.contains k) ∧
    (∀ c ∈ r.clients, qlook T c.key =
      if c.key ≠ metaKey ∧ r.queueLen c.key < c.cap then r.queueOf c.key ++ [byeMsg] else r.queueOf c.key) ∧
    (∀ k, (∀ c ∈ r.clients, c.key ≠ k) → qlook T k = r.queueOf k) ∧
    (∀ q ∈ T, q ∈ r.queues ∨ ∃ c ∈ r.clients, q.1 = c.key ∧ c.key ≠ metaKey ∧
      ((∃ q0 ∈ r.queues, q0.1 = c.key ∧ q.2 = q0.2 ++ [byeMsg]) ∨ q.2 = [byeMsg])) := by
  intro o r' T G P
  obtain ⟨hs, hcl⟩ := shutFold_spec hi hn
  obtain ⟨fo, fc, fq, fp⟩ := shut_flush_noclients (shutFold r) hcl
  have hq : (shutFold r).queues = T := hs.queues
  have hg : (shutFold r).ghosts = G := hs.ghosts
  have hp : (shutFold r).closedPeers = P := hs.closedPeers
  rw [hq, hg] at fo
  rw [hg, hp] at fc fp
  rw [hq, hg, hp] at fq
  refine ⟨fo, fc, ?_, fq, hg, fp, ?_, ?_, ?_⟩
  · exact (flush_inv hs.inv).2.2.trans hs.panic
  · intro c hc
    rw [queueLen_eq, queueOf_eq]
    exact qlook_foldl_sayBye_client r.clients r.queues hn c hc
  · intro k hk
    exact qlook_foldl_sayBye_other r.clients r.queues k hk
  · exact mem_foldl_sayBye r.clients r.queues hn

-- non-vacuity: a realm with a reading client, a stalled one and one whose queue is full
example : RealmInv shutExRealm ∧ (shutExRealm.clients.map (·.key)).Nodup ∧ QueueInv shutExRealm :=
  ⟨shut_rinv_plain _ _ _ _, by decide, by unfold QueueInv; decide⟩

-- the hypotheses hold in every reachable realm state (any history of inputs), and so does
-- `TestamentsAttached` (then NO testament bucket is left after the shutdown)
example {cfg : Config} {r : Realm} (h : Realm.Reachable cfg r) :
    RealmInv r ∧ (r.clients.map (·.key)).Nodup ∧ TestamentsAttached r :=
  ⟨h.inv.1, h.keys_nodup, h.testaments⟩

-- … and what its clients see: 1 reads GOODBYE, 3 reads what was buffered (full: no GOODBYE), both
-- see the closure; 2 (stalled) sees nothing yet, its GOODBYE waits
example : (Router.shutdownRealm shutExRealm).1.out = [(1, [byeMsg]), (3, [.other 99])] ∧
    (Router.shutdownRealm shutExRealm).1.closed = [1, 3] ∧
    (Router.shutdownRealm shutExRealm).2.queues = [(2, [byeMsg])] ∧
    (Router.shutdownRealm shutExRealm).2.ghosts = [2] ∧ (Router.shutdownRealm shutExRealm).2.closedPeers = [2] :=
  ⟨rfl, by decide +kernel, rfl, by decide +kernel, by decide +kernel⟩

/-- "TELLS EVERY ATTACHED CLIENT GOODBYE wamp.close.system_shutdown OR CLOSES ITS TRANSPORT" — for
    every realm state satisfying the invariant (whatever is in flight: calls, invocations, yield
    retry loops, deferred departures, waiting inbound messages, pending tasks, stalled clients)
    whose client keys are distinct.  After `Router.shutdownRealm r` (= `realm.close`, used by
    Router.Close and RemoveRealm), with `o` what the clients observe and `r'` the realm left:
    * nobody is attached; no retry loop, deferred departure, waiting message or task is left; the
      `panic` field is unchanged (in particular `none` stays `none`: nothing panics); no client key is
      left in `ending`;
    * `r'` satisfies the invariant; the broker index is empty, every subscription left is a
      memberless history subscription, every registration left is a meta procedure of the meta
      session, there is no call, invocation or link; the testament buckets of the clients are gone
      (all buckets, in a state where buckets belong to attached sessions: every reachable state);
    * EVERY client's peer is closed: a client that reads (and whose key is not that of a ghost)
      observes the closure in this step; for one that has stopped reading the closure is recorded
      (`ghosts`, `closedPeers`) and observed when it resumes;
    * EVERY client whose queue has room is sent GOODBYE system_shutdown, and it is the LAST message
      it gets: a reading client reads its old buffer followed by GOODBYE; for a stalled one the
      buffer kept is the old one followed by GOODBYE.  (Excluded at this level: a client carrying the
      meta key, see `C06_goodbye_any_key_state_fails`; no reachable realm has one: `C06_shutdown_reachable`.)
    * a client whose queue is full is sent nothing (non-blocking send), keeps what was buffered,
      and its peer is closed all the same ("or closes its transport");
    * QUIET: every buffer anybody can read afterwards is a buffer that existed before, or the
      buffer of a client of this realm with exactly one GOODBYE appended, or empty; only peers of
      clients (and closures already pending) are reported closed;
    * the queue invariant is kept.
    Without distinct client keys `leave` removes all clients of a key at once, using the
    `stalled` flag of the first. -/
theorem C06_shutdown_tells_everyone (r : Realm) (hi : RealmInv r) (hn : (r.clients.map (·.key)).Nodup) :
    let o := (Router.shutdownRealm r).1
    let r' := (Router.shutdownRealm r).2
    -- nobody is attached, nothing is pending, nothing panicked
    r'.clients = [] ∧ r'.retries = [] ∧ r'.deferred = [] ∧ r'.inbox = [] ∧ r'.tasks = [] ∧
    r'.panic = r.panic ∧ o.panic = r.panic ∧
    (∀ c ∈ r.clients, c.key ∉ r'.ending) ∧
    -- the tables hold nothing of a client
    RealmInv r' ∧
    ((∀ s ∈ r'.broker.subs, s.members = [] ∧ r'.broker.hasHist s.id = true) ∧
      r'.broker.index = [] ∧
      (∀ g ∈ r'.ds.d.regs, g.callees = [metaKey]) ∧
      (∀ e ∈ r'.ds.d.index, e.1 = metaKey) ∧
      r'.ds.d.calls = [] ∧ r'.ds.d.invs = [] ∧ r'.ds.d.byCall = []) ∧
    r'.testaments = r.testaments.filter (fun t => !(r.clients.map (·.key)).contains t.1) ∧
    (TestamentsAttached r → r'.testaments = []) ∧
    -- every peer is closed
    (∀ c ∈ r.clients, c.stalled = false → c.key ∉ r.ghosts → c.key ∈ o.closed) ∧
    (∀ c ∈ r.clients, c.stalled = true ∨ c.key ∈ r.ghosts →
      c.key ∈ r'.ghosts ∧ c.key ∈ r'.closedPeers ∧ c.key ∉ o.closed) ∧
    -- GOODBYE is the last message of every client whose queue has room
    (∀ c ∈ r.clients, c.key ≠ metaKey → r.queueLen c.key < c.cap →
      (c.stalled = false → c.key ∉ r.ghosts → (c.key, r.queueOf c.key ++ [byeMsg]) ∈ o.out) ∧
      (c.stalled = true ∨ c.key ∈ r.ghosts → r'.queueOf c.key = r.queueOf c.key ++ [byeMsg])) ∧
    -- a full queue is left as it is
    (∀ c ∈ r.clients, ¬ (c.key ≠ metaKey ∧ r.queueLen c.key < c.cap) →
      (c.stalled = false → c.key ∉ r.ghosts → r.queueOf c.key ≠ [] → (c.key, r.queueOf c.key) ∈ o.out) ∧
      (c.stalled = true ∨ c.key ∈ r.ghosts → r'.queueOf c.key = r.queueOf c.key)) ∧
    -- nothing but that GOODBYE is produced
    (∀ q ∈ o.out ++ r'.queues, q ∈ r.queues ∨ q.2 = [] ∨ ∃ c ∈ r.clients, q.1 = c.key ∧ c.key ≠ metaKey ∧
      ((∃ q0 ∈ r.queues, q0.1 = c.key ∧ q.2 = q0.2 ++ [byeMsg]) ∨ q.2 = [byeMsg])) ∧
    (∀ k ∈ o.closed, k ∈ r.closedPeers ∨ ∃ c ∈ r.clients, c.key = k) ∧
    (QueueInv r → QueueInv r') := by
  intro o r'
  obtain ⟨hs, hcl⟩ := shutFold_spec hi hn
  obtain ⟨x1, x2, _, x4, x5, x6, x7, x8, x9⟩ := C06_shutdown_exact r hi hn
  have hfi := flush_inv hs.inv
  have hemp := C05.C05_returns_to_empty r' hfi.1 hcl
  have hgh : ∀ c ∈ r.clients, (c.key ∈ r'.ghosts ↔ c.key ∈ r.ghosts ∨ c.stalled = true) :=
    fun c hc => ghosts_after hi hn hc
  have hread : ∀ c ∈ r.clients, c.stalled = false → c.key ∉ r.ghosts → r'.ghosts.contains c.key = false := by
    intro c hc h1 h2
    apply Bool.eq_false_iff.mpr
    intro h
    rcases (hgh c hc).mp (List.contains_iff_mem.mp h) with h | h
    · exact h2 h
    · rw [h1] at h; cases h
  have hnoread : ∀ c ∈ r.clients, c.stalled = true ∨ c.key ∈ r.ghosts → r'.ghosts.contains c.key = true := by
    intro c hc h
    exact List.contains_iff_mem.mpr ((hgh c hc).mpr (h.symm))
  have hkeyP : ∀ c ∈ r.clients, c.key ∈ r.closedPeers ++ r.clients.map (·.key) :=
    fun c hc => List.mem_append_right _ (List.mem_map.mpr ⟨c, hc, rfl⟩)
  -- what a reading / a non-reading client finds
  have hout : ∀ c ∈ r.clients, c.stalled = false → c.key ∉ r.ghosts →
      qlook (r.clients.foldl sayBye r.queues) c.key ≠ [] →
      (c.key, qlook (r.clients.foldl sayBye r.queues) c.key) ∈ o.out := by
    intro c hc h1 h2 hne
    rw [x1]
    refine List.mem_filter.mpr ⟨shut_mem_of_qlook hne, ?_⟩
    have hg := hread c hc h1 h2
    rw [x5] at hg
    simp only [hg, Bool.not_false, Bool.true_and, Bool.not_eq_true', List.isEmpty_eq_false_iff]
    exact hne
  have hkeep : ∀ c ∈ r.clients, c.stalled = true ∨ c.key ∈ r.ghosts →
      r'.queueOf c.key = qlook (r.clients.foldl sayBye r.queues) c.key := by
    intro c hc h
    have := shut_queueOf_flush (shutFold r) hcl c.key
    rw [show (shutFold r).ghosts = r'.ghosts from rfl, hnoread c hc h, if_pos rfl, queueOf_eq (shutFold r), hs.queues] at this
    exact this
  refine ⟨hcl, hs.retries, hs.deferred, hs.inbox, hs.tasks, hfi.2.1.trans hs.panic, hfi.2.2.trans hs.panic,
    ?_, hfi.1, ⟨hemp.1, hemp.2.1, hemp.2.2.1, hemp.2.2.2.1, hemp.2.2.2.2.1, hemp.2.2.2.2.2.1, hemp.2.2.2.2.2.2.1⟩,
    hs.testaments, ?_, ?_, ?_, ?_, ?_, ?_, ?_, shutdownRealm_qinv⟩
  · -- ending
    intro c hc h
    have h' : c.key ∈ (shutFold r).ending := h
    rw [hs.ending] at h'
    have := (List.mem_filter.mp h').2
    have hk : (r.clients.map (·.key)).contains c.key = true :=
      List.contains_iff_mem.mpr (List.mem_map.mpr ⟨c, hc, rfl⟩)
    rw [hk] at this
    cases this
  · -- testaments
    intro hta
    show (shutFold r).testaments = []
    rw [hs.testaments]
    apply List.filter_eq_nil_iff.mpr
    intro t ht
    obtain ⟨c, hc, hk⟩ := hta t ht
    have hk' : (r.clients.map (·.key)).contains t.1 = true :=
      List.contains_iff_mem.mpr (List.mem_map.mpr ⟨c, hc, hk⟩)
    show ¬ (!(r.clients.map (·.key)).contains t.1) = true
    rw [hk']; simp
  · -- closed, reading
    intro c hc h1 h2
    rw [x2]
    refine List.mem_filter.mpr ⟨hkeyP c hc, ?_⟩
    have hg := hread c hc h1 h2
    rw [x5] at hg
    rw [hg]; rfl
  · -- closed, not reading
    intro c hc h
    have hg := hnoread c hc h
    refine ⟨List.contains_iff_mem.mp hg, ?_, ?_⟩
    · rw [x6]
      rw [x5] at hg
      exact List.mem_filter.mpr ⟨hkeyP c hc, hg⟩
    · rw [x2]
      intro hm
      have := (List.mem_filter.mp hm).2
      rw [x5] at hg
      rw [hg] at this
      cases this
  · -- GOODBYE
    intro c hc hm hroom
    have e := x7 c hc
    rw [if_pos ⟨hm, hroom⟩] at e
    refine ⟨fun h1 h2 => ?_, fun h => ?_⟩
    · have := hout c hc h1 h2 (by rw [e]; simp)
      rw [e] at this
      exact this
    · rw [hkeep c hc h, e]
  · -- full
    intro c hc hfull
    have e := x7 c hc
    rw [if_neg hfull] at e
    refine ⟨fun h1 h2 hne => ?_, fun h => ?_⟩
    · have := hout c hc h1 h2 (by rw [e]; exact hne)
      rw [e] at this
      exact this
    · rw [hkeep c hc h, e]
  · -- quiet
    intro q hq
    rcases List.mem_append.mp hq with hq | hq
    · rw [x1] at hq
      rcases x9 q (List.mem_filter.mp hq).1 with h | h
      · exact Or.inl h
      · exact Or.inr (Or.inr h)
    · rw [x4] at hq
      rcases List.mem_append.mp hq with hq | hq
      · rcases x9 q (List.mem_filter.mp hq).1 with h | h
        · exact Or.inl h
        · exact Or.inr (Or.inr h)
      · obtain ⟨q0, _, rfl⟩ := List.mem_map.mp hq
        exact Or.inr (Or.inl rfl)
  · -- closed only own
    intro k hk
    rw [x2] at hk
    rcases List.mem_append.mp (List.mem_filter.mp hk).1 with h | h
    · exact Or.inl h
    · obtain ⟨c, hc, e⟩ := List.mem_map.mp h
      exact Or.inr ⟨c, hc, e⟩

/-- the GOODBYE clause for EVERY client key, at the level of arbitrary states satisfying the invariant … -/
def C06_goodbye_any_key_state : Prop :=
  ∀ (r : Realm), RealmInv r → (r.clients.map (·.key)).Nodup → ∀ c ∈ r.clients, r.queueLen c.key < c.cap →
    c.stalled = false → c.key ∉ r.ghosts → (c.key, r.queueOf c.key ++ [byeMsg]) ∈ (Router.shutdownRealm r).1.out

/-- … is false: in a state (not a reachable one) where a client carries the meta session's key 0, that
    client is sent nothing (`trySend` to `metaKey` queues nothing), although its peer is closed.  This is
    why the state-level theorem has the guard `c.key ≠ metaKey`; `RealmInv` does not exclude such a state,
    reachability does. -/
theorem C06_goodbye_any_key_state_fails : ¬ C06_goodbye_any_key_state := by
  intro h
  have := h shutExRealmKey0 (shut_rinv_plain _ _ _ _) (by decide) _ (List.mem_singleton.mpr rfl) (by decide) rfl (by decide)
  have e : (Router.shutdownRealm shutExRealmKey0).1.out = [] := rfl
  rw [e] at this
  cases this

/-- `realm.close` of a REACHABLE realm (any history of inputs, whatever is in flight): the statement of
    `C06_shutdown_tells_everyone` with no hypothesis on session keys.  Client keys are distinct and none is
    the meta session's (`Realm.Reachable.clients_wf`), every testament bucket belongs to an attached session.
    In particular:
    * EVERY client's peer is closed (observed at once by a reading client whose key is not a ghost's);
    * EVERY client whose queue has room — whatever its key — gets GOODBYE system_shutdown as its last
      message; a client whose queue is full keeps what was buffered;
    * nobody is attached afterwards, nothing is pending, no testament is left, the panic field is unchanged. -/
theorem C06_shutdown_reachable {cfg : Config} {r : Realm} (h : Realm.Reachable cfg r) :
    let o := (Router.shutdownRealm r).1
    let r' := (Router.shutdownRealm r).2
    r'.clients = [] ∧ r'.retries = [] ∧ r'.deferred = [] ∧ r'.inbox = [] ∧ r'.tasks = [] ∧ r'.testaments = [] ∧
    r'.panic = r.panic ∧ o.panic = r.panic ∧ RealmInv r' ∧
    (∀ c ∈ r.clients, c.stalled = false → c.key ∉ r.ghosts → c.key ∈ o.closed) ∧
    (∀ c ∈ r.clients, c.stalled = true ∨ c.key ∈ r.ghosts →
      c.key ∈ r'.ghosts ∧ c.key ∈ r'.closedPeers ∧ c.key ∉ o.closed) ∧
    (∀ c ∈ r.clients, r.queueLen c.key < c.cap →
      (c.stalled = false → c.key ∉ r.ghosts → (c.key, r.queueOf c.key ++ [byeMsg]) ∈ o.out) ∧
      (c.stalled = true ∨ c.key ∈ r.ghosts → r'.queueOf c.key = r.queueOf c.key ++ [byeMsg])) ∧
    (∀ c ∈ r.clients, ¬ r.queueLen c.key < c.cap →
      (c.stalled = false → c.key ∉ r.ghosts → r.queueOf c.key ≠ [] → (c.key, r.queueOf c.key) ∈ o.out) ∧
      (c.stalled = true ∨ c.key ∈ r.ghosts → r'.queueOf c.key = r.queueOf c.key)) := by
  intro o r'
  obtain ⟨hk, hn, _⟩ := h.clients_wf
  obtain ⟨t1, t2, t3, t4, t5, t6, t7, _, t9, _, _, t12, t13, t14, t15, t16, _⟩ :=
    C06_shutdown_tells_everyone r h.inv.1 hn
  refine ⟨t1, t2, t3, t4, t5, t12 h.testaments, t6, t7, t9, t13, t14, ?_, ?_⟩
  · intro c hc hroom
    exact t15 c hc (hk c hc) hroom
  · intro c hc hfull
    exact t16 c hc (fun hh => hfull hh.2)

/-- the GOODBYE clause for EVERY client key of a reachable realm … -/
def C06_goodbye_any_key_full : Prop :=
  ∀ (cfg : Config) (r : Realm), Realm.Reachable cfg r → ∀ c ∈ r.clients, r.queueLen c.key < c.cap →
    c.stalled = false → c.key ∉ r.ghosts → (c.key, r.queueOf c.key ++ [byeMsg]) ∈ (Router.shutdownRealm r).1.out

/-- … holds (it was stated over arbitrary states with `RealmInv` and distinct keys, and witnessed false by a
    state with a client under the meta key — `C06_goodbye_any_key_state_fails` — which no history reaches any
    more: `join metaKey` is a no-op of the model). -/
theorem C06_goodbye_any_key_full_holds : C06_goodbye_any_key_full :=
  fun _ _ h c hc hroom hs hg => ((C06_shutdown_reachable h).2.2.2.2.2.2.2.2.2.2.2.1 c hc hroom).1 hs hg

/-! ## Reachable routers -/

/-- In a router reachable from `Router.create` by ANY history of well-formed operations every realm
    of the table satisfies the realm invariant and its `panic` field holds at most a fuel marker of
    the model: the hypothesis `RealmInv` of `C06_shutdown_tells_everyone` holds at every moment
    Close / RemoveRealm can be invoked. -/
theorem C06_reachable_realms_ok (rt : Router) (h : Router.Reachable rt) :
    ∀ p ∈ rt.realms, RealmInv p.2 ∧ FuelOnly p.2.panic := Reachable.realmsOk h

example : (Router.create [{}]).isSome = true := by decide +kernel

/-- `Router.Close` tells every client of EVERY realm: for each realm of the table (invariant,
    distinct client keys) every reading client observes its peer closed, and if its queue has room
    reads its buffer followed by GOODBYE system_shutdown, in the observation of the `.close` step
    itself; the router is closed with an empty table; if no realm had panicked, nothing panics. -/
theorem C06_close_tells_everyone (rt : Router) (p : String × Realm) (hp : p ∈ rt.realms) (hi : RealmInv p.2)
    (hn : (p.2.clients.map (·.key)).Nodup) :
    (rt.step .close).2.closed = true ∧ (rt.step .close).2.realms = [] ∧
    (∀ c ∈ p.2.clients, c.stalled = false → c.key ∉ p.2.ghosts →
      c.key ∈ (rt.step .close).1.closed ∧
      (c.key ≠ metaKey → p.2.queueLen c.key < c.cap →
        (c.key, p.2.queueOf c.key ++ [byeMsg]) ∈ (rt.step .close).1.out)) ∧
    ((∀ q ∈ rt.realms, RealmInv q.2 ∧ (q.2.clients.map (·.key)).Nodup ∧ q.2.panic = none) →
      (rt.step .close).1.panic = none) := by
  obtain ⟨h1, h2, h3, h4, _⟩ := C11.C11_close rt
  obtain ⟨_, _, _, _, _, _, _, _, _, _, _, _, t13, _, t15, _⟩ := C06_shutdown_tells_everyone p.2 hi hn
  refine ⟨h2, h1, ?_, ?_⟩
  · intro c hc hs hg
    refine ⟨?_, fun hm hroom => ?_⟩
    · rw [h4]
      exact List.mem_flatMap.mpr ⟨p, hp, t13 c hc hs hg⟩
    · rw [h3]
      exact List.mem_flatMap.mpr ⟨p, hp, (t15 c hc hm hroom).1 hs hg⟩
  · intro hall
    rw [step_close]
    apply closeFold_panic rt.realms {} rfl
    intro q hq
    obtain ⟨qi, qn, qp⟩ := hall q hq
    exact (C06_shutdown_tells_everyone q.2 qi qn).2.2.2.2.2.2.1.trans qp

/-- `RemoveRealm A` tells every client of `A`: the same, for the realm removed; the other realms
    and the session→realm map are untouched (`C06_others_unaffected`). -/
theorem C06_remove_tells_everyone (rt : Router) (A : String) (r : Realm) (hr : rt.realm? A = some r) (hi : RealmInv r)
    (hn : (r.clients.map (·.key)).Nodup) :
    (rt.step (.removeRealm A)).2.realm? A = none ∧
    (rt.step (.removeRealm A)).1.panic = r.panic ∧
    (∀ c ∈ r.clients, c.stalled = false → c.key ∉ r.ghosts →
      c.key ∈ (rt.step (.removeRealm A)).1.closed ∧
      (c.key ≠ metaKey → r.queueLen c.key < c.cap →
        (c.key, r.queueOf c.key ++ [byeMsg]) ∈ (rt.step (.removeRealm A)).1.out)) := by
  obtain ⟨_, _, _, _, _, _, t7, _, _, _, _, _, t13, _, t15, _⟩ := C06_shutdown_tells_everyone r hi hn
  rw [step_remove_some hr]
  refine ⟨realm?_removed rt A, t7, ?_⟩
  intro c hc hs hg
  exact ⟨t13 c hc hs hg, fun hm hroom => (t15 c hc hm hroom).1 hs hg⟩

/-- `Router.Close` and `RemoveRealm` in a REACHABLE router (any history of well-formed operations), with NO
    hypothesis on the realm: every realm of the table satisfies the invariant, has pairwise distinct client keys
    and no client under the meta session's key (`Router.Reachable.realmsKeysOk`).  So for every realm `p` of
    the table / the realm `A` removed: EVERY reading client (whose key is not a ghost's) observes its peer
    closed and, if its queue has room — whatever its key — reads its buffer followed by GOODBYE
    system_shutdown, in the observation of that very step. -/
theorem C06_close_tells_everyone_reachable (rt : Router) (h : Router.Reachable rt) (p : String × Realm)
    (hp : p ∈ rt.realms) :
    (rt.step .close).2.closed = true ∧ (rt.step .close).2.realms = [] ∧
    (∀ c ∈ p.2.clients, c.stalled = false → c.key ∉ p.2.ghosts →
      c.key ∈ (rt.step .close).1.closed ∧
      (p.2.queueLen c.key < c.cap → (c.key, p.2.queueOf c.key ++ [byeMsg]) ∈ (rt.step .close).1.out)) := by
  obtain ⟨hi, _, hc, hn⟩ := Router.Reachable.realmsKeysOk h p hp
  obtain ⟨h1, h2, h3, _⟩ := C06_close_tells_everyone rt p hp hi hn
  exact ⟨h1, h2, fun c hcm hs hg => ⟨(h3 c hcm hs hg).1, (h3 c hcm hs hg).2 (hc.safe.noClient c hcm)⟩⟩

theorem C06_remove_tells_everyone_reachable (rt : Router) (h : Router.Reachable rt) (A : String) (r : Realm)
    (hr : rt.realm? A = some r) :
    (rt.step (.removeRealm A)).2.realm? A = none ∧
    (rt.step (.removeRealm A)).1.panic = r.panic ∧
    (∀ c ∈ r.clients, c.stalled = false → c.key ∉ r.ghosts →
      c.key ∈ (rt.step (.removeRealm A)).1.closed ∧
      (r.queueLen c.key < c.cap → (c.key, r.queueOf c.key ++ [byeMsg]) ∈ (rt.step (.removeRealm A)).1.out)) := by
  obtain ⟨hi, _, hc, hn⟩ := Router.Reachable.realmsKeysOk h (A, r) (realm?_mem hr)
  obtain ⟨h1, h2, h3⟩ := C06_remove_tells_everyone rt A r hr hi hn
  exact ⟨h1, h2, fun c hcm hs hg => ⟨(h3 c hcm hs hg).1, (h3 c hcm hs hg).2 (hc.safe.noClient c hcm)⟩⟩

/-- … and nothing panics in `Router.Close` of a reachable router none of whose realms had panicked -/
theorem C06_close_no_panic_reachable (rt : Router) (h : Router.Reachable rt)
    (hp : ∀ q ∈ rt.realms, q.2.panic = none) : (rt.step .close).1.panic = none := by
  cases hr : rt.realms with
  | nil =>
    rw [step_close, hr]; rfl
  | cons p ps =>
    have hpm : p ∈ rt.realms := by rw [hr]; exact List.mem_cons_self ..
    obtain ⟨hi, _, _, hn⟩ := Router.Reachable.realmsKeysOk h p hpm
    refine (C06_close_tells_everyone rt p hpm hi hn).2.2.2 ?_
    intro q hq
    obtain ⟨qi, _, _, qn⟩ := Router.Reachable.realmsKeysOk h q hq
    exact ⟨qi, qn, hp q hq⟩

/-! ## After Close -/

/-- "ANSWERS LATER ATTACH ATTEMPTS WITH AN ERROR": a closed router (closed flag set, table empty —
    what `.close` establishes, `C06_close_only_own_sessions`; the two go together in every reachable
    router, `C06_closed_realms_empty`) is a fixed point up to the clock: EVERY later operation (join,
    session message / drop / stall / resume, tick, rnd, a second Close, RemoveRealm, AddRealm) leaves
    the router state unchanged — except that time goes on: `.tick ms` adds `ms` to the router's clock
    `now` (`ROp.elapsed`: `ms` for `.tick ms`, 0 otherwise) —, makes nothing observable (no output,
    no closure, no panic), and is answered `refused` exactly when it is an attach attempt — every
    `.join`, every `.addRealm`. -/
theorem C06_closed_forever (rt : Router) (hc : rt.closed = true) (hr : rt.realms = []) :
    (∀ op, (rt.step op).2 = { rt with now := rt.now + op.elapsed } ∧
      (rt.step op).2.closed = true ∧ (rt.step op).2.realms = [] ∧
      (rt.step op).1.out = [] ∧ (rt.step op).1.closed = [] ∧ (rt.step op).1.panic = none ∧
      (rt.step op).1.refused = isAttach op) ∧
    (∀ name k l d ro c, (rt.step (.join name k l d ro c)).1.refused = true) ∧
    (∀ cfg, (rt.step (.addRealm cfg)).1.refused = true) := by
  refine ⟨fun op => ?_, fun name k l d ro c => (step_closed_empty hc hr _).2.2.2.2,
    fun cfg => (step_closed_empty hc hr _).2.2.2.2⟩
  obtain ⟨h1, h2, h3, h4, h5⟩ := step_closed_empty hc hr op
  exact ⟨h1, by rw [h1]; exact hc, by rw [h1]; exact hr, h2, h3, h4, h5⟩

/-- The combined form: after `Router.Close`, whatever operations follow (`ops`, any list), the router
    is still the closed router with the empty table — its clock advanced by the ticks among `ops`
    (`elapsedAll ops`, the sum of their `ROp.elapsed`), nothing else changed —, and the next
    operation `op` produces nothing and is refused iff it is an attach attempt. -/
theorem C06_close_is_final (rt : Router) (ops : List ROp) (op : ROp) :
    let rt' := (rt.step .close).2
    runROps rt' ops = { rt' with now := rt.now + elapsedAll ops } ∧
    (runROps rt' ops).closed = true ∧ (runROps rt' ops).realms = [] ∧
    ((runROps rt' ops).step op).2 = { rt' with now := rt.now + elapsedAll ops + op.elapsed } ∧
    ((runROps rt' ops).step op).1.out = [] ∧ ((runROps rt' ops).step op).1.closed = [] ∧
    ((runROps rt' ops).step op).1.panic = none ∧ ((runROps rt' ops).step op).1.refused = isAttach op := by
  intro rt'
  have hc : rt'.closed = true := rfl
  have hr : rt'.realms = [] := rfl
  have e : runROps rt' ops = { rt' with now := rt.now + elapsedAll ops } := runROps_closed_empty hc hr ops
  rw [e]
  obtain ⟨h1, h2, h3, h4, h5⟩ :=
    step_closed_empty (rt := { rt' with now := rt.now + elapsedAll ops }) hc hr op
  exact ⟨rfl, hc, hr, h1, h2, h3, h4, h5⟩

-- non-vacuity: the initial router with one realm (the default realm "r"), closed; a join and an
-- AddRealm afterwards are refused
example : ∃ rt, Router.create [{}] = some rt ∧ (rt.step .close).2.closed = true ∧
    ((rt.step .close).2.step (.join "r" 5 false [] [] 4)).1.refused = true ∧
    ((rt.step .close).2.step (.addRealm {})).1.refused = true := by
  cases h : Router.create [{}] with
  | none => exact absurd h (by decide +kernel)
  | some rt =>
    exact ⟨rt, rfl, rfl, (C06_close_is_final rt [] _).2.2.2.2.2.2.2, (C06_close_is_final rt [] _).2.2.2.2.2.2.2⟩

/-- In every router reachable from `Router.create` the closed flag implies the empty table (only
    `.close` sets the flag, it empties the table, and nothing is added to a closed router). -/
theorem C06_closed_realms_empty (rt : Router) (h : Router.Reachable rt) : rt.closed = true → rt.realms = [] :=
  Reachable.closed_empty h

/-! ## After RemoveRealm -/

/-- After `RemoveRealm A` (router invariant: distinct realm names, `Router.Inv`), with `rt'` the router
    left:
    * `A` is not in the table; the table is the old one without `A`; the session→realm map, the closed
      flag, the template, the realm counter and the clock are unchanged; the invariant is kept;
    * an operation of a session that had joined `A` (message, drop, stall, resume) produces nothing and
      changes nothing;
    * the clock does not touch `A`: after `.tick ms` `A` is still absent, the table is the others each
      advanced by its own `Realm.step`, and what becomes observable is the concatenation of THEIR
      observations — no call timer or yield retry of the removed realm can fire, they are gone with it;
    * WITHOUT a realm template: every join to `A` is refused and changes nothing — and this persists
      under every history `ops` that contains no `AddRealm` with the URI `A`;
    * WITH a template `t` (router open, `A ≠ ""`, `Realm.create {t with uri := A} = some r0`): the join
      re-creates `A` FRESH from the template — the realm the session joins is `r0` (no client, no
      subscription, no registration but the meta procedures; its publication-id base and its clock
      are the router's: `pubCount := created * 1000000`, `now := rt.now`, time being global), not the
      removed realm's state. -/
theorem C06_removed_realm_refuses (rt : Router) (hi : rt.Inv) (A : String) :
    let rt' := (rt.step (.removeRealm A)).2
    rt'.realm? A = none ∧ rt'.realms = rt.others A ∧ rt'.sessRealm = rt.sessRealm ∧ rt'.closed = rt.closed ∧
    rt'.template = rt.template ∧ rt'.created = rt.created ∧ rt'.now = rt.now ∧ rt'.Inv ∧
    (∀ k op, rt.realmOf k = some A → rt'.step (.sess k op) = ({}, rt')) ∧
    (∀ ms, (rt'.step (.tick ms)).2.realm? A = none ∧
      (rt'.step (.tick ms)).2.realms = (rt.others A).map (fun q => (q.1, (q.2.step (.tick ms)).2)) ∧
      (rt'.step (.tick ms)).1.out = (rt.others A).flatMap (fun p => (p.2.step (.tick ms)).1.out) ∧
      (rt'.step (.tick ms)).1.closed = (rt.others A).flatMap (fun p => (p.2.step (.tick ms)).1.closed)) ∧
    (rt.template = none →
      (∀ k l d ro c, rt'.step (.join A k l d ro c) = ({ refused := true }, rt')) ∧
      (∀ ops : List ROp, (∀ op ∈ ops, ∀ cfg, op = .addRealm cfg → cfg.uri ≠ A) →
        (runROps rt' ops).realm? A = none ∧
        ∀ k l d ro c, (runROps rt' ops).step (.join A k l d ro c) = ({ refused := true }, runROps rt' ops))) ∧
    (∀ t r0, rt.template = some t → Realm.create { t with uri := A } = some r0 → (rt.closed || A == "") = false →
      ∀ k l d ro c,
        rt'.step (.join A k l d ro c) =
          (merge {} (({ r0 with pubCount := rt.created * 1000000, now := rt.now } : Realm).step (.join k l d ro c)).1,
           { ({ rt' with realms := rt'.realms ++ [(A, { r0 with pubCount := rt.created * 1000000, now := rt.now })],
                         created := rt.created + 1 } : Router).setRealm A
               (({ r0 with pubCount := rt.created * 1000000, now := rt.now } : Realm).step (.join k l d ro c)).2 with
             sessRealm := rt.sessRealm ++ [(k, A)] })) := by
  intro rt'
  have hf := remove_fields rt A
  obtain ⟨f1, f2, f3, f4, f5, f6, f7⟩ := hf
  have hi' : rt'.Inv := hi.step (.removeRealm A) trivial
  refine ⟨f1, f2, f3, f4, f5, f6, f7, hi', ?_, ?_, ?_, ?_⟩
  · intro k op hk
    have hk' : rt'.realmOf k = some A := by unfold realmOf; rw [f3]; exact hk
    exact step_sess_gone hk' f1 op
  · intro ms
    obtain ⟨n1, _⟩ := step_tick_names rt' ms
    refine ⟨realm?_none_of_names n1 f1, ?_, ?_, ?_⟩
    · rw [(step_tick_realms rt' ms hi'.names).1, f2]
    · rw [step_tick_eq, (tickFold_obs ms rt'.realms _).1, f2]; rfl
    · rw [step_tick_eq, (tickFold_obs ms rt'.realms _).2, f2]; rfl
  · intro ht
    have ht' : rt'.template = none := f5.trans ht
    refine ⟨fun k l d ro c => step_join_absent f1 ht' k l d ro c, fun ops hops => ?_⟩
    obtain ⟨a1, a2⟩ := absent_runROps ops f1 ht' hops
    exact ⟨a1, fun k l d ro c => step_join_absent a1 a2 k l d ro c⟩
  · intro t r0 ht hcr hopen k l d ro c
    have he := ensureRealm_template f1 (f5.trans ht) hcr
    have hrr : (rt'.ensureRealm A).realm? A = some { r0 with pubCount := rt'.created * 1000000, now := rt'.now } := by
      rw [he]; exact realm?_append_new f1 _ _
    rw [f6, f7] at he hrr
    have hopen' : (rt'.closed || A == "") = false := by rw [f4]; exact hopen
    rw [step_join_some hopen' hrr, he]
    show (_, ({ Router.setRealm _ A _ with sessRealm := rt'.sessRealm ++ [(k, A)] } : Router)) = _
    rw [f3, f7]

-- non-vacuity: the initial router with the default realm "r"; the realm removed: a join to it is refused
example : ∃ rt, Router.create [{}] = some rt ∧ rt.Inv ∧ (rt.realm? "r").isSome = true ∧ rt.template = none ∧
    ((rt.step (.removeRealm "r")).2.step (.join "r" 5 false [] [] 4)).1.refused = true := by
  cases h : Router.create [{}] with
  | none => exact absurd h (by decide +kernel)
  | some rt =>
    have ht : rt.template = none := by
      have : (Router.create [{}]).map (fun rt => rt.template.isNone) = some true := by decide +kernel
      rw [h] at this
      exact Option.isNone_iff_eq_none.mp (Option.some.inj this)
    have hs : (rt.realm? "r").isSome = true := by
      have : (Router.create [{}]).map (fun rt => (rt.realm? "r").isSome) = some true := by decide +kernel
      rw [h] at this
      exact Option.some.inj this
    refine ⟨rt, rfl, create_inv h, hs, ht, ?_⟩
    rw [((C06_removed_realm_refuses rt (create_inv h) "r").2.2.2.2.2.2.2.2.2.2.1 ht).1]

/-! ## The other realms -/

/-- "SESSIONS OF REALMS THAT WERE NOT REMOVED ARE UNAFFECTED" (restatement of `C11_remove_add`):
    `RemoveRealm A` leaves every other realm of the table unchanged (equality of the whole realm
    state) and the session→realm map unchanged, and (router invariant) what it makes observable —
    the shutdown GOODBYEs and closures — concerns sessions that had joined `A` only; `AddRealm` only
    appends realms named `cfg.uri` and makes nothing observable. -/
theorem C06_others_unaffected (rt : Router) :
    (∀ A, (rt.step (.removeRealm A)).2.others A = rt.others A ∧
          (rt.step (.removeRealm A)).2.sessRealm = rt.sessRealm ∧
          (rt.Inv → (∀ q ∈ (rt.step (.removeRealm A)).1.out, rt.joined A q.1) ∧
                    (∀ k ∈ (rt.step (.removeRealm A)).1.closed, rt.joined A k))) ∧
    (∀ cfg, (∃ l, (rt.step (.addRealm cfg)).2.realms = rt.realms ++ l ∧ ∀ p ∈ l, p.1 = cfg.uri) ∧
            (rt.step (.addRealm cfg)).2.sessRealm = rt.sessRealm ∧
            (rt.step (.addRealm cfg)).1.out = [] ∧ (rt.step (.addRealm cfg)).1.closed = []) :=
  C11.C11_remove_add rt

/-- `Router.Close` (restatement of `C11_close`): the table is emptied and the closed flag set; the
    observation is the concatenation of the per-realm shutdown observations, each computed from
    that realm alone and (router invariant) mentioning only sessions that had joined it. -/
theorem C06_close_only_own_sessions (rt : Router) :
    (rt.step .close).2.realms = [] ∧ (rt.step .close).2.closed = true ∧
    (rt.step .close).1.out = rt.realms.flatMap (fun p => (shutdownRealm p.2).1.out) ∧
    (rt.step .close).1.closed = rt.realms.flatMap (fun p => (shutdownRealm p.2).1.closed) ∧
    (rt.Inv → ∀ p ∈ rt.realms, (∀ q ∈ (shutdownRealm p.2).1.out, rt.joined p.1 q.1) ∧
                               (∀ k ∈ (shutdownRealm p.2).1.closed, rt.joined p.1 k)) :=
  C11.C11_close rt

end Nexus.C06
