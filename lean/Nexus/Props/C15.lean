/-
  C15 — Transports frame messages faithfully and are interchangeable.

  "Over rawsocket and websocket, every message handed to a peer either arrives at the
   other side intact and in order or is dropped as a whole (too large for the limit the
   receiver announced, or unserialisable) without corrupting the following messages; the
   rawsocket handshake agrees on serializer and length limits or fails cleanly, frames
   above the announced limit or of reserved type end that connection only, and PING is
   answered by PONG with the same payload.  The router's observable behaviour for a
   scenario is the same whether a session is attached in-process, via rawsocket or via
   websocket and whichever serializer it uses, up to numeric representation."

  This file covers the framing / handshake sentences for the rawsocket transport (the
  websocket peer has no framing logic of its own: message boundaries are gorilla's; the
  family `frames` checks it behaviourally).  The last sentence (transport transparency of
  the router) is the transport-replay family over `harness/tpeers`.

  All statements are over the GENERATED definitions `Nexus.Gen.*` (constants, the four pure
  functions, every condition / case table of sendHandler, recvHandler, serverHandshake,
  clientHandshake) through the model `Nexus.Frame.*`.  No size bounds anywhere.

  clause of the property                       theorem(s)
  -------------------------------------------  ------------------------------------------------
  length field encodes/decodes                 len_codec, len_codec_sharp (2^24 wraps to 0)
  length codes                                 byteToLength_pow, fitRecvLimit_least,
                                               announced_limit_covers
  handshake agrees ... or fails cleanly        handshake_agree (server, all 4-byte requests),
                                               client_handshake (client, all replies),
                                               handshake_compose, handshake_compose_any,
                                               handshake_refusal_clean, handshake_truncated,
                                               handshake_closes_iff_no_peer
  dropped as a whole (too large/unserialisable) sender_drops_iff, frame_shape
  intact, in order, later ones unaffected      stream, stream_payloads, stream_then
  reader is a function of the concatenation    chunking, decode_append
  deserialisation is a parameter               deserializer_is_parameter
  above the limit / reserved type ends it      oversize_or_reserved, closed_is_final
  never a nil message                          never_nil, delivered_are_deserialised
  PING -> PONG, same payload                   ping, ping_one_write, ping_truncated, pong_ignored
  frames of the two writers never interleave   write_calls_ordered_per_goroutine,
                                               sender_alone_never_interleaves, locked_writers_ok,
                                               no_interleaving, no_interleaving_full_holds
  ... because each frame is ONE Write call      frame_shape, ping_one_write; the two-call shape the
                                               code had before does corrupt: split_writes_corrupt
  queued before Close => written before exit   drain_writes_all, drain_delivers
                                               (without draining: no_drain_can_lose)

  Added after audit D (work package D):

  the two directions of a CONNECTED pair (a5)  connected_limits, connected_streams,
                                               connected_streams_norm
  round trip only up to `norm` (b1)            stream_norm_on, stream_norm; instantiated with the
                                               serializer models of C14 in
                                               `Nexus/Frame/WpDStreamCodec.lean`
                                               (Nexus.C15.stream_codec, connected_streams_codec)
  truncated frames (a6)                        msg_truncated, header_truncated, sender_frame_cut
  END OF STREAM as an input (a6, c)            runIn_bytes, eof_after_any_prefix, eof_reason,
                                               eof_clean, eof_clean_stream, msg_truncated_eof,
                                               ping_truncated_eof, pong_truncated_eof,
                                               header_truncated_eof, eof_is_final,
                                               eof_action_by_read, eof_in_header_sender_drains,
                                               eof_in_body_nothing_guaranteed
  any inbound mix of MSG/PING/PONG (a4, a7)    mixed_frames, bad_header_after_units
  PONGs and the TWO receive limits (b2)        ping_answer_wellFormed, pong_over_peer_limit_closes,
                                               ping_answer_closes_asker,
                                               asymmetric_ping_pong_closes,
                                               locked_writers_ok_two_limits,
                                               no_interleaving_two_limits, no_interleaving_min,
                                               duplex_no_interleaving,
                                               no_interleaving_answerer_limit (false:
                                               no_interleaving_answerer_limit_fails)

  ABOUT THE PONG HYPOTHESIS of `locked_writers_ok` / `no_interleaving` (audit b2).  Their
  hypothesis `∀ q ∈ pongs, q.wellFormed rl` speaks about `rl`, the receive limit of the side that
  READS the PONGs (call it A).  It is NOT discharged by `ping_one_write`: that theorem (and
  `ping_answer_wellFormed`, which says it in terms of `Pong.wellFormed`) is about the side that
  ANSWERS the PING (B), and its `hle : p.length ≤ rl` is B's receive limit.  The answering code
  caps a PING by B's recvLimit only (rawsocketpeer.go:288-293) and does not compare the PONG
  with B's sendLimit (= A's recvLimit; rawsocketpeer.go:311-327, unlike `sendHandler` :238).
  So what is guaranteed is `q.wellFormed rlB`; `q.wellFormed rlA` holds in addition exactly
  when the peer A sent no PING longer than the limit A itself announced — an assumption about
  the peer, made explicit in `no_interleaving_two_limits` / `duplex_no_interleaving`.  Without it
  the statement is false (`no_interleaving_answerer_limit_fails`,
  `asymmetric_ping_pong_closes`): A closes on the PONG and loses what B sent behind it.
  nexus itself never sends a PING, so A is then not a nexus peer.
-/
import Nexus.Frame.HandshakeLemmas
import Nexus.Frame.StreamLemmas
import Nexus.Frame.WritersLemmas
import Nexus.Frame.WpDStream

namespace Nexus.C15
open Nexus Nexus.Frame

/-! ## the 24-bit length field -/

/-- `bytesToInt (intToBytes n) = n` for every n below 2^24 (the generated functions). -/
theorem len_codec (n : Nat) (h : n < 2 ^ 24) :
    Gen.bytesToInt (Gen.intToBytes (Int.ofNat n)) = Int.ofNat n :=
  bytesToInt_intToBytes n h

example : (16777215 : Nat) < 2 ^ 24 := by decide

/-- The bound is sharp: a length of exactly 2^24 is written as 0 (this is why the sender has
    to drop such a message, `sender_drops_iff`). -/
theorem len_codec_sharp : Gen.bytesToInt (Gen.intToBytes (Int.ofNat (2 ^ 24))) = 0 := by
  obtain ⟨a, b, c, e, ha, hb, hc⟩ := intToBytes_ofNat (2 ^ 24)
  rw [e, bytesToInt_three, ha, hb, hc]
  rfl

/-- Whatever three bytes arrive, the decoded length is in [0, 2^24). -/
theorem length_in_range (a b c : UInt8) :
    0 ≤ Gen.bytesToInt [a, b, c] ∧ Gen.bytesToInt [a, b, c] < 2 ^ 24 :=
  bytesToInt_three_range a b c

/-! ## length codes -/

/-- A length code b in 0..15 stands for 2^(b+9). -/
theorem byteToLength_pow (b : UInt8) (h : b.toNat ≤ 15) :
    Gen.byteToLength b = ((2 ^ (b.toNat + 9) : Nat) : Int) :=
  byteToLength_small b h

example : Gen.byteToLength 0 = 512 ∧ Gen.byteToLength 15 = 16777216 := by
  constructor <;> rw [byteToLength_pow _ (by decide)] <;> rfl

/-- For EVERY int r: `fitRecvLimit r` is 15 when r ≤ 0; otherwise it is the least code b in
    0..14 with 2^(b+9) ≥ r, and 15 when there is none. -/
theorem fitRecvLimit_least (r : Int) :
    (r ≤ 0 → Gen.fitRecvLimit r = 15) ∧
    (0 < r → (Gen.fitRecvLimit r).toNat ≤ 15 ∧
      ((Gen.fitRecvLimit r).toNat < 15 → r ≤ ((2 ^ ((Gen.fitRecvLimit r).toNat + 9) : Nat) : Int)) ∧
      ∀ j, j < (Gen.fitRecvLimit r).toNat → ((2 ^ (j + 9) : Nat) : Int) < r) :=
  fit_spec r

example : (513 : Int) > 0 := by decide

/-- The limit a side announces covers the limit it was configured with, as far as the
    protocol can say it (2^24). -/
theorem announced_limit_covers (r : Int) (h0 : 0 < r) (h : r ≤ 2 ^ 24) :
    r ≤ Gen.byteToLength (Gen.fitRecvLimit r) := by
  obtain ⟨hle, hlt, _⟩ := (fit_spec r).2 h0
  rw [byteToLength_small _ hle]
  by_cases h15 : (Gen.fitRecvLimit r).toNat < 15
  · exact hlt h15
  · have : (Gen.fitRecvLimit r).toNat = 15 := by omega
    rw [this]
    have : ((2 ^ (15 + 9) : Nat) : Int) = 2 ^ 24 := by decide
    omega

example : (0 : Int) < 1000 ∧ (1000 : Int) ≤ 2 ^ 24 := by decide

/-! ## handshake -/

/-- Server side, for all four request bytes and every configured limit. Exactly one of:
    * bad magic: NOTHING is written, error;
    * a reserved byte is set: reply 7f 30 00 00 (error code 3), error;
    * serializer nibble 0: NOTHING is written, error;
    * serializer nibble 4..15: reply 7f 10 00 00 (error code 1), error;
    * serializer nibble 1..3: reply 7f (limit code << 4 | serializer) 00 00 and a peer with that
      serializer, sendLimit = 2^(9 + the client's code), recvLimit = 2^(9 + its own code). -/
theorem handshake_agree (b0 b1 b2 b3 : UInt8) (r : Int) :
    (b0 ≠ 0x7f → serverHandshake b0 b1 b2 b3 r = ⟨none, .error "not a rawsocket handshake"⟩) ∧
    (b0 = 0x7f → (b2 ≠ 0 ∨ b3 ≠ 0) → serverHandshake b0 b1 b2 b3 r =
        ⟨some [0x7f, 0x30, 0, 0], .error "use of reserved bits (unsupported feature)"⟩) ∧
    (b0 = 0x7f → b2 = 0 → b3 = 0 → b1.toNat % 16 = 0 → serverHandshake b0 b1 b2 b3 r =
        ⟨none, .error "illegal serializer value"⟩) ∧
    (b0 = 0x7f → b2 = 0 → b3 = 0 → 4 ≤ b1.toNat % 16 → serverHandshake b0 b1 b2 b3 r =
        ⟨some [0x7f, 0x10, 0, 0], .error "serializer unsupported"⟩) ∧
    (b0 = 0x7f → b2 = 0 → b3 = 0 → 1 ≤ b1.toNat % 16 → b1.toNat % 16 ≤ 3 →
      ∃ y : UInt8, y.toNat = (Gen.fitRecvLimit r).toNat * 16 + b1.toNat % 16 ∧
        serverHandshake b0 b1 b2 b3 r =
          ⟨some [0x7f, y, 0, 0],
           .ok ⟨some (serName (b1.toNat % 16)), ((2 ^ (b1.toNat / 16 + 9) : Nat) : Int),
                ((2 ^ ((Gen.fitRecvLimit r).toNat + 9) : Nat) : Int)⟩⟩) :=
  server_cases b0 b1 b2 b3 r

example : serverHandshake 0x7f 0x52 0 0 1000 =
    ⟨some [0x7f, 0x12, 0, 0], .ok ⟨some "MessagePackSerializer", 16384, 1024⟩⟩ := by decide
example : serverHandshake 0x7f 0x52 0 1 1000 =
    ⟨some [0x7f, 0x30, 0, 0], .error "use of reserved bits (unsupported feature)"⟩ := by decide

/-- Client side, for all reply bytes (bytes 2 and 3 of the reply are not looked at). -/
theorem client_handshake (p : UInt8) (rc : Int) (r0 r1 r2 r3 : UInt8) :
    (r0 ≠ 0x7f → clientHandshake p rc r0 r1 r2 r3 = .error "not a rawsocket handshake") ∧
    (r0 = 0x7f → r1.toNat % 16 = 0 → ∃ e, clientHandshake p rc r0 r1 r2 r3 = .error e) ∧
    (r0 = 0x7f → r1 = 0x10 → clientHandshake p rc r0 r1 r2 r3 = .error "serializer unsupported") ∧
    (r0 = 0x7f → r1 = 0x30 → clientHandshake p rc r0 r1 r2 r3 =
        .error "use of reserved bits (unsupported feature)") ∧
    (r0 = 0x7f → r1.toNat % 16 ≠ 0 → r1.toNat % 16 ≠ p.toNat →
        clientHandshake p rc r0 r1 r2 r3 = .error "serializer mismatch") ∧
    (r0 = 0x7f → r1.toNat % 16 ≠ 0 → r1.toNat % 16 = p.toNat →
        clientHandshake p rc r0 r1 r2 r3 =
          .ok ⟨Gen.cliSerializer p, ((2 ^ (r1.toNat / 16 + 9) : Nat) : Int),
               ((2 ^ ((Gen.fitRecvLimit rc).toNat + 9) : Nat) : Int)⟩) :=
  client_cases p rc r0 r1 r2 r3

example : clientHandshake 3 0 0x7f 0x23 0 0 = .ok ⟨some "CBORSerializer", 2048, 16777216⟩ := by decide

/-- A client speaking protocol 1..3 dials a server: both succeed, with the same serializer, and
    each side's send limit is exactly the receive limit the other side announced — for every
    pair of limit configurations. -/
theorem handshake_compose (p : UInt8) (h1 : 1 ≤ p.toNat) (h3 : p.toNat ≤ 3) (rc rs : Int) :
    ∃ y : UInt8, y.toNat = (Gen.fitRecvLimit rs).toNat * 16 + p.toNat ∧
      connect p rc rs =
        (.ok ⟨some (serName p.toNat), ((2 ^ ((Gen.fitRecvLimit rs).toNat + 9) : Nat) : Int),
              ((2 ^ ((Gen.fitRecvLimit rc).toNat + 9) : Nat) : Int)⟩,
         ⟨some [0x7f, y, 0, 0],
          .ok ⟨some (serName p.toNat), ((2 ^ ((Gen.fitRecvLimit rc).toNat + 9) : Nat) : Int),
               ((2 ^ ((Gen.fitRecvLimit rs).toNat + 9) : Nat) : Int)⟩⟩) :=
  connect_ok p h1 h3 rc rs

example : connect 1 600 0 =
    (.ok ⟨some "JSONSerializer", 16777216, 1024⟩,
     ⟨some [0x7f, 0xf1, 0, 0], .ok ⟨some "JSONSerializer", 1024, 16777216⟩⟩) := by decide

/-- Any protocol byte 0..15: client and server succeed together (agreeing) or both fail. -/
theorem handshake_compose_any (p : UInt8) (hp : p.toNat ≤ 15) (rc rs : Int) :
    (∃ c s rep, connect p rc rs = (.ok c, ⟨some rep, .ok s⟩) ∧ c.serializer = s.serializer ∧
        c.sendLimit = s.recvLimit ∧ s.sendLimit = c.recvLimit) ∨
    (∃ e e' rep, connect p rc rs = (.error e, ⟨rep, .error e'⟩)) :=
  connect_together p hp rc rs

example : connect 7 0 0 =
    (.error "serializer unsupported", ⟨some [0x7f, 0x10, 0, 0], .error "serializer unsupported"⟩) := by
  decide

/-- Whatever request the server refuses, a client that reads what the server wrote before it
    closed the connection ends with an error (never with a peer). -/
theorem handshake_refusal_clean (b0 b1 b2 b3 : UInt8) (rs : Int) (p : UInt8) (rc : Int) (e : String)
    (h : (serverHandshake b0 b1 b2 b3 rs).result = .error e) :
    ∃ e', clientHandshakeReply p rc ((serverHandshake b0 b1 b2 b3 rs).reply.getD []) = .error e' :=
  server_error_client_error b0 b1 b2 b3 rs p rc e h

example : (serverHandshake 0x00 0x11 0 0 0).result = .error "not a rawsocket handshake" := by decide

/-- Audit a5.  From a successful `connect` ALONE (any protocol byte 0..255, any pair of configured
    limits): the two peers that come out have the same serializer, and each one's send limit is
    the receive limit of the other.  (`handshake_compose_any` needs `p ≤ 15`; a client with a
    larger protocol byte never succeeds, because the reply's serializer nibble cannot equal it.) -/
theorem connected_limits (p : UInt8) (rc rs : Int) (c s : PeerCfg) (rep : List UInt8)
    (h : connect p rc rs = (.ok c, ⟨some rep, .ok s⟩)) :
    c.serializer = s.serializer ∧ c.sendLimit = s.recvLimit ∧ s.sendLimit = c.recvLimit :=
  WpD.connect_ok_limits p rc rs c s rep h

/-- non-vacuity: asymmetric limits (client 600 -> announces 1024; server 0 -> announces 2^24) -/
example : connect 2 600 0 =
    (.ok ⟨some "MessagePackSerializer", 16777216, 1024⟩,
     ⟨some [0x7f, 0xf2, 0, 0], .ok ⟨some "MessagePackSerializer", 1024, 16777216⟩⟩) := by decide

/-- Audit c / a3 / b9: END OF STREAM DURING THE HANDSHAKE.  A client that sends fewer than four
    bytes and stops (server side), or a server that answers with fewer than four bytes and stops
    (client side): no byte is written in reply, NO peer is created (so no reader / sender
    goroutine is started), the error is `io.ReadFull`'s — "EOF" when nothing came, "unexpected
    EOF" after 1..3 bytes —, and the connection is closed by `AcceptRawSocket` /
    `ConnectRawSocketPeer`. -/
theorem handshake_truncated (rs : Int) (p : UInt8) (rc : Int) (bs : List UInt8) (h : bs.length < 4) :
    acceptRawSocket rs bs = ⟨none, .error (if bs = [] then "EOF" else "unexpected EOF"), true⟩ ∧
      connectRawSocketPeer p rc bs = (.error (if bs = [] then "EOF" else "unexpected EOF"), true) := by
  match bs, h with
  | [], _ => exact ⟨rfl, rfl⟩
  | [_], _ => exact ⟨rfl, rfl⟩
  | [_, _], _ => exact ⟨rfl, rfl⟩
  | [_, _, _], _ => exact ⟨rfl, rfl⟩
  | _ :: _ :: _ :: _ :: _, h => simp at h; omega

example : acceptRawSocket 512 [0x7f, 0xf1] = ⟨none, .error "unexpected EOF", true⟩ := rfl

/-- ... and in general "fails cleanly" includes the connection: on either side it is closed exactly
    when no peer is returned, whatever bytes came and however many. -/
theorem handshake_closes_iff_no_peer (rs : Int) (p : UInt8) (rc : Int) (bs : List UInt8) :
    ((acceptRawSocket rs bs).connClosed = true ↔ ∀ c, (acceptRawSocket rs bs).result ≠ .ok c) ∧
      ((connectRawSocketPeer p rc bs).2 = true ↔ ∀ c, (connectRawSocketPeer p rc bs).1 ≠ .ok c) := by
  have key : ∀ r : HsResult, ((!r.isOk) = true ↔ ∀ c, r ≠ .ok c) := by
    intro r
    cases r with
    | ok c => simp [HsResult.isOk]
    | error e => simp [HsResult.isOk]
  constructor
  · match bs with
    | _ :: _ :: _ :: _ :: _ => exact key _
    | [] => simp [acceptRawSocket]
    | [_] => simp [acceptRawSocket]
    | [_, _] => simp [acceptRawSocket]
    | [_, _, _] => simp [acceptRawSocket]
  · exact key _

/-! ## sender -/

/-- The sender writes a message iff its serialisation is no longer than the limit the peer
    announced and fits the 24-bit length field; otherwise it writes nothing at all. -/
theorem sender_drops_iff (sl : Int) (p : List UInt8) :
    (frame sl p).isSome = true ↔ ((p.length : Int) ≤ sl ∧ p.length ≤ 2 ^ 24 - 1) := by
  rw [← fits_iff]
  cases h : fits sl p
  · rw [frame_none sl p h]; simp
  · obtain ⟨a, b, c, e, _⟩ := frame_some sl p h
    rw [e]; simp

/-- What is written: type byte 0, the length in three big-endian bytes, the payload untouched;
    as ONE write call. -/
theorem frame_shape (sl : Int) (p : List UInt8) (h : (p.length : Int) ≤ sl) (h24 : p.length ≤ 2 ^ 24 - 1) :
    ∃ a b c : UInt8, frame sl p = some (0 :: a :: b :: c :: p) ∧
      frameWrites sl p = some [0 :: a :: b :: c :: p] ∧
      Gen.bytesToInt [a, b, c] = Int.ofNat p.length := by
  obtain ⟨a, b, c, e, ha, hb, hc⟩ := intToBytes_ofNat p.length
  have hf := (fits_iff sl p).mpr ⟨h, h24⟩
  have hw : frameWrites sl p = some [0 :: a :: b :: c :: p] := by
    unfold frameWrites
    unfold fits at hf
    rw [if_neg (by simpa using hf)]
    simp only [frameHeader, e, Gen.sendHeader]
    simp [Gen.senderWriteParts, writePart]
  refine ⟨a, b, c, ?_, hw, ?_⟩
  · unfold frame; rw [hw]; simp
  · rw [bytesToInt_three, ha, hb, hc]
    congr 1
    omega

example : frame 512 [1, 2, 3] = some [0, 0, 0, 3, 1, 2, 3] := by decide
example : frame 2 [1, 2, 3] = none := by decide

/-- Framing loses nothing: two payloads that are written as the same frame are the same payload
    (so a receiver can never confuse two different serialised messages). -/
theorem frame_injective (sl : Int) (p q w : List UInt8)
    (hp : frame sl p = some w) (hq : frame sl q = some w) : p = q := by
  have fp : fits sl p = true := by
    cases h : fits sl p
    · rw [frame_none sl p h] at hp; cases hp
    · rfl
  have fq : fits sl q = true := by
    cases h : fits sl q
    · rw [frame_none sl q h] at hq; cases hq
    · rfl
  obtain ⟨a, b, c, e, _⟩ := frame_some sl p fp
  obtain ⟨a', b', c', e', _⟩ := frame_some sl q fq
  rw [e] at hp; rw [e'] at hq
  have h := (Option.some.inj hp).trans (Option.some.inj hq).symm
  simp only [List.cons.injEq] at h
  exact h.2.2.2.2

example : frame 512 [1, 2] = some [0, 0, 0, 2, 1, 2] ∧ frame 512 [1, 3] ≠ some [0, 0, 0, 2, 1, 2] := by decide

/-! ## reader: messages -/

/-- THE STREAM THEOREM.  For every queue of messages, every serializer pair with
    `de (ser m) = some m`, and all limits with sendLimit ≤ recvLimit (as negotiated:
    `handshake_compose`), the reader hands over exactly the messages that serialise and fit, in
    order, and ends idle between frames.  Nothing about the dropped ones reaches it. -/
theorem stream {M : Type} (ser : M → Option (List UInt8)) (de : List UInt8 → Option M)
    (hrt : ∀ m p, ser m = some p → de p = some m)
    (sl rl : Int) (hsl : sl ≤ rl) (msgs : List M) :
    decodeStream de rl (sendAll ser sl msgs) =
      ((msgs.filter (arrives ser sl)).map Ev.deliver, .hdr0) := by
  unfold decodeStream sendAll
  have key : ∀ msgs : List M,
      (msgs.filterMap (fun m => (ser m).bind (frame sl))) =
        ((msgs.filterMap ser).filterMap (frame sl)) := by
    intro msgs
    induction msgs with
    | nil => rfl
    | cons m ms ih =>
      cases hs : ser m with
      | none => simp [hs, ih]
      | some p =>
        cases hf : frame sl p <;> simp [hs, hf, ih]
  have evs : ∀ msgs : List M,
      ((msgs.filterMap ser).filter (fits sl)).flatMap (payloadEvents de) =
        (msgs.filter (arrives ser sl)).map Ev.deliver := by
    intro msgs
    induction msgs with
    | nil => rfl
    | cons m ms ih =>
      cases hs : ser m with
      | none =>
        simp only [List.filterMap_cons, hs, List.filter_cons, arrives]
        simpa using ih
      | some p =>
        cases hf : fits sl p with
        | false =>
          simp only [List.filterMap_cons, hs, List.filter_cons, hf, arrives]
          simpa using ih
        | true =>
          simp only [List.filterMap_cons, hs, List.filter_cons, hf, arrives, if_true,
            List.flatMap_cons, List.map_cons]
          rw [ih]
          simp [payloadEvents, hrt m p hs]
  rw [key]
  have := run_frames de rl sl hsl (msgs.filterMap ser) []
  rw [List.append_nil] at this
  rw [this, evs]
  simp only [run, List.append_nil]

example : decodeStream (M := Nat) (fun p => some p.length) 512
    (sendAll (fun n => if n = 7 then none else some (List.replicate n 0x61)) 4 [3, 9, 7, 2]) =
    ([.deliver 3, .deliver 2], .hdr0) := by
  decide

/-- Audit b1.  `stream` under the codec hypothesis that C14 actually provides: the round trip
    holds only UP TO a normalisation `norm` (`de (ser m) = some (norm m)`), and only for the
    messages that are sent (`m ∈ msgs`, so side conditions on messages can be carried by the
    list).  The reader then hands over `norm m` for exactly the messages that serialise and fit,
    in order, and ends idle between frames. -/
theorem stream_norm_on {M : Type} (ser : M → Option (List UInt8)) (de : List UInt8 → Option M)
    (norm : M → M) (sl rl : Int) (hsl : sl ≤ rl) (msgs : List M)
    (hrt : ∀ m, m ∈ msgs → ∀ p, ser m = some p → de p = some (norm m)) :
    decodeStream de rl (sendAll ser sl msgs) =
      ((msgs.filter (arrives ser sl)).map (fun m => Ev.deliver (norm m)), .hdr0) := by
  unfold decodeStream sendAll
  have key : ∀ msgs : List M,
      (msgs.filterMap (fun m => (ser m).bind (frame sl))) =
        ((msgs.filterMap ser).filterMap (frame sl)) := by
    intro msgs
    induction msgs with
    | nil => rfl
    | cons m ms ih =>
      cases hs : ser m with
      | none => simp [hs, ih]
      | some p =>
        cases hf : frame sl p <;> simp [hs, hf, ih]
  have evs : ∀ msgs : List M, (∀ m, m ∈ msgs → ∀ p, ser m = some p → de p = some (norm m)) →
      ((msgs.filterMap ser).filter (fits sl)).flatMap (payloadEvents de) =
        (msgs.filter (arrives ser sl)).map (fun m => Ev.deliver (norm m)) := by
    intro msgs
    induction msgs with
    | nil => intro _; rfl
    | cons m ms ih =>
      intro hrt
      have ih' := ih (fun x hx => hrt x (List.mem_cons_of_mem _ hx))
      cases hs : ser m with
      | none =>
        simp only [List.filterMap_cons, hs, List.filter_cons, arrives]
        simpa using ih'
      | some p =>
        cases hf : fits sl p with
        | false =>
          simp only [List.filterMap_cons, hs, List.filter_cons, hf, arrives]
          simpa using ih'
        | true =>
          simp only [List.filterMap_cons, hs, List.filter_cons, hf, arrives, if_true,
            List.flatMap_cons, List.map_cons]
          rw [ih']
          simp [payloadEvents, hrt m List.mem_cons_self p hs]
  rw [key]
  have := run_frames de rl sl hsl (msgs.filterMap ser) []
  rw [List.append_nil] at this
  rw [this, evs msgs hrt]
  simp only [run, List.append_nil]

/-- Audit b1, in the form proposed there: the round-trip hypothesis for all messages. `stream`
    is the case `norm = id`. -/
theorem stream_norm {M : Type} (ser : M → Option (List UInt8)) (de : List UInt8 → Option M)
    (norm : M → M) (hrt : ∀ m p, ser m = some p → de p = some (norm m))
    (sl rl : Int) (hsl : sl ≤ rl) (msgs : List M) :
    decodeStream de rl (sendAll ser sl msgs) =
      ((msgs.filter (arrives ser sl)).map (Ev.deliver ∘ norm), .hdr0) :=
  stream_norm_on ser de norm sl rl hsl msgs (fun m _ p h => hrt m p h)

/-- non-vacuity: a serializer/deserializer pair that round-trips only up to `norm` (here: the
    deserializer reports the length rounded down to an even number); 3 fits, 9 is too long for
    the send limit 4, 7 does not serialise, 2 fits. -/
example : ∀ (m : Nat) (p : List UInt8),
    (fun n => if n = 7 then none else some (List.replicate n 0x61)) m = some p →
      (fun q : List UInt8 => some (q.length / 2 * 2)) p = some ((fun n => n / 2 * 2) m) := by
  intro m p h
  by_cases h7 : m = 7
  · simp [h7] at h
  · simp only [if_neg h7, Option.some.injEq] at h
    subst h
    simp
example : decodeStream (M := Nat) (fun q => some (q.length / 2 * 2)) 512
    (sendAll (fun n => if n = 7 then none else some (List.replicate n 0x61)) 4 [3, 9, 7, 2]) =
    ([.deliver 2, .deliver 2], .hdr0) := by
  decide

/-- Audit a5.  THE TWO DIRECTIONS OF ONE CONNECTION.  Whatever a client (any protocol byte, any
    configured limit) and a server (any configured limit) negotiate: if both end with a peer, then
    in BOTH directions the reader hands over exactly the messages that serialise and fit the
    sender's limit, in order — the premise `sendLimit ≤ recvLimit` of `stream` is not assumed
    but follows from the handshake (`connected_limits`). -/
theorem connected_streams {M : Type} (ser : M → Option (List UInt8)) (de : List UInt8 → Option M)
    (hrt : ∀ m p, ser m = some p → de p = some m)
    (p : UInt8) (rc rs : Int) (c s : PeerCfg) (rep : List UInt8)
    (h : connect p rc rs = (.ok c, ⟨some rep, .ok s⟩)) (up down : List M) :
    decodeStream de s.recvLimit (sendAll ser c.sendLimit up) =
        ((up.filter (arrives ser c.sendLimit)).map Ev.deliver, .hdr0) ∧
      decodeStream de c.recvLimit (sendAll ser s.sendLimit down) =
        ((down.filter (arrives ser s.sendLimit)).map Ev.deliver, .hdr0) := by
  obtain ⟨_, h1, h2⟩ := connected_limits p rc rs c s rep h
  exact ⟨stream ser de hrt _ _ (by omega) up, stream ser de hrt _ _ (by omega) down⟩

/-- The same with a codec that round-trips up to `norm` (what C14 gives, audit b1). -/
theorem connected_streams_norm {M : Type} (ser : M → Option (List UInt8)) (de : List UInt8 → Option M)
    (norm : M → M) (p : UInt8) (rc rs : Int) (c s : PeerCfg) (rep : List UInt8)
    (h : connect p rc rs = (.ok c, ⟨some rep, .ok s⟩)) (up down : List M)
    (hup : ∀ m, m ∈ up → ∀ q, ser m = some q → de q = some (norm m))
    (hdown : ∀ m, m ∈ down → ∀ q, ser m = some q → de q = some (norm m)) :
    decodeStream de s.recvLimit (sendAll ser c.sendLimit up) =
        ((up.filter (arrives ser c.sendLimit)).map (fun m => Ev.deliver (norm m)), .hdr0) ∧
      decodeStream de c.recvLimit (sendAll ser s.sendLimit down) =
        ((down.filter (arrives ser s.sendLimit)).map (fun m => Ev.deliver (norm m)), .hdr0) := by
  obtain ⟨_, h1, h2⟩ := connected_limits p rc rs c s rep h
  exact ⟨stream_norm_on ser de norm _ _ (by omega) up hup,
    stream_norm_on ser de norm _ _ (by omega) down hdown⟩

/-- non-vacuity of `connected_streams`: client limit 512, server limit 1024, messages = payload
    lengths; 600 bytes pass client -> server (limit 1024) but not server -> client (limit 512). -/
example : connect 1 512 1024 =
    (.ok ⟨some "JSONSerializer", 1024, 512⟩,
     ⟨some [0x7f, 0x11, 0, 0], .ok ⟨some "JSONSerializer", 512, 1024⟩⟩) := by decide
example : arrives (M := Nat) (fun n => some (List.replicate n 0x61)) 1024 600 = true ∧
    arrives (M := Nat) (fun n => some (List.replicate n 0x61)) 512 600 = false := by
  simp only [arrives, fits, List.length_replicate]
  decide

/-- The same for raw payloads, including ones that do not deserialise: those are skipped and the
    stream continues; whatever comes after the frames (`rest`) is read as if the frames had never
    been there. -/
theorem stream_then {M : Type} (de : List UInt8 → Option M) (sl rl : Int) (hsl : sl ≤ rl)
    (payloads : List (List UInt8)) (rest : List UInt8) :
    decodeStream de rl ((payloads.filterMap (frame sl)).flatten ++ rest) =
      (((payloads.filter (fits sl)).flatMap (payloadEvents de)) ++ (decodeStream de rl rest).1,
       (decodeStream de rl rest).2) :=
  run_frames de rl sl hsl payloads rest

theorem stream_payloads {M : Type} (de : List UInt8 → Option M) (sl rl : Int) (hsl : sl ≤ rl)
    (payloads : List (List UInt8)) :
    delivered (decodeStream de rl ((payloads.filterMap (frame sl)).flatten)).1 =
        (payloads.filter (fits sl)).filterMap de ∧
      written (decodeStream de rl ((payloads.filterMap (frame sl)).flatten)).1 = [] ∧
      (decodeStream de rl ((payloads.filterMap (frame sl)).flatten)).2 = .hdr0 := by
  have := run_frames de rl sl hsl payloads []
  rw [List.append_nil] at this
  unfold decodeStream
  rw [this]
  exact ⟨by simpa [run] using delivered_payloadEvents de _, by simpa [run] using written_payloadEvents de _, rfl⟩

/-- non-vacuity: a payload that does not deserialise (odd length here) between two that do -/
example : delivered (decodeStream (M := Nat) (fun p => if p.length % 2 = 0 then some p.length else none) 512
    (([[1, 2], [3], [4, 5, 6, 7], [8, 9, 10]].filterMap (frame 3)).flatten)).1 = [2] := by decide

/-- The reader is a function of the concatenation of what it reads: however the stream is cut
    into chunks, events and final state are the same. -/
theorem chunking {M : Type} (de : List UInt8 → Option M) (rl : Int) (s : RState)
    (chunks : List (List UInt8)) :
    runChunks de rl s chunks = run de rl s chunks.flatten := by
  induction chunks generalizing s with
  | nil => rfl
  | cons c cs ih =>
    rw [List.flatten_cons, run_append, runChunks, ih]

example : runChunks (M := List UInt8) some 512 .hdr0 [[0], [0, 0], [], [2, 0x41], [0x42, 1, 0]] =
    ([.deliver [0x41, 0x42]], .hdr2 1 0) := by decide

theorem decode_append {M : Type} (de : List UInt8 → Option M) (rl : Int) (s : RState)
    (a b : List UInt8) :
    run de rl s (a ++ b) =
      ((run de rl s a).1 ++ (run de rl (run de rl s a).2 b).1, (run de rl (run de rl s a).2 b).2) :=
  run_append de rl s a b

/-- Deserialisation is a parameter: the reader with deserializer `de` is the reader with the
    identity deserializer followed by `de` on each payload (this is how the family `frames`
    compares the Lean model with the real codecs). -/
theorem deserializer_is_parameter {M : Type} (de : List UInt8 → Option M) (rl : Int)
    (bytes : List UInt8) :
    delivered (decodeStream de rl bytes).1 =
        (delivered (decodeStream (M := List UInt8) some rl bytes).1).filterMap de ∧
      written (decodeStream de rl bytes).1 = written (decodeStream (M := List UInt8) some rl bytes).1 ∧
      (decodeStream de rl bytes).2 = (decodeStream (M := List UInt8) some rl bytes).2 := by
  unfold decodeStream
  rw [run_map de rl .hdr0 bytes]
  exact ⟨delivered_flatMap_mapEv de _, written_flatMap_mapEv de _, rfl⟩

/-! ## reader: frames that end the connection -/

/-- After any number of good frames, a header that announces more than the receive limit
    (whatever its type) or whose type bits are 3..7 closes the connection: the events are those
    of the good frames, and NOTHING that follows is delivered or answered, whatever it is. -/
theorem oversize_or_reserved {M : Type} (de : List UInt8 → Option M) (sl rl : Int) (hsl : sl ≤ rl)
    (payloads : List (List UInt8)) (h0 l0 l1 l2 : UInt8) (rest : List UInt8)
    (hbad : Gen.bytesToInt [l0, l1, l2] > rl ∨ 3 ≤ h0.toNat % 8) :
    ∃ why, decodeStream de rl
        ((payloads.filterMap (frame sl)).flatten ++ h0 :: l0 :: l1 :: l2 :: rest) =
      ((payloads.filter (fits sl)).flatMap (payloadEvents de), .closed why) := by
  have key : ∃ why, run de rl .hdr0 (h0 :: l0 :: l1 :: l2 :: rest) = ([], .closed why) := by
    by_cases ho : Gen.bytesToInt [l0, l1, l2] > rl
    · exact ⟨_, run_oversize de rl h0 l0 l1 l2 rest ho⟩
    · have h3 : 3 ≤ h0.toNat % 8 := by
        rcases hbad with h | h
        · exact absurd h ho
        · exact h
      apply run_reserved de rl h0 l0 l1 l2 rest
      rw [readerCase_frameType]
      rw [if_neg (by omega), if_neg (by omega), if_neg (by omega)]
  obtain ⟨why, hk⟩ := key
  refine ⟨why, ?_⟩
  unfold decodeStream
  rw [run_frames de rl sl hsl payloads, hk]
  simp

example : decodeStream (M := List UInt8) some 512 [0, 0, 0, 1, 0x41, 0x03, 0, 0, 0, 0, 0, 0, 1, 0x42] =
    ([.deliver [0x41]], .closed .reservedType) := by decide
example : decodeStream (M := List UInt8) some 512 [0, 0, 2, 1, 0, 0, 0, 1, 0x42] =
    ([], .closed .oversize) := by decide

/-- Once closed, always closed; nothing more happens. -/
theorem closed_is_final {M : Type} (de : List UInt8 → Option M) (rl : Int) (why : CloseReason)
    (bytes : List UInt8) : run de rl (.closed why) bytes = ([], .closed why) :=
  run_closed de rl why bytes

/-- The reader never hands a nil message to the router, from any state, on any input. -/
theorem never_nil {M : Type} (de : List UInt8 → Option M) (rl : Int) (s : RState)
    (bytes : List UInt8) : nilCount (run de rl s bytes).1 = 0 :=
  nilCount_run de rl s bytes

/-- Every message handed over is the deserialisation of some payload. -/
theorem delivered_are_deserialised {M : Type} (de : List UInt8 → Option M) (rl : Int)
    (bytes : List UInt8) (m : M) (hm : m ∈ delivered (decodeStream de rl bytes).1) :
    ∃ p, de p = some m := by
  rw [(deserializer_is_parameter de rl bytes).1] at hm
  obtain ⟨p, _, hp⟩ := List.mem_filterMap.mp hm
  exact ⟨p, hp⟩

/-! ## PING / PONG -/

/-- A PING frame (type bits 001) within the limit: exactly the header with type 2 and the SAME
    three length bytes is written back, then the same payload; nothing is delivered; the rest
    of the stream is read as usual. -/
theorem ping {M : Type} (de : List UInt8 → Option M) (rl : Int) (h0 l0 l1 l2 : UInt8)
    (p rest : List UInt8) (ht : h0.toNat % 8 = 1)
    (hn : Gen.bytesToInt [l0, l1, l2] = Int.ofNat p.length) (hle : (p.length : Int) ≤ rl) :
    written (decodeStream de rl (h0 :: l0 :: l1 :: l2 :: (p ++ rest))).1 =
        2 :: l0 :: l1 :: l2 :: p ++ written (decodeStream de rl rest).1 ∧
      delivered (decodeStream de rl (h0 :: l0 :: l1 :: l2 :: (p ++ rest))).1 =
        delivered (decodeStream de rl rest).1 ∧
      (decodeStream de rl (h0 :: l0 :: l1 :: l2 :: (p ++ rest))).2 = (decodeStream de rl rest).2 := by
  have hk : Gen.readerCase (Gen.frameType h0) = .ping := by
    rw [readerCase_frameType, if_neg (by omega), if_pos ht]
  unfold decodeStream
  rw [run_ping_frame de rl h0 l0 l1 l2 p rest hk hn hle]
  exact ⟨rfl, rfl, rfl⟩

example : written (decodeStream (M := List UInt8) some 512 [0x01, 0, 0, 2, 0xAA, 0xBB]).1 =
    [0x02, 0, 0, 2, 0xAA, 0xBB] := by decide

/-- ... and the PONG frame goes out as ONE write call, made after the whole payload is there. -/
theorem ping_one_write {M : Type} (de : List UInt8 → Option M) (rl : Int) (h0 l0 l1 l2 : UInt8)
    (p rest : List UInt8) (ht : h0.toNat % 8 = 1)
    (hn : Gen.bytesToInt [l0, l1, l2] = Int.ofNat p.length) (hle : (p.length : Int) ≤ rl) :
    (decodeStream de rl (h0 :: l0 :: l1 :: l2 :: (p ++ rest))).1 =
      Ev.wrote (2 :: l0 :: l1 :: l2 :: p) :: (decodeStream de rl rest).1 := by
  have hk : Gen.readerCase (Gen.frameType h0) = .ping := by
    rw [readerCase_frameType, if_neg (by omega), if_pos ht]
  unfold decodeStream
  rw [run_ping_frame de rl h0 l0 l1 l2 p rest hk hn hle]

example : (decodeStream (M := List UInt8) some 512 [0x01, 0, 0, 2, 0xAA, 0xBB, 0x01, 0, 0, 0]).1 =
    [.wrote [0x02, 0, 0, 2, 0xAA, 0xBB], .wrote [0x02, 0, 0, 0]] := by decide

/-- A PING whose payload has not arrived completely: NOTHING has been written (no PONG header
    ahead of the payload); the reader waits with what it has. -/
theorem ping_truncated {M : Type} (de : List UInt8 → Option M) (rl : Int) (h0 l0 l1 l2 : UInt8)
    (n : Nat) (p : List UInt8) (ht : h0.toNat % 8 = 1)
    (hn : Gen.bytesToInt [l0, l1, l2] = Int.ofNat n) (hle : (n : Int) ≤ rl) (hp : p.length < n) :
    decodeStream de rl (h0 :: l0 :: l1 :: l2 :: p) =
      ([], .pbody l0 l1 l2 (n - 1 - p.length) p.reverse) := by
  have hk : Gen.readerCase (Gen.frameType h0) = .ping := by
    rw [readerCase_frameType, if_neg (by omega), if_pos ht]
  exact run_ping_truncated de rl h0 l0 l1 l2 n p hk hn hle hp

example : decodeStream (M := List UInt8) some 512 [0x09, 0, 0, 5, 0xAA, 0xBB] =
    ([], .pbody 0 0 5 2 [0xBB, 0xAA]) := by decide

/-- A PONG frame is read and dropped. -/
theorem pong_ignored {M : Type} (de : List UInt8 → Option M) (rl : Int) (h0 l0 l1 l2 : UInt8)
    (p rest : List UInt8) (ht : h0.toNat % 8 = 2)
    (hn : Gen.bytesToInt [l0, l1, l2] = Int.ofNat p.length) (hle : (p.length : Int) ≤ rl) :
    decodeStream de rl (h0 :: l0 :: l1 :: l2 :: (p ++ rest)) = decodeStream de rl rest := by
  have hk : Gen.readerCase (Gen.frameType h0) = .pong := by
    rw [readerCase_frameType, if_neg (by omega), if_neg (by omega), if_pos ht]
  exact run_pong_frame de rl h0 l0 l1 l2 p rest hk hn hle

example : decodeStream (M := List UInt8) some 512 [0x02, 0, 0, 2, 0xAA, 0xBB, 0, 0, 0, 1, 0x41] =
    ([.deliver [0x41]], .hdr0) := by decide

/-! ## reader: any inbound mix of MSG / PING / PONG frames; truncated frames -/

/-- Audit a4.  ANY sequence of inbound frames whose type bits are 0, 1 or 2 (upper bits of byte 0
    arbitrary), whose length field is right and within the reader's limit — in any order and
    number, e.g. PINGs between messages —, followed by anything: every frame has exactly its own
    effect, in order (MSG: the deserialised payload is handed over, or skipped if it does not
    deserialise; PING: ONE write of the PONG frame; PONG: nothing), and the reader is then where
    it would be on `rest` alone.  (`stream_then` is the case "only MSG frames of our sender",
    `ping`/`pong_ignored` the case of one frame.) -/
theorem mixed_frames {M : Type} (de : List UInt8 → Option M) (rl : Int) (fs : List WpD.InFrame)
    (hf : ∀ f, f ∈ fs → f.wellFormed rl) (rest : List UInt8) :
    decodeStream de rl (fs.flatMap WpD.InFrame.bytes ++ rest) =
      (fs.flatMap (WpD.InFrame.events de) ++ (decodeStream de rl rest).1,
       (decodeStream de rl rest).2) :=
  WpD.run_inframes de rl fs hf rest

/-- ... so the messages handed over are the deserialisable payloads of the MSG frames, in order,
    and the reader goroutine's write calls are one whole PONG frame per PING, in order. -/
theorem mixed_frames_observed {M : Type} (de : List UInt8 → Option M) (rl : Int)
    (fs : List WpD.InFrame) (hf : ∀ f, f ∈ fs → f.wellFormed rl) :
    delivered (decodeStream de rl (fs.flatMap WpD.InFrame.bytes)).1 =
        fs.flatMap (fun f => if f.h0.toNat % 8 = 0 then (de f.payload).toList else []) ∧
      WpD.writeCalls (decodeStream de rl (fs.flatMap WpD.InFrame.bytes)).1 =
        readerCalls (WpD.pongsOf fs) ∧
      (decodeStream de rl (fs.flatMap WpD.InFrame.bytes)).2 = .hdr0 := by
  refine ⟨?_, WpD.writeCalls_inframes de rl fs hf, ?_⟩
  · have h := mixed_frames de rl fs hf []
    rw [List.append_nil] at h
    rw [h]
    simp only [decodeStream, run, List.append_nil]
    clear h hf
    induction fs with
    | nil => rfl
    | cons f fs ih =>
      rw [List.flatMap_cons, List.flatMap_cons, delivered_append, ih]
      congr 1
      unfold WpD.InFrame.events
      by_cases h0 : f.h0.toNat % 8 = 0
      · rw [if_pos h0, if_pos h0]
        unfold payloadEvents
        cases de f.payload <;> rfl
      · rw [if_neg h0, if_neg h0]
        by_cases h1 : f.h0.toNat % 8 = 1
        · rw [if_pos h1]; rfl
        · rw [if_neg h1]; rfl
  · have h := mixed_frames de rl fs hf []
    rw [List.append_nil] at h
    rw [h]
    rfl

/-- the frames used in the examples: MSG 41, PING aa bb (byte 0 = 0x09: upper bits set), PONG 50 50,
    MSG 42 -/
def mixedExample : List WpD.InFrame :=
  [⟨0, 0, 0, 1, [0x41]⟩, ⟨0x09, 0, 0, 2, [0xAA, 0xBB]⟩, ⟨2, 0, 0, 2, [0x50, 0x50]⟩, ⟨0, 0, 0, 1, [0x42]⟩]

/-- non-vacuity of `mixed_frames` -/
example : ∀ f, f ∈ mixedExample → f.wellFormed 512 := by
  intro f hf
  simp only [mixedExample, List.mem_cons, List.not_mem_nil, or_false] at hf
  rcases hf with rfl | rfl | rfl | rfl <;>
    exact ⟨by decide, by rw [bytesToInt_three]; rfl, by decide⟩
example : decodeStream (M := List UInt8) some 512 (mixedExample.flatMap WpD.InFrame.bytes) =
    ([.deliver [0x41], .wrote [2, 0, 0, 2, 0xAA, 0xBB], .deliver [0x42]], .hdr0) := by decide

/-- Audit a7 (general form of `oversize_or_reserved`).  After ANY well-formed inbound traffic
    (MSG, PING and PONG frames in any order), a header that announces more than the receive limit
    (whatever its type) or whose type bits are 3..7 closes the connection: the events are those of
    the frames before it, NOTHING that follows is delivered or answered, and the reason is
    `oversize` when the length is over the limit (checked first), `reservedType` otherwise. -/
theorem bad_header_after_units {M : Type} (de : List UInt8 → Option M) (rl : Int)
    (fs : List WpD.InFrame) (hf : ∀ f, f ∈ fs → f.wellFormed rl) (h0 l0 l1 l2 : UInt8)
    (rest : List UInt8) (hbad : Gen.bytesToInt [l0, l1, l2] > rl ∨ 3 ≤ h0.toNat % 8) :
    decodeStream de rl (fs.flatMap WpD.InFrame.bytes ++ h0 :: l0 :: l1 :: l2 :: rest) =
      (fs.flatMap (WpD.InFrame.events de),
       .closed (if Gen.bytesToInt [l0, l1, l2] > rl then .oversize else .reservedType)) := by
  rw [mixed_frames de rl fs hf]
  unfold decodeStream
  rw [WpD.run_bad_header de rl h0 l0 l1 l2 rest hbad]
  simp

/-- non-vacuity: a reserved-type header (type bits 5), then an oversize PONG header (length 513) -/
example : decodeStream (M := List UInt8) some 512
    (mixedExample.flatMap WpD.InFrame.bytes ++ [0x05, 0, 0, 0, 0, 0, 0, 1, 0x43]) =
    ([.deliver [0x41], .wrote [2, 0, 0, 2, 0xAA, 0xBB], .deliver [0x42]], .closed .reservedType) := by
  decide
example : decodeStream (M := List UInt8) some 512
    (mixedExample.flatMap WpD.InFrame.bytes ++ [0x02, 0, 2, 1, 0, 0, 0, 1, 0x43]) =
    ([.deliver [0x41], .wrote [2, 0, 0, 2, 0xAA, 0xBB], .deliver [0x42]], .closed .oversize) := by
  decide

/-- Audit a6.  A MSG frame whose body is cut short (the header announces `n ≤ recvLimit` bytes,
    only `p.length < n` have arrived), after any well-formed traffic: NOTHING is handed over for
    that frame — the events are exactly those of the frames before it — and the reader is blocked
    in `io.ReadFull(buf)` holding the `p.length` bytes it has, `n - p.length` still to come. -/
theorem msg_truncated {M : Type} (de : List UInt8 → Option M) (rl : Int)
    (fs : List WpD.InFrame) (hf : ∀ f, f ∈ fs → f.wellFormed rl) (h0 l0 l1 l2 : UInt8)
    (n : Nat) (p : List UInt8) (ht : h0.toNat % 8 = 0)
    (hn : Gen.bytesToInt [l0, l1, l2] = Int.ofNat n) (hle : (n : Int) ≤ rl) (hp : p.length < n) :
    decodeStream de rl (fs.flatMap WpD.InFrame.bytes ++ h0 :: l0 :: l1 :: l2 :: p) =
      (fs.flatMap (WpD.InFrame.events de), .body (n - 1 - p.length) p.reverse) := by
  have hk : Gen.readerCase (Gen.frameType h0) = .msg := by
    rw [readerCase_frameType, if_pos ht]
  rw [mixed_frames de rl fs hf]
  unfold decodeStream
  rw [WpD.run_msg_truncated de rl h0 l0 l1 l2 n p hk hn hle hp]
  simp

example : decodeStream (M := List UInt8) some 512
    (mixedExample.flatMap WpD.InFrame.bytes ++ [0x00, 0, 0, 5, 0x43, 0x44]) =
    ([.deliver [0x41], .wrote [2, 0, 0, 2, 0xAA, 0xBB], .deliver [0x42]], .body 2 [0x44, 0x43]) := by
  decide

/-- The same from the sender's point of view: the frame our sender writes for a message, cut
    anywhere inside its body (`4 ≤ k < length`), after any queue of earlier messages: the earlier
    ones that fit are handed over, of the cut one nothing. -/
theorem sender_frame_cut {M : Type} (de : List UInt8 → Option M) (sl rl : Int) (hsl : sl ≤ rl)
    (payloads : List (List UInt8)) (q f : List UInt8) (hfr : frame sl q = some f)
    (j : Nat) (hj : j + 4 < f.length) :
    decodeStream de rl ((payloads.filterMap (frame sl)).flatten ++ f.take (j + 4)) =
      ((payloads.filter (fits sl)).flatMap (payloadEvents de),
       .body (q.length - 1 - j) (q.take j).reverse) := by
  have hfit : fits sl q = true := by
    cases h : fits sl q with
    | true => rfl
    | false => rw [frame_none sl q h] at hfr; cases hfr
  obtain ⟨a, b, c, hfr', hlen⟩ := frame_some sl q hfit
  rw [hfr] at hfr'
  have hf : f = 0 :: a :: b :: c :: q := Option.some.inj hfr'
  subst hf
  have hjq : j < q.length := by simpa using hj
  have hle : (q.length : Int) ≤ rl := by
    have := ((fits_iff sl q).mp hfit).1
    omega
  have htake : (0 :: a :: b :: c :: q).take (j + 4) = 0 :: a :: b :: c :: q.take j := by
    simp [List.take_succ_cons]
  rw [htake]
  unfold decodeStream
  rw [run_frames de rl sl hsl payloads,
    WpD.run_msg_truncated de rl 0 a b c q.length (q.take j) readerCase_zero hlen hle
      (by rw [List.length_take]; omega)]
  simp only [List.append_nil, List.length_take]
  rw [Nat.min_eq_left (Nat.le_of_lt hjq)]

example : frame 512 [0x41, 0x42, 0x43] = some [0, 0, 0, 3, 0x41, 0x42, 0x43] := by decide
example : decodeStream (M := List UInt8) some 512
    (([[0x40]].filterMap (frame 512)).flatten ++ [0, 0, 0, 3, 0x41, 0x42, 0x43].take (1 + 4)) =
    ([.deliver [0x40]], .body 1 [0x41]) := by decide

/-- Fewer than four bytes of a header: no event, the reader waits in `io.ReadFull(header)`. -/
theorem header_truncated {M : Type} (de : List UInt8 → Option M) (rl : Int)
    (fs : List WpD.InFrame) (hf : ∀ f, f ∈ fs → f.wellFormed rl) (bs : List UInt8)
    (h : bs.length < 4) :
    (decodeStream de rl (fs.flatMap WpD.InFrame.bytes ++ bs)).1 =
        fs.flatMap (WpD.InFrame.events de) ∧
      (decodeStream de rl (fs.flatMap WpD.InFrame.bytes ++ bs)).2.isClosed = false := by
  rw [mixed_frames de rl fs hf]
  unfold decodeStream
  rw [WpD.run_header_short de rl bs h]
  constructor
  · simp
  · match bs, h with
    | [], _ => rfl
    | [_], _ => rfl
    | [_, _], _ => rfl
    | [_, _, _], _ => rfl
    | _ :: _ :: _ :: _ :: _, h => simp at h; omega

example : decodeStream (M := List UInt8) some 512 [0, 0, 0, 1, 0x41, 0x00, 0x00] =
    ([.deliver [0x41]], .hdr2 0 0) := by decide

/-! ## reader: END OF STREAM as an input (audit a6, c)

  `Nexus.Frame.In` = one more byte | end of stream; `stepIn` / `runIn` / `decodeStreamEOF`
  extend `step` / `run` / `decodeStream` (`Nexus/Frame/Stream.lean`, with the reading of
  rawsocketpeer.go:269-286, :299-304, :317-321, :329-334 it rests on). -/

/-- The extension is conservative: on inputs that are all bytes, `runIn` IS `run`; every
    theorem about `run` / `decodeStream` is a theorem about the extended machine. -/
theorem runIn_bytes {M : Type} (de : List UInt8 → Option M) (rl : Int) (s : RState)
    (bytes : List UInt8) : runIn de rl s (bytes.map In.byte) = run de rl s bytes :=
  Frame.runIn_bytes de rl s bytes

/-- For EVERY byte string: the end of the stream adds NO event — what the reader handed over and
    wrote back is exactly what it had handed over and written when the last byte had been
    processed —, and the reader goroutine has returned (`closed`), whatever state it was in. -/
theorem eof_after_any_prefix {M : Type} (de : List UInt8 → Option M) (rl : Int)
    (bytes : List UInt8) :
    (decodeStreamEOF de rl bytes).1 = (decodeStream de rl bytes).1 ∧
      (decodeStreamEOF de rl bytes).2 = atEOF (decodeStream de rl bytes).2 ∧
      (decodeStreamEOF de rl bytes).2.isClosed = true := by
  rw [decodeStreamEOF_eq]
  exact ⟨rfl, rfl, atEOF_isClosed _⟩

example : decodeStreamEOF (M := List UInt8) some 512 [0, 0, 0, 1, 0x41, 0x01, 0, 0, 2, 0xAA] =
    ([.deliver [0x41]], .closed (.eof true)) := by decide

/-- ... and the reason says exactly where the stream ended: `eof false` iff the reader was idle
    between frames, `eof true` iff it was inside a header or a body, and the reader's own reason
    (oversize, reserved type) iff it had closed the connection itself before. -/
theorem eof_reason {M : Type} (de : List UInt8 → Option M) (rl : Int) (bytes : List UInt8) :
    ((decodeStreamEOF de rl bytes).2 = .closed (.eof false) ↔ (decodeStream de rl bytes).2 = .hdr0) ∧
      ((decodeStreamEOF de rl bytes).2 = .closed (.eof true) ↔
        (decodeStream de rl bytes).2.inFrame = true) ∧
      (∀ why, (∀ b, why ≠ .eof b) →
        ((decodeStreamEOF de rl bytes).2 = .closed why ↔ (decodeStream de rl bytes).2 = .closed why)) := by
  rw [decodeStreamEOF_eq]
  have hs := decodeStream_not_sawEOF de rl bytes
  generalize (decodeStream de rl bytes).2 = s at hs
  refine ⟨?_, ?_, ?_⟩
  · cases s with
    | closed why => cases why <;> simp_all [atEOF, RState.sawEOF]
    | _ => simp [atEOF]
  · cases s with
    | closed why => cases why <;> simp_all [atEOF, RState.sawEOF, RState.inFrame]
    | _ => simp [atEOF, RState.inFrame]
  · intro why hw
    cases s with
    | closed why' => simp [atEOF]
    | hdr0 => simp only [atEOF]; constructor
              · intro h; injection h with h; exact absurd h.symm (hw _)
              · intro h; cases h
    | _ =>
      simp only [atEOF]
      constructor
      · intro h; injection h with h; exact absurd h.symm (hw _)
      · intro h; cases h

/-- EOF BETWEEN FRAMES.  After any well-formed inbound traffic (MSG, PING, PONG frames in any
    order) the stream ends: everything before has had its effect — every MSG handed over, every
    PING answered —, nothing else happens, and the reader has returned with `eof false`.  On its
    way out it logs nothing, cancels the sender goroutine and waits for it, then closes the
    connection (rawsocketpeer.go:269-286). -/
theorem eof_clean {M : Type} (de : List UInt8 → Option M) (rl : Int) (fs : List WpD.InFrame)
    (hf : ∀ f, f ∈ fs → f.wellFormed rl) :
    decodeStreamEOF de rl (fs.flatMap WpD.InFrame.bytes) =
        (fs.flatMap (WpD.InFrame.events de), .closed (.eof false)) ∧
      readErrAction (decodeStream de rl (fs.flatMap WpD.InFrame.bytes)).2 =
        some ⟨none, true, true⟩ := by
  rw [decodeStreamEOF_eq]
  have h := mixed_frames de rl fs hf []
  rw [List.append_nil] at h
  rw [h]
  simp [decodeStream, run, atEOF, readErrAction]

example : decodeStreamEOF (M := List UInt8) some 512 (mixedExample.flatMap WpD.InFrame.bytes) =
    ([.deliver [0x41], .wrote [2, 0, 0, 2, 0xAA, 0xBB], .deliver [0x42]], .closed (.eof false)) := by
  decide

/-- The same for what OUR sender writes (`stream` + end of stream): every message that serialises
    and fits is handed over, in order, and the reader returns with `eof false`. -/
theorem eof_clean_stream {M : Type} (ser : M → Option (List UInt8)) (de : List UInt8 → Option M)
    (hrt : ∀ m p, ser m = some p → de p = some m)
    (sl rl : Int) (hsl : sl ≤ rl) (msgs : List M) :
    decodeStreamEOF de rl (sendAll ser sl msgs) =
      ((msgs.filter (arrives ser sl)).map Ev.deliver, .closed (.eof false)) := by
  rw [decodeStreamEOF_eq, stream ser de hrt sl rl hsl msgs]
  rfl

example : decodeStreamEOF (M := Nat) (fun p => some p.length) 512
    (sendAll (fun n => if n = 7 then none else some (List.replicate n 0x61)) 4 [3, 9, 7, 2]) =
    ([.deliver 3, .deliver 2], .closed (.eof false)) := by
  decide

/-- EOF INSIDE A MSG BODY (audit a6; restated over the real model — it used to be stated over the
    hand-written `WpD.readerAtEOF`).  A MSG frame whose body is cut short (the header announces
    `n ≤ recvLimit` bytes, only `p.length < n` have arrived) and then the stream ENDS, after any
    well-formed traffic: NOTHING is handed over or written for that frame — the events are
    exactly those of the frames before it —, the reader returns with `eof true`; on its way out
    it logs "Error reading message:", closes the connection at once and does NOT cancel the
    sender goroutine (rawsocketpeer.go:299-304). -/
theorem msg_truncated_eof {M : Type} (de : List UInt8 → Option M) (rl : Int)
    (fs : List WpD.InFrame) (hf : ∀ f, f ∈ fs → f.wellFormed rl) (h0 l0 l1 l2 : UInt8)
    (n : Nat) (p : List UInt8) (ht : h0.toNat % 8 = 0)
    (hn : Gen.bytesToInt [l0, l1, l2] = Int.ofNat n) (hle : (n : Int) ≤ rl) (hp : p.length < n) :
    decodeStreamEOF de rl (fs.flatMap WpD.InFrame.bytes ++ h0 :: l0 :: l1 :: l2 :: p) =
        (fs.flatMap (WpD.InFrame.events de), .closed (.eof true)) ∧
      delivered (decodeStreamEOF de rl (fs.flatMap WpD.InFrame.bytes ++ h0 :: l0 :: l1 :: l2 :: p)).1 =
        delivered (decodeStream de rl (fs.flatMap WpD.InFrame.bytes)).1 ∧
      readErrAction (decodeStream de rl (fs.flatMap WpD.InFrame.bytes ++ h0 :: l0 :: l1 :: l2 :: p)).2 =
        some ⟨some "Error reading message:", false, true⟩ := by
  rw [decodeStreamEOF_eq, msg_truncated de rl fs hf h0 l0 l1 l2 n p ht hn hle hp]
  have h := mixed_frames de rl fs hf []
  rw [List.append_nil] at h
  rw [h]
  exact ⟨rfl, by simp [decodeStream, run], rfl⟩

example : decodeStreamEOF (M := List UInt8) some 512
    (mixedExample.flatMap WpD.InFrame.bytes ++ [0x00, 0, 0, 5, 0x43, 0x44]) =
    ([.deliver [0x41], .wrote [2, 0, 0, 2, 0xAA, 0xBB], .deliver [0x42]], .closed (.eof true)) := by
  decide

/-- EOF INSIDE A PING PAYLOAD: nothing is written for that PING (no PONG header, no partial
    echo), `eof true`; log "Error reading PING:", connection closed at once, sender not
    cancelled (rawsocketpeer.go:317-321). -/
theorem ping_truncated_eof {M : Type} (de : List UInt8 → Option M) (rl : Int)
    (fs : List WpD.InFrame) (hf : ∀ f, f ∈ fs → f.wellFormed rl) (h0 l0 l1 l2 : UInt8)
    (n : Nat) (p : List UInt8) (ht : h0.toNat % 8 = 1)
    (hn : Gen.bytesToInt [l0, l1, l2] = Int.ofNat n) (hle : (n : Int) ≤ rl) (hp : p.length < n) :
    decodeStreamEOF de rl (fs.flatMap WpD.InFrame.bytes ++ h0 :: l0 :: l1 :: l2 :: p) =
        (fs.flatMap (WpD.InFrame.events de), .closed (.eof true)) ∧
      readErrAction (decodeStream de rl (fs.flatMap WpD.InFrame.bytes ++ h0 :: l0 :: l1 :: l2 :: p)).2 =
        some ⟨some "Error reading PING:", false, true⟩ := by
  have hk : Gen.readerCase (Gen.frameType h0) = .ping := by
    rw [readerCase_frameType, if_neg (by omega), if_pos ht]
  rw [decodeStreamEOF_eq, mixed_frames de rl fs hf]
  unfold decodeStream
  rw [run_ping_truncated de rl h0 l0 l1 l2 n p hk hn hle hp]
  exact ⟨by simp [atEOF], rfl⟩

example : decodeStreamEOF (M := List UInt8) some 512 [0, 0, 0, 1, 0x41, 0x09, 0, 0, 5, 0xAA, 0xBB] =
    ([.deliver [0x41]], .closed (.eof true)) := by decide

/-- EOF INSIDE A PONG PAYLOAD: `eof true`; log "Error reading PONG:", connection closed at once,
    sender not cancelled (rawsocketpeer.go:329-334). -/
theorem pong_truncated_eof {M : Type} (de : List UInt8 → Option M) (rl : Int)
    (fs : List WpD.InFrame) (hf : ∀ f, f ∈ fs → f.wellFormed rl) (h0 l0 l1 l2 : UInt8)
    (n : Nat) (p : List UInt8) (ht : h0.toNat % 8 = 2)
    (hn : Gen.bytesToInt [l0, l1, l2] = Int.ofNat n) (hle : (n : Int) ≤ rl) (hp : p.length < n) :
    decodeStreamEOF de rl (fs.flatMap WpD.InFrame.bytes ++ h0 :: l0 :: l1 :: l2 :: p) =
        (fs.flatMap (WpD.InFrame.events de), .closed (.eof true)) ∧
      readErrAction (decodeStream de rl (fs.flatMap WpD.InFrame.bytes ++ h0 :: l0 :: l1 :: l2 :: p)).2 =
        some ⟨some "Error reading PONG:", false, true⟩ := by
  have hk : Gen.readerCase (Gen.frameType h0) = .pong := by
    rw [readerCase_frameType, if_neg (by omega), if_neg (by omega), if_pos ht]
  rw [decodeStreamEOF_eq, mixed_frames de rl fs hf]
  unfold decodeStream
  rw [WpD.run_pong_truncated de rl h0 l0 l1 l2 n p hk hn hle hp]
  exact ⟨by simp [atEOF], rfl⟩

example : decodeStreamEOF (M := List UInt8) some 512 [0, 0, 0, 1, 0x41, 0x02, 0, 0, 5, 0xAA, 0xBB] =
    ([.deliver [0x41]], .closed (.eof true)) := by decide

/-- EOF INSIDE A HEADER (1..3 bytes of it have come): `eof true` — but the code does not tell
    this from a clean end: the same branch as between frames (nothing logged, sender cancelled and
    awaited, then the connection closed; rawsocketpeer.go:269-286 does not look at the error). -/
theorem header_truncated_eof {M : Type} (de : List UInt8 → Option M) (rl : Int)
    (fs : List WpD.InFrame) (hf : ∀ f, f ∈ fs → f.wellFormed rl) (bs : List UInt8)
    (h1 : 1 ≤ bs.length) (h : bs.length < 4) :
    decodeStreamEOF de rl (fs.flatMap WpD.InFrame.bytes ++ bs) =
        (fs.flatMap (WpD.InFrame.events de), .closed (.eof true)) ∧
      readErrAction (decodeStream de rl (fs.flatMap WpD.InFrame.bytes ++ bs)).2 =
        some ⟨none, true, true⟩ := by
  rw [decodeStreamEOF_eq, mixed_frames de rl fs hf]
  unfold decodeStream
  rw [WpD.run_header_short de rl bs h]
  match bs, h1, h with
  | [_], _, _ => exact ⟨by simp [atEOF], rfl⟩
  | [_, _], _, _ => exact ⟨by simp [atEOF], rfl⟩
  | [_, _, _], _, _ => exact ⟨by simp [atEOF], rfl⟩
  | [], h1, _ => simp at h1
  | _ :: _ :: _ :: _ :: _, _, h => simp at h; omega

example : decodeStreamEOF (M := List UInt8) some 512 [0, 0, 0, 1, 0x41, 0x00, 0x00] =
    ([.deliver [0x41]], .closed (.eof true)) := by decide

/-- EOF IS FINAL: nothing after the end of the stream is read — whatever is appended to the input
    after `eof` (bytes, further `eof`s), the result is that of the input up to and including the
    first `eof` —, and the reader is closed. -/
theorem eof_is_final {M : Type} (de : List UInt8 → Option M) (rl : Int) (s : RState)
    (pre post : List In) :
    runIn de rl s (pre ++ In.eof :: post) = runIn de rl s (pre ++ [In.eof]) ∧
      (runIn de rl s (pre ++ In.eof :: post)).2.isClosed = true := by
  rw [runIn_append, runIn_append, runIn_eof_cons, runIn_eof_cons]
  exact ⟨rfl, atEOF_isClosed _⟩

example : runIn (M := List UInt8) some 512 .hdr0
    ([In.byte 0, In.byte 0, In.eof] ++ [0, 1, 0x41, 0, 0, 0, 1, 0x42].map In.byte) =
    ([], .closed (.eof true)) := by decide

/-- What else `recvHandler` does when a read fails depends ONLY on whether it was the header read
    or a body read — not on whether the stream ended between frames or inside one: the sender is
    cancelled (and awaited) exactly in the header case, a line is logged exactly in the other,
    the connection is closed in both. -/
theorem eof_action_by_read (s : RState) (a : ReadErrAction) (h : readErrAction s = some a) :
    (a.cancelsSender = true ↔ s.inHeader = true) ∧ (a.logs = none ↔ s.inHeader = true) ∧
      a.closesConn = true := by
  cases s <;> simp [readErrAction] at h <;> subst h <;> simp [RState.inHeader]

example : readErrAction (.hdr2 0 0) = some ⟨none, true, true⟩ := rfl

/-- SENDER-SIDE CONSEQUENCE (with `drain_writes_all`).  When the stream ends between frames or
    inside a header, the reader cancels the sender goroutine and waits for it before it closes
    the connection, so every message queued at that moment gets its write call, in order, on the
    still open connection — the GOODBYE answering a peer that half-closed, for instance. -/
theorem eof_in_header_sender_drains {M : Type} (ser : M → Option (List UInt8)) (sl : Int)
    (s : RState) (hs : s.inHeader = true) (oracle : List Bool) (queue : List M) :
    senderCallsAfterEOF ser sl s oracle queue = queue.flatMap (messageCalls ser sl) := by
  have ha : readErrAction s = some ⟨none, true, true⟩ := by
    cases s <;> first | rfl | cases hs
  unfold senderCallsAfterEOF
  rw [ha]
  exact afterCancel_drains (messageCalls ser sl) oracle queue

example : wire (senderCallsAfterEOF (M := Nat) (fun n => some (List.replicate n 0x61)) 512
    (.hdr1 0) [false] [1, 2]) = [0, 0, 0, 1, 0x61, 0, 0, 0, 2, 0x61, 0x61] := by decide

/-- ... whereas when it ends inside a MSG / PING / PONG body the connection is closed under the
    running sender: no write of a queued message is guaranteed any more. -/
theorem eof_in_body_nothing_guaranteed {M : Type} (ser : M → Option (List UInt8)) (sl : Int)
    (s : RState) (hs : s.inHeader = false) (oracle : List Bool) (queue : List M) :
    senderCallsAfterEOF ser sl s oracle queue = [] := by
  unfold senderCallsAfterEOF
  cases s <;> first | rfl | cases hs

example : senderCallsAfterEOF (M := Nat) (fun n => some (List.replicate n 0x61)) 512
    (.body 2 [0x41]) [true] [1, 2] = [] := rfl

/-! ## two goroutines write to one connection -/

/-- What `net.Conn` gives: the log is a merge of the two goroutines' call sequences, so each
    goroutine's calls appear whole and in the order it made them. -/
theorem write_calls_ordered_per_goroutine (sl : Int) (payloads : List (List UInt8)) (pongs : List Pong)
    (log : List WriteCall) (h : Merge (senderCalls sl payloads) (readerCalls pongs) log) :
    log.filter (fun c => c.role == .sender) = senderCalls sl payloads ∧
      log.filter (fun c => !(c.role == .sender)) = readerCalls pongs := by
  apply Merge.filter (fun c => c.role == .sender) h
  · intro a ha
    rw [senderCalls_units] at ha
    obtain ⟨u, hu, rfl⟩ := List.mem_map.mp ha
    obtain ⟨p, _, rfl⟩ := List.mem_map.mp hu
    rfl
  · intro b hb
    rw [readerCalls_units sl] at hb
    obtain ⟨u, hu, rfl⟩ := List.mem_map.mp hb
    obtain ⟨q, _, rfl⟩ := List.mem_map.mp hu
    rfl

/-- As long as the reader goroutine writes nothing (no PING arrives), the sender's frames
    reach the other side whole, and `stream_then`/`stream` applies to them. -/
theorem sender_alone_never_interleaves {M : Type} (de : List UInt8 → Option M) (sl rl : Int)
    (hsl : sl ≤ rl) (payloads : List (List UInt8)) (log : List WriteCall)
    (h : Merge (senderCalls sl payloads) [] log) :
    wire log = (payloads.filterMap (frame sl)).flatten ∧
      delivered (decodeStream de rl (wire log)).1 = (payloads.filter (fits sl)).filterMap de := by
  have hl := Merge.nil_right h
  subst hl
  rw [wire_senderCalls]
  exact ⟨rfl, (stream_payloads de sl rl hsl payloads).1⟩

/-- the PONG used in the examples: header 02 00 00 02, payload 50 50 -/
def f18PongUnit : Pong := ⟨0, 0, 2, [0x50, 0x50]⟩

/-- When whole frames are the atomic unit, every interleaving is harmless: the other side gets
    exactly the messages that fit, in order, and skips the PONGs.
    NOTE on `hw` (audit b2): `rl` is the limit of the side that READS these PONGs.  The code that
    writes them guarantees well-formedness w.r.t. its OWN receive limit only
    (`ping_answer_wellFormed`); `hw` holds in addition iff the reading side sent no PING longer
    than the limit it announced — see `locked_writers_ok_two_limits` for the version whose
    hypotheses say exactly that, and `no_interleaving_answerer_limit_fails` for why it is needed. -/
theorem locked_writers_ok {M : Type} (de : List UInt8 → Option M) (sl rl : Int) (hsl : sl ≤ rl)
    (payloads : List (List UInt8)) (pongs : List Pong) (hw : ∀ q, q ∈ pongs → q.wellFormed rl)
    (units : List WUnit)
    (h : Merge ((payloads.filter (fits sl)).map WUnit.msg) (pongs.map WUnit.pong) units) :
    decodeStream de rl (units.flatMap (WUnit.bytes sl)) =
      ((payloads.filter (fits sl)).flatMap (payloadEvents de), .hdr0) := by
  have hok : ∀ u, u ∈ units → u.ok rl sl := by
    intro u hu
    rcases h.mem u hu with hm | hm
    · obtain ⟨p, hp, rfl⟩ := List.mem_map.mp hm
      exact (List.mem_filter.mp hp).2
    · obtain ⟨q, hq, rfl⟩ := List.mem_map.mp hm
      exact hw q hq
  have := run_units de rl sl hsl units hok []
  rw [List.append_nil] at this
  unfold decodeStream
  rw [this]
  simp only [run, List.append_nil]
  congr 1
  rw [Merge.flatMap_left (WUnit.events de) h]
  · rw [List.flatMap_map]; rfl
  · intro b hb
    obtain ⟨q, _, rfl⟩ := List.mem_map.mp hb
    rfl

/-- non-vacuity: message, PONG, message as whole units -/
example : Merge (([[0x41], [0x42]].filter (fits 512)).map WUnit.msg) ([f18PongUnit].map WUnit.pong)
    [.msg [0x41], .pong f18PongUnit, .msg [0x42]] := by
  have : ([[0x41], [0x42]].filter (fits 512)) = [[0x41], [0x42]] := by decide
  rw [this]
  exact .left (.right (.left .nil))
example : decodeStream (M := List UInt8) some 512
    ([WUnit.msg [0x41], .pong f18PongUnit, .msg [0x42]].flatMap (WUnit.bytes 512)) =
    ([.deliver [0x41], .deliver [0x42]], .hdr0) := by decide

/-- FRAMES OF THE TWO WRITERS NEVER INTERLEAVE.  Whatever the scheduling of the two
    goroutines' write calls (any `Merge`), for every queue of messages, every sequence of answered
    PINGs and every deserializer, the other side receives exactly the sender's messages that fit,
    intact and in order — because, with the write calls the source makes today
    (`Gen.senderWriteParts`, `Gen.pongWriteParts`), every frame is one atomic `Write`.
    NOTE on `hw` (audit b2): it is an ASSUMPTION ABOUT THE PEER, not something `ping_one_write`
    discharges — `rl` here is the limit of the reader of the PONGs, `ping_one_write`'s `rl` is the
    limit of their writer.  `no_interleaving_two_limits` / `duplex_no_interleaving` state it with
    both limits. -/
theorem no_interleaving {M : Type} (de : List UInt8 → Option M) (sl rl : Int) (hsl : sl ≤ rl)
    (payloads : List (List UInt8)) (pongs : List Pong) (hw : ∀ q, q ∈ pongs → q.wellFormed rl)
    (log : List WriteCall) (h : Merge (senderCalls sl payloads) (readerCalls pongs) log) :
    decodeStream de rl (wire log) = ((payloads.filter (fits sl)).flatMap (payloadEvents de), .hdr0) := by
  rw [senderCalls_units, readerCalls_units sl] at h
  obtain ⟨units, hlog, hm⟩ := Merge.of_map (WUnit.call sl) h
  have hwire : wire log = units.flatMap (WUnit.bytes sl) := by
    subst hlog
    unfold wire
    rw [List.map_map]
    have : ((fun c : WriteCall => c.bytes) ∘ WUnit.call sl) = WUnit.bytes sl := by
      funext u; exact WUnit.call_bytes sl u
    rw [this, List.flatMap_def]
  rw [hwire]
  exact locked_writers_ok de sl rl hsl payloads pongs hw units hm

/-- The full statement (formerly false of the model: finding F18). -/
def no_interleaving_full : Prop :=
  ∀ (sl rl : Int) (payloads : List (List UInt8)) (pongs : List Pong) (log : List WriteCall),
    sl ≤ rl → (∀ q, q ∈ pongs → q.wellFormed rl) →
    Merge (senderCalls sl payloads) (readerCalls pongs) log →
    delivered (decodeStream (M := List UInt8) some rl (wire log)).1 = payloads.filter (fits sl)

theorem no_interleaving_full_holds : no_interleaving_full := by
  intro sl rl payloads pongs log hsl hw h
  rw [no_interleaving some sl rl hsl payloads pongs hw log h]
  rw [delivered_payloadEvents]
  induction (payloads.filter (fits sl)) with
  | nil => rfl
  | cons p ps ih => simp [ih]

/-- The message and the PONG of the examples. -/
def f18Payload : List UInt8 := [0x41, 0x41, 0x41, 0x41, 0x41, 0x41, 0x41, 0x41]

/-- non-vacuity of `no_interleaving`: a PONG scheduled between two messages -/
example : Merge (senderCalls 512 [f18Payload, [0x42]]) (readerCalls [f18PongUnit])
    [⟨.sender, 0 :: 0 :: 0 :: 8 :: f18Payload⟩, ⟨.reader, [2, 0, 0, 2, 0x50, 0x50]⟩,
     ⟨.sender, [0, 0, 0, 1, 0x42]⟩] := by
  have hs : senderCalls 512 [f18Payload, [0x42]] =
      [⟨.sender, 0 :: 0 :: 0 :: 8 :: f18Payload⟩, ⟨.sender, [0, 0, 0, 1, 0x42]⟩] := by decide
  have hr : readerCalls [f18PongUnit] = [⟨.reader, [2, 0, 0, 2, 0x50, 0x50]⟩] := by decide
  rw [hs, hr]
  exact .left (.right (.left .nil))
example : f18PongUnit.wellFormed 512 := by
  refine ⟨?_, by decide⟩
  rw [show f18PongUnit.l0 = 0 from rfl, show f18PongUnit.l1 = 0 from rfl,
    show f18PongUnit.l2 = 2 from rfl, bytesToInt_three]
  rfl

/-- non-vacuity of `sender_alone_never_interleaves`: the sender's calls alone are a log -/
example : Merge (senderCalls 512 [f18Payload]) [] (senderCalls 512 [f18Payload]) := by
  have hs : senderCalls 512 [f18Payload] = [⟨.sender, 0 :: 0 :: 0 :: 8 :: f18Payload⟩] := by decide
  rw [hs]
  exact .left .nil

/-! ### PONGs and the two receive limits (audit b2)

  Two sides: B answers PINGs (its reader goroutine writes the PONGs, its sender goroutine writes
  messages, limit `sl` = what A announced); A reads what B writes, with receive limit `rlA`;
  B's own receive limit is `rlB`.  After the handshake `sl = rlA` (`connected_limits`), and `rlA`,
  `rlB` are unrelated. -/

/-- What the answering reader guarantees about a PONG it writes: it is ONE write call carrying
    the whole frame `pongFrame ⟨l0, l1, l2, p⟩`, and that PONG is well formed w.r.t. the limit
    `rl` of the reader THAT ANSWERS (hypothesis `hle`, checked at rawsocketpeer.go:288-293).
    Nothing here says anything about the limit of the side that will read the PONG. -/
theorem ping_answer_wellFormed {M : Type} (de : List UInt8 → Option M) (rl : Int)
    (h0 l0 l1 l2 : UInt8) (p rest : List UInt8) (ht : h0.toNat % 8 = 1)
    (hn : Gen.bytesToInt [l0, l1, l2] = Int.ofNat p.length) (hle : (p.length : Int) ≤ rl) :
    (decodeStream de rl (h0 :: l0 :: l1 :: l2 :: (p ++ rest))).1 =
        Ev.wrote (pongFrame ⟨l0, l1, l2, p⟩) :: (decodeStream de rl rest).1 ∧
      (⟨l0, l1, l2, p⟩ : Pong).wellFormed rl :=
  ⟨ping_one_write de rl h0 l0 l1 l2 p rest ht hn hle, hn, hle⟩

example : (decodeStream (M := List UInt8) some 512 [0x01, 0, 0, 2, 0xAA, 0xBB]).1 =
    [.wrote (pongFrame ⟨0, 0, 2, [0xAA, 0xBB]⟩)] := by decide

/-- Audit b2.  A PONG whose payload is longer than the READER's receive limit makes the reader
    close with `oversize` (the length check comes before the type switch,
    rawsocketpeer.go:288-293), and nothing that follows it on the connection is read. -/
theorem pong_over_peer_limit_closes {M : Type} (de : List UInt8 → Option M) (rlA : Int)
    (q : Pong) (rest : List UInt8)
    (hn : Gen.bytesToInt [q.l0, q.l1, q.l2] = Int.ofNat q.payload.length)
    (h : (q.payload.length : Int) > rlA) :
    decodeStream de rlA (pongFrame q ++ rest) = ([], .closed .oversize) :=
  WpD.run_pong_oversize de rlA q rest hn h

/-- non-vacuity: a 3-byte PONG for a reader with limit 2, a message behind it -/
example : Gen.bytesToInt [0, 0, 3] = Int.ofNat ([0x50, 0x50, 0x50] : List UInt8).length ∧
    ((([0x50, 0x50, 0x50] : List UInt8).length : Int) > 2) := by
  constructor
  · rw [bytesToInt_three]; rfl
  · decide
example : decodeStream (M := List UInt8) some 2 (pongFrame ⟨0, 0, 3, [0x50, 0x50, 0x50]⟩ ++ [0, 0, 0, 1, 0x41]) =
    ([], .closed .oversize) := by decide

/-- Both halves together, for ALL limits and payloads: a PING whose length lies in
    `(rlA, rlB]` is ACCEPTED and ANSWERED by B (one write, B keeps reading), the PONG is well
    formed for B's limit but not for A's, and A, reading it — whatever B sent behind it —,
    closes the connection. -/
theorem ping_answer_closes_asker {M N : Type} (deB : List UInt8 → Option M)
    (deA : List UInt8 → Option N) (rlA rlB : Int) (h0 l0 l1 l2 : UInt8) (p restB restA : List UInt8)
    (ht : h0.toNat % 8 = 1) (hn : Gen.bytesToInt [l0, l1, l2] = Int.ofNat p.length)
    (hB : (p.length : Int) ≤ rlB) (hA : rlA < (p.length : Int)) :
    (decodeStream deB rlB (h0 :: l0 :: l1 :: l2 :: (p ++ restB))).1 =
        Ev.wrote (pongFrame ⟨l0, l1, l2, p⟩) :: (decodeStream deB rlB restB).1 ∧
      (decodeStream deB rlB (h0 :: l0 :: l1 :: l2 :: (p ++ restB))).2 = (decodeStream deB rlB restB).2 ∧
      (⟨l0, l1, l2, p⟩ : Pong).wellFormed rlB ∧ ¬ (⟨l0, l1, l2, p⟩ : Pong).wellFormed rlA ∧
      decodeStream deA rlA (pongFrame ⟨l0, l1, l2, p⟩ ++ restA) = ([], .closed .oversize) := by
  obtain ⟨hw, hwf⟩ := ping_answer_wellFormed deB rlB h0 l0 l1 l2 p restB ht hn hB
  refine ⟨hw, (ping deB rlB h0 l0 l1 l2 p restB ht hn hB).2.2, hwf, ?_, ?_⟩
  · intro hwa
    have : (p.length : Int) ≤ rlA := hwa.2
    omega
  · exact pong_over_peer_limit_closes deA rlA ⟨l0, l1, l2, p⟩ restA hn hA

/-- The 600-byte PING payload of the witness. -/
def asymPayload : List UInt8 := List.replicate 600 0x50

/-- The PONG that answers it (length bytes 00 02 58 = 600). -/
def asymPong : Pong := ⟨0, 2, 88, asymPayload⟩

theorem asymPayload_length : asymPayload.length = 600 := by
  unfold asymPayload
  exact List.length_replicate

theorem asymPong_len : Gen.bytesToInt [0, 2, 88] = Int.ofNat asymPayload.length := by
  rw [bytesToInt_three, asymPayload_length]
  rfl

/-- Audit b2, THE WITNESS with negotiated asymmetric limits.  Client A is configured with
    receive limit 512, server B with 1024; the handshake succeeds and gives A (send 1024,
    recv 512), B (send 512, recv 1024).  A sends a PING of 600 bytes — more than A itself
    announced, but within what B announced, so B may not refuse it.  B's reader accepts it and
    answers with ONE write of the 604-byte PONG frame and goes on reading (rawsocketpeer.go:289:
    `length > rs.recvLimit` is 600 > 1024, false; :311-327: no comparison with `rs.sendLimit`,
    which is 512).  A's reader sees a header announcing 600 > 512 and closes
    (rawsocketpeer.go:289-293).  The message `[0x41]` that B's sender wrote right behind the
    PONG — it fits B's send limit — is never delivered.  So with asymmetric limits the
    hypothesis `hw` of `no_interleaving` is not implied by anything the answering side does. -/
theorem asymmetric_ping_pong_closes :
    connect 1 512 1024 =
        (.ok ⟨some "JSONSerializer", 1024, 512⟩,
         ⟨some [0x7f, 0x11, 0, 0], .ok ⟨some "JSONSerializer", 512, 1024⟩⟩) ∧
      decodeStream (M := List UInt8) some 1024 (0x01 :: 0 :: 2 :: 88 :: asymPayload) =
        ([.wrote (pongFrame asymPong)], .hdr0) ∧
      asymPong.wellFormed 1024 ∧ ¬ asymPong.wellFormed 512 ∧
      frame 512 [0x41] = some [0, 0, 0, 1, 0x41] ∧
      decodeStream (M := List UInt8) some 512 (pongFrame asymPong ++ [0, 0, 0, 1, 0x41]) =
        ([], .closed .oversize) := by
  have hlen : asymPayload.length = 600 := asymPayload_length
  have hB : (asymPayload.length : Int) ≤ 1024 := by rw [hlen]; decide
  have hA : (512 : Int) < (asymPayload.length : Int) := by rw [hlen]; decide
  obtain ⟨h1, h2, h3, h4, h5⟩ :=
    ping_answer_closes_asker (M := List UInt8) (N := List UInt8) some some 512 1024 0x01 0 2 88
      asymPayload [] [0, 0, 0, 1, 0x41] (by decide) asymPong_len hB hA
  rw [List.append_nil] at h1 h2
  refine ⟨by decide, ?_, h3, h4, by decide, h5⟩
  exact Prod.ext h1 h2

/-- `locked_writers_ok` with the two limits kept apart.  `hans` is what B's reader guarantees
    for every PONG it writes (`ping_answer_wellFormed`, `WpD.pongsOf_wellFormed`); `hpeer` is the
    ASSUMPTION ABOUT THE PEER A that is really needed: A sent no PING longer than the receive
    limit A itself announced. -/
theorem locked_writers_ok_two_limits {M : Type} (de : List UInt8 → Option M) (sl rlA rlB : Int)
    (hsl : sl ≤ rlA) (payloads : List (List UInt8)) (pongs : List Pong)
    (hans : ∀ q, q ∈ pongs → q.wellFormed rlB)
    (hpeer : ∀ q, q ∈ pongs → (q.payload.length : Int) ≤ rlA)
    (units : List WUnit)
    (h : Merge ((payloads.filter (fits sl)).map WUnit.msg) (pongs.map WUnit.pong) units) :
    decodeStream de rlA (units.flatMap (WUnit.bytes sl)) =
      ((payloads.filter (fits sl)).flatMap (payloadEvents de), .hdr0) :=
  locked_writers_ok de sl rlA hsl payloads pongs (fun q hq => ⟨(hans q hq).1, hpeer q hq⟩) units h

/-- `no_interleaving` with the two limits kept apart (hypotheses as in
    `locked_writers_ok_two_limits`): whatever the scheduling of B's two goroutines, A receives
    exactly B's messages that fit, intact and in order, PROVIDED A sent no PING longer than its
    own announced limit. -/
theorem no_interleaving_two_limits {M : Type} (de : List UInt8 → Option M) (sl rlA rlB : Int)
    (hsl : sl ≤ rlA) (payloads : List (List UInt8)) (pongs : List Pong)
    (hans : ∀ q, q ∈ pongs → q.wellFormed rlB)
    (hpeer : ∀ q, q ∈ pongs → (q.payload.length : Int) ≤ rlA)
    (log : List WriteCall) (h : Merge (senderCalls sl payloads) (readerCalls pongs) log) :
    decodeStream de rlA (wire log) = ((payloads.filter (fits sl)).flatMap (payloadEvents de), .hdr0) :=
  no_interleaving de sl rlA hsl payloads pongs (fun q hq => ⟨(hans q hq).1, hpeer q hq⟩) log h

/-- The same with the hypothesis in one piece: every answered PING was no longer than the
    SMALLER of the two receive limits. -/
theorem no_interleaving_min {M : Type} (de : List UInt8 → Option M) (sl rlA rlB : Int)
    (hsl : sl ≤ rlA) (payloads : List (List UInt8)) (pongs : List Pong)
    (hw : ∀ q, q ∈ pongs → q.wellFormed (min rlA rlB))
    (log : List WriteCall) (h : Merge (senderCalls sl payloads) (readerCalls pongs) log) :
    decodeStream de rlA (wire log) = ((payloads.filter (fits sl)).flatMap (payloadEvents de), .hdr0) :=
  no_interleaving de sl rlA hsl payloads pongs
    (fun q hq => ((WpD.wellFormed_min q rlA rlB).mp (hw q hq)).1) log h

/-- non-vacuity (limits 512 and 1024, the 2-byte PONG of the earlier examples) -/
example : f18PongUnit.wellFormed (min 512 1024) := by
  refine ⟨?_, by decide⟩
  rw [show f18PongUnit.l0 = 0 from rfl, show f18PongUnit.l1 = 0 from rfl,
    show f18PongUnit.l2 = 2 from rfl, bytesToInt_three]
  rfl

/-- BOTH DIRECTIONS TOGETHER, with the PONGs taken from B's reader instead of assumed.
    A sends B any well-formed traffic `fs` (MSG, PING, PONG frames, within B's limit `rlB`);
    B's reader goroutine makes the write calls it makes for that traffic
    (`WpD.writeCalls` of its events — one PONG per PING, `mixed_frames_observed`); B's sender
    goroutine writes `payloads`; the calls of the two goroutines are scheduled in any way.  If
    none of A's PINGs is longer than the limit A announced (`hpeer`), A receives exactly B's
    messages that fit, intact and in order.  No hypothesis mentions `Pong.wellFormed`. -/
theorem duplex_no_interleaving {M N : Type} (deA : List UInt8 → Option M)
    (deB : List UInt8 → Option N) (sl rlA rlB : Int) (hsl : sl ≤ rlA)
    (fs : List WpD.InFrame) (hfs : ∀ f, f ∈ fs → f.wellFormed rlB)
    (hpeer : ∀ f, f ∈ fs → f.h0.toNat % 8 = 1 → (f.payload.length : Int) ≤ rlA)
    (payloads : List (List UInt8)) (log : List WriteCall)
    (h : Merge (senderCalls sl payloads)
      (WpD.writeCalls (decodeStream deB rlB (fs.flatMap WpD.InFrame.bytes)).1) log) :
    decodeStream deA rlA (wire log) =
      ((payloads.filter (fits sl)).flatMap (payloadEvents deA), .hdr0) := by
  unfold decodeStream at h
  rw [WpD.writeCalls_inframes deB rlB fs hfs] at h
  exact no_interleaving deA sl rlA hsl payloads (WpD.pongsOf fs)
    (WpD.pongsOf_wellFormed_other rlB rlA fs hfs hpeer) log h

/-- non-vacuity of `duplex_no_interleaving`: A sent `mixedExample` (one 2-byte PING); B's PONG is
    scheduled between B's two messages -/
example : ∀ f, f ∈ mixedExample → f.h0.toNat % 8 = 1 → (f.payload.length : Int) ≤ 512 := by
  intro f hf _
  simp only [mixedExample, List.mem_cons, List.not_mem_nil, or_false] at hf
  rcases hf with rfl | rfl | rfl | rfl <;> decide
example : Merge (senderCalls 512 [[0x41], [0x42]])
    (WpD.writeCalls (decodeStream (M := List UInt8) some 1024 (mixedExample.flatMap WpD.InFrame.bytes)).1)
    [⟨.sender, [0, 0, 0, 1, 0x41]⟩, ⟨.reader, [2, 0, 0, 2, 0xAA, 0xBB]⟩, ⟨.sender, [0, 0, 0, 1, 0x42]⟩] := by
  have hs : senderCalls 512 [[0x41], [0x42]] =
      [⟨.sender, [0, 0, 0, 1, 0x41]⟩, ⟨.sender, [0, 0, 0, 1, 0x42]⟩] := by decide
  have hr : WpD.writeCalls (decodeStream (M := List UInt8) some 1024
      (mixedExample.flatMap WpD.InFrame.bytes)).1 = [⟨.reader, [2, 0, 0, 2, 0xAA, 0xBB]⟩] := by decide
  rw [hs, hr]
  exact .left (.right (.left .nil))

/-- The statement one would get by feeding `no_interleaving` with what the answering side
    guarantees (PONGs well formed w.r.t. the ANSWERER's limit `rlB`) and nothing else. -/
def no_interleaving_answerer_limit : Prop :=
  ∀ (sl rlA rlB : Int) (payloads : List (List UInt8)) (pongs : List Pong) (log : List WriteCall),
    sl ≤ rlA → (∀ q, q ∈ pongs → q.wellFormed rlB) →
    Merge (senderCalls sl payloads) (readerCalls pongs) log →
    delivered (decodeStream (M := List UInt8) some rlA (wire log)).1 = payloads.filter (fits sl)

/-- It is FALSE: limits sl = rlA = 512, rlB = 1024 (as negotiated in
    `asymmetric_ping_pong_closes`), the 600-byte PONG written before the message `[0x41]`: A closes
    on the PONG and the message is lost.  The same happens in the Go code
    (rawsocketpeer.go:289-293 on A's side, :311-327 on B's side) when A is a peer that sends
    such a PING; nexus never sends PINGs, so A is not a nexus peer. -/
theorem no_interleaving_answerer_limit_fails : ¬ no_interleaving_answerer_limit := by
  intro hall
  have hlen : asymPayload.length = 600 := asymPayload_length
  have hwf : ∀ q, q ∈ [asymPong] → q.wellFormed 1024 := by
    intro q hq
    have : q = asymPong := by simpa using hq
    subst this
    exact ⟨asymPong_len, by show (asymPayload.length : Int) ≤ 1024; rw [hlen]; decide⟩
  have hm := WpD.merge_right_first (senderCalls 512 [[0x41]]) (readerCalls [asymPong])
  have h := hall 512 512 1024 [[0x41]] [asymPong] _ (Int.le_refl _) hwf hm
  rw [wire_append, WpD.readerCalls_cons] at h
  have hw : wire (⟨.reader, pongFrame asymPong⟩ :: readerCalls []) = pongFrame asymPong := by
    simp [wire, readerCalls]
  rw [hw, pong_over_peer_limit_closes some 512 asymPong _ asymPong_len
    (by show (asymPayload.length : Int) > 512; rw [hlen]; decide)] at h
  have hf : ([[0x41]] : List (List UInt8)).filter (fits 512) = [[0x41]] := by decide
  rw [hf] at h
  cases h

/-! ### the two-call shape the code had before -/

/-- sender header | reader PONG header | reader PONG payload | sender payload -/
def f18Log : List WriteCall :=
  [⟨.sender, [0, 0, 0, 8]⟩, ⟨.reader, [2, 0, 0, 2]⟩, ⟨.reader, [0x50, 0x50]⟩, ⟨.sender, f18Payload⟩]

/-- Had the sender written header and payload as two calls and the reader answered with two
    calls (as the code did), this schedule would be legal, and the other side would read one
    corrupted message (the PONG spliced into it), take the tail of the real payload for a header
    and close the connection. -/
theorem split_writes_corrupt :
    Merge (senderCallsSplit 512 [f18Payload]) (pongCallsSplit f18PongUnit) f18Log ∧
      decodeStream (M := List UInt8) some 512 (wire f18Log) =
        ([.deliver [2, 0, 0, 2, 0x50, 0x50, 0x41, 0x41]], .closed .oversize) := by
  constructor
  · have hs : senderCallsSplit 512 [f18Payload] = [⟨.sender, [0, 0, 0, 8]⟩, ⟨.sender, f18Payload⟩] := by
      decide
    have hr : pongCallsSplit f18PongUnit = [⟨.reader, [2, 0, 0, 2]⟩, ⟨.reader, [0x50, 0x50]⟩] := by decide
    rw [hs, hr]
    exact .left (.right (.right (.left .nil)))
  · decide

/-! ## closing: what was queued is written first -/

/-- Once the sender goroutine's context is cancelled (`Close`, or EOF seen by the reader), with
    `queue` sitting in `rs.wr`: whatever the scheduler picks in the `select`s, the goroutine
    makes the write calls of EVERY queued message, in order, before it exits (writes taken to
    succeed). `Gen.senderDrainsOnDone` is the fact extracted from `sendHandler`. -/
theorem drain_writes_all {M : Type} (ser : M → Option (List UInt8)) (sl : Int)
    (oracle : List Bool) (queue : List M) :
    afterCancel Gen.senderDrainsOnDone (messageCalls ser sl) oracle queue =
      queue.flatMap (messageCalls ser sl) :=
  afterCancel_drains (messageCalls ser sl) oracle queue

/-- ... so the other side receives every queued message that serialises and fits, in order. -/
theorem drain_delivers {M : Type} (ser : M → Option (List UInt8)) (de : List UInt8 → Option M)
    (hrt : ∀ m p, ser m = some p → de p = some m) (sl rl : Int) (hsl : sl ≤ rl)
    (oracle : List Bool) (queue : List M) :
    decodeStream de rl (wire (afterCancel Gen.senderDrainsOnDone (messageCalls ser sl) oracle queue)) =
      ((queue.filter (arrives ser sl)).map Ev.deliver, .hdr0) := by
  rw [drain_writes_all, wire_messageCalls]
  exact stream ser de hrt sl rl hsl queue

example : wire (afterCancel (M := Nat) Gen.senderDrainsOnDone
    (messageCalls (fun n => some (List.replicate n 0x61)) 512) [true, false] [1, 2, 3]) =
    [0, 0, 0, 1, 0x61, 0, 0, 0, 2, 0x61, 0x61, 0, 0, 0, 3, 0x61, 0x61, 0x61] := by decide

/-- Without the drain (the code before the fix: `case <-senderDone: return`) a queued message
    could be lost: the scheduler picks `<-senderDone` first. -/
theorem no_drain_can_lose {M : Type} (w : M → List WriteCall) (m : M) (q : List M) :
    afterCancel false w [false] (m :: q) = [] := rfl

end Nexus.C15
