/-
  C15 — Transports frame messages faithfully and are interchangeable.

  "Over rawsocket and websocket, every message handed to a peer either arrives at the
   other side intact and in order or is dropped as a whole (too large for the limit the
   receiver announced, or unserialisable) without corrupting the following messages; the
   rawsocket handshake agrees on serializer and length limits or fails cleanly, frames
   above the announced limit or of reserved type end that connection only, and PING is
   answered by PONG with the same payload.  The router's observable behaviour for a
   scenario is the same whether a session is attached in-process, via rawsocket or via
   websocket and whichever serializer it uses, up to numeric representation."

  This file covers the framing / handshake sentences for the rawsocket transport (the
  websocket peer has no framing logic of its own: message boundaries are gorilla's; the
  family `frames` checks it behaviourally).  The last sentence (transport transparency of
  the router) is the transport-replay family over `harness/tpeers`.

  All statements are over the GENERATED definitions `Nexus.Gen.*` (constants, the four pure
  functions, every condition / case table of sendHandler, recvHandler, serverHandshake,
  clientHandshake) through the model `Nexus.Frame.*`.  No size bounds anywhere.

  clause of the property                       theorem(s)
  -------------------------------------------  ------------------------------------------------
  length field encodes/decodes                 len_codec, len_codec_sharp (2^24 wraps to 0)
  length codes                                 byteToLength_pow, fitRecvLimit_least,
                                               announced_limit_covers
  handshake agrees ... or fails cleanly        handshake_agree (server, all 4-byte requests),
                                               client_handshake (client, all replies),
                                               handshake_compose, handshake_compose_any,
                                               handshake_refusal_clean
  dropped as a whole (too large/unserialisable) sender_drops_iff, frame_shape
  intact, in order, later ones unaffected      stream, stream_payloads, stream_then
  reader is a function of the concatenation    chunking, decode_append
  deserialisation is a parameter               deserializer_is_parameter
  above the limit / reserved type ends it      oversize_or_reserved, closed_is_final
  never a nil message                          never_nil, delivered_are_deserialised
  PING -> PONG, same payload                   ping, ping_one_write, ping_truncated, pong_ignored
  frames of the two writers never interleave   write_calls_ordered_per_goroutine,
                                               sender_alone_never_interleaves, locked_writers_ok,
                                               no_interleaving, no_interleaving_full_holds
  ... because each frame is ONE Write call      frame_shape, ping_one_write; the two-call shape the
                                               code had before does corrupt: split_writes_corrupt
  queued before Close => written before exit   drain_writes_all, drain_delivers
                                               (without draining: no_drain_can_lose)
-/
import Nexus.Frame.HandshakeLemmas
import Nexus.Frame.StreamLemmas
import Nexus.Frame.WritersLemmas

namespace Nexus.C15
open Nexus Nexus.Frame

/-! ## the 24-bit length field -/

/-- `bytesToInt (intToBytes n) = n` for every n below 2^24 (the generated functions). -/
theorem len_codec (n : Nat) (h : n < 2 ^ 24) :
    Gen.bytesToInt (Gen.intToBytes (Int.ofNat n)) = Int.ofNat n :=
  bytesToInt_intToBytes n h

example : (16777215 : Nat) < 2 ^ 24 := by decide

/-- The bound is sharp: a length of exactly 2^24 is written as 0 (this is why the sender has
    to drop such a message, `sender_drops_iff`). -/
theorem len_codec_sharp : Gen.bytesToInt (Gen.intToBytes (Int.ofNat (2 ^ 24))) = 0 := by
  obtain ⟨a, b, c, e, ha, hb, hc⟩ := intToBytes_ofNat (2 ^ 24)
  rw [e, bytesToInt_three, ha, hb, hc]
  rfl

/-- Whatever three bytes arrive, the decoded length is in [0, 2^24). -/
theorem length_in_range (a b c : UInt8) :
    0 ≤ Gen.bytesToInt [a, b, c] ∧ Gen.bytesToInt [a, b, c] < 2 ^ 24 :=
  bytesToInt_three_range a b c

/-! ## length codes -/

/-- A length code b in 0..15 stands for 2^(b+9). -/
theorem byteToLength_pow (b : UInt8) (h : b.toNat ≤ 15) :
    Gen.byteToLength b = ((2 ^ (b.toNat + 9) : Nat) : Int) :=
  byteToLength_small b h

example : Gen.byteToLength 0 = 512 ∧ Gen.byteToLength 15 = 16777216 := by
  constructor <;> rw [byteToLength_pow _ (by decide)] <;> rfl

/-- For EVERY int r: `fitRecvLimit r` is 15 when r ≤ 0; otherwise it is the least code b in
    0..14 with 2^(b+9) ≥ r, and 15 when there is none. -/
theorem fitRecvLimit_least (r : Int) :
    (r ≤ 0 → Gen.fitRecvLimit r = 15) ∧
    (0 < r → (Gen.fitRecvLimit r).toNat ≤ 15 ∧
      ((Gen.fitRecvLimit r).toNat < 15 → r ≤ ((2 ^ ((Gen.fitRecvLimit r).toNat + 9) : Nat) : Int)) ∧
      ∀ j, j < (Gen.fitRecvLimit r).toNat → ((2 ^ (j + 9) : Nat) : Int) < r) :=
  fit_spec r

example : (513 : Int) > 0 := by decide

/-- The limit a side announces covers the limit it was configured with, as far as the
    protocol can say it (2^24). -/
theorem announced_limit_covers (r : Int) (h0 : 0 < r) (h : r ≤ 2 ^ 24) :
    r ≤ Gen.byteToLength (Gen.fitRecvLimit r) := by
  obtain ⟨hle, hlt, _⟩ := (fit_spec r).2 h0
  rw [byteToLength_small _ hle]
  by_cases h15 : (Gen.fitRecvLimit r).toNat < 15
  · exact hlt h15
  · have : (Gen.fitRecvLimit r).toNat = 15 := by omega
    rw [this]
    have : ((2 ^ (15 + 9) : Nat) : Int) = 2 ^ 24 := by decide
    omega

example : (0 : Int) < 1000 ∧ (1000 : Int) ≤ 2 ^ 24 := by decide

/-! ## handshake -/

/-- Server side, for all four request bytes and every configured limit. Exactly one of:
    * bad magic: NOTHING is written, error;
    * a reserved byte is set: reply 7f 30 00 00 (error code 3), error;
    * serializer nibble 0: NOTHING is written, error;
    * serializer nibble 4..15: reply 7f 10 00 00 (error code 1), error;
    * serializer nibble 1..3: reply 7f (limit code << 4 | serializer) 00 00 and a peer with that
      serializer, sendLimit = 2^(9 + the client's code), recvLimit = 2^(9 + its own code). -/
theorem handshake_agree (b0 b1 b2 b3 : UInt8) (r : Int) :
    (b0 ≠ 0x7f → serverHandshake b0 b1 b2 b3 r = ⟨none, .error "not a rawsocket handshake"⟩) ∧
    (b0 = 0x7f → (b2 ≠ 0 ∨ b3 ≠ 0) → serverHandshake b0 b1 b2 b3 r =
        ⟨some [0x7f, 0x30, 0, 0], .error "use of reserved bits (unsupported feature)"⟩) ∧
    (b0 = 0x7f → b2 = 0 → b3 = 0 → b1.toNat % 16 = 0 → serverHandshake b0 b1 b2 b3 r =
        ⟨none, .error "illegal serializer value"⟩) ∧
    (b0 = 0x7f → b2 = 0 → b3 = 0 → 4 ≤ b1.toNat % 16 → serverHandshake b0 b1 b2 b3 r =
        ⟨some [0x7f, 0x10, 0, 0], .error "serializer unsupported"⟩) ∧
    (b0 = 0x7f → b2 = 0 → b3 = 0 → 1 ≤ b1.toNat % 16 → b1.toNat % 16 ≤ 3 →
      ∃ y : UInt8, y.toNat = (Gen.fitRecvLimit r).toNat * 16 + b1.toNat % 16 ∧
        serverHandshake b0 b1 b2 b3 r =
          ⟨some [0x7f, y, 0, 0],
           .ok ⟨some (serName (b1.toNat % 16)), ((2 ^ (b1.toNat / 16 + 9) : Nat) : Int),
                ((2 ^ ((Gen.fitRecvLimit r).toNat + 9) : Nat) : Int)⟩⟩) :=
  server_cases b0 b1 b2 b3 r

example : serverHandshake 0x7f 0x52 0 0 1000 =
    ⟨some [0x7f, 0x12, 0, 0], .ok ⟨some "MessagePackSerializer", 16384, 1024⟩⟩ := by decide
example : serverHandshake 0x7f 0x52 0 1 1000 =
    ⟨some [0x7f, 0x30, 0, 0], .error "use of reserved bits (unsupported feature)"⟩ := by decide

/-- Client side, for all reply bytes (bytes 2 and 3 of the reply are not looked at). -/
theorem client_handshake (p : UInt8) (rc : Int) (r0 r1 r2 r3 : UInt8) :
    (r0 ≠ 0x7f → clientHandshake p rc r0 r1 r2 r3 = .error "not a rawsocket handshake") ∧
    (r0 = 0x7f → r1.toNat % 16 = 0 → ∃ e, clientHandshake p rc r0 r1 r2 r3 = .error e) ∧
    (r0 = 0x7f → r1 = 0x10 → clientHandshake p rc r0 r1 r2 r3 = .error "serializer unsupported") ∧
    (r0 = 0x7f → r1 = 0x30 → clientHandshake p rc r0 r1 r2 r3 =
        .error "use of reserved bits (unsupported feature)") ∧
    (r0 = 0x7f → r1.toNat % 16 ≠ 0 → r1.toNat % 16 ≠ p.toNat →
        clientHandshake p rc r0 r1 r2 r3 = .error "serializer mismatch") ∧
    (r0 = 0x7f → r1.toNat % 16 ≠ 0 → r1.toNat % 16 = p.toNat →
        clientHandshake p rc r0 r1 r2 r3 =
          .ok ⟨Gen.cliSerializer p, ((2 ^ (r1.toNat / 16 + 9) : Nat) : Int),
               ((2 ^ ((Gen.fitRecvLimit rc).toNat + 9) : Nat) : Int)⟩) :=
  client_cases p rc r0 r1 r2 r3

example : clientHandshake 3 0 0x7f 0x23 0 0 = .ok ⟨some "CBORSerializer", 2048, 16777216⟩ := by decide

/-- A client speaking protocol 1..3 dials a server: both succeed, with the same serializer, and
    each side's send limit is exactly the receive limit the other side announced — for every
    pair of limit configurations. -/
theorem handshake_compose (p : UInt8) (h1 : 1 ≤ p.toNat) (h3 : p.toNat ≤ 3) (rc rs : Int) :
    ∃ y : UInt8, y.toNat = (Gen.fitRecvLimit rs).toNat * 16 + p.toNat ∧
      connect p rc rs =
        (.ok ⟨some (serName p.toNat), ((2 ^ ((Gen.fitRecvLimit rs).toNat + 9) : Nat) : Int),
              ((2 ^ ((Gen.fitRecvLimit rc).toNat + 9) : Nat) : Int)⟩,
         ⟨some [0x7f, y, 0, 0],
          .ok ⟨some (serName p.toNat), ((2 ^ ((Gen.fitRecvLimit rc).toNat + 9) : Nat) : Int),
               ((2 ^ ((Gen.fitRecvLimit rs).toNat + 9) : Nat) : Int)⟩⟩) :=
  connect_ok p h1 h3 rc rs

example : connect 1 600 0 =
    (.ok ⟨some "JSONSerializer", 16777216, 1024⟩,
     ⟨some [0x7f, 0xf1, 0, 0], .ok ⟨some "JSONSerializer", 1024, 16777216⟩⟩) := by decide

/-- Any protocol byte 0..15: client and server succeed together (agreeing) or both fail. -/
theorem handshake_compose_any (p : UInt8) (hp : p.toNat ≤ 15) (rc rs : Int) :
    (∃ c s rep, connect p rc rs = (.ok c, ⟨some rep, .ok s⟩) ∧ c.serializer = s.serializer ∧
        c.sendLimit = s.recvLimit ∧ s.sendLimit = c.recvLimit) ∨
    (∃ e e' rep, connect p rc rs = (.error e, ⟨rep, .error e'⟩)) :=
  connect_together p hp rc rs

example : connect 7 0 0 =
    (.error "serializer unsupported", ⟨some [0x7f, 0x10, 0, 0], .error "serializer unsupported"⟩) := by
  decide

/-- Whatever request the server refuses, a client that reads what the server wrote before it
    closed the connection ends with an error (never with a peer). -/
theorem handshake_refusal_clean (b0 b1 b2 b3 : UInt8) (rs : Int) (p : UInt8) (rc : Int) (e : String)
    (h : (serverHandshake b0 b1 b2 b3 rs).result = .error e) :
    ∃ e', clientHandshakeReply p rc ((serverHandshake b0 b1 b2 b3 rs).reply.getD []) = .error e' :=
  server_error_client_error b0 b1 b2 b3 rs p rc e h

example : (serverHandshake 0x00 0x11 0 0 0).result = .error "not a rawsocket handshake" := by decide

/-! ## sender -/

/-- The sender writes a message iff its serialisation is no longer than the limit the peer
    announced and fits the 24-bit length field; otherwise it writes nothing at all. -/
theorem sender_drops_iff (sl : Int) (p : List UInt8) :
    (frame sl p).isSome = true ↔ ((p.length : Int) ≤ sl ∧ p.length ≤ 2 ^ 24 - 1) := by
  rw [← fits_iff]
  cases h : fits sl p
  · rw [frame_none sl p h]; simp
  · obtain ⟨a, b, c, e, _⟩ := frame_some sl p h
    rw [e]; simp

/-- What is written: type byte 0, the length in three big-endian bytes, the payload untouched;
    as ONE write call. -/
theorem frame_shape (sl : Int) (p : List UInt8) (h : (p.length : Int) ≤ sl) (h24 : p.length ≤ 2 ^ 24 - 1) :
    ∃ a b c : UInt8, frame sl p = some (0 :: a :: b :: c :: p) ∧
      frameWrites sl p = some [0 :: a :: b :: c :: p] ∧
      Gen.bytesToInt [a, b, c] = Int.ofNat p.length := by
  obtain ⟨a, b, c, e, ha, hb, hc⟩ := intToBytes_ofNat p.length
  have hf := (fits_iff sl p).mpr ⟨h, h24⟩
  have hw : frameWrites sl p = some [0 :: a :: b :: c :: p] := by
    unfold frameWrites
    unfold fits at hf
    rw [if_neg (by simpa using hf)]
    simp only [frameHeader, e, Gen.sendHeader]
    simp [Gen.senderWriteParts, writePart]
  refine ⟨a, b, c, ?_, hw, ?_⟩
  · unfold frame; rw [hw]; simp
  · rw [bytesToInt_three, ha, hb, hc]
    congr 1
    omega

example : frame 512 [1, 2, 3] = some [0, 0, 0, 3, 1, 2, 3] := by decide
example : frame 2 [1, 2, 3] = none := by decide

/-! ## reader: messages -/

/-- THE STREAM THEOREM.  For every queue of messages, every serializer pair with
    `de (ser m) = some m`, and all limits with sendLimit ≤ recvLimit (as negotiated:
    `handshake_compose`), the reader hands over exactly the messages that serialise and fit, in
    order, and ends idle between frames.  Nothing about the dropped ones reaches it. -/
theorem stream {M : Type} (ser : M → Option (List UInt8)) (de : List UInt8 → Option M)
    (hrt : ∀ m p, ser m = some p → de p = some m)
    (sl rl : Int) (hsl : sl ≤ rl) (msgs : List M) :
    decodeStream de rl (sendAll ser sl msgs) =
      ((msgs.filter (arrives ser sl)).map Ev.deliver, .hdr0) := by
  unfold decodeStream sendAll
  have key : ∀ msgs : List M,
      (msgs.filterMap (fun m => (ser m).bind (frame sl))) =
        ((msgs.filterMap ser).filterMap (frame sl)) := by
    intro msgs
    induction msgs with
    | nil => rfl
    | cons m ms ih =>
      cases hs : ser m with
      | none => simp [hs, ih]
      | some p =>
        cases hf : frame sl p <;> simp [hs, hf, ih]
  have evs : ∀ msgs : List M,
      ((msgs.filterMap ser).filter (fits sl)).flatMap (payloadEvents de) =
        (msgs.filter (arrives ser sl)).map Ev.deliver := by
    intro msgs
    induction msgs with
    | nil => rfl
    | cons m ms ih =>
      cases hs : ser m with
      | none =>
        simp only [List.filterMap_cons, hs, List.filter_cons, arrives]
        simpa using ih
      | some p =>
        cases hf : fits sl p with
        | false =>
          simp only [List.filterMap_cons, hs, List.filter_cons, hf, arrives]
          simpa using ih
        | true =>
          simp only [List.filterMap_cons, hs, List.filter_cons, hf, arrives, if_true,
            List.flatMap_cons, List.map_cons]
          rw [ih]
          simp [payloadEvents, hrt m p hs]
  rw [key]
  have := run_frames de rl sl hsl (msgs.filterMap ser) []
  rw [List.append_nil] at this
  rw [this, evs]
  simp only [run, List.append_nil]

example : decodeStream (M := Nat) (fun p => some p.length) 512
    (sendAll (fun n => if n = 7 then none else some (List.replicate n 0x61)) 4 [3, 9, 7, 2]) =
    ([.deliver 3, .deliver 2], .hdr0) := by
  decide

/-- The same for raw payloads, including ones that do not deserialise: those are skipped and the
    stream continues; whatever comes after the frames (`rest`) is read as if the frames had never
    been there. -/
theorem stream_then {M : Type} (de : List UInt8 → Option M) (sl rl : Int) (hsl : sl ≤ rl)
    (payloads : List (List UInt8)) (rest : List UInt8) :
    decodeStream de rl ((payloads.filterMap (frame sl)).flatten ++ rest) =
      (((payloads.filter (fits sl)).flatMap (payloadEvents de)) ++ (decodeStream de rl rest).1,
       (decodeStream de rl rest).2) :=
  run_frames de rl sl hsl payloads rest

theorem stream_payloads {M : Type} (de : List UInt8 → Option M) (sl rl : Int) (hsl : sl ≤ rl)
    (payloads : List (List UInt8)) :
    delivered (decodeStream de rl ((payloads.filterMap (frame sl)).flatten)).1 =
        (payloads.filter (fits sl)).filterMap de ∧
      written (decodeStream de rl ((payloads.filterMap (frame sl)).flatten)).1 = [] ∧
      (decodeStream de rl ((payloads.filterMap (frame sl)).flatten)).2 = .hdr0 := by
  have := run_frames de rl sl hsl payloads []
  rw [List.append_nil] at this
  unfold decodeStream
  rw [this]
  exact ⟨by simpa [run] using delivered_payloadEvents de _, by simpa [run] using written_payloadEvents de _, rfl⟩

/-- non-vacuity: a payload that does not deserialise (odd length here) between two that do -/
example : delivered (decodeStream (M := Nat) (fun p => if p.length % 2 = 0 then some p.length else none) 512
    (([[1, 2], [3], [4, 5, 6, 7], [8, 9, 10]].filterMap (frame 3)).flatten)).1 = [2] := by decide

/-- The reader is a function of the concatenation of what it reads: however the stream is cut
    into chunks, events and final state are the same. -/
theorem chunking {M : Type} (de : List UInt8 → Option M) (rl : Int) (s : RState)
    (chunks : List (List UInt8)) :
    runChunks de rl s chunks = run de rl s chunks.flatten := by
  induction chunks generalizing s with
  | nil => rfl
  | cons c cs ih =>
    rw [List.flatten_cons, run_append, runChunks, ih]

example : runChunks (M := List UInt8) some 512 .hdr0 [[0], [0, 0], [], [2, 0x41], [0x42, 1, 0]] =
    ([.deliver [0x41, 0x42]], .hdr2 1 0) := by decide

theorem decode_append {M : Type} (de : List UInt8 → Option M) (rl : Int) (s : RState)
    (a b : List UInt8) :
    run de rl s (a ++ b) =
      ((run de rl s a).1 ++ (run de rl (run de rl s a).2 b).1, (run de rl (run de rl s a).2 b).2) :=
  run_append de rl s a b

/-- Deserialisation is a parameter: the reader with deserializer `de` is the reader with the
    identity deserializer followed by `de` on each payload (this is how the family `frames`
    compares the Lean model with the real codecs). -/
theorem deserializer_is_parameter {M : Type} (de : List UInt8 → Option M) (rl : Int)
    (bytes : List UInt8) :
    delivered (decodeStream de rl bytes).1 =
        (delivered (decodeStream (M := List UInt8) some rl bytes).1).filterMap de ∧
      written (decodeStream de rl bytes).1 = written (decodeStream (M := List UInt8) some rl bytes).1 ∧
      (decodeStream de rl bytes).2 = (decodeStream (M := List UInt8) some rl bytes).2 := by
  unfold decodeStream
  rw [run_map de rl .hdr0 bytes]
  exact ⟨delivered_flatMap_mapEv de _, written_flatMap_mapEv de _, rfl⟩

/-! ## reader: frames that end the connection -/

/-- After any number of good frames, a header that announces more than the receive limit
    (whatever its type) or whose type bits are 3..7 closes the connection: the events are those
    of the good frames, and NOTHING that follows is delivered or answered, whatever it is. -/
theorem oversize_or_reserved {M : Type} (de : List UInt8 → Option M) (sl rl : Int) (hsl : sl ≤ rl)
    (payloads : List (List UInt8)) (h0 l0 l1 l2 : UInt8) (rest : List UInt8)
    (hbad : Gen.bytesToInt [l0, l1, l2] > rl ∨ 3 ≤ h0.toNat % 8) :
    ∃ why, decodeStream de rl
        ((payloads.filterMap (frame sl)).flatten ++ h0 :: l0 :: l1 :: l2 :: rest) =
      ((payloads.filter (fits sl)).flatMap (payloadEvents de), .closed why) := by
  have key : ∃ why, run de rl .hdr0 (h0 :: l0 :: l1 :: l2 :: rest) = ([], .closed why) := by
    by_cases ho : Gen.bytesToInt [l0, l1, l2] > rl
    · exact ⟨_, run_oversize de rl h0 l0 l1 l2 rest ho⟩
    · have h3 : 3 ≤ h0.toNat % 8 := by
        rcases hbad with h | h
        · exact absurd h ho
        · exact h
      apply run_reserved de rl h0 l0 l1 l2 rest
      rw [readerCase_frameType]
      rw [if_neg (by omega), if_neg (by omega), if_neg (by omega)]
  obtain ⟨why, hk⟩ := key
  refine ⟨why, ?_⟩
  unfold decodeStream
  rw [run_frames de rl sl hsl payloads, hk]
  simp

example : decodeStream (M := List UInt8) some 512 [0, 0, 0, 1, 0x41, 0x03, 0, 0, 0, 0, 0, 0, 1, 0x42] =
    ([.deliver [0x41]], .closed .reservedType) := by decide
example : decodeStream (M := List UInt8) some 512 [0, 0, 2, 1, 0, 0, 0, 1, 0x42] =
    ([], .closed .oversize) := by decide

/-- Once closed, always closed; nothing more happens. -/
theorem closed_is_final {M : Type} (de : List UInt8 → Option M) (rl : Int) (why : CloseReason)
    (bytes : List UInt8) : run de rl (.closed why) bytes = ([], .closed why) :=
  run_closed de rl why bytes

/-- The reader never hands a nil message to the router, from any state, on any input. -/
theorem never_nil {M : Type} (de : List UInt8 → Option M) (rl : Int) (s : RState)
    (bytes : List UInt8) : nilCount (run de rl s bytes).1 = 0 :=
  nilCount_run de rl s bytes

/-- Every message handed over is the deserialisation of some payload. -/
theorem delivered_are_deserialised {M : Type} (de : List UInt8 → Option M) (rl : Int)
    (bytes : List UInt8) (m : M) (hm : m ∈ delivered (decodeStream de rl bytes).1) :
    ∃ p, de p = some m := by
  rw [(deserializer_is_parameter de rl bytes).1] at hm
  obtain ⟨p, _, hp⟩ := List.mem_filterMap.mp hm
  exact ⟨p, hp⟩

/-! ## PING / PONG -/

/-- A PING frame (type bits 001) within the limit: exactly the header with type 2 and the SAME
    three length bytes is written back, then the same payload; nothing is delivered; the rest
    of the stream is read as usual. -/
theorem ping {M : Type} (de : List UInt8 → Option M) (rl : Int) (h0 l0 l1 l2 : UInt8)
    (p rest : List UInt8) (ht : h0.toNat % 8 = 1)
    (hn : Gen.bytesToInt [l0, l1, l2] = Int.ofNat p.length) (hle : (p.length : Int) ≤ rl) :
    written (decodeStream de rl (h0 :: l0 :: l1 :: l2 :: (p ++ rest))).1 =
        2 :: l0 :: l1 :: l2 :: p ++ written (decodeStream de rl rest).1 ∧
      delivered (decodeStream de rl (h0 :: l0 :: l1 :: l2 :: (p ++ rest))).1 =
        delivered (decodeStream de rl rest).1 ∧
      (decodeStream de rl (h0 :: l0 :: l1 :: l2 :: (p ++ rest))).2 = (decodeStream de rl rest).2 := by
  have hk : Gen.readerCase (Gen.frameType h0) = .ping := by
    rw [readerCase_frameType, if_neg (by omega), if_pos ht]
  unfold decodeStream
  rw [run_ping_frame de rl h0 l0 l1 l2 p rest hk hn hle]
  exact ⟨rfl, rfl, rfl⟩

example : written (decodeStream (M := List UInt8) some 512 [0x01, 0, 0, 2, 0xAA, 0xBB]).1 =
    [0x02, 0, 0, 2, 0xAA, 0xBB] := by decide

/-- ... and the PONG frame goes out as ONE write call, made after the whole payload is there. -/
theorem ping_one_write {M : Type} (de : List UInt8 → Option M) (rl : Int) (h0 l0 l1 l2 : UInt8)
    (p rest : List UInt8) (ht : h0.toNat % 8 = 1)
    (hn : Gen.bytesToInt [l0, l1, l2] = Int.ofNat p.length) (hle : (p.length : Int) ≤ rl) :
    (decodeStream de rl (h0 :: l0 :: l1 :: l2 :: (p ++ rest))).1 =
      Ev.wrote (2 :: l0 :: l1 :: l2 :: p) :: (decodeStream de rl rest).1 := by
  have hk : Gen.readerCase (Gen.frameType h0) = .ping := by
    rw [readerCase_frameType, if_neg (by omega), if_pos ht]
  unfold decodeStream
  rw [run_ping_frame de rl h0 l0 l1 l2 p rest hk hn hle]

example : (decodeStream (M := List UInt8) some 512 [0x01, 0, 0, 2, 0xAA, 0xBB, 0x01, 0, 0, 0]).1 =
    [.wrote [0x02, 0, 0, 2, 0xAA, 0xBB], .wrote [0x02, 0, 0, 0]] := by decide

/-- A PING whose payload has not arrived completely: NOTHING has been written (no PONG header
    ahead of the payload); the reader waits with what it has. -/
theorem ping_truncated {M : Type} (de : List UInt8 → Option M) (rl : Int) (h0 l0 l1 l2 : UInt8)
    (n : Nat) (p : List UInt8) (ht : h0.toNat % 8 = 1)
    (hn : Gen.bytesToInt [l0, l1, l2] = Int.ofNat n) (hle : (n : Int) ≤ rl) (hp : p.length < n) :
    decodeStream de rl (h0 :: l0 :: l1 :: l2 :: p) =
      ([], .pbody l0 l1 l2 (n - 1 - p.length) p.reverse) := by
  have hk : Gen.readerCase (Gen.frameType h0) = .ping := by
    rw [readerCase_frameType, if_neg (by omega), if_pos ht]
  exact run_ping_truncated de rl h0 l0 l1 l2 n p hk hn hle hp

example : decodeStream (M := List UInt8) some 512 [0x09, 0, 0, 5, 0xAA, 0xBB] =
    ([], .pbody 0 0 5 2 [0xBB, 0xAA]) := by decide

/-- A PONG frame is read and dropped. -/
theorem pong_ignored {M : Type} (de : List UInt8 → Option M) (rl : Int) (h0 l0 l1 l2 : UInt8)
    (p rest : List UInt8) (ht : h0.toNat % 8 = 2)
    (hn : Gen.bytesToInt [l0, l1, l2] = Int.ofNat p.length) (hle : (p.length : Int) ≤ rl) :
    decodeStream de rl (h0 :: l0 :: l1 :: l2 :: (p ++ rest)) = decodeStream de rl rest := by
  have hk : Gen.readerCase (Gen.frameType h0) = .pong := by
    rw [readerCase_frameType, if_neg (by omega), if_neg (by omega), if_pos ht]
  exact run_pong_frame de rl h0 l0 l1 l2 p rest hk hn hle

example : decodeStream (M := List UInt8) some 512 [0x02, 0, 0, 2, 0xAA, 0xBB, 0, 0, 0, 1, 0x41] =
    ([.deliver [0x41]], .hdr0) := by decide

/-! ## two goroutines write to one connection -/

/-- What `net.Conn` gives: the log is a merge of the two goroutines' call sequences, so each
    goroutine's calls appear whole and in the order it made them. -/
theorem write_calls_ordered_per_goroutine (sl : Int) (payloads : List (List UInt8)) (pongs : List Pong)
    (log : List WriteCall) (h : Merge (senderCalls sl payloads) (readerCalls pongs) log) :
    log.filter (fun c => c.role == .sender) = senderCalls sl payloads ∧
      log.filter (fun c => !(c.role == .sender)) = readerCalls pongs := by
  apply Merge.filter (fun c => c.role == .sender) h
  · intro a ha
    rw [senderCalls_units] at ha
    obtain ⟨u, hu, rfl⟩ := List.mem_map.mp ha
    obtain ⟨p, _, rfl⟩ := List.mem_map.mp hu
    rfl
  · intro b hb
    rw [readerCalls_units sl] at hb
    obtain ⟨u, hu, rfl⟩ := List.mem_map.mp hb
    obtain ⟨q, _, rfl⟩ := List.mem_map.mp hu
    rfl

/-- As long as the reader goroutine writes nothing (no PING arrives), the sender's frames
    reach the other side whole, and `stream_then`/`stream` applies to them. -/
theorem sender_alone_never_interleaves {M : Type} (de : List UInt8 → Option M) (sl rl : Int)
    (hsl : sl ≤ rl) (payloads : List (List UInt8)) (log : List WriteCall)
    (h : Merge (senderCalls sl payloads) [] log) :
    wire log = (payloads.filterMap (frame sl)).flatten ∧
      delivered (decodeStream de rl (wire log)).1 = (payloads.filter (fits sl)).filterMap de := by
  have hl := Merge.nil_right h
  subst hl
  rw [wire_senderCalls]
  exact ⟨rfl, (stream_payloads de sl rl hsl payloads).1⟩

/-- the PONG used in the examples: header 02 00 00 02, payload 50 50 -/
def f18PongUnit : Pong := ⟨0, 0, 2, [0x50, 0x50]⟩

/-- When whole frames are the atomic unit, every interleaving is harmless: the other side gets
    exactly the messages that fit, in order, and skips the PONGs. -/
theorem locked_writers_ok {M : Type} (de : List UInt8 → Option M) (sl rl : Int) (hsl : sl ≤ rl)
    (payloads : List (List UInt8)) (pongs : List Pong) (hw : ∀ q, q ∈ pongs → q.wellFormed rl)
    (units : List WUnit)
    (h : Merge ((payloads.filter (fits sl)).map WUnit.msg) (pongs.map WUnit.pong) units) :
    decodeStream de rl (units.flatMap (WUnit.bytes sl)) =
      ((payloads.filter (fits sl)).flatMap (payloadEvents de), .hdr0) := by
  have hok : ∀ u, u ∈ units → u.ok rl sl := by
    intro u hu
    rcases h.mem u hu with hm | hm
    · obtain ⟨p, hp, rfl⟩ := List.mem_map.mp hm
      exact (List.mem_filter.mp hp).2
    · obtain ⟨q, hq, rfl⟩ := List.mem_map.mp hm
      exact hw q hq
  have := run_units de rl sl hsl units hok []
  rw [List.append_nil] at this
  unfold decodeStream
  rw [this]
  simp only [run, List.append_nil]
  congr 1
  rw [Merge.flatMap_left (WUnit.events de) h]
  · rw [List.flatMap_map]; rfl
  · intro b hb
    obtain ⟨q, _, rfl⟩ := List.mem_map.mp hb
    rfl

/-- non-vacuity: message, PONG, message as whole units -/
example : Merge (([[0x41], [0x42]].filter (fits 512)).map WUnit.msg) ([f18PongUnit].map WUnit.pong)
    [.msg [0x41], .pong f18PongUnit, .msg [0x42]] := by
  have : ([[0x41], [0x42]].filter (fits 512)) = [[0x41], [0x42]] := by decide
  rw [this]
  exact .left (.right (.left .nil))
example : decodeStream (M := List UInt8) some 512
    ([WUnit.msg [0x41], .pong f18PongUnit, .msg [0x42]].flatMap (WUnit.bytes 512)) =
    ([.deliver [0x41], .deliver [0x42]], .hdr0) := by decide

/-- FRAMES OF THE TWO WRITERS NEVER INTERLEAVE.  Whatever the scheduling of the two
    goroutines' write calls (any `Merge`), for every queue of messages, every sequence of answered
    PINGs and every deserializer, the other side receives exactly the sender's messages that fit,
    intact and in order — because, with the write calls the source makes today
    (`Gen.senderWriteParts`, `Gen.pongWriteParts`), every frame is one atomic `Write`. -/
theorem no_interleaving {M : Type} (de : List UInt8 → Option M) (sl rl : Int) (hsl : sl ≤ rl)
    (payloads : List (List UInt8)) (pongs : List Pong) (hw : ∀ q, q ∈ pongs → q.wellFormed rl)
    (log : List WriteCall) (h : Merge (senderCalls sl payloads) (readerCalls pongs) log) :
    decodeStream de rl (wire log) = ((payloads.filter (fits sl)).flatMap (payloadEvents de), .hdr0) := by
  rw [senderCalls_units, readerCalls_units sl] at h
  obtain ⟨units, hlog, hm⟩ := Merge.of_map (WUnit.call sl) h
  have hwire : wire log = units.flatMap (WUnit.bytes sl) := by
    subst hlog
    unfold wire
    rw [List.map_map]
    have : ((fun c : WriteCall => c.bytes) ∘ WUnit.call sl) = WUnit.bytes sl := by
      funext u; exact WUnit.call_bytes sl u
    rw [this, List.flatMap_def]
  rw [hwire]
  exact locked_writers_ok de sl rl hsl payloads pongs hw units hm

/-- The full statement (formerly false of the model: finding F18). -/
def no_interleaving_full : Prop :=
  ∀ (sl rl : Int) (payloads : List (List UInt8)) (pongs : List Pong) (log : List WriteCall),
    sl ≤ rl → (∀ q, q ∈ pongs → q.wellFormed rl) →
    Merge (senderCalls sl payloads) (readerCalls pongs) log →
    delivered (decodeStream (M := List UInt8) some rl (wire log)).1 = payloads.filter (fits sl)

theorem no_interleaving_full_holds : no_interleaving_full := by
  intro sl rl payloads pongs log hsl hw h
  rw [no_interleaving some sl rl hsl payloads pongs hw log h]
  rw [delivered_payloadEvents]
  induction (payloads.filter (fits sl)) with
  | nil => rfl
  | cons p ps ih => simp [ih]

/-- The message and the PONG of the examples. -/
def f18Payload : List UInt8 := [0x41, 0x41, 0x41, 0x41, 0x41, 0x41, 0x41, 0x41]

/-- non-vacuity of `no_interleaving`: a PONG scheduled between two messages -/
example : Merge (senderCalls 512 [f18Payload, [0x42]]) (readerCalls [f18PongUnit])
    [⟨.sender, 0 :: 0 :: 0 :: 8 :: f18Payload⟩, ⟨.reader, [2, 0, 0, 2, 0x50, 0x50]⟩,
     ⟨.sender, [0, 0, 0, 1, 0x42]⟩] := by
  have hs : senderCalls 512 [f18Payload, [0x42]] =
      [⟨.sender, 0 :: 0 :: 0 :: 8 :: f18Payload⟩, ⟨.sender, [0, 0, 0, 1, 0x42]⟩] := by decide
  have hr : readerCalls [f18PongUnit] = [⟨.reader, [2, 0, 0, 2, 0x50, 0x50]⟩] := by decide
  rw [hs, hr]
  exact .left (.right (.left .nil))
example : f18PongUnit.wellFormed 512 := by
  refine ⟨?_, by decide⟩
  rw [show f18PongUnit.l0 = 0 from rfl, show f18PongUnit.l1 = 0 from rfl,
    show f18PongUnit.l2 = 2 from rfl, bytesToInt_three]
  rfl

/-- non-vacuity of `sender_alone_never_interleaves`: the sender's calls alone are a log -/
example : Merge (senderCalls 512 [f18Payload]) [] (senderCalls 512 [f18Payload]) := by
  have hs : senderCalls 512 [f18Payload] = [⟨.sender, 0 :: 0 :: 0 :: 8 :: f18Payload⟩] := by decide
  rw [hs]
  exact .left .nil

/-! ### the two-call shape the code had before -/

/-- sender header | reader PONG header | reader PONG payload | sender payload -/
def f18Log : List WriteCall :=
  [⟨.sender, [0, 0, 0, 8]⟩, ⟨.reader, [2, 0, 0, 2]⟩, ⟨.reader, [0x50, 0x50]⟩, ⟨.sender, f18Payload⟩]

/-- Had the sender written header and payload as two calls and the reader answered with two
    calls (as the code did), this schedule would be legal, and the other side would read one
    corrupted message (the PONG spliced into it), take the tail of the real payload for a header
    and close the connection. -/
theorem split_writes_corrupt :
    Merge (senderCallsSplit 512 [f18Payload]) (pongCallsSplit f18PongUnit) f18Log ∧
      decodeStream (M := List UInt8) some 512 (wire f18Log) =
        ([.deliver [2, 0, 0, 2, 0x50, 0x50, 0x41, 0x41]], .closed .oversize) := by
  constructor
  · have hs : senderCallsSplit 512 [f18Payload] = [⟨.sender, [0, 0, 0, 8]⟩, ⟨.sender, f18Payload⟩] := by
      decide
    have hr : pongCallsSplit f18PongUnit = [⟨.reader, [2, 0, 0, 2]⟩, ⟨.reader, [0x50, 0x50]⟩] := by decide
    rw [hs, hr]
    exact .left (.right (.right (.left .nil)))
  · decide

/-! ## closing: what was queued is written first -/

/-- Once the sender goroutine's context is cancelled (`Close`, or EOF seen by the reader), with
    `queue` sitting in `rs.wr`: whatever the scheduler picks in the `select`s, the goroutine
    makes the write calls of EVERY queued message, in order, before it exits (writes taken to
    succeed). `Gen.senderDrainsOnDone` is the fact extracted from `sendHandler`. -/
theorem drain_writes_all {M : Type} (ser : M → Option (List UInt8)) (sl : Int)
    (oracle : List Bool) (queue : List M) :
    afterCancel Gen.senderDrainsOnDone (messageCalls ser sl) oracle queue =
      queue.flatMap (messageCalls ser sl) :=
  afterCancel_drains (messageCalls ser sl) oracle queue

/-- ... so the other side receives every queued message that serialises and fits, in order. -/
theorem drain_delivers {M : Type} (ser : M → Option (List UInt8)) (de : List UInt8 → Option M)
    (hrt : ∀ m p, ser m = some p → de p = some m) (sl rl : Int) (hsl : sl ≤ rl)
    (oracle : List Bool) (queue : List M) :
    decodeStream de rl (wire (afterCancel Gen.senderDrainsOnDone (messageCalls ser sl) oracle queue)) =
      ((queue.filter (arrives ser sl)).map Ev.deliver, .hdr0) := by
  rw [drain_writes_all, wire_messageCalls]
  exact stream ser de hrt sl rl hsl queue

example : wire (afterCancel (M := Nat) Gen.senderDrainsOnDone
    (messageCalls (fun n => some (List.replicate n 0x61)) 512) [true, false] [1, 2, 3]) =
    [0, 0, 0, 1, 0x61, 0, 0, 0, 2, 0x61, 0x61, 0, 0, 0, 3, 0x61, 0x61, 0x61] := by decide

/-- Without the drain (the code before the fix: `case <-senderDone: return`) a queued message
    could be lost: the scheduler picks `<-senderDone` first. -/
theorem no_drain_can_lose {M : Type} (w : M → List WriteCall) (m : M) (q : List M) :
    afterCancel false w [false] (m :: q) = [] := rfl

end Nexus.C15
