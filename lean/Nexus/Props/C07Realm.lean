/-
  C07 (realm-model half) — "A client that stops reading has at most its configured outbound queue of
  messages buffered for it and loses the rest; every other session's requests are still answered and
  its events and invocations delivered completely and in order […]"

  About the router→client queues of the realm model (Nexus/L2/Realm.lean: `trySend`, `deliver`, every
  handler, `leave`, `runTask`, `drain`, `stepOp`, `advance`, `flush`, `step`, `create`).  Vocabulary in
  Nexus/L2/Proofs/RealmQueue.lean: `QueueInv`, `JoinFresh`, `QReachable`, `queueOf`, `accept`, `msgsTo`,
  `client?`, `SendFrame`.  (The concurrency-skeleton half — non-blocking sends, no wait cycle — is
  Nexus/Props/C07.lean.)

  clause                                                              theorem
  ------------------------------------------------------------------  --------------------------------
  in every reachable state every attached client has at most `cap`
    messages buffered; every queue belongs to an attached client or
    to a closed peer / ghost awaiting flush; client keys distinct      C07_bounded_queue
  the invariant holds initially and is preserved by every function
    of the realm model                                                 C07_queue_inv_create, C07_queue_inv_preserved
  "the rest is lost", and ONLY the rest: a send that finds the queue
    full leaves the whole state unchanged; a send that finds room
    appends exactly that message to exactly that queue; dropping one
    message of a batch changes nothing for anybody else (frame)        C07_overflow_dropped_only
  "delivered completely and in order" to whoever has room: after a
    batch of sends each attached client's queue is its old queue
    offered the messages addressed to it in order; other queues are
    untouched                                                          C07_lossy_in_order

  Explicit assumption (hypothesis `JoinFresh` of every `join`): a joining session key names no attached
  client and no leftover queue.  Session keys are the model's internal names for sessions (the
  implementation draws fresh random session ids); the harness never reuses one.  Without it the model
  itself violates the bound: see `C07_bound_needs_fresh_join`.
-/
import Nexus.L2.Proofs.RealmQueue

namespace Nexus.C07
open Nexus.L2 Nexus.L2.Realm Gen.N

/-- In every state reachable from `Realm.create cfg` by external inputs (each run to quiescence and
    flushed), with fresh joining keys:
    * every attached client has at most its configured capacity of messages buffered;
    * every queue belongs to an attached client, or to a peer closed in this step / a departed stalled
      session (ghost) whose closure the client has not observed yet;
    * attached clients have distinct keys, and ghosts are closed peers. -/
theorem C07_bounded_queue {cfg : Config} {r : Realm} (h : QReachable cfg r) :
    (∀ c ∈ r.clients, r.queueLen c.key ≤ c.cap) ∧
    (∀ q ∈ r.queues, (∃ c ∈ r.clients, c.key = q.1) ∨ q.1 ∈ r.closedPeers) ∧
    (r.clients.map (·.key)).Nodup ∧ (∀ k ∈ r.ghosts, k ∈ r.closedPeers) := by
  obtain ⟨h1, h2, h3, h4⟩ := h.qinv
  exact ⟨h2, h1, h3, h4⟩

theorem C07_queue_inv_create {cfg : Config} {r : Realm} (h : Realm.create cfg = some r) : QueueInv r :=
  qinv_create h

/-- non-vacuity of `JoinFresh`: in a freshly created realm every key may join -/
example {cfg : Config} {r : Realm} (h : Realm.create cfg = some r) (k : SessKey) : JoinFresh r k := by
  unfold Realm.create at h
  split at h
  · cases h
  · split at h
    · cases h
    · extract_lets b d at h
      cases h
      obtain ⟨f1, f2, _, _⟩ := bregisterMeta_fields (metaProcNames cfg) { cfg := cfg, broker := b, ds := { d := d } }
      unfold JoinFresh
      rw [f1, f2]
      exact ⟨fun c hc => (nomatch hc), fun q hq => (nomatch hq)⟩

example : (Realm.create {}).isSome = true := by decide +kernel

/-- `QueueInv` is preserved by every function of the realm model (for `stepOp`/`step`: a joining key
    must be fresh). -/
theorem C07_queue_inv_preserved {r : Realm} (h : QueueInv r) :
    (∀ s, QueueInv (r.trySend s)) ∧
    (∀ ss, QueueInv (r.deliver ss)) ∧
    (∀ o, QueueInv (r.applyD o)) ∧
    (∀ p, QueueInv (r.setPanic p)) ∧
    (∀ s req opts topic args kw, QueueInv (handlePublish r s req opts topic args kw)) ∧
    (∀ s req opts topic, QueueInv (handleSubscribe r s req opts topic)) ∧
    (∀ s req sub, QueueInv (handleUnsubscribe r s req sub)) ∧
    (∀ s req opts proc, QueueInv (handleRegister r s req opts proc)) ∧
    (∀ s req reg, QueueInv (handleUnregister r s req reg)) ∧
    (∀ s req opts proc args kw, QueueInv (handleCall r s req opts proc args kw)) ∧
    (∀ s req opts, QueueInv (handleCancel r s req opts)) ∧
    (∀ s req opts args kw, QueueInv (handleYield r s req opts args kw)) ∧
    (∀ s req details err args kw, QueueInv (handleError r s req details err args kw)) ∧
    (∀ s m, QueueInv (handleMsg r s m)) ∧
    (∀ k mode, QueueInv (r.leave k mode)) ∧
    (∀ t, QueueInv (r.runTask t)) ∧
    (∀ fuel, QueueInv (drain fuel r)) ∧
    (∀ op, (∀ k l d ro c, op = .join k l d ro c → JoinFresh r k) → QueueInv (r.stepOp op)) ∧
    (∀ x, QueueInv (r.retryDue x)) ∧
    (∀ t, QueueInv (r.timerDue t)) ∧
    (∀ fuel target, QueueInv (advance fuel r target)) ∧
    QueueInv r.flush.2 ∧
    (∀ op, (∀ k l d ro c, op = .join k l d ro c → JoinFresh r k) → QueueInv (r.step op).2) :=
  ⟨qinv_trySend h, fun ss => qinv_deliver ss h, qinv_applyD h, qinv_setPanic h,
   fun s req opts topic args kw => qinv_handlePublish h s req opts topic args kw,
   fun s req opts topic => qinv_handleSubscribe h s req opts topic,
   fun s req sub => qinv_handleUnsubscribe h s req sub,
   fun s req opts proc => qinv_handleRegister h s req opts proc,
   fun _ _ _ => qinv_applyD h _, fun _ _ _ _ _ _ => qinv_applyD h _,
   fun s req opts => qinv_handleCancel h s req opts,
   fun s req opts args kw => qinv_handleYield h s req opts args kw,
   fun _ _ _ _ _ _ => qinv_applyD h _,
   fun s m => qinv_handleMsg h s m, fun k mode => qinv_leave h k mode, fun t => qinv_runTask h t,
   fun fuel => qinv_drain fuel h, fun op hj => qinv_stepOp h op hj, fun x => qinv_retryDue h x,
   fun t => qinv_timerDue h t, fun fuel target => qinv_advance fuel target h, qinv_flush h,
   fun op hj => qinv_step h op hj⟩

/-- "… and loses the rest" — and nothing but the rest.  For a send to an attached (non-meta) client `c`:
    (1) if its queue is full the send changes NOTHING: the whole realm state is as before;
    (2) if there is room, exactly that message is appended to exactly that queue: every other queue,
        every table (`SendFrame`: broker, dealer, clients, …), the tasks and the panic flag are unchanged;
    (3) frame for a batch: a message dropped because the recipient's queue is full at that moment has
        no effect on the outcome of the whole batch — every other message ends up exactly where it
        would have without it, and all tables are the same. -/
theorem C07_overflow_dropped_only (r : Realm) (s : Send) {c : Session} (hne : s.to ≠ metaKey)
    (hc : r.client? s.to = some c) :
    (c.cap ≤ r.queueLen s.to → r.trySend s = r) ∧
    (r.queueLen s.to < c.cap →
      (r.trySend s).queueOf s.to = r.queueOf s.to ++ [s.msg] ∧
      (∀ k, k ≠ s.to → (r.trySend s).queueOf k = r.queueOf k) ∧
      SendFrame r (r.trySend s) ∧ (r.trySend s).tasks = r.tasks ∧ (r.trySend s).panic = r.panic) ∧
    (∀ pre post, c.cap ≤ (r.deliver pre).queueLen s.to →
      r.deliver (pre ++ s :: post) = r.deliver (pre ++ post)) := by
  obtain ⟨h1, h2⟩ := trySend_client_effect r s hne hc
  exact ⟨h1, h2, fun pre post hfull => deliver_drop r pre post s hne hc hfull⟩

/-- Whoever has room gets everything, in order: after a batch of sends the queue of an attached client
    `k` is its old queue offered the messages addressed to `k` in order (`accept`: each appended if there
    is room at that moment, lost otherwise — so with enough room it is `old ++ msgsTo k ss`, unaffected by
    how full anybody else's queue is); the queues of departed sessions are untouched; no table changes. -/
theorem C07_lossy_in_order (r : Realm) (ss : List Send) :
    (∀ k c, k ≠ metaKey → r.client? k = some c →
      (r.deliver ss).queueOf k = accept c.cap (r.queueOf k) (msgsTo k ss) ∧
      ((r.queueOf k).length + (msgsTo k ss).length ≤ c.cap →
        (r.deliver ss).queueOf k = r.queueOf k ++ msgsTo k ss)) ∧
    (∀ k, (k = metaKey ∨ r.client? k = none) → (r.deliver ss).queueOf k = r.queueOf k) ∧
    SendFrame r (r.deliver ss) := by
  refine ⟨?_, fun k hk => queueOf_deliver_other ss r k hk, deliver_frame ss r⟩
  intro k c hk hc
  refine ⟨queueOf_deliver_client ss r k c hk hc, ?_⟩
  intro hroom
  rw [queueOf_deliver_client ss r k c hk hc]
  generalize r.queueOf k = q at hroom
  generalize msgsTo k ss = ms at hroom
  induction ms generalizing q with
  | nil => simp [accept_nil]
  | cons m ms ih =>
    simp only [List.length_cons] at hroom
    rw [accept_cons, if_pos (by omega), ih (q ++ [m]) (by simp; omega)]
    simp

/-- Why `JoinFresh` is needed: in the model a departed stalled session leaves its queue behind until it
    "resumes"; re-using its key for a new session with a smaller capacity would start that session
    with more buffered messages than its capacity.  (Keys are never reused by the harness: a model
    artifact, not a router behaviour.) -/
theorem C07_bound_needs_fresh_join :
    ∃ r : Realm, QueueInv r ∧ ¬ QueueInv (r.stepOp (.join 7 false [] [] 0)) := by
  refine ⟨{ queues := [(7, [.other 0])], closedPeers := [7], ghosts := [7] }, ?_, ?_⟩
  · refine ⟨?_, fun c hc => (nomatch hc), List.nodup_nil, ?_⟩
    · intro q hq; right; simp at hq; subst hq; simp
    · intro k hk; simpa using hk
  · intro h
    have := h.2.1 { key := 7, details := [], roles := [], isLocal := false, cap := 0 } (by
      rw [stepOp_join]; simp [Realm.addTasks])
    revert this
    decide

end Nexus.C07
