/-
  C07 (realm-model half) — "A client that stops reading has at most its configured outbound queue of
  messages buffered for it and loses the rest; every other session's requests are still answered and
  its events and invocations delivered completely and in order […]"

  About the router→client queues of the realm model (Nexus/L2/Realm.lean: `trySend`, `deliver`, every
  handler, `leave`, `runTask`, `drain`, `stepOp`, `advance`, `flush`, `step`, `create`).  Vocabulary in
  Nexus/L2/Proofs/RealmQueue.lean: `QueueInv`, `JoinFresh`, `QReachable`, `queueOf`, `accept`, `msgsTo`,
  `client?`, `SendFrame`.  (The concurrency-skeleton half — non-blocking sends, no wait cycle — is
  Nexus/Props/C07.lean.)

  clause                                                              theorem
  ------------------------------------------------------------------  --------------------------------
  in every reachable state every attached client has at most `cap`
    messages buffered; every queue belongs to an attached client or
    to a closed peer / ghost awaiting flush; client keys distinct      C07_bounded_queue
  the invariant holds initially and is preserved by every function
    of the realm model                                                 C07_queue_inv_create, C07_queue_inv_preserved
  "the rest is lost", and ONLY the rest: a send that finds the queue
    full leaves the whole state unchanged; a send that finds room
    appends exactly that message to exactly that queue; dropping one
    message of a batch changes nothing for anybody else (frame)        C07_overflow_dropped_only
  "delivered completely and in order" to whoever has room: after a
    batch of sends each attached client's queue is its old queue
    offered the messages addressed to it in order; other queues are
    untouched                                                          C07_lossy_in_order

  INBOUND side, while a session's own handler sleeps in the yield retry
    loop (C07's bounded exception, `C13_retry_*`): what a socket-
    attached (`buffered`) session sends meanwhile is neither lost nor
    handled early — it waits in `inbox` (appended at the end; nothing
    else changes), stays there while the loop goes on, and when the
    loop ends becomes that session's `inMsg` tasks, all of them, in
    arrival order, ahead of its deferred departures; an `inMsg` task is
    handled exactly like the message arriving then                      C07_inbox_not_lost
  (in every reachable state the senders of waiting messages are
    attached, buffered sessions whose handler is still busy:            C05_live_refs_inbox,
    Nexus/Props/C05.lean — part of `RealmInv`)

  THE BOUNDED EXCEPTION: "a callee whose result cannot be delivered because
    the caller does not read is held back for at most the result-retry
    period before that call is cancelled" (`dealer.yield`; the model:
    `handleYield`, `Retry`, `retryDue`, `nextDue`/`advance`)
  in every reachable state (no fuel marker) every entry of the retry table
    is in one of the 16 phases, is not due (`now < next`), satisfies
    `next + 1 = start + 2·delay`, `next ≤ start + 65535`, `start ≤ now`:
    NO HANDLER IS HELD BACK LONGER THAN 65.535 s; one entry per callee
    (the meta session apart: `C07_retry_nodup_meta_fails`)                C07_retry_bounded
  the invariant `RetryInv` behind it holds between the atomic actions of a
    step too and is preserved by each of them                             C07_retry_inv_preserved
  every turn of the loop that `advance` runs fires exactly at the entry's
    time, in a phase ≤ 16: the hypotheses of `C13_retry_turn` /
    `C13_retry_bound` hold for it                                         C07_retry_turns_on_time
  the turn in phase 16 (65535 ms after the start, the first turn at or
    after the 60 s deadline): the dealer is asked with canRetry = false,
    the RESULT is dropped, the call cancelled (killnowait,
    wamp.error.canceled; the ERROR meets the full queue), the callee is
    free AT THAT MOMENT and its waiting input is released                 C07_retry_gives_up
  end to end: after a tick reaching `start + 65535` the entry is gone
    (every remaining entry started later)                                 C07_retry_released_by_tick
  the constants are those of router/dealer.go                             C07_retry_constants
  restricted F19 guarantee: the meta session's handler enters the loop
    only for the RESULT of a meta procedure whose caller's queue is full  C07_meta_retry_only_full_caller
  STALL ISOLATION — "every other session's requests are still answered and its
    events and invocations delivered completely and in order, without delay".
    `EqOff x r r'` (Nexus/L2/Proofs/WpCStallBase.lean): the two states agree on every
    table, task, clock, counter and the panic flag, and differ at most in what concerns
    x alone: the contents of x's outbound queue, whether x reads (`stalled`), whether
    x's closure has been observed (`closedPeers`/`ghosts` at x).
  a send to ANYBODY keeps the two states equal off x (a send to x may be
    queued in one and dropped in the other; a send to k ≠ x finds the
    same room; "peer closed" is hit in both or in neither)               C07_stall_isolation_send
  PUBLISH / SUBSCRIBE / UNSUBSCRIBE of every session (x too), the
    authorization gate included: equal off x afterwards, so every other
    queue has the same contents in the same order                        C07_stall_isolation_pubsub
  the dealer consults `full` only at: the chosen callee (INVOCATION), the
    callee of the invocation (INTERRUPT), the caller (RESULT); environments
    that agree off x give IDENTICAL dealer outputs when x is none of them   C07_stall_dealer_congruence
  any message of a session other than x, while x takes no part in any RPC
    (`Idle x`: dealer tables do not mention x, x's handler not in the
    retry loop, none of its RPC messages waiting): equal off x, and x
    still takes no part                                                   C07_stall_isolation_rpc
  the same for every atomic action: internal tasks (meta events, meta
    procedures, departures — of x too), inputs, call timeouts, retry turns   C07_stall_isolation_actions
  ONE STEP (`Realm.step`, any input except an RPC message of x; `tick`
    included): successor states equal off x; every client other than x
    reads exactly the same messages in the same order and sees the same
    closures; same panic flag; side conditions hold again                  C07_stall_isolation
  HISTORIES: the same inputs, except that x stops/resumes reading at
    different moments (or never): nobody else can tell the difference       C07_stall_isolation_history,
                                                                            C07_stall_unobservable
  the side conditions hold in every state reached without an RPC
    message of x (x may publish, subscribe, stall, leave, rejoin)           C07_stall_idle_reachable
  the EXCEPTIONS are real: with x registered as a callee and x's queue
    full the caller of x's procedure gets ERROR network_failure (at once:
    in the same atomic action) instead of silence                           C07_stall_isolation_needs_idle,
                                                                            C07_stall_exception_callee,
    and a YIELD for a call of a full x puts the callee's handler into       C07_stall_exception_caller
    the retry loop (`C13_retry_*`, C07_retry_*)

  Explicit assumption (hypothesis `JoinFresh` of every `join` of `QReachable`, weakened to `JoinClean` in
  `CReachable` / `C07_bounded_queue_clean` / `C07_queue_inv_preserved`): a joining session key names no
  leftover queue of a departed session.  (That it names no attached client is no assumption any more: such a
  `join` is a no-op of the model, and distinct client keys hold for EVERY history:
  `Realm.Reachable.clients_wf`.)  Session keys are the model's internal names for sessions (the
  implementation draws fresh random session ids); the harness never reuses one.  Without it the model
  itself violates the bound: see `C07_bound_needs_fresh_join`.
-/
import Nexus.L2.Proofs.RealmQueue
import Nexus.L2.Proofs.DealerRealmRpc
import Nexus.L2.Proofs.WpCRetryGiveup
import Nexus.L2.Proofs.WpCStallHist
import Nexus.L2.Proofs.DealerExamples

namespace Nexus.C07
open Nexus.L2 Nexus.L2.Realm Gen.N

/-- In every state reachable from `Realm.create cfg` by external inputs (each run to quiescence and
    flushed), with fresh joining keys:
    * every attached client has at most its configured capacity of messages buffered;
    * every queue belongs to an attached client, or to a peer closed in this step / a departed stalled
      session (ghost) whose closure the client has not observed yet;
    * attached clients have distinct keys, and ghosts are closed peers. -/
theorem C07_bounded_queue {cfg : Config} {r : Realm} (h : QReachable cfg r) :
    (∀ c ∈ r.clients, r.queueLen c.key ≤ c.cap) ∧
    (∀ q ∈ r.queues, (∃ c ∈ r.clients, c.key = q.1) ∨ q.1 ∈ r.closedPeers) ∧
    (r.clients.map (·.key)).Nodup ∧ (∀ k ∈ r.ghosts, k ∈ r.closedPeers) := by
  obtain ⟨h1, h2, h3, h4⟩ := h.qinv
  exact ⟨h2, h1, h3, h4⟩

/-- The same with the weakest hypothesis on joining keys the model admits (`CReachable`): nothing is asked of
    a `join` under the key of an attached client or the meta session's — a no-op of the model, session ids
    are drawn by the router — ; a key that names no attached client must name no leftover queue
    (`JoinClean`), which holds whenever the key is not that of a departed session whose closure its client
    has not observed yet (`CReachable.step_not_closed`).  `QReachable` (fresh joining keys) is a special
    case.  What is left cannot be dropped: `C07_bound_needs_fresh_join`. -/
theorem C07_bounded_queue_clean {cfg : Config} {r : Realm} (h : CReachable cfg r) :
    (∀ c ∈ r.clients, r.queueLen c.key ≤ c.cap) ∧
    (∀ q ∈ r.queues, (∃ c ∈ r.clients, c.key = q.1) ∨ q.1 ∈ r.closedPeers) ∧
    (r.clients.map (·.key)).Nodup ∧ (∀ k ∈ r.ghosts, k ∈ r.closedPeers) := by
  obtain ⟨h1, h2, h3, h4⟩ := h.qinv
  exact ⟨h2, h1, h3, h4⟩

example {cfg : Config} {r : Realm} (h : QReachable cfg r) : CReachable cfg r := h.creachable

/-- one step from any state with the queue invariant: enough that a joining key is not the key of a closed
    peer whose closure is unobserved -/
theorem C07_queue_inv_step_not_closed {r : Realm} (h : QueueInv r) (op : Op)
    (hj : ∀ k l d ro c, op = .join k l d ro c → k ∉ r.closedPeers) : QueueInv (r.step op).2 :=
  qinv_step' h op (fun k l d ro c e => h.joinClean (hj k l d ro c e))

theorem C07_queue_inv_create {cfg : Config} {r : Realm} (h : Realm.create cfg = some r) : QueueInv r :=
  qinv_create h

/-- non-vacuity of `JoinFresh`: in a freshly created realm every key may join -/
example {cfg : Config} {r : Realm} (h : Realm.create cfg = some r) (k : SessKey) : JoinFresh r k := by
  unfold Realm.create at h
  split at h
  · cases h
  · split at h
    · cases h
    · extract_lets b d at h
      cases h
      obtain ⟨f1, f2, _, _⟩ := bregisterMeta_fields (metaProcNames cfg) { cfg := cfg, broker := b, ds := { d := d } }
      unfold JoinFresh
      rw [f1, f2]
      exact ⟨fun c hc => (nomatch hc), fun q hq => (nomatch hq)⟩

example : (Realm.create {}).isSome = true := by decide +kernel

/-- `QueueInv` is preserved by every function of the realm model (for `stepOp`/`step`: a joining key that
    names no attached client must name no leftover queue either, `JoinClean` — implied by the former
    hypothesis `JoinFresh`, whose other half "the key names no attached client" is not needed any more:
    such a `join` is a no-op of the model). -/
theorem C07_queue_inv_preserved {r : Realm} (h : QueueInv r) :
    (∀ s, QueueInv (r.trySend s)) ∧
    (∀ ss, QueueInv (r.deliver ss)) ∧
    (∀ o, QueueInv (r.applyD o)) ∧
    (∀ p, QueueInv (r.setPanic p)) ∧
    (∀ s req opts topic args kw, QueueInv (handlePublish r s req opts topic args kw)) ∧
    (∀ s req opts topic, QueueInv (handleSubscribe r s req opts topic)) ∧
    (∀ s req sub, QueueInv (handleUnsubscribe r s req sub)) ∧
    (∀ s req opts proc, QueueInv (handleRegister r s req opts proc)) ∧
    (∀ s req reg, QueueInv (handleUnregister r s req reg)) ∧
    (∀ s req opts proc args kw, QueueInv (handleCall r s req opts proc args kw)) ∧
    (∀ s req opts, QueueInv (handleCancel r s req opts)) ∧
    (∀ s req opts args kw, QueueInv (handleYield r s req opts args kw)) ∧
    (∀ s req details err args kw, QueueInv (handleError r s req details err args kw)) ∧
    (∀ s m, QueueInv (handleMsg r s m)) ∧
    (∀ k mode, QueueInv (r.leave k mode)) ∧
    (∀ t, QueueInv (r.runTask t)) ∧
    (∀ fuel, QueueInv (drain fuel r)) ∧
    (∀ op, (∀ k l d ro c, op = .join k l d ro c → JoinClean r k) → QueueInv (r.stepOp op)) ∧
    (∀ x, QueueInv (r.retryDue x)) ∧
    (∀ t, QueueInv (r.timerDue t)) ∧
    (∀ fuel target, QueueInv (advance fuel r target)) ∧
    QueueInv r.flush.2 ∧
    (∀ op, (∀ k l d ro c, op = .join k l d ro c → JoinClean r k) → QueueInv (r.step op).2) :=
  ⟨qinv_trySend h, fun ss => qinv_deliver ss h, qinv_applyD h, qinv_setPanic h,
   fun s req opts topic args kw => qinv_handlePublish h s req opts topic args kw,
   fun s req opts topic => qinv_handleSubscribe h s req opts topic,
   fun s req sub => qinv_handleUnsubscribe h s req sub,
   fun s req opts proc => qinv_handleRegister h s req opts proc,
   fun _ _ _ => qinv_applyD h _, fun _ _ _ _ _ _ => qinv_applyD h _,
   fun s req opts => qinv_handleCancel h s req opts,
   fun s req opts args kw => qinv_handleYield h s req opts args kw,
   fun _ _ _ _ _ _ => qinv_applyD h _,
   fun s m => qinv_handleMsg h s m, fun k mode => qinv_leave h k mode, fun t => qinv_runTask h t,
   fun fuel => qinv_drain fuel h, fun op hj => qinv_stepOp' h op hj, fun x => qinv_retryDue h x,
   fun t => qinv_timerDue h t, fun fuel target => qinv_advance fuel target h, qinv_flush h,
   fun op hj => qinv_step' h op hj⟩

/-- "… and loses the rest" — and nothing but the rest.  For a send to an attached (non-meta) client `c`:
    (1) if its queue is full the send changes NOTHING: the whole realm state is as before;
    (2) if there is room, exactly that message is appended to exactly that queue: every other queue,
        every table (`SendFrame`: broker, dealer, clients, …), the tasks and the panic flag are unchanged;
    (3) frame for a batch: a message dropped because the recipient's queue is full at that moment has
        no effect on the outcome of the whole batch — every other message ends up exactly where it
        would have without it, and all tables are the same. -/
theorem C07_overflow_dropped_only (r : Realm) (s : Send) {c : Session} (hne : s.to ≠ metaKey)
    (hc : r.client? s.to = some c) :
    (c.cap ≤ r.queueLen s.to → r.trySend s = r) ∧
    (r.queueLen s.to < c.cap →
      (r.trySend s).queueOf s.to = r.queueOf s.to ++ [s.msg] ∧
      (∀ k, k ≠ s.to → (r.trySend s).queueOf k = r.queueOf k) ∧
      SendFrame r (r.trySend s) ∧ (r.trySend s).tasks = r.tasks ∧ (r.trySend s).panic = r.panic) ∧
    (∀ pre post, c.cap ≤ (r.deliver pre).queueLen s.to →
      r.deliver (pre ++ s :: post) = r.deliver (pre ++ post)) := by
  obtain ⟨h1, h2⟩ := trySend_client_effect r s hne hc
  exact ⟨h1, h2, fun pre post hfull => deliver_drop r pre post s hne hc hfull⟩

/-- Whoever has room gets everything, in order: after a batch of sends the queue of an attached client
    `k` is its old queue offered the messages addressed to `k` in order (`accept`: each appended if there
    is room at that moment, lost otherwise — so with enough room it is `old ++ msgsTo k ss`, unaffected by
    how full anybody else's queue is); the queues of departed sessions are untouched; no table changes. -/
theorem C07_lossy_in_order (r : Realm) (ss : List Send) :
    (∀ k c, k ≠ metaKey → r.client? k = some c →
      (r.deliver ss).queueOf k = accept c.cap (r.queueOf k) (msgsTo k ss) ∧
      ((r.queueOf k).length + (msgsTo k ss).length ≤ c.cap →
        (r.deliver ss).queueOf k = r.queueOf k ++ msgsTo k ss)) ∧
    (∀ k, (k = metaKey ∨ r.client? k = none) → (r.deliver ss).queueOf k = r.queueOf k) ∧
    SendFrame r (r.deliver ss) := by
  refine ⟨?_, fun k hk => queueOf_deliver_other ss r k hk, deliver_frame ss r⟩
  intro k c hk hc
  refine ⟨queueOf_deliver_client ss r k c hk hc, ?_⟩
  intro hroom
  rw [queueOf_deliver_client ss r k c hk hc]
  generalize r.queueOf k = q at hroom
  generalize msgsTo k ss = ms at hroom
  induction ms generalizing q with
  | nil => simp [accept_nil]
  | cons m ms ih =>
    simp only [List.length_cons] at hroom
    rw [accept_cons, if_pos (by omega), ih (q ++ [m]) (by simp; omega)]
    simp

/-! ## The inbound side: messages sent while the session's handler is in the yield retry loop -/

/-- NOT LOST, NOT HANDLED EARLY.  `inboxOf r k`: the messages of `k` waiting in the transport, oldest first.
    (1) A message from an attached, not ending, `buffered` session whose handler is busy changes nothing
        but `inbox`: it is appended at the END (behind everything that already waits); the waiting
        messages of every other session are as before.
    (2) A turn of the loop after which the loop goes on (`again = true`) leaves `inbox` (and the deferred
        departures) untouched; the callee stays busy.
    (3) The turn that ends the loop (`again = false`): after the tasks the turn itself queued
        (`retryTasks`), the task list gets EXACTLY the callee's waiting messages as `inMsg` tasks, in
        arrival order, followed by its deferred departures; afterwards `inbox` holds nothing of the
        callee, the other sessions' waiting messages are unchanged, and the callee is no longer busy.
    (4) Running an `inMsg k m` task is, in whatever state it runs, exactly what the arrival of `m` from
        `k` in that state does (`recvMsg`) — in particular it waits again if the handler is busy again. -/
theorem C07_inbox_not_lost (r : Realm) :
    (∀ k s m, r.busy k = true → r.clients.find? (fun c => c.key == k) = some s → s.buffered = true →
      r.ending.contains k = false →
      r.stepOp (.msg k m) = { r with inbox := r.inbox ++ [(k, m)] } ∧
      inboxOf (r.stepOp (.msg k m)) k = inboxOf r k ++ [m] ∧
      (∀ k', k' ≠ k → inboxOf (r.stepOp (.msg k m)) k' = inboxOf r k')) ∧
    (∀ x, (retryOut r x).again = true →
      (r.retryDue x).inbox = r.inbox ∧ (r.retryDue x).deferred = r.deferred ∧
      (r.retryDue x).tasks = r.tasks ++ retryTasks r x ∧ (r.retryDue x).busy x.callee = true) ∧
    (∀ x, (retryOut r x).again = false →
      (r.retryDue x).tasks =
        r.tasks ++ retryTasks r x ++ (inboxOf r x.callee).map (Task.inMsg x.callee) ++
          ((r.deferred.filter (fun d => d.1 == x.callee)).map (·.2)).map (Task.leave x.callee) ∧
      (r.retryDue x).inbox = r.inbox.filter (fun d => d.1 != x.callee) ∧
      (∀ e ∈ (r.retryDue x).inbox, e.1 ≠ x.callee) ∧
      inboxOf (r.retryDue x) x.callee = [] ∧
      (∀ k, k ≠ x.callee → inboxOf (r.retryDue x) k = inboxOf r k) ∧
      (r.retryDue x).busy x.callee = false) ∧
    (∀ k m, r.runTask (.inMsg k m) = r.stepOp (.msg k m)) := by
  refine ⟨?_, ?_, ?_, fun _ _ => rfl⟩
  · intro k s m hb hf hbuf he
    have e : r.stepOp (.msg k m) = { r with inbox := r.inbox ++ [(k, m)] } := by
      rw [stepOp_msg]; exact recvMsg_buffered m hb hf hbuf he
    refine ⟨e, ?_, ?_⟩
    · rw [e, inboxOf_append, if_pos rfl]
    · intro k' hk'
      rw [e, inboxOf_append, if_neg hk']
  · intro x ha
    obtain ⟨h1, h2, h3⟩ := retryDue_holds r x ha
    refine ⟨h2, h3, h1, ?_⟩
    unfold Realm.busy
    rw [retryDue_retries, if_pos ha]
    simp
  · intro x ha
    obtain ⟨h1, h2, _, h4, h5⟩ := retryDue_release r x ha
    refine ⟨h1, h2, ?_, h4, h5, ?_⟩
    · intro e he
      rw [h2] at he
      simpa using (List.mem_filter.mp he).2
    unfold Realm.busy
    rw [retryDue_retries, if_neg (by simp [ha])]
    exact not_busy_filter _ _

-- non-vacuity of (1): session 1 is attached through a socket and its handler is in the retry loop
example : let r0 : Realm :=
      { clients := [{ key := 1, details := [], roles := [], isLocal := false, buffered := true }],
        retries := [{ callee := 1, req := 5, opts := [], args := [], kw := [], progress := false, start := 0, next := 1, delay := 1 }] }
    (r0.stepOp (.msg 1 (.unregister 9 3))).inbox = [(1, .unregister 9 3)] ∧
    inboxOf (r0.stepOp (.msg 1 (.unregister 9 3))) 1 = [.unregister 9 3] := by
  intro r0
  have h := (C07_inbox_not_lost r0).1 1 _ (.unregister 9 3) (by decide) rfl rfl (by decide)
  exact ⟨by rw [h.1]; rfl, by rw [h.2.1]; rfl⟩

/-- Why `JoinClean` (what is left of `JoinFresh`) is needed: in the model a departed stalled session leaves
    its queue behind until it "resumes" (queues are named by session key); re-using its key for a new
    session with a smaller capacity would start that session with more buffered messages than its
    capacity.  The model's `join` refuses only the key of an ATTACHED client and the meta key, so this
    input is still accepted.  (Keys are never reused by the harness: a model artifact, not a router
    behaviour — the router gives every session its own peer.) -/
theorem C07_bound_needs_fresh_join :
    ∃ r : Realm, QueueInv r ∧ ¬ QueueInv (r.stepOp (.join 7 false [] [] 0)) := by
  refine ⟨{ queues := [(7, [.other 0])], closedPeers := [7], ghosts := [7] }, ?_, ?_⟩
  · refine ⟨?_, fun c hc => (nomatch hc), List.nodup_nil, ?_⟩
    · intro q hq; right; simp at hq; subst hq; simp
    · intro k hk; simpa using hk
  · intro h
    have := h.2.1 { key := 7, details := [], roles := [], isLocal := false, cap := 0 } (by
      rw [stepOp_join_fresh _ _ _ _ (by decide) (by intro c hc; cases hc)]; simp [Realm.addTasks])
    revert this
    decide

/-! ## The yield retry loop is bounded

  `dealer.yield` (router/dealer.go:345-385): when `syncYield` reports that the RESULT met a full caller queue
  the callee's handler goroutine sleeps `delay` (1 ms, doubling), re-posts the YIELD, and after the first
  sleep that ends at or beyond `sendResultDeadline` (1 min) re-posts it with `retry = false`, which makes
  `syncYield` drop the RESULT and cancel the call.  Model: `Realm.handleYield` appends a `Retry` entry
  (`start = now`, `next = now + 1`, `delay = 1`), `Realm.retryDue` is one turn, `Realm.advance` fires the
  entries at their `next` time.  `InPhase x n`: `x.next + 1 = x.start + 2^n ∧ x.delay = 2^(n-1)`. -/
section RetryLoop
open Nexus.L2.WpC

/-- the two constants of the loop.  They are hand-copied from /repo/router/dealer.go, lines 18-23
    (`sendResultDeadline = time.Minute`, line 21; `yieldRetryDelay = time.Millisecond`, line 23; used in
    `dealer.yield`, lines 363 and 372); no generator checks them. -/
theorem C07_retry_constants : sendResultDeadlineMs = 60000 ∧ yieldRetryDelayMs = 1 := ⟨rfl, rfl⟩

example : sendResultDeadlineMs = 60000 := rfl
example : yieldRetryDelayMs = 1 := rfl
/-- 2^16 − 1 = 65535 ms is the first turn at or after the deadline: turn 15 (32767 ms) is before it -/
example : 2 ^ 15 - 1 < sendResultDeadlineMs ∧ sendResultDeadlineMs ≤ 2 ^ 16 - 1 := by decide

/-- THE BOUND, over histories.  In every state reachable from `Realm.create cfg` by external inputs (each run to
    quiescence) in which no fuel marker of the model was ever set (`panic = none`: the flag is sticky), every
    handler sleeping in the retry loop of `dealer.yield` (entry `x` of `retries`)
    * is in one of the phases 1 … 16 of the loop,
    * is not due: its next turn lies strictly in the future (every turn that was due has been run),
    * will take that turn `2·delay − 1` ms after the start of the loop and at most 65535 ms after it,
    * started in the past — hence has been held back for LESS THAN 65.535 s (2^16 − 1 ms: not 60 s — the last
      sleep starts 32.767 s after the start and lasts 32.768 s);
    and no session other than the meta session has two entries (a busy handler reads no further YIELD;
    the meta session can: `C07_retry_nodup_meta_fails`).
    These are the hypotheses `InPhase x n` of `C13_retry_turn`/`C13_retry_bound`; their other hypothesis
    `now = next` is what `advance` arranges (`C07_retry_turns_on_time`).
    Without `panic = none` the statement is false of the model: when `advance` runs out of fuel it sets the
    clock to the target with due entries left (`now ≥ next`; example below). -/
theorem C07_retry_bounded {cfg : Config} {r : Realm} (h : Realm.Reachable cfg r) (hp : r.panic = none) :
    (∀ x ∈ r.retries,
      (∃ n, 1 ≤ n ∧ n ≤ 16 ∧ InPhase x n) ∧ r.now < x.next ∧ x.next + 1 = x.start + 2 * x.delay ∧
      x.next ≤ x.start + 65535 ∧ x.start ≤ r.now ∧ r.now - x.start < 65535) ∧
    ((r.retries.filter (fun x => x.callee != metaKey)).map (·.callee)).Nodup := by
  obtain ⟨hi, hs⟩ := reachable_retry h hp
  refine ⟨fun x hx => ?_, hi.nodup⟩
  obtain ⟨hph, _, hst⟩ := hi.1 x hx
  obtain ⟨a1, a2⟩ := (hi.1 x hx).arith
  have := hs x hx
  exact ⟨hph, this, a1, a2, hst, by omega⟩

/-- why `panic = none`: `advance` out of fuel jumps to the target although the entry was due at time 1 -/
example : let x : Retry := { callee := 1, req := 5, opts := [], args := [], kw := [], progress := false,
                             start := 0, next := 1, delay := 1 }
    let r : Realm := { retries := [x] }
    (advance 0 r 5).retries.map (·.next) = [1] ∧ (advance 0 r 5).now = 5 ∧ (advance 0 r 5).panic ≠ none := by
  intro x r; decide

/-- concrete reachable states used as witnesses: client 1 joins with a queue of capacity 0 (it never has room:
    the extreme case of a client that does not read) and calls the meta procedure `wamp.session.count` -/
def Ex.r1 : Realm := (((Realm.create {}).getD {}).step (.join 1 false [] [] 0)).2
/-- … the RESULT cannot be delivered: the META SESSION's handler is in the retry loop -/
def Ex.rA : Realm := (Ex.r1.step (.msg 1 (.call 1 [] "wamp.session.count" [] []))).2
/-- … a second call: a second entry for the meta session -/
def Ex.rB : Realm := (Ex.rA.step (.msg 1 (.call 2 [] "wamp.session.count" [] []))).2
/-- `rA`, 65534 ms later: phase 16, the last turn is 1 ms away -/
def Ex.rL : Realm := (Ex.rA.step (.tick 65534)).2
/-- `rA`, 65535 ms later -/
def Ex.rZ : Realm := (Ex.rA.step (.tick 65535)).2

theorem Ex.create_some : Realm.create {} = some ((Realm.create {}).getD {}) := by
  have : (Realm.create {}).isSome = true := by decide +kernel
  cases h : Realm.create {} with
  | none => rw [h] at this; cases this
  | some r => rfl

theorem Ex.rA_reach : Realm.Reachable {} Ex.rA := .step _ (.step _ (.init Ex.create_some))
theorem Ex.rB_reach : Realm.Reachable {} Ex.rB := .step _ Ex.rA_reach
theorem Ex.rL_reach : Realm.Reachable {} Ex.rL := .step _ Ex.rA_reach
theorem Ex.rZ_reach : Realm.Reachable {} Ex.rZ := .step _ Ex.rA_reach

set_option maxRecDepth 10000 in
theorem Ex.rB_retries : Ex.rB.retries.map (fun x => (x.callee, x.req, x.start, x.next, x.delay)) =
    [(0, 1, 0, 1, 1), (0, 2, 0, 1, 1)] ∧ Ex.rB.panic = none := by decide +kernel

set_option maxRecDepth 10000 in
theorem Ex.rL_retries : Ex.rL.retries.map (fun x => (x.callee, x.req, x.start, x.next, x.delay)) =
    [(0, 1, 0, 65535, 32768)] ∧ Ex.rL.panic = none ∧ Ex.rL.now = 65534 ∧
    Ex.rL.ds.d.calls = [⟨1, 1⟩] := by decide +kernel

set_option maxRecDepth 10000 in
theorem Ex.rZ_free : Ex.rZ.retries = [] ∧ Ex.rZ.panic = none ∧ Ex.rZ.now = 65535 ∧ Ex.rZ.ds.d.calls = [] ∧
    Ex.rZ.ds.d.invs = [] := by decide +kernel

/-- non-vacuity of `C07_retry_bounded`: a reachable state without fuel marker whose retry table is not empty -/
example : ∃ r, Realm.Reachable {} r ∧ r.panic = none ∧ r.retries.length = 1 :=
  ⟨Ex.rL, Ex.rL_reach, Ex.rL_retries.2.1, by
    have := congrArg List.length Ex.rL_retries.1
    simpa using this⟩

/-- The "one entry per callee" clause is FALSE for the meta session, in the model: the answers of the meta-procedure
    handler are fed to the meta session's handler (`Task.metaMsg`) without looking at `busy`, so a second
    RESULT for a full caller makes a second entry.  History: `create {}`; `join 1` with capacity 0;
    `msg 1 CALL(1, wamp.session.count)`; `msg 1 CALL(2, wamp.session.count)`.  (In the Go router the meta session has
    one handler goroutine: the second YIELD waits in `metaProcedureHandler`'s `send` until the loop for the first
    has ended.  `retryDue` removes ALL entries of its callee, so in the model the second YIELD is never
    retried: a model defect, reported.) -/
theorem C07_retry_nodup_meta_fails :
    ∃ r, Realm.Reachable {} r ∧ r.panic = none ∧ ¬ (r.retries.map (·.callee)).Nodup := by
  refine ⟨Ex.rB, Ex.rB_reach, Ex.rB_retries.2, ?_⟩
  have h := congrArg (List.map (fun t : SessKey × Nat × Nat × Nat × Nat => t.1)) Ex.rB_retries.1
  simp only [List.map_map] at h
  have h' : Ex.rB.retries.map (·.callee) = [0, 0] := h
  rw [h']
  decide

set_option maxRecDepth 10000 in
/-- … and what becomes of the second entry in the model: the first turn (1 ms later) removes both entries and
    re-inserts only the one it retried; 70 s later the table is empty, call 1 has been cancelled, but call 2 and its
    invocation are still stored and nothing will ever answer or cancel it (until its caller leaves).  In the Go
    router the second YIELD is processed after the first loop has ended and goes through its own loop. -/
example : (Ex.rB.step (.tick 1)).2.retries.map (fun x => (x.callee, x.req, x.next)) = [(0, 1, 3)] ∧
    (Ex.rB.step (.tick 70000)).2.retries = [] ∧ (Ex.rB.step (.tick 70000)).2.panic = none ∧
    (Ex.rB.step (.tick 70000)).2.ds.d.calls = [⟨1, 2⟩] := by decide +kernel

/-- The invariant behind `C07_retry_bounded`, which also holds INSIDE a step (between the atomic actions of `drain`
    and `advance`): `RetryInv r` = every entry is in a phase 1 … 16, not overdue (`now ≤ next`), started in the
    past; two entries have different callees unless it is the meta session.  `Strict r` = no entry is due.
    For a state satisfying `RealmInv`:
    * every external input (`stepOp`) and every internal task (`runTask`) keeps it — only `handleYield` appends
      an entry (phase 1, `start = now`), for a handler that was not busy or for the meta session; nothing else
      touches `retries` or `now`;
    * a firing call timer keeps it; a turn of the loop keeps it WHEN FIRED AT ITS TIME (`now = next`): the entry
      moves to phase `n+1 ≤ 16` ("again" needs `canRetry`, i.e. `n ≤ 15`) or disappears;
    * `drain` keeps it and does not move the clock; one timed event of `advance` keeps it (the clock jumps to the
      EARLIEST due event, so no other entry is passed);
    * `advance` keeps it, reaches the target, and leaves no entry due — unless it sets its fuel marker;
    * `flush` keeps it. -/
theorem C07_retry_inv_preserved {r : Realm} (hi : RealmInv r) (h : RetryInv r) :
    (∀ op, RetryInv (r.stepOp op)) ∧
    (∀ t, RetryInv (r.runTask t)) ∧
    (∀ t, RetryInv (r.timerDue t)) ∧
    (∀ x ∈ r.retries, r.now = x.next → RetryInv (r.retryDue x)) ∧
    (∀ fuel, RetryInv (drain fuel r) ∧ (drain fuel r).now = r.now ∧ (Strict r → Strict (drain fuel r))) ∧
    (∀ target d, r.now ≤ target → nextDue r target = some d →
      RetryInv (fireDue r d) ∧ (fireDue r d).now ≤ target) ∧
    (∀ fuel target, r.now ≤ target → (advance fuel r target).panic = none →
      RetryInv (advance fuel r target) ∧ Strict (advance fuel r target) ∧ (advance fuel r target).now = target) ∧
    RetryInv r.flush.2 :=
  ⟨fun op => h.stepOp op, fun t => h.runTask hi.metaKey t, fun t => h.of_rn (rn_timerDue r t),
   fun _ hx hnow => h.retryDue hx hnow, fun fuel => drain_retry fuel hi h,
   fun _ _ hle hd => fireDue_retry hi h hle hd,
   fun fuel target hle hp =>
     ⟨(advance_retry fuel target hi h hle hp).1, (advance_retry fuel target hi h hle hp).2, advance_now fuel r target⟩,
   h.of_rn (rn_flush r)⟩

/-- a hand-written state satisfying `RetryInv`: two handlers in the loop, phases 1 and 3, at time 10 -/
example : RetryInv ({
    now := 10,
    retries := [{ callee := 1, req := 5, opts := [], args := [], kw := [], progress := false, start := 10, next := 11, delay := 1 },
                { callee := 2, req := 7, opts := [], args := [], kw := [], progress := true, start := 4, next := 11, delay := 4 }] } : Realm) := by
  refine ⟨?_, ?_⟩
  · intro x hx
    simp only [List.mem_cons, List.not_mem_nil, or_false] at hx
    rcases hx with rfl | rfl
    · exact ⟨⟨1, by decide, by decide, by decide, by decide, by decide⟩, by decide, by decide⟩
    · exact ⟨⟨3, by decide, by decide, by decide, by decide, by decide⟩, by decide, by decide⟩
  · refine List.Pairwise.cons ?_ (List.pairwise_singleton _ _)
    intro b hb
    rw [List.mem_singleton.mp hb]
    intro e
    exact absurd e (by decide)

/-- ON TIME.  Let `Adv target r evs r'` be a run of `Realm.advance` (`C13_advance_is_adv`) from a reachable state
    without fuel marker (or any state satisfying `RealmInv` and `RetryInv`).  Every turn of the retry loop it runs —
    event `(p, retry x)`: entry `x` fired in state `p` — is the turn of an entry of `p`'s table that is in a phase
    `n ≤ 16`, and it runs with the clock set exactly to the entry's time: `fireDue p (retry x)` is `retryDue x` in
    `{ p with now := x.next }` followed by the tasks it caused.  So the hypotheses `InPhase x n` and `now = x.next`
    of `C13_retry_turn` and `C13_retry_bound` hold for every turn the model ever runs. -/
theorem C07_retry_turns_on_time {cfg : Config} {r : Realm} (h : Realm.Reachable cfg r) (hp : r.panic = none)
    {target : Nat} (hle : r.now ≤ target) {evs : List (Realm × Due)} {r' : Realm} (ha : Adv target r evs r') :
    ∀ p ∈ evs, ∀ x, p.2 = .retry x →
      x ∈ p.1.retries ∧ p.1.now ≤ x.next ∧ x.next ≤ target ∧ (∃ n, 1 ≤ n ∧ n ≤ 16 ∧ InPhase x n) ∧
      ({ p.1 with now := x.next } : Realm).now = x.next ∧
      fireDue p.1 (.retry x) = drain taskFuel (({ p.1 with now := x.next } : Realm).retryDue x) ∧
      RealmInv ({ p.1 with now := x.next } : Realm) ∧ RetryInv ({ p.1 with now := x.next } : Realm) := by
  intro p hpm x hx
  obtain ⟨g1, _, g3, g4, g5, g6, g7, g8⟩ :=
    adv_retry_fired ha h.inv.1 (reachable_retry h hp).1 hle p hpm x hx
  exact ⟨g3, g4, g5, g6, rfl, g7,
    g1.of_parts rfl g1.binv g1.dinv g1.bmem g1.dref g1.callers g1.retr g1.tasks g1.inb rfl, g8⟩

/-- GIVING UP.  State `r` in which the turn of entry `x` fires: `x` is in one of the 16 phases and the clock is at its
    time (`C07_retry_turns_on_time`: always so), and the deadline has passed: `sendResultDeadlineMs ≤ now − start`.
    (`DealerInv r.ds` and "callers of pending calls are attached" are parts of `RealmInv`.)  Then
    * this is phase 16, exactly 65535 ms after the start of the loop;
    * the dealer is asked with `canRetry = false` and does not answer "again": the entry leaves the table, the
      callee's handler is NOT BUSY any more;
    * if the invocation `v` the YIELD answers is still stored, its caller's queue is still full and payload
      passthru is not misused (otherwise the YIELD is handled as any YIELD: `C02_*`), the caller still has the call, and
      - no kill-mode cancel outstanding (`v.canceled = false`): the RESULT is dropped and the call is cancelled as by
        CANCEL killnowait — for a final and for a progressive result alike — : the dealer's output is one INTERRUPT to
        the callee if it can be interrupted, then ERROR(CALL, wamp.error.canceled) for the caller; call, invocation
        and its timer are removed (`cancelMark … forget`); the caller's queue is unchanged, i.e. the ERROR meets
        the full queue and is dropped as well;
      - a kill-mode cancel is outstanding: nothing is sent; a final result forgets the call, a progressive one
        leaves it (`yieldFinish`);
    * AT THAT MOMENT the callee's waiting input is released: after what the turn itself queued, the task list
      gets the callee's waiting messages as `inMsg` tasks in arrival order, then its deferred departures as
      `leave` tasks; `inbox` and `deferred` no longer mention the callee. -/
theorem C07_retry_gives_up {r : Realm} (hd : DealerInv r.ds) (hcl : ∀ c ∈ r.ds.d.calls, r.isClient c.sess) {x : Retry}
    (hph : ∃ n, 1 ≤ n ∧ n ≤ 16 ∧ InPhase x n) (hnow : r.now = x.next)
    (hdl : sendResultDeadlineMs ≤ r.now - x.start) :
    InPhase x 16 ∧ r.now = x.start + 65535 ∧
    retryOut r x = syncYield r.denv r.ds x.callee x.req x.opts x.args x.kw x.progress false ∧
    (retryOut r x).again = false ∧
    (r.retryDue x).retries = r.retries.filter (fun y => y.callee != x.callee) ∧
    (r.retryDue x).busy x.callee = false ∧
    (∀ v, r.ds.d.findInv ⟨x.callee, x.req⟩ = some v → r.isFull v.callId.sess = true →
      yieldPptCalleeBad r.denv x.callee x.opts = false → yieldPptCallerBad r.denv v.callId.sess x.opts = false →
      v.callId ∈ r.ds.d.calls ∧
      (v.canceled = false →
        (retryOut r x).sends =
          (if canInterrupt r.denv v CancelModeKillNoWait
            then [interruptOf v ⟨x.callee, x.req⟩ CancelModeKillNoWait ErrCanceled] else []) ++
          [callErr v.callId [] ErrCanceled [] []] ∧
        (r.retryDue x).ds =
          { cancelMark (yieldTimer r.ds x.progress v) v with
            d := (cancelMark (yieldTimer r.ds x.progress v) v).d.forget v.callId ⟨x.callee, x.req⟩ } ∧
        v.callId ∉ (r.retryDue x).ds.d.calls ∧
        (r.retryDue x).ds.d.findInv ⟨x.callee, x.req⟩ = none ∧
        (r.retryDue x).dqueueOf v.callId.sess = r.dqueueOf v.callId.sess) ∧
      (v.canceled = true →
        retryOut r x = { st := yieldFinish r.ds x.progress v ⟨x.callee, x.req⟩ })) ∧
    (r.retryDue x).tasks =
      r.tasks ++ retryTasks r x ++ (inboxOf r x.callee).map (Task.inMsg x.callee) ++
        ((r.deferred.filter (fun d => d.1 == x.callee)).map (·.2)).map (Task.leave x.callee) ∧
    (r.retryDue x).inbox = r.inbox.filter (fun d => d.1 != x.callee) ∧
    (r.retryDue x).deferred = r.deferred.filter (fun d => d.1 != x.callee) := by
  obtain ⟨n, _, hn16, hp⟩ := hph
  have hn : n = 16 := phase16_of_deadline hn16 hp hnow hdl
  subst hn
  obtain ⟨l1, _, l3, l4⟩ := retryOut_last hp hnow
  have hret : (r.retryDue x).retries = r.retries.filter (fun y => y.callee != x.callee) := by
    rw [retryDue_retries, if_neg (by simp [l4])]
  obtain ⟨t1, t2, t3, _, _⟩ := retryDue_release r x l4
  refine ⟨hp, l1, l3, l4, hret, ?_, ?_, t1, t2, t3⟩
  · unfold Realm.busy
    rw [hret]
    exact not_busy_filter _ _
  · intro v hf hfull h1 h2
    obtain ⟨hv, _⟩ := findInv_some_mem hf
    have hcall : v.callId ∈ r.ds.d.calls := (hd.call.inv_call hv).1
    have hout := retryOut_giveup hd hp hnow hf hfull h1 h2
    refine ⟨hcall, fun hcan => ?_, fun hcan => ?_⟩
    · rw [if_neg (by simp [hcan])] at hout
      have hds : (r.retryDue x).ds =
          { cancelMark (yieldTimer r.ds x.progress v) v with
            d := (cancelMark (yieldTimer r.ds x.progress v) v).d.forget v.callId ⟨x.callee, x.req⟩ } := by
        rw [retryDue_ds, hout]
      refine ⟨by rw [hout], hds, ?_, ?_, retryDue_full_queue r x hfull (hcl _ hcall)⟩
      · rw [hds]; simp
      · rw [hds]; exact findInv_forget _ _ _
    · rw [if_pos hcan] at hout
      exact hout

/-- non-vacuity of `C07_retry_gives_up`, on a state taken from a history: `Ex.rL` (reachable: the meta session has been
    retrying the RESULT of `wamp.session.count` for client 1, whose queue has no room, for 65534 ms) with the clock
    moved to the entry's time 65535 — the state in which `advance` fires the last turn.  All hypotheses hold, including
    those of the cancellation clause (`v.canceled = false`). -/
example : ∃ (r : Realm) (x : Retry), RealmInv r ∧ x ∈ r.retries ∧ (∃ n, 1 ≤ n ∧ n ≤ 16 ∧ InPhase x n) ∧
    r.now = x.next ∧ sendResultDeadlineMs ≤ r.now - x.start ∧
    ∃ v, r.ds.d.findInv ⟨x.callee, x.req⟩ = some v ∧ r.isFull v.callId.sess = true ∧
      yieldPptCalleeBad r.denv x.callee x.opts = false ∧ yieldPptCallerBad r.denv v.callId.sess x.opts = false ∧
      v.canceled = false := by
  have hi := Ex.rL_reach.inv.1
  have hr : RealmInv ({ Ex.rL with now := 65535 } : Realm) :=
    hi.of_parts rfl hi.binv hi.dinv hi.bmem hi.dref hi.callers hi.retr hi.tasks hi.inb rfl
  have key : (match Ex.rL.retries with
      | [x] => x.next == 65535 && x.start == 0 && x.delay == 32768 &&
          (match Ex.rL.ds.d.findInv ⟨x.callee, x.req⟩ with
           | some v => Ex.rL.isFull v.callId.sess && !yieldPptCalleeBad Ex.rL.denv x.callee x.opts &&
               !yieldPptCallerBad Ex.rL.denv v.callId.sess x.opts && !v.canceled
           | none => false)
      | _ => false) = true := by
    set_option maxRecDepth 10000 in decide +kernel
  cases hret : Ex.rL.retries with
  | nil => rw [hret] at key; cases key
  | cons x rest =>
    cases rest with
    | cons _ _ => rw [hret] at key; cases key
    | nil =>
      rw [hret] at key
      simp only [Bool.and_eq_true, beq_iff_eq] at key
      obtain ⟨⟨⟨k1, k2⟩, k3⟩, k4⟩ := key
      cases hf : Ex.rL.ds.d.findInv ⟨x.callee, x.req⟩ with
      | none => rw [hf] at k4; cases k4
      | some v =>
        rw [hf] at k4
        simp only [Bool.and_eq_true, Bool.not_eq_true'] at k4
        obtain ⟨⟨⟨f1, f2⟩, f3⟩, f4⟩ := k4
        refine ⟨{ Ex.rL with now := 65535 }, x, hr, by show x ∈ Ex.rL.retries; rw [hret]; exact List.mem_singleton.mpr rfl,
          ⟨16, by decide, by decide, by decide, ?_, ?_⟩, k1.symm, ?_, v, hf, f1, f2, f3, f4⟩
        · show x.next + 1 = x.start + 2 ^ 16
          rw [k1, k2]
        · show x.delay = 2 ^ (16 - 1)
          rw [k3]
        · show sendResultDeadlineMs ≤ 65535 - x.start
          rw [k2]; decide

/-- END TO END.  From a reachable state without fuel marker let `ms` milliseconds pass (`step (.tick ms)`, and no fuel
    marker afterwards).  Then the clock is at `now + ms`, no entry of the retry table is due, every entry has been in
    the loop for less than 65535 ms — and every entry `x` of the old table whose 65535 ms are over
    (`x.start + 65535 ≤ now + ms`) IS GONE: whatever is in the table now started later.  So a handler that entered
    the loop at time `s` is free again (its call cancelled if the caller never read: `C07_retry_gives_up`) at time
    `s + 65535` at the latest, as soon as the clock gets there. -/
theorem C07_retry_released_by_tick {cfg : Config} {r : Realm} (h : Realm.Reachable cfg r) (ms : Nat)
    (hp : (r.step (.tick ms)).2.panic = none) :
    (r.step (.tick ms)).2.now = r.now + ms ∧
    (∀ y ∈ (r.step (.tick ms)).2.retries,
      r.now + ms < y.next ∧ y.next ≤ y.start + 65535 ∧ (r.now + ms) - y.start < 65535) ∧
    (∀ x ∈ r.retries, x.start + 65535 ≤ r.now + ms → ∀ y ∈ (r.step (.tick ms)).2.retries, x.start < y.start) := by
  have hb := (C07_retry_bounded (Realm.Reachable.step (.tick ms) h) hp).1
  have hnow := step_now r ms
  refine ⟨hnow, fun y hy => ?_, fun x _ hx y hy => ?_⟩
  · obtain ⟨_, b2, _, b4, _, b6⟩ := hb y hy
    rw [hnow] at b2 b6
    exact ⟨b2, b4, b6⟩
  · obtain ⟨_, b2, _, b4, _, _⟩ := hb y hy
    rw [hnow] at b2
    omega

/-- non-vacuity, and the whole story on a history: in the reachable state `Ex.rA` the meta session's handler has just
    entered the loop (start 0); 65534 ms later it is in phase 16 (`Ex.rL_retries`), the call still pending; after
    65535 ms the table is empty, the call and its invocation are gone, no fuel marker. -/
example : (∃ x ∈ Ex.rA.retries, x.start + 65535 ≤ Ex.rA.now + 65535) ∧
    (Ex.rA.step (.tick 65535)).2.panic = none ∧ (Ex.rA.step (.tick 65535)).2.retries = [] ∧
    (Ex.rA.step (.tick 65535)).2.ds.d.calls = [] := by
  have key : (Ex.rA.retries.any (fun x => decide (x.start + 65535 ≤ Ex.rA.now + 65535))) = true := by
    set_option maxRecDepth 10000 in decide +kernel
  obtain ⟨x, hx, hle⟩ := List.any_eq_true.mp key
  exact ⟨⟨x, hx, by simpa using hle⟩, Ex.rZ_free.2.1, Ex.rZ_free.1, Ex.rZ_free.2.2.2.1⟩

/-- THE RESTRICTED F19 GUARANTEE.  The exception of C07 is wider than its text when the callee held back is the META
    SESSION (its handler serves `onJoin`/`onLeave`, every meta event and every meta procedure of the realm).  This is
    when that can happen: the meta session's handler (callee `metaKey`) enters the retry loop ONLY for the RESULT
    of a meta procedure whose caller's queue is full at that moment.  Precisely, in a state where no stored
    invocation served by the meta session belongs to a caller whose queue is full:
    * no internal task and no external input adds an entry for `metaKey` to the retry table;
    * in particular the task that can — the meta-procedure handler's YIELD reaching the meta session's handler
      (`metaMsg (yield …)`) — leaves the table unchanged;
    * if the meta session is not held back, it is not held back afterwards.
    So as long as no session with a pending meta-procedure call has a full queue, the meta session is never held
    back and `session.on_join`/`on_leave` and the other meta events are never delayed by the retry loop.  (That the
    exception is real: `Ex.rA` below; open finding F19.)
    `hm` is part of `RealmInv`.  The statement covers a client that joined under key 0 (`metaKey`; the model's `Op`
    does not forbid it) too: its invocations have `callee = metaKey`. -/
theorem C07_meta_retry_only_full_caller (r : Realm) (hm : r.metaS.key = metaKey)
    (hfree : ∀ v ∈ r.ds.d.invs, v.callee = metaKey → r.isFull v.callId.sess = false) :
    (∀ t, ∀ x ∈ (r.runTask t).retries, x.callee = metaKey → x ∈ r.retries) ∧
    (∀ op, ∀ x ∈ (r.stepOp op).retries, x.callee = metaKey → x ∈ r.retries) ∧
    (∀ req opts args kw, (r.runTask (.metaMsg (.yield req opts args kw))).retries = r.retries) ∧
    (r.busy metaKey = false → ∀ t, (r.runTask t).busy metaKey = false) := by
  have key : ∀ {k : SessKey} {r' : Realm}, Enter k r r' → ∀ x ∈ r'.retries, x.callee = metaKey → x ∈ r.retries := by
    intro k r' e x hx hxm
    rcases e.mem hx with h | h
    · exact h
    · have hk : k = metaKey := h.symm.trans hxm
      have := e.none_full (fun v hv hc => hfree v hv (hc.trans hk))
      rw [this] at hx; exact hx
  have h1 : ∀ t, ∀ x ∈ (r.runTask t).retries, x.callee = metaKey → x ∈ r.retries :=
    fun t => key (runTask_enter r t).1
  refine ⟨h1, fun op => ?_, fun req opts args kw => ?_, fun hb t => ?_⟩
  · obtain ⟨k, e, _⟩ := stepOp_enter r op
    exact key e
  · have e := (runTask_enter r (.metaMsg (.yield req opts args kw))).1
    exact e.none_full (fun v hv hc => hfree v hv (hc.trans hm))
  · unfold Realm.busy at hb ⊢
    rw [List.any_eq_false] at hb ⊢
    intro x hx hxm
    have hxm' : x.callee = metaKey := by simpa using hxm
    exact hb x (h1 t x hx hxm') hxm

/-- non-vacuity: client 1 (capacity 5, queue empty) has called a meta procedure; the invocation (callee 0 = the meta
    session) is stored and the handler's YIELD is about to be run.  The hypothesis holds, the RESULT is delivered,
    the meta session does not enter the loop. -/
example : let r : Realm :=
      { clients := [{ key := 1, details := [], roles := [], isLocal := false, cap := 5 }],
        ds := { d := { calls := [⟨1, 7⟩], byCall := [(⟨1, 7⟩, ⟨0, 1⟩)],
                       invs := [{ id := ⟨0, 1⟩, callId := ⟨1, 7⟩, callee := 0 }] } } }
    (∀ v ∈ r.ds.d.invs, v.callee = metaKey → r.isFull v.callId.sess = false) ∧
    (r.runTask (.metaMsg (.yield 1 [] [.int 1] []))).retries = [] ∧
    (r.runTask (.metaMsg (.yield 1 [] [.int 1] []))).queues.map (fun q => (q.1, q.2.map (·.typeCode))) = [(1, [50])] := by
  intro r
  have hfree : ∀ v ∈ r.ds.d.invs, v.callee = metaKey → r.isFull v.callId.sess = false := by
    intro v hv _
    have : v = { id := ⟨0, 1⟩, callId := ⟨1, 7⟩, callee := 0 } := by simpa [r] using hv
    subst this
    decide
  exact ⟨hfree, (C07_meta_retry_only_full_caller r rfl hfree).2.2.1 1 [] [.int 1] [], by decide +kernel⟩

/-- … and the exception is real: in the reachable state `Ex.rA` (client 1, whose queue has no room, called
    `wamp.session.count`) the META SESSION's handler is in the retry loop -/
example : Realm.Reachable {} Ex.rA ∧ Ex.rA.busy metaKey = true := by
  refine ⟨Ex.rA_reach, ?_⟩
  set_option maxRecDepth 10000 in decide +kernel

end RetryLoop
/-! ## Stall isolation

A client `x` that stops reading gets a full outbound queue; `trySend` to it then drops.  The theorems below say
that this is all that happens: replace `x` by a session whose queue is fuller (or emptier), or that has
stopped (or not stopped) reading — `WpC.EqOff x r r'`, see the header — and nothing changes for anybody else:
not a table, not a task, not a clock, not another session's queue, not what the others read at the end of
the step.  The dealer is the one place where the router asks "is this queue full?" before deciding
(INVOCATION, INTERRUPT, RESULT), so the RPC half needs the side condition that `x` takes no part in any RPC
(`WpC.Idle x`); without it the statement is false (`C07_stall_isolation_needs_idle`), and what happens
instead is stated by `C07_stall_exception_callee` / `C07_stall_exception_caller`. -/

section StallIsolation
open Nexus.L2.WpC

/-- ANY send (and any batch of sends) to ANYBODY, in two states that agree off `x`, leaves two states that
    agree off `x`: a message for `x` itself may be queued in one state and dropped in the other — afterwards
    only x's queue differs; a message for `k ≠ x` finds the same room in both, so it is queued in both or
    dropped in both; the model's "send to a closed peer" marker is set in both or in neither.  In
    particular every other session's queue is the same, message for message (`queueOf`). -/
theorem C07_stall_isolation_send {x : SessKey} {r r' : Realm} (h : EqOff x r r') :
    (∀ s, EqOff x (r.trySend s) (r'.trySend s)) ∧
    (∀ ss, EqOff x (r.deliver ss) (r'.deliver ss)) ∧
    (∀ ss k, k ≠ x → (r'.deliver ss).queueOf k = (r.deliver ss).queueOf k) ∧
    (∀ ss, (r'.deliver ss).panic = (r.deliver ss).panic) :=
  ⟨fun s => eqoff_trySend h s, fun ss => eqoff_deliver ss h,
   fun ss _ hk => (eqoff_deliver ss h).queueOf hk, fun ss => (eqoff_deliver ss h).panic⟩

/-- two concrete states that agree off session 1: in the second one session 1 has stopped reading and its
    queue (capacity 2) is full -/
def stallA : Realm :=
  { clients := [{ key := 1, details := [], roles := [], isLocal := false, cap := 2 },
                { key := 2, details := [], roles := [], isLocal := false }],
    queues := [(1, []), (2, [])] }

def stallB : Realm :=
  { clients := [{ key := 1, details := [], roles := [], isLocal := false, cap := 2, stalled := true },
                { key := 2, details := [], roles := [], isLocal := false }],
    queues := [(1, [.other 0, .other 0]), (2, [])] }

theorem stallAB : EqOff 1 stallA stallB :=
  ⟨rfl, rfl, rfl, rfl, rfl, rfl, rfl, rfl, rfl, rfl, rfl, rfl, rfl, rfl, rfl, rfl, rfl, rfl, rfl⟩

-- non-vacuity: a message for the stalled session is queued in `stallA` and dropped in `stallB` …
example : ((stallA.trySend ⟨1, .other 7⟩).queueOf 1).length = 1 ∧ ((stallB.trySend ⟨1, .other 7⟩).queueOf 1).length = 2 := by
  decide +kernel
-- … and one for session 2 is queued in both
example : (stallB.trySend ⟨2, .other 7⟩).queueOf 2 = (stallA.trySend ⟨2, .other 7⟩).queueOf 2 :=
  (C07_stall_isolation_send stallAB).2.2.1 [⟨2, .other 7⟩] 2 (by decide)

/-- PUB/SUB.  The broker never asks whether a queue is full.  For every PUBLISH, SUBSCRIBE or UNSUBSCRIBE
    `m` of every session `s` (also of `x` itself: its acknowledgements go to its own queue), handled —
    authorization gate included — in two states that agree off `x`: the resulting states agree off `x`.
    Hence the subscription tables, the event history, the publication counter, the pending meta events and
    every other session's queue (same EVENTs, same order: combine with `C07_lossy_in_order`) are the same
    however full x's queue is. -/
theorem C07_stall_isolation_pubsub {x : SessKey} {r r' : Realm} (h : EqOff x r r') (s : Session) (m : Msg)
    (hm : (∃ req opts topic args kw, m = .publish req opts topic args kw) ∨
          (∃ req opts topic, m = .subscribe req opts topic) ∨ (∃ req sub, m = .unsubscribe req sub)) :
    EqOff x (handleMsg r s m) (handleMsg r' s m) ∧
    (∀ k, k ≠ x → (handleMsg r' s m).queueOf k = (handleMsg r s m).queueOf k) ∧
    (handleMsg r' s m).broker = (handleMsg r s m).broker := by
  have hr : isRpc m = false := by
    rcases hm with ⟨_, _, _, _, _, rfl⟩ | ⟨_, _, _, rfl⟩ | ⟨_, _, rfl⟩ <;> rfl
  have e := eqoff_handleMsg h (SEq.refl s) m (Or.inl hr)
  exact ⟨e, fun _ hk => e.queueOf hk, e.broker⟩

-- non-vacuity: session 2 subscribes in both states; session 1's queue is full in one of them
example : EqOff 1 (handleMsg stallA stallA.clients[1] (.subscribe 5 [] "t"))
    (handleMsg stallB stallB.clients[1] (.subscribe 5 [] "t")) :=
  (C07_stall_isolation_pubsub stallAB _ _ (Or.inr (Or.inl ⟨5, [], "t", rfl⟩))).1

/-- THE DEALER READS `full` AT THREE PLACES ONLY.  Let two dealer environments agree off `x` (`EnvEq x`: same
    sessions up to `stalled` of x, same clock, same answer to "is k's queue full?" for every k ≠ x).  Then
    the dealer's actions give IDENTICAL outputs (new state, messages, meta events, aborted sessions,
    retry verdict, panic marker) provided `x` is not the session whose queue the action consults:
    * CALL consults the callee it picks — a callee of the matched registration, or of the stored invocation
      for a later chunk of a progressive call;
    * CANCEL (and a call timeout) consults the callee of the call's invocation — and nobody in mode skip;
    * YIELD consults the caller of the invocation's call (an unknown progressive YIELD: the yielding
      session itself), and on giving up cancels, consulting the callee, i.e. the yielding session;
    * session removal never interrupts (mode skip): it consults nobody. -/
theorem C07_stall_dealer_congruence {x : SessKey} {env env' : DEnv} (h : EnvEq x env env') (s : DState) :
    (∀ caller req opts proc args kw rnd, (∀ g ∈ s.d.regs, x ∉ g.callees) → (∀ v ∈ s.d.invs, v.callee ≠ x) →
      syncCall env' s caller req opts proc args kw rnd = syncCall env s caller req opts proc args kw rnd) ∧
    (∀ caller req mode reason errArgs, (mode = CancelModeSkip ∨ ∀ v ∈ s.d.invs, v.callee ≠ x) →
      syncCancel env' s caller req mode reason errArgs = syncCancel env s caller req mode reason errArgs) ∧
    (∀ callee req opts args kw progress canRetry, callee ≠ x → (∀ c ∈ s.d.calls, c.sess ≠ x) →
      (∀ v ∈ s.d.invs, v.callee ≠ x) →
      syncYield env' s callee req opts args kw progress canRetry =
        syncYield env s callee req opts args kw progress canRetry) ∧
    (∀ k, syncRemoveSession env' s k = syncRemoveSession env s k) :=
  ⟨fun caller req opts proc args kw rnd hr hi => syncCall_congr h s caller req opts proc args kw rnd hr hi,
   fun caller req mode reason errArgs hc => syncCancel_congr h s caller req mode reason errArgs hc,
   fun _ req opts args kw progress canRetry hk hc hi => syncYield_congr h s req opts args kw progress canRetry hk hc hi,
   fun k => syncRemoveSession_congr h s k⟩

/-- the environments of two realm states that agree off `x` agree off `x` -/
theorem C07_stall_env {x : SessKey} {r r' : Realm} (h : EqOff x r r') : EnvEq x r.denv r'.denv := h.denv

-- non-vacuity: the two concrete environments differ exactly in "is session 1's queue full?"
example : stallA.denv.full 1 = false ∧ stallB.denv.full 1 = true ∧ EnvEq 1 stallA.denv stallB.denv :=
  ⟨by decide +kernel, by decide +kernel, C07_stall_env stallAB⟩

/-- the realm invariant of a realm whose tables are empty, whoever is attached -/
theorem stall_rinv (cl : List Session) (qs : List (SessKey × List Msg)) :
    RealmInv ({ clients := cl, queues := qs } : Realm) := by
  refine ⟨BrokerInv.empty false false, DealerInv.init false false, ?_, ?_, ?_, ?_, ?_, ?_, rfl⟩
  · rintro k ⟨s, hs, _⟩; cases hs
  · rintro k (⟨id, g, hg, _⟩ | ⟨c, hc, _⟩ | ⟨v, hv, _⟩ | ⟨e, he, _⟩)
    · cases hg
    · cases hc
    · cases hv
    · cases he
  · intro c hc; cases hc
  · intro y hy; cases hy
  · intro t ht; cases ht
  · intro e he; cases he

theorem stall_idle (cl : List Session) (qs : List (SessKey × List Msg)) (x : SessKey) :
    Idle x ({ clients := cl, queues := qs } : Realm) := by
  refine ⟨?_, fun y hy => (nomatch hy), fun m hm => (nomatch hm)⟩
  rintro (⟨id, g, hg, _⟩ | ⟨c, hc, _⟩ | ⟨v, hv, _⟩ | ⟨e, he, _⟩)
  · cases hg
  · cases hc
  · cases hv
  · cases he

/-- RPC.  `Idle x r`: the dealer's tables do not mention `x` (callee of no registration, caller of no pending
    call, callee of no invocation, no entry in the callee index), x's handler is not in the yield retry
    loop, and none of x's own RPC messages waits as an `inMsg` task.  In such a state (satisfying the
    dealer invariant, as every reachable state does) EVERY message `m` of a session other than `x` — CALL,
    CANCEL, YIELD, ERROR, REGISTER, UNREGISTER as well as pub/sub, GOODBYE and protocol violations — leaves
    the two states equal off `x`, so every other session gets the same replies, invocations and events in
    the same order; and `x` still takes no part afterwards.  A stalled pure subscriber or idle session
    never affects anybody's RPC. -/
theorem C07_stall_isolation_rpc {x : SessKey} {r r' : Realm} (h : EqOff x r r') (hd : DealerInv r.ds)
    (hid : Idle x r) (s : Session) (hs : s.key ≠ x) (m : Msg) :
    EqOff x (handleMsg r s m) (handleMsg r' s m) ∧
    (∀ k, k ≠ x → (handleMsg r' s m).queueOf k = (handleMsg r s m).queueOf k) ∧
    Idle x (handleMsg r s m) ∧ Idle x (handleMsg r' s m) := by
  have e := eqoff_handleMsg h (SEq.refl s) m (Or.inr ⟨hs, hid.didle⟩)
  have i := idle_handleMsg hd hid s m (Or.inr hs)
  exact ⟨e, fun _ hk => e.queueOf hk, i, i.congr e⟩

-- non-vacuity: session 2 calls an unknown procedure in both states
example : EqOff 1 (handleMsg stallA stallA.clients[1] (.call 5 [] "p" [] []))
    (handleMsg stallB stallB.clients[1] (.call 5 [] "p" [] [])) :=
  (C07_stall_isolation_rpc stallAB (stall_rinv _ _).dinv (stall_idle _ _ 1) _ (by decide) _).1

/-- EVERY ATOMIC ACTION of the realm model, in two states that agree off `x`, the first satisfying the realm
    invariant, with `x ≠ metaKey` taking no part in any RPC:
    (1) an internal task — a publication of the meta session, a meta-procedure invocation (the meta procedures
        read the sessions only up to `stalled`, and no queue), the meta session's answer, a departure of ANY
        session (of `x` too: its GOODBYE/ABORT may be dropped, the tables are cleaned in the same way, the
        same `on_leave`/testament tasks are queued), a waiting message that is not an RPC message of `x`;
    (2) an external input that is not an RPC message of `x` (`OpFree x`): join, any message of the others,
        pub/sub or GOODBYE of `x`, drop, stall, resume, buffer, rnd;
    (3) a call timeout firing;  (4) a turn of the yield retry loop of a handler other than x's
    — the resulting states agree off `x`, and `x` still takes no part in any RPC. -/
theorem C07_stall_isolation_actions {x : SessKey} {r r' : Realm} (hx : x ≠ metaKey) (h : EqOff x r r')
    (hi : RealmInv r) (hid : Idle x r) :
    (∀ t, TaskFree x t → EqOff x (r.runTask t) (r'.runTask t) ∧ Idle x (r.runTask t)) ∧
    (∀ op, OpFree x op → EqOff x (r.stepOp op) (r'.stepOp op) ∧ Idle x (r.stepOp op)) ∧
    (∀ t, EqOff x (r.timerDue t) (r'.timerDue t) ∧ Idle x (r.timerDue t)) ∧
    (∀ y, y.callee ≠ x → EqOff x (r.retryDue y) (r'.retryDue y) ∧ Idle x (r.retryDue y)) ∧
    (∀ k mode, EqOff x (r.leave k mode) (r'.leave k mode) ∧ Idle x (r.leave k mode)) :=
  ⟨fun t ht => ⟨eqoff_runTask h hx hi.metaKey hid.didle t ht, idle_runTask hi.dinv hx hi.metaKey hid t ht⟩,
   fun op ho => ⟨eqoff_stepOp h hid.didle op ho, idle_stepOp hi.dinv hid op ho⟩,
   fun t => ⟨eqoff_timerDue h hid.didle t, idle_timerDue hi.dinv hid t⟩,
   fun y hy => ⟨eqoff_retryDue h hid.didle y hy, idle_retryDue hi.dinv hid y hy⟩,
   fun k mode => ⟨eqoff_leave h k mode, idle_leave hi.dinv hid k mode⟩⟩

-- non-vacuity: the hypotheses hold for the two concrete states (session 1 attached, tables empty)
example := C07_stall_isolation_actions (x := 1) (by decide) stallAB (stall_rinv _ _) (stall_idle _ _ 1)

/-- STALL ISOLATION, one step.  Let `r`, `r'` agree off `x ≠ metaKey`, `r` satisfy the realm invariant (every
    reachable state does) and `x` take no part in any RPC.  Let `op` be any external input other than an RPC
    message sent by `x` itself — `tick` included: all call timeouts and retry turns that fall due, each
    followed by the internal tasks it causes.  Run the step to quiescence and flush, on both sides.  Then
    * the successor states agree off `x`;
    * every client other than `x` reads exactly the same: the queues handed to the reading clients,
      restricted to keys ≠ x, are the same list (same clients, in the same order, each with the same messages
      in the same order) — nothing is missing, nothing is delayed to a later step, nothing is reordered;
      in particular (membership form) whatever one run shows to a client `k ≠ x` the other shows too;
    * the same peers (other than `x`) are seen closed, and the panic flag is the same;
    * the side conditions hold again for the successor states, so the theorem applies to the next step.
    However full x's queue is, and whether or not `x` reads, nobody else can tell. -/
theorem C07_stall_isolation {x : SessKey} {r r' : Realm} (hx : x ≠ metaKey) (h : EqOff x r r')
    (hi : RealmInv r) (hid : Idle x r) (op : Op) (hop : OpFree x op) :
    EqOff x (r.step op).2 (r'.step op).2 ∧
    (r'.step op).1.out.filter (fun q => q.1 != x) = (r.step op).1.out.filter (fun q => q.1 != x) ∧
    (∀ q, q.1 ≠ x → (q ∈ (r.step op).1.out ↔ q ∈ (r'.step op).1.out)) ∧
    (r'.step op).1.closed.filter (· != x) = (r.step op).1.closed.filter (· != x) ∧
    (r'.step op).1.panic = (r.step op).1.panic ∧
    RealmInv (r.step op).2 ∧ Idle x (r.step op).2 ∧ Idle x (r'.step op).2 := by
  obtain ⟨a, b, c, d, e, f⟩ := eqoff_step hx h hi hid op hop
  refine ⟨a, b, ?_, c, d, e, f, f.congr a⟩
  intro q hq
  have hq' : (q.1 != x) = true := by simpa using hq
  have m1 : q ∈ (r.step op).1.out ↔ q ∈ (r.step op).1.out.filter (fun q => q.1 != x) := by
    rw [List.mem_filter]; exact ⟨fun h => ⟨h, hq'⟩, fun h => h.1⟩
  have m2 : q ∈ (r'.step op).1.out ↔ q ∈ (r'.step op).1.out.filter (fun q => q.1 != x) := by
    rw [List.mem_filter]; exact ⟨fun h => ⟨h, hq'⟩, fun h => h.1⟩
  rw [m1, m2, b]

-- non-vacuity: session 2 publishes (acknowledged); it reads its PUBLISHED in both runs, although session 1
-- has stopped reading and its queue is full in one of them
example : ((stallB.step (.msg 2 (.publish 9 [(OptAcknowledge, .bool true)] "t" [] []))).1.out.filter (fun q => q.1 != 1)) =
    ((stallA.step (.msg 2 (.publish 9 [(OptAcknowledge, .bool true)] "t" [] []))).1.out.filter (fun q => q.1 != 1)) :=
  (C07_stall_isolation (x := 1) (by decide) stallAB (stall_rinv _ _) (stall_idle _ _ 1) (.msg 2 _)
    (show OpFree 1 (.msg 2 _) from fun e => absurd e (by decide))).2.1

example : ((stallA.step (.msg 2 (.publish 9 [(OptAcknowledge, .bool true)] "t" [] []))).1.out.map (fun q => (q.1, q.2.length))) = [(2, 1)] := by
  decide +kernel

/-- STALL ISOLATION, histories.  Two runs (`runOps`: the observations step by step and the final state) from
    states that agree off `x`, fed corresponding inputs (`OpRel x`): the same input in both runs — anything
    but an RPC message of `x` — or, in both runs, `x` switching between reading and not reading, not
    necessarily in the same direction (`stall x` in one run may face `resume x`, a no-op for a reading
    client, in the other).  Then at every step the two observations agree for everybody but `x` (`ObsEq x`:
    same queues read by the others, same closures seen by the others, same panic flag), and the final
    states agree off `x`.  I.e.: whether, when and for how long `x` stops reading is unobservable to every
    other client. -/
theorem C07_stall_isolation_history {x : SessKey} (hx : x ≠ metaKey) {ops ops' : List Op}
    (hops : Rel2 (OpRel x) ops ops') {r r' : Realm} (h : EqOff x r r') (hi : RealmInv r) (hid : Idle x r) :
    Rel2 (ObsEq x) (runOps r ops).1 (runOps r' ops').1 ∧ EqOff x (runOps r ops).2 (runOps r' ops').2 ∧
    RealmInv (runOps r ops).2 ∧ Idle x (runOps r ops).2 :=
  eqoff_runOps hx hops h hi hid

/-- … in particular from one and the same state: a run in which `x` stops reading before the first input,
    compared with the run in which it goes on reading (`resume x` on a reading client changes nothing) -/
theorem C07_stall_unobservable {x : SessKey} (hx : x ≠ metaKey) {r : Realm} (hi : RealmInv r) (hid : Idle x r)
    (ops : List Op) (hops : ∀ op ∈ ops, OpFree x op) :
    Rel2 (ObsEq x) (runOps r (.resume x :: ops)).1 (runOps r (.stall x :: ops)).1 := by
  have hrel : ∀ l : List Op, (∀ op ∈ l, OpFree x op) → Rel2 (OpRel x) l l := by
    intro l
    induction l with
    | nil => intro _; exact Rel2.nil
    | cons a l ih =>
      intro hl
      exact Rel2.cons (Or.inl ⟨rfl, hl a (List.mem_cons_self ..)⟩) (ih (fun op ho => hl op (List.mem_cons_of_mem _ ho)))
  exact (C07_stall_isolation_history hx (Rel2.cons (Or.inr ⟨Or.inr rfl, Or.inl rfl⟩) (hrel ops hops))
    (EqOff.refl r) hi hid).1

-- non-vacuity: a history in which session 1 publishes and session 2 calls, for the concrete state above
example : Rel2 (ObsEq 1)
    (runOps stallA [.resume 1, .msg 1 (.publish 3 [] "t" [] []), .msg 2 (.call 4 [] "p" [] []), .tick 5]).1
    (runOps stallA [.stall 1, .msg 1 (.publish 3 [] "t" [] []), .msg 2 (.call 4 [] "p" [] []), .tick 5]).1 :=
  C07_stall_unobservable (by decide) (stall_rinv _ _) (stall_idle _ _ 1) _ (by
    intro op ho
    simp only [List.mem_cons, List.mem_nil_iff, or_false] at ho
    rcases ho with rfl | rfl | rfl
    · intro _; rfl
    · intro e; cases e
    · trivial)

/-- WHERE THE SIDE CONDITIONS HOLD: in every state reached from `Realm.create cfg` by inputs none of which is
    an RPC message of `x` (`FreeReachable x cfg`; `x` may join, publish, subscribe, stop reading, be killed,
    leave, join again; everybody else may do anything) the realm invariant holds and `x` takes no part in
    any RPC — so `C07_stall_isolation` applies along the whole history of a pure pub/sub client. -/
theorem C07_stall_idle_reachable {x : SessKey} (hx : x ≠ metaKey) {cfg : Config} {r : Realm}
    (h : FreeReachable x cfg r) : Realm.Reachable cfg r ∧ RealmInv r ∧ Idle x r :=
  ⟨h.reachable, (h.idle hx).1, (h.idle hx).2⟩

example : ∃ r, FreeReachable 1 {} r := by
  cases h : Realm.create {} with
  | none => exact absurd h (by decide +kernel)
  | some r => exact ⟨r, FreeReachable.init h⟩

/-! ### the exceptions -/

/-- a reachable state in which session 1 (capacity 1) is the callee of procedure "p" and session 2 is attached -/
def excA : Realm :=
  (((((Realm.create {}).getD {}).step (.join 1 false [] [] 1)).2.step (.join 2 false [] [] 64)).2.step
    (.msg 1 (.register 3 [] "p"))).2

/-- the same state, except that session 1 has stopped reading and one message fills its queue -/
def excB : Realm := (excA.stepOp (.stall 1)).trySend ⟨1, .other 0⟩

theorem excA_reachable : Realm.Reachable {} excA := by
  cases h : Realm.create {} with
  | none => exact absurd h (by decide +kernel)
  | some r =>
    have : excA = (((r.step (.join 1 false [] [] 1)).2.step (.join 2 false [] [] 64)).2.step
        (.msg 1 (.register 3 [] "p"))).2 := by
      unfold excA; rw [h]; rfl
    rw [this]
    exact .step _ (.step _ (.step _ (.init h)))

set_option maxRecDepth 100000 in
theorem excAB : EqOff 1 excA excB := by
  have h1 : EqOff 1 excA (excA.stepOp (.stall 1)) := eqoff_stalled_self excA true
  have hc : ∃ c, (excA.stepOp (.stall 1)).client? 1 = some c := by
    cases h : (excA.stepOp (.stall 1)).client? 1 with
    | none => exact absurd h (by decide +kernel)
    | some c => exact ⟨c, rfl⟩
  obtain ⟨c, hc⟩ := hc
  exact h1.trans (eqoff_trySend_self _ _ (by decide) hc)

/-- THE SIDE CONDITION IS NEEDED (the exception in the property text is real).  `excA` is reachable (so it
    satisfies every invariant), `excB` agrees with it off session 1, whose queue is full in `excB`; session 1 is
    the callee of "p".  Session 2 calls "p": in `excA` the INVOCATION is queued for session 1 and session 2
    hears nothing yet; in `excB` session 2 gets ERROR wamp.error.network_failure in the same atomic action
    (`C02_unroutable_callee_full`).  The two states no longer agree off session 1. -/
theorem C07_stall_isolation_needs_idle :
    ∃ (r r' : Realm) (s : Session) (m : Msg), Realm.Reachable {} r ∧ EqOff 1 r r' ∧ s.key ≠ 1 ∧
      ¬ EqOff 1 (handleMsg r s m) (handleMsg r' s m) := by
  refine ⟨excA, excB, { key := 2, details := [], roles := [], isLocal := false }, .call 7 [] "p" [] [],
    excA_reachable, excAB, by decide, ?_⟩
  intro h
  have := congrArg List.length (h.queueOf (k := 2) (by decide))
  revert this
  set_option maxRecDepth 100000 in decide +kernel

/-- What happens INSTEAD when `x` is the callee (`C02_unroutable_callee_full`, `C02_later_chunk_callee_full` give the
    complete effect; `C13_kill_degrades` the analogue for INTERRUPT): the INVOCATION for a callee whose queue is
    full is, within the same atomic action — no delay for the caller — treated as answered with ERROR
    wamp.error.network_failure; nothing is queued for the callee. -/
theorem C07_stall_exception_callee {env : DEnv} (s : DState) (caller : SessKey) (req : Nat) {x : SessKey} (invReq : Nat)
    (v : Invk) (timeout : Nat) (m : Msg) (hf : env.full x = true) :
    Nexus.L2.dispatch env s caller req x invReq v timeout m =
      syncError s x invReq [] ErrNetworkFailure [.str "<text>"] [] := by
  unfold Nexus.L2.dispatch
  rw [if_pos hf]

/-- What happens INSTEAD when `x` is the caller: a YIELD (by the owner of the invocation, not misusing payload
    passthru) whose RESULT meets x's full queue changes nothing but stopping the call timer of a final result,
    sends nothing, and answers "again": the callee's handler enters the yield retry loop (`C13_retry_enter`,
    `C13_retry_turn`, `C13_retry_bound`: bounded by the result-retry period, then the call is cancelled) — the
    one bounded delay the property text allows, and it hits the callee that served `x`, nobody else. -/
theorem C07_stall_exception_caller {env : DEnv} {s : DState} {callee : SessKey} {req : Nat} {opts : Dict}
    (args : List WVal) (kw : Dict) (progress : Bool) (v : Invk)
    (h1 : yieldPptCalleeBad env callee opts = false) (h2 : yieldPptCallerBad env v.callId.sess opts = false)
    (hf : env.full v.callId.sess = true) :
    yieldOut env s callee req opts args kw progress true v = { st := yieldTimer s progress v, again := true } :=
  yieldOut_retry args kw progress v h1 h2 hf

-- non-vacuity: the caller (session 2) of the pending call of `Ex.sCall` has a full queue; callee 1 yields
example : (yieldOut Ex.envCallerFull Ex.sCall 1 1 [] [] [] false true Ex.vCall).again = true := by
  rw [C07_stall_exception_caller (env := Ex.envCallerFull) (s := Ex.sCall) (callee := 1) (req := 1) (opts := [])
    [] [] false Ex.vCall (by decide +kernel) (by decide +kernel) (by decide +kernel)]

-- non-vacuity of `C07_stall_exception_callee`: session 1's queue is full in `stallB`
example : stallB.denv.full 1 = true := by decide +kernel

end StallIsolation

end Nexus.C07
