/-
  C07 (realm-model half) — "A client that stops reading has at most its configured outbound queue of
  messages buffered for it and loses the rest; every other session's requests are still answered and
  its events and invocations delivered completely and in order […]"

  About the router→client queues of the realm model (Nexus/L2/Realm.lean: `trySend`, `deliver`, every
  handler, `leave`, `runTask`, `drain`, `stepOp`, `advance`, `flush`, `step`, `create`).  Vocabulary in
  Nexus/L2/Proofs/RealmQueue.lean: `QueueInv`, `JoinFresh`, `QReachable`, `queueOf`, `accept`, `msgsTo`,
  `client?`, `SendFrame`.  (The concurrency-skeleton half — non-blocking sends, no wait cycle — is
  Nexus/Props/C07.lean.)

  clause                                                              theorem
  ------------------------------------------------------------------  --------------------------------
  in every reachable state every attached client has at most `cap`
    messages buffered; every queue belongs to an attached client or
    to a closed peer / ghost awaiting flush; client keys distinct      C07_bounded_queue
  the invariant holds initially and is preserved by every function
    of the realm model                                                 C07_queue_inv_create, C07_queue_inv_preserved
  "the rest is lost", and ONLY the rest: a send that finds the queue
    full leaves the whole state unchanged; a send that finds room
    appends exactly that message to exactly that queue; dropping one
    message of a batch changes nothing for anybody else (frame)        C07_overflow_dropped_only
  "delivered completely and in order" to whoever has room: after a
    batch of sends each attached client's queue is its old queue
    offered the messages addressed to it in order; other queues are
    untouched                                                          C07_lossy_in_order

  INBOUND side, while a session's own handler sleeps in the yield retry
    loop (C07's bounded exception, `C13_retry_*`): what a socket-
    attached (`buffered`) session sends meanwhile is neither lost nor
    handled early — it waits in `inbox` (appended at the end; nothing
    else changes), stays there while the loop goes on, and when the
    loop ends becomes that session's `inMsg` tasks, all of them, in
    arrival order, ahead of its deferred departures; an `inMsg` task is
    handled exactly like the message arriving then                      C07_inbox_not_lost
  (in every reachable state the senders of waiting messages are
    attached, buffered sessions whose handler is still busy:            C05_live_refs_inbox,
    Nexus/Props/C05.lean — part of `RealmInv`)

  Explicit assumption (hypothesis `JoinFresh` of every `join`): a joining session key names no attached
  client and no leftover queue.  Session keys are the model's internal names for sessions (the
  implementation draws fresh random session ids); the harness never reuses one.  Without it the model
  itself violates the bound: see `C07_bound_needs_fresh_join`.
-/
import Nexus.L2.Proofs.RealmQueue
import Nexus.L2.Proofs.DealerRealmRpc

namespace Nexus.C07
open Nexus.L2 Nexus.L2.Realm Gen.N

/-- In every state reachable from `Realm.create cfg` by external inputs (each run to quiescence and
    flushed), with fresh joining keys:
    * every attached client has at most its configured capacity of messages buffered;
    * every queue belongs to an attached client, or to a peer closed in this step / a departed stalled
      session (ghost) whose closure the client has not observed yet;
    * attached clients have distinct keys, and ghosts are closed peers. -/
theorem C07_bounded_queue {cfg : Config} {r : Realm} (h : QReachable cfg r) :
    (∀ c ∈ r.clients, r.queueLen c.key ≤ c.cap) ∧
    (∀ q ∈ r.queues, (∃ c ∈ r.clients, c.key = q.1) ∨ q.1 ∈ r.closedPeers) ∧
    (r.clients.map (·.key)).Nodup ∧ (∀ k ∈ r.ghosts, k ∈ r.closedPeers) := by
  obtain ⟨h1, h2, h3, h4⟩ := h.qinv
  exact ⟨h2, h1, h3, h4⟩

theorem C07_queue_inv_create {cfg : Config} {r : Realm} (h : Realm.create cfg = some r) : QueueInv r :=
  qinv_create h

/-- non-vacuity of `JoinFresh`: in a freshly created realm every key may join -/
example {cfg : Config} {r : Realm} (h : Realm.create cfg = some r) (k : SessKey) : JoinFresh r k := by
  unfold Realm.create at h
  split at h
  · cases h
  · split at h
    · cases h
    · extract_lets b d at h
      cases h
      obtain ⟨f1, f2, _, _⟩ := bregisterMeta_fields (metaProcNames cfg) { cfg := cfg, broker := b, ds := { d := d } }
      unfold JoinFresh
      rw [f1, f2]
      exact ⟨fun c hc => (nomatch hc), fun q hq => (nomatch hq)⟩

example : (Realm.create {}).isSome = true := by decide +kernel

/-- `QueueInv` is preserved by every function of the realm model (for `stepOp`/`step`: a joining key
    must be fresh). -/
theorem C07_queue_inv_preserved {r : Realm} (h : QueueInv r) :
    (∀ s, QueueInv (r.trySend s)) ∧
    (∀ ss, QueueInv (r.deliver ss)) ∧
    (∀ o, QueueInv (r.applyD o)) ∧
    (∀ p, QueueInv (r.setPanic p)) ∧
    (∀ s req opts topic args kw, QueueInv (handlePublish r s req opts topic args kw)) ∧
    (∀ s req opts topic, QueueInv (handleSubscribe r s req opts topic)) ∧
    (∀ s req sub, QueueInv (handleUnsubscribe r s req sub)) ∧
    (∀ s req opts proc, QueueInv (handleRegister r s req opts proc)) ∧
    (∀ s req reg, QueueInv (handleUnregister r s req reg)) ∧
    (∀ s req opts proc args kw, QueueInv (handleCall r s req opts proc args kw)) ∧
    (∀ s req opts, QueueInv (handleCancel r s req opts)) ∧
    (∀ s req opts args kw, QueueInv (handleYield r s req opts args kw)) ∧
    (∀ s req details err args kw, QueueInv (handleError r s req details err args kw)) ∧
    (∀ s m, QueueInv (handleMsg r s m)) ∧
    (∀ k mode, QueueInv (r.leave k mode)) ∧
    (∀ t, QueueInv (r.runTask t)) ∧
    (∀ fuel, QueueInv (drain fuel r)) ∧
    (∀ op, (∀ k l d ro c, op = .join k l d ro c → JoinFresh r k) → QueueInv (r.stepOp op)) ∧
    (∀ x, QueueInv (r.retryDue x)) ∧
    (∀ t, QueueInv (r.timerDue t)) ∧
    (∀ fuel target, QueueInv (advance fuel r target)) ∧
    QueueInv r.flush.2 ∧
    (∀ op, (∀ k l d ro c, op = .join k l d ro c → JoinFresh r k) → QueueInv (r.step op).2) :=
  ⟨qinv_trySend h, fun ss => qinv_deliver ss h, qinv_applyD h, qinv_setPanic h,
   fun s req opts topic args kw => qinv_handlePublish h s req opts topic args kw,
   fun s req opts topic => qinv_handleSubscribe h s req opts topic,
   fun s req sub => qinv_handleUnsubscribe h s req sub,
   fun s req opts proc => qinv_handleRegister h s req opts proc,
   fun _ _ _ => qinv_applyD h _, fun _ _ _ _ _ _ => qinv_applyD h _,
   fun s req opts => qinv_handleCancel h s req opts,
   fun s req opts args kw => qinv_handleYield h s req opts args kw,
   fun _ _ _ _ _ _ => qinv_applyD h _,
   fun s m => qinv_handleMsg h s m, fun k mode => qinv_leave h k mode, fun t => qinv_runTask h t,
   fun fuel => qinv_drain fuel h, fun op hj => qinv_stepOp h op hj, fun x => qinv_retryDue h x,
   fun t => qinv_timerDue h t, fun fuel target => qinv_advance fuel target h, qinv_flush h,
   fun op hj => qinv_step h op hj⟩

/-- "… and loses the rest" — and nothing but the rest.  For a send to an attached (non-meta) client `c`:
    (1) if its queue is full the send changes NOTHING: the whole realm state is as before;
    (2) if there is room, exactly that message is appended to exactly that queue: every other queue,
        every table (`SendFrame`: broker, dealer, clients, …), the tasks and the panic flag are unchanged;
    (3) frame for a batch: a message dropped because the recipient's queue is full at that moment has
        no effect on the outcome of the whole batch — every other message ends up exactly where it
        would have without it, and all tables are the same. -/
theorem C07_overflow_dropped_only (r : Realm) (s : Send) {c : Session} (hne : s.to ≠ metaKey)
    (hc : r.client? s.to = some c) :
    (c.cap ≤ r.queueLen s.to → r.trySend s = r) ∧
    (r.queueLen s.to < c.cap →
      (r.trySend s).queueOf s.to = r.queueOf s.to ++ [s.msg] ∧
      (∀ k, k ≠ s.to → (r.trySend s).queueOf k = r.queueOf k) ∧
      SendFrame r (r.trySend s) ∧ (r.trySend s).tasks = r.tasks ∧ (r.trySend s).panic = r.panic) ∧
    (∀ pre post, c.cap ≤ (r.deliver pre).queueLen s.to →
      r.deliver (pre ++ s :: post) = r.deliver (pre ++ post)) := by
  obtain ⟨h1, h2⟩ := trySend_client_effect r s hne hc
  exact ⟨h1, h2, fun pre post hfull => deliver_drop r pre post s hne hc hfull⟩

/-- Whoever has room gets everything, in order: after a batch of sends the queue of an attached client
    `k` is its old queue offered the messages addressed to `k` in order (`accept`: each appended if there
    is room at that moment, lost otherwise — so with enough room it is `old ++ msgsTo k ss`, unaffected by
    how full anybody else's queue is); the queues of departed sessions are untouched; no table changes. -/
theorem C07_lossy_in_order (r : Realm) (ss : List Send) :
    (∀ k c, k ≠ metaKey → r.client? k = some c →
      (r.deliver ss).queueOf k = accept c.cap (r.queueOf k) (msgsTo k ss) ∧
      ((r.queueOf k).length + (msgsTo k ss).length ≤ c.cap →
        (r.deliver ss).queueOf k = r.queueOf k ++ msgsTo k ss)) ∧
    (∀ k, (k = metaKey ∨ r.client? k = none) → (r.deliver ss).queueOf k = r.queueOf k) ∧
    SendFrame r (r.deliver ss) := by
  refine ⟨?_, fun k hk => queueOf_deliver_other ss r k hk, deliver_frame ss r⟩
  intro k c hk hc
  refine ⟨queueOf_deliver_client ss r k c hk hc, ?_⟩
  intro hroom
  rw [queueOf_deliver_client ss r k c hk hc]
  generalize r.queueOf k = q at hroom
  generalize msgsTo k ss = ms at hroom
  induction ms generalizing q with
  | nil => simp [accept_nil]
  | cons m ms ih =>
    simp only [List.length_cons] at hroom
    rw [accept_cons, if_pos (by omega), ih (q ++ [m]) (by simp; omega)]
    simp

/-! ## The inbound side: messages sent while the session's handler is in the yield retry loop -/

/-- NOT LOST, NOT HANDLED EARLY.  `inboxOf r k`: the messages of `k` waiting in the transport, oldest first.
    (1) A message from an attached, not ending, `buffered` session whose handler is busy changes nothing
        but `inbox`: it is appended at the END (behind everything that already waits); the waiting
        messages of every other session are as before.
    (2) A turn of the loop after which the loop goes on (`again = true`) leaves `inbox` (and the deferred
        departures) untouched; the callee stays busy.
    (3) The turn that ends the loop (`again = false`): after the tasks the turn itself queued
        (`retryTasks`), the task list gets EXACTLY the callee's waiting messages as `inMsg` tasks, in
        arrival order, followed by its deferred departures; afterwards `inbox` holds nothing of the
        callee, the other sessions' waiting messages are unchanged, and the callee is no longer busy.
    (4) Running an `inMsg k m` task is, in whatever state it runs, exactly what the arrival of `m` from
        `k` in that state does (`recvMsg`) — in particular it waits again if the handler is busy again. -/
theorem C07_inbox_not_lost (r : Realm) :
    (∀ k s m, r.busy k = true → r.clients.find? (fun c => c.key == k) = some s → s.buffered = true →
      r.ending.contains k = false →
      r.stepOp (.msg k m) = { r with inbox := r.inbox ++ [(k, m)] } ∧
      inboxOf (r.stepOp (.msg k m)) k = inboxOf r k ++ [m] ∧
      (∀ k', k' ≠ k → inboxOf (r.stepOp (.msg k m)) k' = inboxOf r k')) ∧
    (∀ x, (retryOut r x).again = true →
      (r.retryDue x).inbox = r.inbox ∧ (r.retryDue x).deferred = r.deferred ∧
      (r.retryDue x).tasks = r.tasks ++ retryTasks r x ∧ (r.retryDue x).busy x.callee = true) ∧
    (∀ x, (retryOut r x).again = false →
      (r.retryDue x).tasks =
        r.tasks ++ retryTasks r x ++ (inboxOf r x.callee).map (Task.inMsg x.callee) ++
          ((r.deferred.filter (fun d => d.1 == x.callee)).map (·.2)).map (Task.leave x.callee) ∧
      (r.retryDue x).inbox = r.inbox.filter (fun d => d.1 != x.callee) ∧
      (∀ e ∈ (r.retryDue x).inbox, e.1 ≠ x.callee) ∧
      inboxOf (r.retryDue x) x.callee = [] ∧
      (∀ k, k ≠ x.callee → inboxOf (r.retryDue x) k = inboxOf r k) ∧
      (r.retryDue x).busy x.callee = false) ∧
    (∀ k m, r.runTask (.inMsg k m) = r.stepOp (.msg k m)) := by
  refine ⟨?_, ?_, ?_, fun _ _ => rfl⟩
  · intro k s m hb hf hbuf he
    have e : r.stepOp (.msg k m) = { r with inbox := r.inbox ++ [(k, m)] } := by
      rw [stepOp_msg]; exact recvMsg_buffered m hb hf hbuf he
    refine ⟨e, ?_, ?_⟩
    · rw [e, inboxOf_append, if_pos rfl]
    · intro k' hk'
      rw [e, inboxOf_append, if_neg hk']
  · intro x ha
    obtain ⟨h1, h2, h3⟩ := retryDue_holds r x ha
    refine ⟨h2, h3, h1, ?_⟩
    unfold Realm.busy
    rw [retryDue_retries, if_pos ha]
    simp
  · intro x ha
    obtain ⟨h1, h2, _, h4, h5⟩ := retryDue_release r x ha
    refine ⟨h1, h2, ?_, h4, h5, ?_⟩
    · intro e he
      rw [h2] at he
      simpa using (List.mem_filter.mp he).2
    unfold Realm.busy
    rw [retryDue_retries, if_neg (by simp [ha])]
    exact not_busy_filter _ _

-- non-vacuity of (1): session 1 is attached through a socket and its handler is in the retry loop
example : let r0 : Realm :=
      { clients := [{ key := 1, details := [], roles := [], isLocal := false, buffered := true }],
        retries := [{ callee := 1, req := 5, opts := [], args := [], kw := [], progress := false, start := 0, next := 1, delay := 1 }] }
    (r0.stepOp (.msg 1 (.unregister 9 3))).inbox = [(1, .unregister 9 3)] ∧
    inboxOf (r0.stepOp (.msg 1 (.unregister 9 3))) 1 = [.unregister 9 3] := by
  intro r0
  have h := (C07_inbox_not_lost r0).1 1 _ (.unregister 9 3) (by decide) rfl rfl (by decide)
  exact ⟨by rw [h.1]; rfl, by rw [h.2.1]; rfl⟩

/-- Why `JoinFresh` is needed: in the model a departed stalled session leaves its queue behind until it
    "resumes"; re-using its key for a new session with a smaller capacity would start that session
    with more buffered messages than its capacity.  (Keys are never reused by the harness: a model
    artifact, not a router behaviour.) -/
theorem C07_bound_needs_fresh_join :
    ∃ r : Realm, QueueInv r ∧ ¬ QueueInv (r.stepOp (.join 7 false [] [] 0)) := by
  refine ⟨{ queues := [(7, [.other 0])], closedPeers := [7], ghosts := [7] }, ?_, ?_⟩
  · refine ⟨?_, fun c hc => (nomatch hc), List.nodup_nil, ?_⟩
    · intro q hq; right; simp at hq; subst hq; simp
    · intro k hk; simpa using hk
  · intro h
    have := h.2.1 { key := 7, details := [], roles := [], isLocal := false, cap := 0 } (by
      rw [stepOp_join]; simp [Realm.addTasks])
    revert this
    decide

end Nexus.C07
