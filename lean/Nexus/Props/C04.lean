/-
  C04 — No client input or timing can crash or wedge the router  (the L2 part: no panic, isolation).

  Property text (L2 clauses).  "Whatever a client sends — any message type in any session state,
  any value in any option, detail or argument position — and whenever sessions join, drop, stall
  or time passes, the router does not panic; a session that misbehaves is ended (ABORT / GOODBYE)
  without affecting the other sessions beyond the documented effects of its departure."

  In the realm model (`Nexus.L2.Realm`) every Go code path able to panic is an explicit `panic`
  marker in the state: `trySend` to a session whose peer is closed ("send on closed channel"), and
  the dealer's panics (`syncCall`: several callees under the single policy / an
  `invocationByCall` entry without invocation; `syncRemoveSession`: callee index naming a
  nonexistent registration).  Two further markers are artefacts of the MODEL, not Go panics: the
  fuel of `drain` ("model: task fuel exhausted", 100000 internal tasks per input) and of `advance`
  ("model: timed-event fuel exhausted", 10000 timed events per tick).

  clause                                                          theorem
  --------------------------------------------------------------  ------------------------------
  in every state reachable from `Realm.create cfg` by ANY          C04_no_panic_partial
  history of inputs the panic flag is `none` or a fuel marker:
  no Go-panic branch of the model is ever taken
  … the same for one input from ANY state satisfying the          C04_no_panic_step
  invariant (observed flag and stored flag)
  … per atomic action: every external input, every internal       C04_no_panic_atomic
  task, every timed event leaves the flag exactly as it was
  full strength (flag always `none`)                               C04_no_panic_full  (def, open)
  a message that is a protocol violation only schedules the        C04_violation_only_ends_sender
  sender's departure: no table, no queue, no other session
  is touched
  the departure of x (every mode): every other session stays       C04_isolation
  attached, keeps exactly its subscriptions and registrations,
  and its queue is only appended to (ERRORs for calls x served,
  meta events, testament events — the documented effects);
  invariant kept, no panic

  WHY `_partial`.  `C04_no_panic_full` would say that the fuel markers never fire either.  That is
  a statement about the size of the task cascade of one input (a `kill_all` of n sessions queues n
  departures, each queuing its registrations' meta events, testaments and `on_leave`): finite for
  every state — tasks spawn tasks only along leave → metaPub → (abort of the meta session: no-op) and
  metaInvoke → metaMsg → leave — but not bounded by a constant, so with more than ~10^5 attached
  sessions the marker is reachable in principle.  It is a resource bound of the executable model
  (the correspondence harness reports a fuel marker as a harness failure, never as a router
  panic), not a behaviour of the router; no termination bound is proved here.  What IS proved
  unconditionally is that the flag never holds anything else — in particular never the
  "send to session … whose peer is closed" marker and never a dealer panic, which are the sites a
  client could hope to reach.

  The dealer part rests on the sibling's `DealerInv` / `syncX_panic` / `syncCall_no_panic`
  lemmas (`handleRegister` lets only `knownPolicies` through, `registerMeta` passes ""); the
  closed-peer part on LIVE REFERENCES of `RealmInv` (every send target is an attached session or
  the meta session).
-/
import Nexus.L2.Proofs.RealmIsolation

namespace Nexus.C04
open Nexus.L2 Nexus.L2.Realm Nexus.Gen.N

/-! ## No panic -/

/-- Every atomic action leaves the panic flag exactly as it was (under the invariant, which every
    one of them preserves): external inputs, internal tasks (any pending one), call timeouts, yield
    retries, session departures in every mode. -/
theorem C04_no_panic_atomic (r : Realm) (hi : RealmInv r) :
    (∀ op, (r.stepOp op).panic = r.panic) ∧
    (∀ t, TaskOk t → (r.runTask t).panic = r.panic) ∧
    (∀ t, (r.timerDue t).panic = r.panic) ∧
    (∀ x ∈ r.retries, (r.retryDue x).panic = r.panic) ∧
    (∀ k mode, r.busy k = false → (r.leave k mode).panic = r.panic) :=
  ⟨fun op => (stepOp_inv hi op).2, fun t ht => (runTask_inv hi t ht).2, fun t => (timerDue_rinv hi t).2,
   fun x hx => (retryDue_rinv hi x (hi.retr x hx)).2,
   fun k mode hb => (leave_inv hi k mode (not_busy (by rw [hb]; simp))).2.1⟩

/-- One input run to quiescence, from any state satisfying the invariant whose flag is clean: the
    flag observed by the harness and the flag stored are `none` or a fuel marker of the model. -/
theorem C04_no_panic_step (r : Realm) (hi : RealmInv r) (hp : FuelOnly r.panic) (op : Op) :
    FuelOnly (r.step op).1.panic ∧ FuelOnly (r.step op).2.panic ∧ RealmInv (r.step op).2 :=
  ⟨(step_inv hi hp op).2.2, (step_inv hi hp op).2.1, (step_inv hi hp op).1⟩

/-- For every configuration, every history of inputs (any message type in any session state, any
    `WVal` anywhere, joins, drops, stalls, resumes, ticks): the panic flag of the reached state, and
    the flag observed after any further input, is `none` or one of the two fuel markers of the
    model — never a Go-panic site. -/
theorem C04_no_panic_partial (cfg : Config) (r : Realm) (h : Realm.Reachable cfg r) :
    FuelOnly r.panic ∧ ∀ op, FuelOnly (r.step op).1.panic :=
  ⟨h.inv.2, fun op => (step_inv h.inv.1 h.inv.2 op).2.2⟩

/-- what `FuelOnly` excludes: the closed-peer marker and the dealer panics -/
example : ¬ FuelOnly (some "send to session 7 whose peer is closed") ∧
    ¬ FuelOnly (some "syncCall: multiple callees registered with single policy") ∧
    ¬ FuelOnly (some "syncCall: invocationByCall entry without invocation (nil dereference)") ∧
    ¬ FuelOnly (some "syncRemoveSession: callee had ID of nonexistent registration") := by
  refine ⟨?_, ?_, ?_, ?_⟩ <;> (rintro (h | h | h) <;> revert h <;> decide)

/-- Full strength: the flag is always `none`.  Open (needs a bound on the task cascade of one
    input in terms of the fuel constants; see the file header). -/
def C04_no_panic_full : Prop :=
  ∀ (cfg : Config) (r : Realm), Realm.Reachable cfg r → r.panic = none

/-! ## Isolation -/

/-- A message that is a protocol violation — a message type the router does not expect from a
    client (HELLO, WELCOME, ABORT, PUBLISHED, SUBSCRIBED, UNSUBSCRIBED, EVENT, RESULT, REGISTERED,
    UNREGISTERED, INVOCATION, INTERRUPT, unknown types) or an ERROR that does not answer an
    INVOCATION — does nothing but schedule the departure of its sender: broker, dealer, clients,
    queues, testaments are returned unchanged; one `leave (violation)` task is appended and the
    sender is marked as ending. -/
theorem C04_violation_only_ends_sender (r : Realm) (s : Session) (m : Msg)
    (hm : (∃ t, m = .other t) ∨ (∃ a b, m = .hello a b) ∨ (∃ a b, m = .welcome a b) ∨ (∃ a b, m = .abort a b) ∨
          (∃ a b, m = .published a b) ∨ (∃ a b, m = .subscribed a b) ∨ (∃ a, m = .unsubscribed a) ∨
          (∃ a b c d e, m = .event a b c d e) ∨ (∃ a b c d, m = .result a b c d) ∨ (∃ a b, m = .registered a b) ∨
          (∃ a, m = .unregistered a) ∨ (∃ a b c d e, m = .invocation a b c d e) ∨ (∃ a b, m = .interrupt a b) ∨
          (∃ typ a b c d e, m = .error typ a b c d e ∧ typ ≠ tINVOCATION)) :
    ∃ text, dispatch r s m =
      { r with tasks := r.tasks ++ [.leave s.key (.violation text)], ending := r.ending ++ [s.key] } := by
  rcases hm with ⟨t, rfl⟩ | ⟨a, b, rfl⟩ | ⟨a, b, rfl⟩ | ⟨a, b, rfl⟩ | ⟨a, b, rfl⟩ | ⟨a, b, rfl⟩ | ⟨a, rfl⟩ |
    ⟨a, b, c, d, e, rfl⟩ | ⟨a, b, c, d, rfl⟩ | ⟨a, b, rfl⟩ | ⟨a, rfl⟩ | ⟨a, b, c, d, e, rfl⟩ | ⟨a, b, rfl⟩ |
    ⟨typ, a, b, c, d, e, rfl, hne⟩
  all_goals first
    | exact ⟨"unexpected message", rfl⟩
    | (refine ⟨"invalid ERROR", ?_⟩
       show (if typ != tINVOCATION then _ else _) = _
       rw [if_pos (by simpa using hne)])

/-- The departure of an attached session `x`, in every mode (lost transport / GOODBYE, kill, abort,
    protocol violation, shutdown), as seen by every OTHER session `k`:
    `k` stays attached; `k` is a member of exactly the subscriptions it was a member of; `k` is a
    callee of exactly the registrations it was a callee of; the queue of every session is the old
    queue with messages appended (nothing lost, nothing reordered, nothing removed); the invariant
    holds and nothing panics. -/
theorem C04_isolation (r : Realm) (hi : RealmInv r) (x : SessKey) (mode : LeaveMode)
    (hx : r.isClient x) (hnb : r.busy x = false) :
    let r' := r.leave x mode
    (∀ k, k ≠ x → (r'.isClient k ↔ r.isClient k)) ∧
    (∀ k id, k ≠ x → (r'.broker.isMember k id ↔ r.broker.isMember k id)) ∧
    (∀ k id, k ≠ x → (calleeRel r'.ds.d.regs id k ↔ calleeRel r.ds.d.regs id k)) ∧
    (∀ k, ∃ extra, queueOfList r'.queues k = queueOfList r.queues k ++ extra) ∧
    RealmInv r' ∧ r'.panic = r.panic := by
  intro r'
  have hnb' : ∀ y ∈ r.retries, y.callee ≠ x := not_busy (by rw [hnb]; simp)
  obtain ⟨h1, h2, _, _⟩ := leave_inv hi x mode hnb'
  obtain ⟨c, hc, hcx⟩ := hx
  cases hf : r.clients.find? (fun c => c.key == x) with
  | none =>
    have := List.find?_eq_none.mp hf c hc
    simp [hcx] at this
  | some s =>
    obtain ⟨⟨p, hb⟩, ⟨env, hd⟩⟩ := leave_tables mode hf
    refine ⟨?_, ?_, ?_, qgrow_leave r x mode, h1, h2⟩
    · intro k hk
      have := leave_isClient hi x mode ⟨c, hc, hcx⟩ hnb' k
      exact ⟨fun h => (this.mp h).1, fun h => this.mpr ⟨h, hk⟩⟩
    · intro k id hk
      show (r.leave x mode).broker.isMember k id ↔ _
      rw [hb, syncRemoveSession_isMember hi.binv]
      exact ⟨fun h => h.1, fun h => ⟨h, hk⟩⟩
    · intro k id hk
      show calleeRel (r.leave x mode).ds.d.regs id k ↔ _
      rw [hd, (syncRemoveSession_frame (env := env) hi.dinv x).2.2 id k]
      exact ⟨fun h => h.1, fun h => ⟨h, hk⟩⟩

end Nexus.C04
