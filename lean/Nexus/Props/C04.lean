/-
  C04 — No client input or timing can crash or wedge the router  (the L2 part: no panic, isolation).

  Property text (L2 clauses).  "Whatever a client sends — any message type in any session state,
  any value in any option, detail or argument position — and whenever sessions join, drop, stall
  or time passes, the router does not panic; a session that misbehaves is ended (ABORT / GOODBYE)
  without affecting the other sessions beyond the documented effects of its departure."

  In the realm model (`Nexus.L2.Realm`) every Go code path able to panic is an explicit `panic`
  marker in the state: `trySend` to a session whose peer is closed ("send on closed channel"), and
  the dealer's panics (`syncCall`: several callees under the single policy / an
  `invocationByCall` entry without invocation; `syncRemoveSession`: callee index naming a
  nonexistent registration).  Two further markers are artefacts of the MODEL, not Go panics: the
  fuel of `drain` ("model: task fuel exhausted", 100000 internal tasks per input) and of `advance`
  ("model: timed-event fuel exhausted", 10000 timed events per tick).

  clause                                                          theorem
  --------------------------------------------------------------  ------------------------------
  in every state reachable from `Realm.create cfg` by ANY          C04_no_panic_partial
  history of inputs the panic flag is `none` or a fuel marker:
  no Go-panic branch of the model is ever taken
  … the same for one input from ANY state satisfying the          C04_no_panic_step
  invariant (observed flag and stored flag)
  … per atomic action: every external input, every internal       C04_no_panic_atomic
  task, every timed event leaves the flag exactly as it was
  full strength (flag always `none`)                               C04_no_panic_full  (def, open)
  a message that is a protocol violation only schedules the        C04_violation_only_ends_sender
  sender's departure: no table, no queue, no other session
  is touched
  the departure of x (every mode): every other session stays       C04_isolation
  attached, keeps exactly its subscriptions and registrations,
  and its queue is only appended to (ERRORs for calls x served,
  meta events, testament events — the documented effects);
  invariant kept, no panic
  [WP-C] … no panic independent of an earlier fuel marker: from     C04_no_panic_clean,
  any state satisfying the invariant WITH THE FLAG RESET every      C04_no_panic_clean_reachable
  atomic action leaves it `none`, a step at most a fuel marker
  [WP-C] who can be ended: the dealer aborts only the session       C04_aborts_only_sender,
  whose message it handles, the broker only the publisher (one      C04_publish_ends_only_sender,
  exact case), a message handler only the sender                    C04_message_ends_only_sender
  [WP-C] NOTHING EVER ENDS THE META SESSION (the theorem that       C04_meta_never_ends,
  was false before the fix of audit-C §0): in EVERY reachable       C04_meta_safe_preserved,
  state (`Realm.Reachable`, any history of inputs) it is not in     C04_meta_never_ends_full (def),
  `ending`, no departure of it is pending or deferred, its          C04_meta_never_ends_full_holds,
  pending answers / retries cannot take an abort branch             C04_meta_never_ends_restricted
  (`MetaSafe`); kept by every atomic action.  (`join`/`drop`
  under the meta session's key are no-ops of the model.)
  [WP-C] what every reachable realm satisfies about session keys    C04_reachable_keys
  (Nexus/L2/Proofs/RealmKeys.lean)
  [WP-C] a protocol violation AS AN INPUT (`stepOp (.msg k m)`,     C04_violation_input
  through the busy/ending gate and the authorization gate): only
  the sender's departure is queued; refused by an Authorizer ⇒ the
  session is NOT ended
  [WP-C] isolation over the WHOLE STEP of the input that ends x     C04_isolation_step,
  (departure + meta events + testaments, run to quiescence):        C04_isolation_step_reachable
  others' attachment, subscriptions, registrations, testaments
  and calls not served by x are exactly as before

  WHY `_partial`.  `C04_no_panic_full` would say that the fuel markers never fire either.  That is
  a statement about the size of the task cascade of one input (a `kill_all` of n sessions queues n
  departures, each queuing its registrations' meta events, testaments and `on_leave`): finite for
  every state — tasks spawn tasks only along leave → metaPub → (abort of the meta session: no-op) and
  metaInvoke → metaMsg → leave — but not bounded by a constant, so with more than ~10^5 attached
  sessions the marker is reachable in principle.  It is a resource bound of the executable model
  (the correspondence harness reports a fuel marker as a harness failure, never as a router
  panic), not a behaviour of the router; no termination bound is proved here.  What IS proved
  unconditionally is that the flag never holds anything else — in particular never the
  "send to session … whose peer is closed" marker and never a dealer panic, which are the sites a
  client could hope to reach.

  The dealer part rests on the sibling's `DealerInv` / `syncX_panic` / `syncCall_no_panic`
  lemmas (`handleRegister` lets only `knownPolicies` through, `registerMeta` passes ""); the
  closed-peer part on LIVE REFERENCES of `RealmInv` (every send target is an attached session or
  the meta session).
-/
import Nexus.L2.Proofs.RealmIsolation
import Nexus.L2.Proofs.WpCIso
import Nexus.L2.Proofs.RealmKeys

namespace Nexus.C04
open Nexus.L2 Nexus.L2.Realm Nexus.Gen.N Nexus.L2.WpC

/-! ## No panic -/

/-- Every atomic action leaves the panic flag exactly as it was (under the invariant, which every
    one of them preserves): external inputs, internal tasks (any pending one), call timeouts, yield
    retries, session departures in every mode. -/
theorem C04_no_panic_atomic (r : Realm) (hi : RealmInv r) :
    (∀ op, (r.stepOp op).panic = r.panic) ∧
    (∀ t, TaskOk t → (r.runTask t).panic = r.panic) ∧
    (∀ t, (r.timerDue t).panic = r.panic) ∧
    (∀ x ∈ r.retries, (r.retryDue x).panic = r.panic) ∧
    (∀ k mode, r.busy k = false → (r.leave k mode).panic = r.panic) :=
  ⟨fun op => (stepOp_inv hi op).2, fun t ht => (runTask_inv hi t ht).2, fun t => (timerDue_rinv hi t).2,
   fun x hx => (retryDue_rinv hi x (hi.retr x hx)).2,
   fun k mode hb => (leave_inv hi k mode (not_busy (by rw [hb]; simp))).2.1⟩

/-- One input run to quiescence, from any state satisfying the invariant whose flag is clean: the
    flag observed by the harness and the flag stored are `none` or a fuel marker of the model. -/
theorem C04_no_panic_step (r : Realm) (hi : RealmInv r) (hp : FuelOnly r.panic) (op : Op) :
    FuelOnly (r.step op).1.panic ∧ FuelOnly (r.step op).2.panic ∧ RealmInv (r.step op).2 :=
  ⟨(step_inv hi hp op).2.2, (step_inv hi hp op).2.1, (step_inv hi hp op).1⟩

/-- For every configuration, every history of inputs (any message type in any session state, any
    `WVal` anywhere, joins, drops, stalls, resumes, ticks): the panic flag of the reached state, and
    the flag observed after any further input, is `none` or one of the two fuel markers of the
    model — never a Go-panic site. -/
theorem C04_no_panic_partial (cfg : Config) (r : Realm) (h : Realm.Reachable cfg r) :
    FuelOnly r.panic ∧ ∀ op, FuelOnly (r.step op).1.panic :=
  ⟨h.inv.2, fun op => (step_inv h.inv.1 h.inv.2 op).2.2⟩

/-- what `FuelOnly` excludes: the closed-peer marker and the dealer panics -/
example : ¬ FuelOnly (some "send to session 7 whose peer is closed") ∧
    ¬ FuelOnly (some "syncCall: multiple callees registered with single policy") ∧
    ¬ FuelOnly (some "syncCall: invocationByCall entry without invocation (nil dereference)") ∧
    ¬ FuelOnly (some "syncRemoveSession: callee had ID of nonexistent registration") := by
  refine ⟨?_, ?_, ?_, ?_⟩ <;> (rintro (h | h | h) <;> revert h <;> decide)

/-- Full strength: the flag is always `none`.  Open (needs a bound on the task cascade of one
    input in terms of the fuel constants; see the file header). -/
def C04_no_panic_full : Prop :=
  ∀ (cfg : Config) (r : Realm), Realm.Reachable cfg r → r.panic = none

/-! ## Isolation -/

/-- A message that is a protocol violation — a message type the router does not expect from a
    client (HELLO, WELCOME, ABORT, PUBLISHED, SUBSCRIBED, UNSUBSCRIBED, EVENT, RESULT, REGISTERED,
    UNREGISTERED, INVOCATION, INTERRUPT, unknown types) or an ERROR that does not answer an
    INVOCATION — does nothing but schedule the departure of its sender: broker, dealer, clients,
    queues, testaments are returned unchanged; one `leave (violation)` task is appended and the
    sender is marked as ending. -/
theorem C04_violation_only_ends_sender (r : Realm) (s : Session) (m : Msg)
    (hm : (∃ t, m = .other t) ∨ (∃ a b, m = .hello a b) ∨ (∃ a b, m = .welcome a b) ∨ (∃ a b, m = .abort a b) ∨
          (∃ a b, m = .published a b) ∨ (∃ a b, m = .subscribed a b) ∨ (∃ a, m = .unsubscribed a) ∨
          (∃ a b c d e, m = .event a b c d e) ∨ (∃ a b c d, m = .result a b c d) ∨ (∃ a b, m = .registered a b) ∨
          (∃ a, m = .unregistered a) ∨ (∃ a b c d e, m = .invocation a b c d e) ∨ (∃ a b, m = .interrupt a b) ∨
          (∃ typ a b c d e, m = .error typ a b c d e ∧ typ ≠ tINVOCATION)) :
    ∃ text, dispatch r s m =
      { r with tasks := r.tasks ++ [.leave s.key (.violation text)], ending := r.ending ++ [s.key] } := by
  rcases hm with ⟨t, rfl⟩ | ⟨a, b, rfl⟩ | ⟨a, b, rfl⟩ | ⟨a, b, rfl⟩ | ⟨a, b, rfl⟩ | ⟨a, b, rfl⟩ | ⟨a, rfl⟩ |
    ⟨a, b, c, d, e, rfl⟩ | ⟨a, b, c, d, rfl⟩ | ⟨a, b, rfl⟩ | ⟨a, rfl⟩ | ⟨a, b, c, d, e, rfl⟩ | ⟨a, b, rfl⟩ |
    ⟨typ, a, b, c, d, e, rfl, hne⟩
  all_goals first
    | exact ⟨"unexpected message", rfl⟩
    | (refine ⟨"invalid ERROR", ?_⟩
       show (if typ != tINVOCATION then _ else _) = _
       rw [if_pos (by simpa using hne)])

/-- The departure of an attached session `x`, in every mode (lost transport / GOODBYE, kill, abort,
    protocol violation, shutdown), as seen by every OTHER session `k`:
    `k` stays attached; `k` is a member of exactly the subscriptions it was a member of; `k` is a
    callee of exactly the registrations it was a callee of; the queue of every session is the old
    queue with messages appended (nothing lost, nothing reordered, nothing removed); the invariant
    holds and nothing panics. -/
theorem C04_isolation (r : Realm) (hi : RealmInv r) (x : SessKey) (mode : LeaveMode)
    (hx : r.isClient x) (hnb : r.busy x = false) :
    let r' := r.leave x mode
    (∀ k, k ≠ x → (r'.isClient k ↔ r.isClient k)) ∧
    (∀ k id, k ≠ x → (r'.broker.isMember k id ↔ r.broker.isMember k id)) ∧
    (∀ k id, k ≠ x → (calleeRel r'.ds.d.regs id k ↔ calleeRel r.ds.d.regs id k)) ∧
    (∀ k, ∃ extra, queueOfList r'.queues k = queueOfList r.queues k ++ extra) ∧
    RealmInv r' ∧ r'.panic = r.panic := by
  intro r'
  have hnb' : ∀ y ∈ r.retries, y.callee ≠ x := not_busy (by rw [hnb]; simp)
  obtain ⟨h1, h2, _, _⟩ := leave_inv hi x mode hnb'
  obtain ⟨c, hc, hcx⟩ := hx
  cases hf : r.clients.find? (fun c => c.key == x) with
  | none =>
    have := List.find?_eq_none.mp hf c hc
    simp [hcx] at this
  | some s =>
    obtain ⟨⟨p, hb⟩, ⟨env, hd⟩⟩ := leave_tables mode hf
    refine ⟨?_, ?_, ?_, qgrow_leave r x mode, h1, h2⟩
    · intro k hk
      have := leave_isClient hi x mode ⟨c, hc, hcx⟩ hnb' k
      exact ⟨fun h => (this.mp h).1, fun h => this.mpr ⟨h, hk⟩⟩
    · intro k id hk
      show (r.leave x mode).broker.isMember k id ↔ _
      rw [hb, syncRemoveSession_isMember hi.binv]
      exact ⟨fun h => h.1, fun h => ⟨h, hk⟩⟩
    · intro k id hk
      show calleeRel (r.leave x mode).ds.d.regs id k ↔ _
      rw [hd, (syncRemoveSession_frame (env := env) hi.dinv x).2.2 id k]
      exact ⟨fun h => h.1, fun h => ⟨h, hk⟩⟩

/-! ## No panic, whatever marker an earlier step left -/

/-- The panic flag keeps its FIRST marker (`setPanic`), so `C04_no_panic_partial` alone would not see a
    closed-peer send or a dealer panic that happens after a fuel marker of the model was set.  This
    theorem closes that gap: from any state satisfying the invariant, WITH THE FLAG RESET TO `none`,
    every atomic action — external input, internal task, call timeout, retry turn, departure — leaves
    the flag `none`, and a whole input run to quiescence leaves at most a fuel marker.  So no Go-panic
    site is reached after an earlier fuel marker either. -/
theorem C04_no_panic_clean (r : Realm) (hi : RealmInv r) :
    (∀ op, (({ r with panic := none } : Realm).stepOp op).panic = none) ∧
    (∀ t, TaskOk t → (({ r with panic := none } : Realm).runTask t).panic = none) ∧
    (∀ t, (({ r with panic := none } : Realm).timerDue t).panic = none) ∧
    (∀ x ∈ r.retries, (({ r with panic := none } : Realm).retryDue x).panic = none) ∧
    (∀ k mode, r.busy k = false → (({ r with panic := none } : Realm).leave k mode).panic = none) ∧
    (∀ op, FuelOnly (({ r with panic := none } : Realm).step op).1.panic ∧
           FuelOnly (({ r with panic := none } : Realm).step op).2.panic) := by
  have hi0 : RealmInv ({ r with panic := none } : Realm) :=
    hi.of_parts rfl hi.binv hi.dinv hi.bmem hi.dref hi.callers hi.retr hi.tasks hi.inb rfl
  obtain ⟨a1, a2, a3, a4, a5⟩ := C04_no_panic_atomic _ hi0
  exact ⟨a1, a2, a3, a4, a5, fun op => ⟨(step_inv hi0 (Or.inl rfl) op).2.2, (step_inv hi0 (Or.inl rfl) op).2.1⟩⟩

/-- … in particular in every reachable state (whatever its flag holds). -/
theorem C04_no_panic_clean_reachable (cfg : Config) (r : Realm) (h : Realm.Reachable cfg r) (op : Op) :
    FuelOnly (({ r with panic := none } : Realm).step op).1.panic ∧
    (({ r with panic := none } : Realm).stepOp op).panic = none :=
  ⟨((C04_no_panic_clean r h.inv.1).2.2.2.2.2 op).1, (C04_no_panic_clean r h.inv.1).1 op⟩

example : RealmInv ({ panic := some "model: task fuel exhausted" } : Realm) :=
  (RealmInv.empty []).of_parts rfl (RealmInv.empty []).binv (RealmInv.empty []).dinv (RealmInv.empty []).bmem
    (RealmInv.empty []).dref (RealmInv.empty []).callers (RealmInv.empty []).retr (RealmInv.empty []).tasks
    (RealmInv.empty []).inb rfl

/-! ## Who can be ended: the sender, and never the meta session -/

/-- The dealer aborts nobody but the session whose message it is processing: `syncCall` at most the
    caller, `syncYield` at most the yielding callee; cancel, error, register, unregister and the removal
    of a session abort nobody. -/
theorem C04_aborts_only_sender (env : DEnv) (s : DState) (k : SessKey) :
    (∀ req opts proc args kw rnd, ∀ j ∈ (syncCall env s k req opts proc args kw rnd).aborts, j = k) ∧
    (∀ req opts args kw progress canRetry, ∀ j ∈ (syncYield env s k req opts args kw progress canRetry).aborts, j = k) ∧
    (∀ req opts args kw progress canRetry, pptScheme opts = "" →
        (syncYield env s k req opts args kw progress canRetry).aborts = []) ∧
    (∀ req mode reason errArgs, (syncCancel env s k req mode reason errArgs).aborts = []) ∧
    (∀ req details err args kw, (syncError s k req details err args kw).aborts = []) ∧
    (∀ req proc m invoke disclose fwd wampURI, (syncRegister s k req proc m invoke disclose fwd wampURI).aborts = []) ∧
    (∀ req regId, (syncUnregister s k req regId).aborts = []) ∧
    (syncRemoveSession env s k).aborts = [] :=
  ⟨fun _ _ _ _ _ _ => syncCall_aborts _ _ _ _ _ _ _ _ _, fun _ _ _ _ _ _ => syncYield_aborts _ _ _ _ _ _ _ _ _,
   fun _ _ _ _ _ _ hp => syncYield_aborts_nil _ _ _ _ _ _ _ _ _ hp, fun _ _ _ _ => syncCancel_aborts ..,
   fun _ _ _ _ _ => syncError_aborts .., fun _ _ _ _ _ _ _ => syncRegister_aborts ..,
   fun _ _ => syncUnregister_aborts .., syncRemoveSession_aborts ..⟩

/-- The broker ends nobody but the publisher, and only in one case: a valid topic, payload passthru
    (`ppt_scheme`) used, and the publisher has not announced the feature.  In every other case `ending`
    and the task list (up to invocations for the meta session) are untouched. -/
theorem C04_publish_ends_only_sender (r : Realm) (s : Session) (req : Nat) (opts : Dict) (topic : String)
    (args : List WVal) (kw : Dict) :
    ((validUri r.broker.strict "" topic &&
        (pptScheme opts != "" && !s.hasFeature RolePublisher FeaturePayloadPassthruMode)) = true →
      (handlePublish r s req opts topic args kw).ending = r.ending ++ [s.key]) ∧
    ((validUri r.broker.strict "" topic &&
        (pptScheme opts != "" && !s.hasFeature RolePublisher FeaturePayloadPassthruMode)) = false →
      (handlePublish r s req opts topic args kw).ending = r.ending ∧
      ∀ t ∈ (handlePublish r s req opts topic args kw).tasks, t ∈ r.tasks ∨ ∃ a b c d e, t = .metaInvoke a b c d e) := by
  constructor
  · intro h
    simp only [Bool.and_eq_true] at h
    unfold handlePublish
    simp only [freshPub]
    rw [if_neg (by simp [h.1])]
    have : (pptScheme opts != "" && !s.hasFeature RolePublisher FeaturePayloadPassthruMode) = true := by
      simp only [Bool.and_eq_true]; exact h.2
    rw [if_pos this]
    show (r.trySend _).ending ++ [s.key] = _
    rw [trySend_ending]
  · intro h
    refine ⟨handlePublish_ending r s req opts topic args kw h, ?_⟩
    obtain ⟨ts, hts, pts⟩ := handlePublish_tasks r s req opts topic args kw h
    intro t ht
    rw [hts] at ht
    rcases List.mem_append.mp ht with ht | ht
    · exact Or.inl ht
    · exact Or.inr (pts t ht)

-- non-vacuity: a publisher without the feature using `ppt_scheme` on a valid topic IS ended (and nobody else)
example : let s : Session := { key := 5, details := [], roles := [], isLocal := false }
    (handlePublish { clients := [s] } s 1 [(OptPPTScheme, .str "x")] "a.b" [] []).ending = [5] := by
  decide +kernel

/-- WHO CAN BE ENDED BY A MESSAGE: ITS SENDER.  Whatever message `m` the handler of session `s` processes,
    in whatever state (authorization gate included): every key appended to `ending`, every `leave` task
    queued, is `s.key`; apart from that only meta events / meta invocations are queued; a retry entry is
    created only for a YIELD of `s`; the client table, the deferred departures and the meta session are
    untouched.  (`Eff`, Nexus/L2/Proofs/WpCBase.lean.)  No hypothesis: this is a fact about the code
    paths of `handleInboundMessages`, not about reachable states. -/
theorem C04_message_ends_only_sender (r : Realm) (s : Session) (m : Msg) :
    (∃ e, (handleMsg r s m).ending = r.ending ++ e ∧ ∀ j ∈ e, j = s.key) ∧
    (∃ ts, (handleMsg r s m).tasks = r.tasks ++ ts ∧
      ∀ t ∈ ts, (∃ mode, t = .leave s.key mode) ∨ (∃ p, t = .metaPub p) ∨ ∃ a b c d e, t = .metaInvoke a b c d e) ∧
    (handleMsg r s m).clients = r.clients ∧ (handleMsg r s m).deferred = r.deferred ∧
    (handleMsg r s m).metaS = r.metaS ∧
    (∃ xs, (handleMsg r s m).retries = r.retries ++ xs ∧ ∀ x ∈ xs, x.callee = s.key ∧ ∃ req opts args kw, m = .yield req opts args kw) := by
  have h := eff_handleMsg r s m
  obtain ⟨ts, hts, pts⟩ := h.tasks
  obtain ⟨xs, hxs, pxs⟩ := h.retries
  refine ⟨h.ending, ⟨ts, hts, ?_⟩, h.clients, h.deferred, h.metaS, ⟨xs, hxs, ?_⟩⟩
  · intro t ht
    have := pts t ht
    cases t with
    | leave j mode => exact Or.inl ⟨mode, by rw [show j = s.key from this]⟩
    | metaMsg m => exact absurd this id
    | inMsg k m => exact absurd this id
    | metaPub p => exact Or.inr (Or.inl ⟨p, rfl⟩)
    | metaInvoke a b c d e => exact Or.inr (Or.inr ⟨a, b, c, d, e, rfl⟩)
  · intro x hx
    obtain ⟨req, opts, args, kw, hm, rfl⟩ := pxs x hx
    exact ⟨rfl, req, opts, args, kw, hm⟩

/-- NOTHING EVER ENDS THE META SESSION.  In EVERY reachable state (`Realm.Reachable`: any history of inputs
    whatsoever; a `join` under the meta session's key or the key of an attached client and a `drop` of a key
    that names no attached client cannot occur — session ids are drawn by the router, only an attached client
    has a transport to lose — and are no-ops of the model): the meta session is not in
    `ending`, no departure of it is pending or deferred, no client is stored under its key, it announces
    the publisher payload-passthru feature, every answer it has pending is a `YIELD` with empty options or
    an `ERROR(INVOCATION)`, and a retried YIELD of it carries no `ppt_scheme` (`MetaSafe`).  So the realm
    never loses the goroutine every `onJoin`, `onLeave` and meta event blocks on.

    This is the theorem that is FALSE for the router before the fix of audit-C §0 (a testament with
    `ppt_scheme` made the meta session abort itself: `handlePublish` by a meta session without the
    feature appends `metaKey` to `ending`, see the example below). -/
theorem C04_meta_never_ends (cfg : Config) (r : Realm) (h : Realm.Reachable cfg r) :
    metaKey ∉ r.ending ∧ (∀ t ∈ r.tasks, ∀ mode, t ≠ .leave metaKey mode) ∧
    (∀ d ∈ r.deferred, d.1 ≠ metaKey) ∧ MetaSafe r := by
  have hm := h.metaSafe
  refine ⟨hm.ending, ?_, hm.deferred, hm⟩
  intro t ht mode e
  subst e
  exact hm.tasks _ ht rfl

/-- the former, restricted statement (histories that never use the meta session's key as a client key) is a
    special case -/
theorem C04_meta_never_ends_restricted (cfg : Config) (r : Realm) (h : ReachableK cfg r) :
    metaKey ∉ r.ending ∧ (∀ t ∈ r.tasks, ∀ mode, t ≠ .leave metaKey mode) ∧
    (∀ d ∈ r.deferred, d.1 ≠ metaKey) ∧ MetaSafe r :=
  C04_meta_never_ends cfg r h.reachable

/-- … kept by every single atomic action (so for every interleaving of the goroutines' actions, not only at
    quiescence): external inputs, internal tasks, timeouts, retry turns. -/
theorem C04_meta_safe_preserved (r : Realm) (hm : MetaSafe r) :
    (∀ op, MetaSafe (r.stepOp op)) ∧ (∀ t, MTaskOk t → MetaSafe (r.runTask t)) ∧
    (∀ t, MetaSafe (r.timerDue t)) ∧ (∀ x ∈ r.retries, MetaSafe (r.retryDue x)) ∧
    (∀ op, MetaSafe (r.step op).2) :=
  ⟨fun op => hm.stepOp op, fun t h => hm.runTask t h, fun t => hm.timerDue t, fun _ hx => hm.retryDue hx,
   fun op => hm.step op⟩

example (r : Realm) (hm : MetaSafe r) (t : Task) (ht : t ∈ r.tasks) : MTaskOk t := hm.tasks t ht

-- what the theorem excludes: the pre-fix meta session (no roles) publishing a testament with `ppt_scheme`
example : let old : Session := { key := metaKey, details := [], roles := [], isLocal := true }
    (handlePublish {} old 0 [(OptPPTScheme, .str "x")] "some.topic" [] []).ending = [metaKey] := by
  decide +kernel

/-- the statement over ALL histories of the model's input type -/
def C04_meta_never_ends_full : Prop :=
  ∀ (cfg : Config) (r : Realm), Realm.Reachable cfg r → metaKey ∉ r.ending ∧ ∀ t ∈ r.tasks, ∀ mode, t ≠ .leave metaKey mode

/-- … holds (it was false while the model accepted `Op.drop k` for a key naming no attached client, e.g. the
    meta session's own: `C04_meta_never_ends_full_fails`, now removed). -/
theorem C04_meta_never_ends_full_holds : C04_meta_never_ends_full :=
  fun cfg r h => ⟨(C04_meta_never_ends cfg r h).1, (C04_meta_never_ends cfg r h).2.1⟩

/-- non-vacuity: the input that used to break it, on the initial realm, changes nothing -/
example (r : Realm) (h : ∀ c ∈ r.clients, c.key ≠ metaKey) : r.stepOp (.drop metaKey) = r :=
  stepOp_drop_absent h

/-- SESSION KEYS OF A REACHABLE REALM (any history of inputs): no client is stored under the meta session's
    key, the keys of the attached clients are pairwise distinct, every session marked as ending is attached
    (`Nexus.L2.Realm.Reachable.clients_wf`); every session with a deferred departure, with input waiting in its
    transport or with a testament bucket is an attached client, a handler in the retry loop belongs to an
    attached client or the meta session (`Nexus.L2.Realm.Reachable.refs_wf`). -/
theorem C04_reachable_keys (cfg : Config) (r : Realm) (h : Realm.Reachable cfg r) :
    ((∀ c ∈ r.clients, c.key ≠ metaKey) ∧ (r.clients.map (·.key)).Nodup ∧
      (∀ k ∈ r.ending, r.clients.any (·.key == k) = true)) ∧
    ((∀ k ∈ r.ending, r.isClient k) ∧ (∀ d ∈ r.deferred, r.isClient d.1 ∧ r.busy d.1 = true) ∧
      (∀ e ∈ r.inbox, r.isClient e.1) ∧ (∀ t ∈ r.testaments, r.isClient t.1) ∧
      (∀ x ∈ r.retries, x.callee = metaKey ∨ r.isClient x.callee)) :=
  ⟨h.clients_wf, h.refs_wf⟩

/-! ## A protocol violation, as an input -/

/-- INPUT LEVEL.  A protocol violation arriving (`stepOp (.msg k m)`, through the gate of `recvMsg`) from an
    attached session `k` that is not already ending and whose handler is not in the yield retry loop, and
    that the authorization gate lets through (always the case without an Authorizer, for exempt local
    sessions, and when the Authorizer allows the message): NOTHING happens but that the sender is marked as
    ending and its departure `leave k (violation …)` (ABORT, then `onLeave`) is queued — no table, queue, or
    other session is touched.
    If an Authorizer REFUSES the message (it is consulted for every message type, `realm.go`
    `handleInboundMessages`), the session is NOT ended: the router answers ERROR (or nothing) and goes on —
    second part. -/
theorem C04_violation_input (r : Realm) (k : SessKey) (s : Session) (m : Msg)
    (hf : r.clients.find? (fun c => c.key == k) = some s) (hm : isViolation m = true)
    (he : r.ending.contains k = false) (hb : r.busy k = false) :
    ((authzGate r s m).1 = true →
      ∃ text, r.stepOp (.msg k m) =
        { r with tasks := r.tasks ++ [.leave k (.violation text)], ending := r.ending ++ [k] }) ∧
    ((authzGate r s m).1 = false →
      r.stepOp (.msg k m) = (authzGate r s m).2 ∧ (r.stepOp (.msg k m)).ending = r.ending ∧
      (∀ t ∈ (r.stepOp (.msg k m)).tasks, t ∈ r.tasks ∨ ∃ a b c d e, t = .metaInvoke a b c d e) ∧
      (r.stepOp (.msg k m)).clients = r.clients) := by
  have hk : s.key = k := (find?_key hf).2
  have e0 : r.stepOp (.msg k m) = handleMsg r s m := by
    rw [stepOp_msg, recvMsg_eq, hf]
    simp only [he, hb, Bool.false_eq_true, if_false]
  rw [e0, handleMsg_eq]
  constructor
  · intro hg
    rw [hg, authzGate_true hg]
    simp only [if_true]
    rw [← hk]
    cases m
    case error typ a b c d e =>
      refine ⟨"invalid ERROR", ?_⟩
      have : (typ != tINVOCATION) = true := hm
      show (if typ != tINVOCATION then _ else _) = _
      rw [if_pos this]
    all_goals first
      | exact ⟨"unexpected message", rfl⟩
      | cases hm
  · intro hg
    rw [hg]
    simp only [Bool.false_eq_true, if_false]
    have h := eff_authzGate (P := fun _ => False) (Q := fun _ => False) r s m
    obtain ⟨e, he1, pe⟩ := h.ending
    obtain ⟨ts, hts, pts⟩ := authzGate_tasks r s m
    have e0' : e = [] := by cases e with | nil => rfl | cons a _ => exact absurd (pe a (List.mem_cons_self ..)) id
    refine ⟨trivial, by rw [he1, e0']; simp, ?_, h.clients⟩
    intro t ht
    rw [hts] at ht
    rcases List.mem_append.mp ht with ht | ht
    · exact Or.inl ht
    · exact Or.inr (pts t ht)

-- non-vacuity: an attached, idle session sends WELCOME; no Authorizer
example : let s : Session := { key := 5, details := [], roles := [], isLocal := false }
    (({ clients := [s] } : Realm).stepOp (.msg 5 (.welcome 1 []))).ending = [5] := by
  decide +kernel

/-! ## Isolation over a whole step -/

/-- ISOLATION OVER THE WHOLE STEP.  `C04_isolation` is about the single atomic `leave x`; this is about the
    INPUT that ends `x` (`EndsInput`: lost transport, GOODBYE, protocol violation let through by the gate)
    and EVERYTHING it causes until the realm is quiet again: the departure, the meta events
    (`on_unsubscribe`, `on_unregister`, `on_delete`, `on_leave`) and the testaments it queues for the meta
    session, and their publication.  From a state satisfying the invariants with nothing pending, `x`
    attached, not ending, its handler not in the retry loop, and unless the model's task fuel runs out:
    * `x` is attached no more; every OTHER session is attached iff it was;
    * every other session is a member of exactly the subscriptions, a callee of exactly the registrations it
      was (`x` of none);
    * the pending calls afterwards are exactly the old ones that `x` neither made nor served: every other
      session's calls not served by `x` are still pending (the calls `x` served are answered with ERROR,
      `C05_leave_served_calls`);
    * the testament table is the old one without `x`'s bucket: nobody else's testament is touched, none is
      published;
    in particular no other session is ended, killed or aborted by the cascade (nothing but `leave x` and
    `metaPub` tasks ever becomes pending: `OnlyLeaveX`, and the meta session cannot be ended by its own
    publications: `C04_meta_never_ends`). -/
theorem C04_isolation_step (r : Realm) (hi : RealmInv r) (hc : CtlInv r) (ht : r.tasks = []) (x : SessKey)
    (hx : r.isClient x) (hb : r.busy x = false) (he : x ∉ r.ending) (op : Op) (hop : EndsInput r x op)
    (hp : (r.step op).2.panic = none) :
    ¬ (r.step op).2.isClient x ∧
    (∀ k, k ≠ x → ((r.step op).2.isClient k ↔ r.isClient k)) ∧
    (∀ k id, (r.step op).2.broker.isMember k id ↔ r.broker.isMember k id ∧ k ≠ x) ∧
    (∀ id k, calleeRel (r.step op).2.ds.d.regs id k ↔ calleeRel r.ds.d.regs id k ∧ k ≠ x) ∧
    (∀ c ∈ (r.step op).2.ds.d.calls, c ∈ r.ds.d.calls ∧ c.sess ≠ x ∧ ∀ v ∈ r.ds.d.invs, v.callee = x → v.callId ≠ c) ∧
    (∀ c ∈ r.ds.d.calls, c.sess ≠ x → (∀ v ∈ r.ds.d.invs, v.callee = x → v.callId ≠ c) → c ∈ (r.step op).2.ds.d.calls) ∧
    (r.step op).2.testaments = r.testaments.filter (fun t => t.1 != x) :=
  step_isolated hi hc ht hx hb he hop hp

/-- … for EVERY history of inputs (`Realm.Reachable`) whose panic flag is clean. -/
theorem C04_isolation_step_reachable (cfg : Config) (r : Realm) (h : Realm.Reachable cfg r) (hp0 : r.panic = none) (x : SessKey)
    (hx : r.isClient x) (hb : r.busy x = false) (he : x ∉ r.ending) (op : Op) (hop : EndsInput r x op)
    (hp : (r.step op).2.panic = none) (k : SessKey) (hk : k ≠ x) :
    ((r.step op).2.isClient k ↔ r.isClient k) ∧
    (∀ id, (r.step op).2.broker.isMember k id ↔ r.broker.isMember k id) ∧
    (∀ id, calleeRel (r.step op).2.ds.d.regs id k ↔ calleeRel r.ds.d.regs id k) ∧
    (∀ c ∈ r.ds.d.calls, c.sess = k → (∀ v ∈ r.ds.d.invs, v.callId = c → v.callee ≠ x) → c ∈ (r.step op).2.ds.d.calls) ∧
    (∀ t ∈ r.testaments, t.1 = k → t ∈ (r.step op).2.testaments) := by
  obtain ⟨_, g2, g3, g4, _, g6, g7⟩ := C04_isolation_step r h.inv.1 h.ctl (Reachable.quiescent h hp0)
    x hx hb he op hop hp
  refine ⟨g2 k hk, fun id => ⟨fun h' => ((g3 k id).mp h').1, fun h' => (g3 k id).mpr ⟨h', hk⟩⟩,
    fun id => ⟨fun h' => ((g4 id k).mp h').1, fun h' => (g4 id k).mpr ⟨h', hk⟩⟩, ?_, ?_⟩
  · intro c hc hs hv
    exact g6 c hc (hs ▸ hk) (fun v hv' hvx e => hv v hv' e hvx)
  · intro t ht' htk
    rw [g7]
    exact List.mem_filter.mpr ⟨ht', by simpa [htk] using hk⟩

-- non-vacuity: two attached sessions, nothing pending (both invariants hold); session 1 loses its transport
example : let r0 : Realm := (({} : Realm).stepOp (.join 1 false [] [] 8)).stepOp (.join 2 false [] [] 8)
    let r : Realm := { r0 with tasks := [] }
    RealmInv r ∧ CtlInv r ∧ r.tasks = [] ∧
    r.isClient 1 ∧ r.busy 1 = false ∧ 1 ∉ r.ending ∧ EndsInput r 1 (.drop 1) ∧ (r.step (.drop 1)).2.panic = none ∧
    (r.step (.drop 1)).2.clients.map (·.key) = [2] := by
  intro r0 r
  have hi0 : RealmInv r0 := (stepOp_inv (stepOp_inv (RealmInv.empty []) _).1 _).1
  have hc0 : CtlInv r0 := (ctlInv_empty.stepOp' (.join 1 false [] [] 8)).stepOp' (.join 2 false [] [] 8)
  refine ⟨hi0.of_parts rfl hi0.binv hi0.dinv hi0.bmem hi0.dref hi0.callers hi0.retr (by intro t h; cases h) hi0.inb rfl,
    hc0.congr ⟨hc0.safe.noClient, hc0.safe.ending, (by intro t h; cases h), hc0.safe.deferred, hc0.safe.retries,
      hc0.safe.mkey, hc0.safe.metaPPT⟩ rfl rfl rfl rfl,
    rfl, ⟨_, List.mem_cons_self .., rfl⟩, by decide +kernel, by decide +kernel, Or.inl rfl, by decide +kernel, by decide +kernel⟩

end Nexus.C04
