/-
  C09 — Only authenticated clients join, under router-assigned identity.

  "A client is sent WELCOME and attached to a realm only if its first message is a HELLO naming
   an existing (or template-created) realm and at least one client role, and an authenticator
   configured on that realm for one of the offered methods accepted it - for challenge methods
   (wampcra, ticket, cryptosign) by a response valid for the challenge issued in this very
   handshake, so that a response captured from another handshake never succeeds. Otherwise it is
   sent ABORT, is never attached and nothing it sends is routed; the session id, authid, authrole,
   authmethod and authprovider recorded for a session and shown to others always come from the
   router and the authenticator, never from client-supplied HELLO details."

  The model (`Nexus.Auth.attach`, Nexus/Auth/Model.lean) mirrors AttachClient, authClient,
  getAuthenticator and the built-in authenticators decision by decision; every theorem below is
  for ALL router configurations, key stores, oracle answers (HMAC, base64/hex decoding, sign.Open,
  nonces, random ids), HELLO details (hostile ones included) and client scripts.  `fx : Facts` are
  the facts regenerated from the source (`Facts.gen`); theorems are stated for every `fx` with the
  hypotheses they need, and the `source_*` theorems discharge those hypotheses for the regenerated
  values, so that a change of the source breaks the build here.

  clause                                             theorem
  -------------------------------------------------  ------------------------------------------------
  source facts the model relies on                   source_shape, source_welcome_literals,
                                                     source_facts_gen
  WELCOME only if HELLO ∧ realm ∧ role ∧ auth        welcome_only_if, welcome_iff (exact condition)
   - first offered method with an authenticator      welcome_only_if (FirstConfigured)
   - local bypass, explicit disjunct                 welcome_only_if (left disjunct)
  otherwise ABORT (which reason), no join            abort_otherwise, abort_reason_table
  never attached without WELCOME                     never_attached
  nothing a refused client sends is read             refused_reads_nothing_more
   - "nothing it sends is routed": the Auth model    Nexus.C11.C11_unknown_session (Nexus/Props/C11.lean):
     has no routing state; the routing half of the     a session key the router does not know (no `join`
     clause is a theorem of the L2 router model         happened: `attach … .joined = false`, never_attached)
                                                       changes nothing and nothing is observed, whatever
                                                       operation it submits (audit D a5; cross-reference
                                                       only, the two models are not composed)
  ticket: response = stored ticket                   ticket_response_is_stored_ticket
  ticket: NOT bound to the handshake (DEVIATION      ticket_replay_accepted, ticketAuth_env_irrelevant,
   from "a response captured from another             replay_never_succeeds_ticket_full (def),
   handshake never succeeds"; bearer secret,           replay_never_succeeds_ticket_full_fails,
   faithful to Go)                                     ticket_replay_witness
  wampcra: response = HMAC(key, THIS challenge)      wampcra_bound_to_this_challenge,
                                                     wampcra_replay_rejected
  wampcra: the challenge string determines the       craChallengeStr_sid_inj (Nexus/Auth/WpDChallenge.lean),
   session id; replay from a handshake with            wampcra_replay_rejected' (hypotheses: other session
   another session id is refused                       id, MAC injective for this key)
  cryptosign: a signature that opens to another      cryptosign_replay_rejected (Facts.gen),
   challenge is refused (general)                      cryptosign_replay_rejected_of_checks
  a user for whom the key store has NO KEY          wampcra_empty_key_refused, wampcra_empty_key_random_key,
   ((nil, nil) or an empty slice) is refused          wampcra_empty_key_mac_refused, wampcra_empty_key_refused_gen,
   (fixed in /repo 7f39285; the guards are             wampcra_challenge_hides_random_key, craKey_guarded_cases,
   regenerated: craRefusesEmptyKey,                    wampcra_empty_key_witness; cryptosign_empty_key_refused,
   csRefusesEmptyKey): wampcra checks the response     cryptosign_empty_key_refused_gen, cryptosign_empty_key_witness;
   against a throw-away random key, cryptosign         bound_to_this_challenge_cryptosign (now also: the key is
   aborts without CHALLENGE                            not empty).  Regression lemmas for a tree without the
                                                       guard: wampcra_nil_key_public_mac_without_guard,
                                                       cryptosign_nil_key_zero_key_without_guard,
                                                       bound_to_this_challenge_cryptosign_full_fails_no_key_guard
  cryptosign: opens to THIS challenge                bound_to_this_challenge_cryptosign (the full
                                                     statement `.._full Facts.gen`, proved since the
                                                     fix of F7), .._gen, .._partial;
                                                     regression lemmas for a tree without the
                                                     comparison: .._full_fails,
                                                     cryptosign_replay_witness
  bound_to_this_challenge, all methods at once       bound_to_this_challenge
  identity: session id                               identity_session
  identity: WELCOME overrides HELLO                  identity_from_welcome, identity_exact
  roles / authmethods dropped                        identity_roles_dropped
  identity: built-in authenticators                  identity_builtin
  identity: local bypass                             identity_local
  identity for every authenticator (full)            identity (= identity_full Facts.gen, proved since
                                                     the HELLO loop skips the identity keys),
                                                     identity_full_of_skip, identity_of_hello_skip,
                                                     identity_partial; regression lemmas for the old
                                                     skip list: hello_identity_survives_old_skip_list,
                                                     identity_full_fails_old_skip_list
  local bypass: authid is the client's (open)        identity_local_authid_full (def),
                                                     identity_local_authid_full_fails
  shown to others = recorded                         clean_preserves_identity
  transport.auth is not shown                        clean_hides_transport_auth,
                                                     clean_transport_auth_non_dict_shown
  the L2 model's copy of cleanSessionDetails         clean_models_agree, clean_models_agree_iff,
   (what session.get / on_join of L2 use) agrees       clean_models_agree_modulo_nil, clean_models_agree_get?,
   with the copy used here                             clean_models_disagree_witness — namespace Nexus.C09,
                                                       file Nexus/L2/Proofs/WpDCleanAgree.lean (not imported
                                                       here: it depends on Nexus.L2.Realm)
  "… ALWAYS": after the attach (L2 realm model)      identity_stable_step, identity_stable_lookup: in a
   - the details of an attached session never         realm without `wamp.session.modify_details`
     change …                                          (`Config.metaModify = false`,
                                                       `Realm.WpD.create_no_modify`) no input changes the
                                                       details of any attached session
   - … EXCEPT through `wamp.session.modify_details`   modify_details_rewrites_authid: one CALL by an
     (DEVIATION from "always come from the router      ordinary session rewrites authid/authrole of ANOTHER
     and the authenticator"; faithful to Go,           session (full `Realm.step`, evaluated)
     realm.go:1365-1382: only `session` is protected)  — namespace Nexus.C09, file
                                                       Nexus/L2/Proofs/WpDIdentity.lean (not imported here)
-/
import Nexus.Auth.Shape
import Nexus.Auth.Rest
import Nexus.Auth.WpDChallenge

namespace Nexus.C09
open Nexus Nexus.Auth

/-! ## The source, as regenerated on this run -/

/-- The shape of the source the model mirrors.  Any edit that reorders the decisive statements of
    `AttachClient`, changes a skip list, the bypass condition, the default method, the timeouts or
    the comparison in `crsign.VerifySignature` makes this theorem fail. -/
theorem source_shape :
    Gen.Auth.attachOrder =
      ["recvHello", "helloTypeCheck", "emptyRealmCheck", "realmLookup", "normalizeDetails", "newSession",
       "rolesCheck", "transportDetails", "authClient", "authErrorCheck", "mergeHello", "mergeWelcome",
       "setSession", "assignSessDetails", "handleSession"] ∧
    Gen.Auth.welcomeSentBy = "handler" ∧
    Gen.Auth.abortReasons =
      ["ErrProtocolViolation", "ErrNoSuchRealm", "ErrSystemShutdown", "ErrNoSuchRealm", "ErrNoSuchRealm",
       "ErrSystemShutdown", "ErrNoSuchRole", "ErrAuthenticationFailed", "ErrSystemShutdown"] ∧
    Gen.Auth.clientRoles = ["publisher", "subscriber", "callee", "caller"] ∧
    Gen.Auth.helloSkip =
      ["authmethods", "roles", "session", "authid", "authrole", "authmethod", "authprovider"] ∧
    Gen.Auth.welcomeSkip = ["roles"] ∧
    Gen.Auth.cryptosignChecksChallenge = true ∧
    Gen.Auth.sessionKey = "session" ∧
    Gen.Auth.localBypassCond = "client.IsLocal() && !r.localAuth" ∧
    Gen.Auth.localWelcome =
      [("authid", "authid"), ("authrole", "\"trusted\""), ("authmethod", "\"local\""),
       ("authprovider", "\"static\""), ("roles", "wamp.Dict{...}")] ∧
    Gen.Auth.localAuthidFromHello = true ∧
    Gen.Auth.defaultMethod = "anonymous" ∧
    Gen.Auth.authClientSets = ["authmethod", "roles"] ∧
    Gen.Auth.getAuthenticatorFirstMatch = true ∧
    Gen.Auth.joinBeforeHandler = true ∧
    Gen.Auth.helloTimeoutMs = 5000 ∧
    Gen.Auth.defaultCRAuthTimeoutMs = 60000 ∧
    Gen.Auth.craChallengeArgs =
      ["nonce", "cr.keyStore.Provider()", "authid", "wamp.NowISO8601()", "authrole", "cr.AuthMethod()", "session"] ∧
    Gen.Auth.craComparesHmacOfChallenge = true ∧
    Gen.Auth.cryptosignSignedLen = 96 ∧
    Gen.Auth.metaStdItems = ["session", "authid", "authrole", "authmethod", "authprovider", "transport"] ∧
    Gen.Auth.craKeyGuard = "err != nil || len(key) == 0" ∧ Gen.Auth.craRefusesEmptyKey = true ∧
    Gen.Auth.csKeyGuard = "err != nil || len(key) == 0" ∧ Gen.Auth.csRefusesEmptyKey = true := by
  decide

/-- Every WELCOME the built-in authenticators construct carries all four identity keys. -/
theorem source_welcome_literals :
    ∀ l ∈ Gen.Auth.welcomeLiterals, ∀ k ∈ ["authid", "authrole", "authmethod", "authprovider"],
      k ∈ l.2.map Prod.fst := by
  decide

/-- The hypotheses the theorems below put on `fx` hold for the regenerated facts. -/
theorem source_facts_gen :
    Facts.gen.firstMatch = true ∧ Facts.gen.sessionKey = "session" ∧
    Facts.gen.helloSkip =
      ["authmethods", "roles", "session", "authid", "authrole", "authmethod", "authprovider"] ∧
    Facts.gen.welcomeSkip = ["roles"] ∧ Facts.gen.csChecksChallenge = true ∧
    Facts.gen.craRefusesEmptyKey = true ∧ Facts.gen.csRefusesEmptyKey = true := by
  decide

/-! ## WELCOME only if ... -/

/-- HELLO.Details.roles is a dictionary (nil counts as an empty one) that names `role`. -/
def AnnouncesRole (details : Dict) (role : String) : Prop :=
  ∃ v roles, details.get? "roles" = some v ∧ v.asDict = some roles ∧ roles.any (fun kv => kv.1 == role) = true

theorem hasClientRole_iff (details : Dict) :
    hasClientRole details = true ↔ ∃ role ∈ Gen.Auth.clientRoles, AnnouncesRole details role := by
  unfold hasClientRole AnnouncesRole
  rw [List.any_eq_true]
  constructor
  · rintro ⟨role, hmem, h⟩
    refine ⟨role, hmem, ?_⟩
    unfold hasRole setRoles at h
    cases hr : details.get? "roles" with
    | none => simp [hr] at h
    | some v =>
      simp only [hr] at h
      cases hd : v.asDict with
      | none => simp [hd] at h
      | some roles =>
        simp only [hd] at h
        cases roles with
        | nil => simp at h
        | cons p ps =>
          simp only [List.any_map] at h
          exact ⟨v, p :: ps, rfl, hd, by simpa [Function.comp] using h⟩
  · rintro ⟨role, hmem, v, roles, hr, hd, hany⟩
    refine ⟨role, hmem, ?_⟩
    unfold hasRole setRoles
    simp only [hr, hd]
    cases roles with
    | nil => simp at hany
    | cons p ps =>
      simp only [List.any_map]
      simpa [Function.comp] using hany

/-- `welcome_only_if`: a WELCOME is sent only if the first action is a HELLO arriving within
    helloTimeout, its realm is non-empty and exists or the template creates it, the router is
    neither closed nor shutting down, at least one of the four client roles is announced, and
    EITHER the peer is in-process and the realm does not require local authentication (the
    documented bypass) OR, among the offered methods (anonymous when none is offered), the FIRST
    that has a configured authenticator was used and that authenticator returned a WELCOME. -/
theorem welcome_only_if {fx : Facts} (hfm : fx.firstMatch = true) {rt : RouterCfg} {env : Env}
    {arr : List Arrival} {sid : Nat} {sess w : Dict}
    (h : (attach fx rt env arr).outcome = .welcome sid sess w) :
    ∃ d realm details rest rc created,
      arr = ⟨d, .msg (.hello realm details)⟩ :: rest ∧ d < Gen.Auth.helloTimeoutMs ∧
      realm ≠ "" ∧ RealmAvailable rt realm rc created ∧ rc.closing = false ∧
      (∃ role ∈ Gen.Auth.clientRoles, AnnouncesRole details role) ∧
      ((env.isLocal = true ∧ rc.requireLocalAuth = false ∧ w = localWelcome env (helloDetails env details)) ∨
       (¬ (env.isLocal = true ∧ rc.requireLocalAuth = false) ∧
         ∃ a method w0,
           FirstConfigured (realmAuths rc) (offeredMethods (helloDetails env details)) method a ∧
           (runAuth fx a env (helloDetails env details) rest).res = .ok w0 ∧
           w = (w0.set "authmethod" (.str method)).set "roles" env.routerRoles)) := by
  obtain ⟨d, realm, details, rest, rc, created, harr, hd, hre, hav, hrole, hauth, hcl, _, _⟩ := attach_welcome h
  refine ⟨d, realm, details, rest, rc, created, harr, hd, hre, hav, hcl, (hasClientRole_iff _).mp hrole, ?_⟩
  rcases authClient_ok_iff.mp hauth with hloc | ⟨hn, a, method, w0, hg, hr, hw⟩
  · exact Or.inl hloc
  · rw [hfm] at hg
    exact Or.inr ⟨hn, a, method, w0, getAuthenticator_first hg, hr, hw⟩

/-- `welcome_iff`: the condition of `welcome_only_if` is exact. -/
theorem welcome_iff {fx : Facts} (hfm : fx.firstMatch = true) {rt : RouterCfg} {env : Env}
    {arr : List Arrival} {sid : Nat} {sess w : Dict} :
    (attach fx rt env arr).outcome = .welcome sid sess w ↔
    ∃ d realm details rest rc created,
      arr = ⟨d, .msg (.hello realm details)⟩ :: rest ∧ d < Gen.Auth.helloTimeoutMs ∧
      realm ≠ "" ∧ RealmAvailable rt realm rc created ∧ rc.closing = false ∧
      hasClientRole details = true ∧
      ((env.isLocal = true ∧ rc.requireLocalAuth = false ∧ w = localWelcome env (helloDetails env details)) ∨
       (¬ (env.isLocal = true ∧ rc.requireLocalAuth = false) ∧
         ∃ a method w0,
           FirstConfigured (realmAuths rc) (offeredMethods (helloDetails env details)) method a ∧
           (runAuth fx a env (helloDetails env details) rest).res = .ok w0 ∧
           w = (w0.set "authmethod" (.str method)).set "roles" env.routerRoles)) ∧
      sid = env.o.sid ∧ sess = sessDetails fx (helloDetails env details) w sid := by
  constructor
  · intro h
    obtain ⟨d, realm, details, rest, rc, created, harr, hd, hre, hav, hrole, hauth, hcl, hsid, hsess⟩ :=
      attach_welcome h
    refine ⟨d, realm, details, rest, rc, created, harr, hd, hre, hav, hcl, hrole, ?_, hsid, hsess⟩
    rcases authClient_ok_iff.mp hauth with hloc | ⟨hn, a, method, w0, hg, hr, hw⟩
    · exact Or.inl hloc
    · rw [hfm] at hg
      exact Or.inr ⟨hn, a, method, w0, getAuthenticator_first hg, hr, hw⟩
  · rintro ⟨d, realm, details, rest, rc, created, harr, hd, hre, hav, hcl, hrole, hauth, hsid, hsess⟩
    refine attach_of_welcomed ⟨d, realm, details, rest, rc, created, harr, hd, hre, hav, hrole, ?_, hcl, hsid, hsess⟩
    refine authClient_ok_iff.mpr ?_
    rcases hauth with hloc | ⟨hn, a, method, w0, hf, hr, hw⟩
    · exact Or.inl hloc
    · refine Or.inr ⟨hn, a, method, w0, ?_, hr, hw⟩
      rw [hfm]
      exact getAuthenticator_of_first hf

/-! ## ... otherwise ABORT -/

/-- The five reasons `AttachClient` aborts with. -/
def abortURIs : List String :=
  [Gen.N.ErrProtocolViolation, Gen.N.ErrNoSuchRealm, Gen.N.ErrSystemShutdown, Gen.N.ErrNoSuchRole,
   Gen.N.ErrAuthenticationFailed]

theorem reasonOf_mem {why : Why} (h : why.isDrop = false) : reasonOf why ∈ abortURIs := by
  cases why <;> simp_all [reasonOf, abortURIs, Why.isDrop]

/-- `abort_otherwise`: every handshake ends in exactly one of three ways.
    (1) WELCOME: the condition of `welcome_iff` holds, the session joined, WELCOME is the last
        message and nothing but CHALLENGEs precede it (since the session handler sends WELCOME
        without blocking, it is dropped — the transcript then ends before it — when the client's
        queue is full; no ABORT is ever part of such a transcript).
    (2) ABORT: the condition does not hold; ABORT (with one of the five reasons, determined by the
        failing branch) is the last message, nothing but CHALLENGEs precede it, no join.
    (3) nothing was received within helloTimeout (silence or a closed connection): the peer is
        closed without any message — the one case in which no ABORT is sent — no join. -/
theorem abort_otherwise (fx : Facts) (rt : RouterCfg) (env : Env) (arr : List Arrival) :
    (∃ sid sess w, (attach fx rt env arr).outcome = .welcome sid sess w ∧
        (attach fx rt env arr).joined = true ∧
        ∃ pre, OnlyChallenges pre ∧
          ((attach fx rt env arr).sent = pre ++ [.welcome sid w] ∨ (attach fx rt env arr).sent = pre)) ∨
    (∃ reason why, (attach fx rt env arr).outcome = .abort reason why ∧
        (¬ ∃ sid sess w, Welcomed fx rt env arr sid sess w) ∧
        (attach fx rt env arr).joined = false ∧ reason = reasonOf why ∧ reason ∈ abortURIs ∧
        ∃ pre, (attach fx rt env arr).sent = pre ++ [.abort reason] ∧ OnlyChallenges pre) ∨
    (∃ why, (attach fx rt env arr).outcome = .dropped why ∧
        (¬ ∃ sid sess w, Welcomed fx rt env arr sid sess w) ∧
        (attach fx rt env arr).joined = false ∧ (attach fx rt env arr).sent = [] ∧
        (attach fx rt env arr).created = none ∧
        (why = .helloTimeout ∨ why = .helloClosed) ∧
        ¬ ∃ d m rest, arr = ⟨d, .msg m⟩ :: rest ∧ d < Gen.Auth.helloTimeoutMs) := by
  have hs := attach_shape fx rt env arr
  unfold Shape at hs
  cases ho : (attach fx rt env arr).outcome with
  | welcome sid sess w =>
    rw [ho] at hs
    exact Or.inl ⟨sid, sess, w, rfl, hs.1, hs.2⟩
  | abort reason why =>
    rw [ho] at hs
    obtain ⟨hj, hr, hdrop, hsent⟩ := hs
    refine Or.inr (Or.inl ⟨reason, why, rfl, ?_, hj, hr, hr ▸ reasonOf_mem hdrop, hsent⟩)
    rintro ⟨sid, sess, w, hw⟩
    rw [attach_of_welcomed hw] at ho
    simp at ho
  | dropped why =>
    rw [ho] at hs
    obtain ⟨hj, hsent, hcr, hwhy⟩ := hs
    refine Or.inr (Or.inr ⟨why, rfl, ?_, hj, hsent, hcr, hwhy, ?_⟩)
    · rintro ⟨sid, sess, w, hw⟩
      rw [attach_of_welcomed hw] at ho
      simp at ho
    · rintro ⟨d, m, rest, harr, hd⟩
      subst harr
      unfold attach at ho
      rw [recvTimeout_of_msg hd] at ho
      cases m with
      | hello realm details =>
        simp only [] at ho
        split at ho
        · simp [abortWith] at ho
        · split at ho
          · simp [abortWith] at ho
          · have := attachRealm_shape fx ‹_› ‹_› env details rest
            unfold Shape at this
            rw [ho] at this
            rcases this.2.2.2 with h | h <;>
              · subst h
                unfold attachRealm at ho
                split at ho
                · simp [abortWith] at ho
                · simp only [] at ho
                  split at ho
                  · simp [abortWith] at ho
                  · split at ho <;> simp [abortWith] at ho
      | authenticate s e => simp [abortWith] at ho
      | other t => simp [abortWith] at ho

/-- `abort_reason_table`: which reason an ABORT carries. -/
theorem abort_reason_table {fx : Facts} {rt : RouterCfg} {env : Env} {arr : List Arrival}
    {reason : String} {why : Why} (h : (attach fx rt env arr).outcome = .abort reason why) :
    reason = reasonOf why ∧
    (reason = Gen.N.ErrAuthenticationFailed ↔ why.isAuth = true) := by
  have hs := attach_shape fx rt env arr
  unfold Shape at hs
  rw [h] at hs
  refine ⟨hs.2.1, ?_⟩
  rw [hs.2.1]
  have hd := hs.2.2.1
  cases why <;> simp_all [reasonOf, Why.isAuth, Why.isDrop] <;> decide

/-- `never_attached`: the session is put into the realm (client table, `on_join`) exactly when
    WELCOME is the outcome. -/
theorem never_attached (fx : Facts) (rt : RouterCfg) (env : Env) (arr : List Arrival) :
    (attach fx rt env arr).joined = true ↔ ∃ sid sess w, (attach fx rt env arr).outcome = .welcome sid sess w := by
  have hs := attach_shape fx rt env arr
  unfold Shape at hs
  cases ho : (attach fx rt env arr).outcome with
  | welcome sid sess w => rw [ho] at hs; simp [hs.1]
  | abort reason why => rw [ho] at hs; simp [hs.1]
  | dropped why => rw [ho] at hs; simp [hs.1]

/-! ## Bound to this challenge -/

/-- ticket: on the challenge path the response is exactly the ticket the key store holds for the
    claimed authid (a nil or missing ticket never matches), it arrived before the timeout, and
    the CHALLENGE was sent.  (A ticket is a bearer secret: it is not bound to a challenge.) -/
theorem ticket_response_is_stored_ticket {ks : KeyStore} {t : Nat} {env : Env} {details : Dict}
    {script : List Arrival} {w : Dict}
    (h : (ticketAuth ks t env details script).res = .ok w)
    (hb : alreadyAuth ks.bypass (details.optString "authid") details = false) :
    (ticketAuth ks t env details script).sent = [.challenge "ticket" []] ∧
    ∃ sig key, AnswersInTime (crTimeout t) script sig (ticketAuth ks t env details script).rest ∧
      ks.authKey (details.optString "authid") "ticket" = .ok (some key) ∧ sig.toUTF8.toList = key := by
  obtain ⟨_, _, hcase⟩ := ticketAuth_ok h
  rcases hcase with ⟨ha, _⟩ | ⟨_, hsent, _, sig, key, hans, hk, hs⟩
  · rw [hb] at ha; simp at ha
  · exact ⟨hsent, sig, key, hans, hk, hs⟩

/-- wampcra: on the challenge path the base64-decoded response equals
    HMAC(key the router holds for the authid, the challenge string sent in THIS handshake), where
    that string contains this handshake's nonce, timestamp and session id. -/
theorem wampcra_bound_to_this_challenge {rk : Bool} {ks : KeyStore} {t : Nat} {env : Env} {details : Dict}
    {script : List Arrival} {w : Dict}
    (h : (craAuth rk ks t env details script).res = .ok w)
    (hb : alreadyAuth ks.bypass (details.optString "authid") details = false) :
    ∃ nonce chStr sig sb,
      env.o.chalNonce = some nonce ∧
      chStr = craChallengeStr nonce ks.provider (details.optString "authid") env.o.now
                (roleOr ks (details.optString "authid") "user") env.o.sid ∧
      (craAuth rk ks t env details script).sent =
        [.challenge "wampcra" (craExtra ks (details.optString "authid") chStr)] ∧
      (craExtra ks (details.optString "authid") chStr).get? "challenge" = some (.str chStr) ∧
      AnswersInTime (crTimeout t) script sig (craAuth rk ks t env details script).rest ∧
      env.o.b64decode sig = some sb ∧
      sb = env.o.hmac (craKey rk ks env.o (details.optString "authid")) chStr := by
  obtain ⟨_, _, hcase⟩ := craAuth_ok h
  rcases hcase with ⟨ha, _⟩ | ⟨_, chStr, hsent, _, nonce, sig, sb, hn, hch, hans, hdec, heq⟩
  · rw [hb] at ha; simp at ha
  · refine ⟨nonce, chStr, sig, sb, hn, hch, hsent, ?_, hans, hdec, heq⟩
    unfold craExtra
    split <;> rfl

/-- wampcra, replay: a response that was accepted for the challenge of another handshake is
    rejected in this one whenever the two challenges have different MACs under the key (fresh
    nonce ⇒ different challenge string; distinct strings having distinct HMACs is the assumption
    on the primitive, stated as the hypothesis `hmac`). -/
theorem wampcra_replay_rejected {rk : Bool} {ks : KeyStore} {t : Nat} {env : Env} {details : Dict}
    {script : List Arrival} {sig : String} {rest : List Arrival} {otherChallenge : String} {nonce : String}
    (hn : env.o.chalNonce = some nonce)
    (hans : AnswersInTime (crTimeout t) script sig rest)
    (hb : alreadyAuth ks.bypass (details.optString "authid") details = false)
    -- the response was valid for another challenge
    (hother : ∃ sb, env.o.b64decode sig = some sb ∧
        sb = env.o.hmac (craKey rk ks env.o (details.optString "authid")) otherChallenge)
    (hmac : env.o.hmac (craKey rk ks env.o (details.optString "authid")) otherChallenge ≠
        env.o.hmac (craKey rk ks env.o (details.optString "authid"))
          (craChallengeOf ks env (details.optString "authid") nonce)) :
    ∀ w, (craAuth rk ks t env details script).res ≠ .ok w := by
  intro w h
  obtain ⟨nonce', chStr, sig', sb', hn', hch, _, _, hans', hdec', heq'⟩ := wampcra_bound_to_this_challenge h hb
  rw [hn] at hn'
  simp at hn'
  subst hn'
  obtain ⟨d, e, hs, _⟩ := hans
  obtain ⟨d', e', hs', _⟩ := hans'
  rw [hs] at hs'
  simp at hs'
  obtain ⟨⟨_, hsig, _⟩, _⟩ := hs'
  subst hsig
  obtain ⟨sb, hdec, heq⟩ := hother
  rw [hdec] at hdec'
  simp at hdec'
  subst hdec'
  apply hmac
  rw [← heq, heq', hch]
  rfl

/-- cryptosign at full strength: on the challenge path the response hex-decodes to a 96-byte
    signed message that opens under the stored public key TO THE CHALLENGE ISSUED IN THIS
    HANDSHAKE. -/
def bound_to_this_challenge_cryptosign_full (fx : Facts) : Prop :=
  ∀ (ks : KeyStore) (t : Nat) (env : Env) (details : Dict) (script : List Arrival) (w : Dict),
    (csAuth fx.csChecksChallenge fx.csRefusesEmptyKey ks t env details script).res = .ok w →
    alreadyAuth ks.bypass (details.optString "authid") details = false →
    ∃ challenge sig key sb opened,
      env.o.csChallenge = some challenge ∧
      (csAuth fx.csChecksChallenge fx.csRefusesEmptyKey ks t env details script).sent =
        [.challenge "cryptosign" [("challenge", .str (hexEncode challenge))]] ∧
      AnswersInTime (crTimeout t) script sig (csAuth fx.csChecksChallenge fx.csRefusesEmptyKey ks t env details script).rest ∧
      ks.authKey (details.optString "authid") "cryptosign" = .ok key ∧
      env.o.hexdecode sig = some sb ∧ sb.length = Gen.Auth.cryptosignSignedLen ∧
      env.o.signOpen sb (pad32 (key.getD [])) = some opened ∧
      opened = challenge ∧
      -- … and that stored public key is an actual key: a key store answer without a key (nil or
      -- empty, no error) is refused before any CHALLENGE (cryptosign.go: `err != nil || len(key) == 0`)
      (key.getD []).isEmpty = false

/-- What the code guarantees as it stands (everything but the last conjunct), for every `fx`. -/
theorem bound_to_this_challenge_cryptosign_weak (fx : Facts)
    {ks : KeyStore} {t : Nat} {env : Env} {details : Dict} {script : List Arrival} {w : Dict}
    (h : (csAuth fx.csChecksChallenge fx.csRefusesEmptyKey ks t env details script).res = .ok w)
    (hb : alreadyAuth ks.bypass (details.optString "authid") details = false) :
    ∃ challenge sig key sb opened,
      env.o.csChallenge = some challenge ∧
      (csAuth fx.csChecksChallenge fx.csRefusesEmptyKey ks t env details script).sent =
        [.challenge "cryptosign" [("challenge", .str (hexEncode challenge))]] ∧
      AnswersInTime (crTimeout t) script sig (csAuth fx.csChecksChallenge fx.csRefusesEmptyKey ks t env details script).rest ∧
      ks.authKey (details.optString "authid") "cryptosign" = .ok key ∧
      env.o.hexdecode sig = some sb ∧ sb.length = Gen.Auth.cryptosignSignedLen ∧
      env.o.signOpen sb (pad32 (key.getD [])) = some opened ∧
      (fx.csChecksChallenge = true → opened = challenge) ∧
      (fx.csRefusesEmptyKey = true → (key.getD []).isEmpty = false) := by
  obtain ⟨_, authrole, _, hcase⟩ := csAuth_ok h
  rcases hcase with ⟨ha, _⟩ | ⟨_, _, challenge, hsent, _, hc, sig, key, hans, hk, hrk, sb, opened, hd, hl, ho, himp⟩
  · rw [hb] at ha; simp at ha
  · refine ⟨challenge, sig, key, sb, opened, hc, hsent, hans, hk, hd, hl, ho, himp, ?_⟩
    intro hr
    rw [hr] at hrk
    simpa using hrk

/-- `_partial`: with the comparison in place (`checksChallenge`) and the empty-key guard in place
    (`csRefusesEmptyKey`) — both regenerated from the source — the full statement holds. -/
theorem bound_to_this_challenge_cryptosign_partial (fx : Facts) (hc : fx.csChecksChallenge = true)
    (hr : fx.csRefusesEmptyKey = true) :
    bound_to_this_challenge_cryptosign_full fx := by
  intro ks t env details script w h hb
  obtain ⟨challenge, sig, key, sb, opened, h1, h2, h3, h4, h5, h6, h7, h8, h9⟩ :=
    bound_to_this_challenge_cryptosign_weak fx h hb
  exact ⟨challenge, sig, key, sb, opened, h1, h2, h3, h4, h5, h6, h7, h8 hc, h9 hr⟩

/-! The witness of F7: a key store with one user, an oracle under which the client's response
    is a validly signed message that opens to `[2]`, while the challenge issued now is `[1]`. -/

def witnessKS : KeyStore :=
  { provider := "static", authRole := fun _ => .ok "user", authKey := fun _ _ => .ok (some [7]),
    passwordInfo := fun _ => ("", 0, 0), bypass := none }

def witnessOracle (challenge : Bytes) : Oracle :=
  { sid := 1, authidRand := 0, keyNonce := none, keyNow := "", chalNonce := none, now := "",
    csChallenge := some challenge, b64decode := fun _ => none,
    hexdecode := fun _ => some (List.replicate 96 0), hmac := fun _ _ => [],
    signOpen := fun _ _ => some [2] }

def witnessEnv (challenge : Bytes) : Env :=
  { isLocal := false, routerRoles := .null, o := witnessOracle challenge }

def witnessDetails : Dict :=
  [("roles", .dict [("caller", .dict [])]), ("authmethods", .list [.str "cryptosign"]),
   ("authid", .str "alice"), ("authrole", .str "admin")]

def witnessScript : List Arrival := [⟨0, .msg (.authenticate "captured-response" [])⟩]

/-- `_full_fails` (F7): as long as `verifySignature` does not compare the opened message with
    the challenge, the full statement is false. -/
theorem bound_to_this_challenge_cryptosign_full_fails (fx : Facts) (hc : fx.csChecksChallenge = false) :
    ¬ bound_to_this_challenge_cryptosign_full fx := by
  intro hfull
  have h := hfull witnessKS 0 (witnessEnv [1]) witnessDetails witnessScript
    (stdWelcome "alice" "user" "cryptosign" "static")
  rw [hc] at h
  obtain ⟨challenge, sig, key, sb, opened, h1, _, _, _, _, _, h7, h8, _⟩ := h (by cases fx.csRefusesEmptyKey <;> rfl) rfl
  have e1 : challenge = [1] := by
    have : (witnessEnv [1]).o.csChallenge = some [1] := rfl
    rw [this] at h1
    simp at h1
    exact h1.symm
  have e2 : opened = [2] := by
    have : (witnessEnv [1]).o.signOpen sb (pad32 (key.getD [])) = some [2] := rfl
    rw [this] at h7
    simp at h7
    exact h7.symm
  rw [e1, e2] at h8
  simp at h8

/-- the F7 key store with the key removed: `AuthKey` answers `(nil, nil)` -/
def nilKeyKS : KeyStore := { witnessKS with authKey := fun _ _ => .ok none }

/-- `_full_fails_no_key_guard` (regression lemma for the nil-key finding): as long as `Authenticate`
    goes on with a key store answer that carries no key, the full statement is false — the response
    is verified against the all-zero public key (`pad32 []`), here by an oracle under which it opens
    to this handshake's challenge `[2]`. -/
theorem bound_to_this_challenge_cryptosign_full_fails_no_key_guard (fx : Facts)
    (hr : fx.csRefusesEmptyKey = false) : ¬ bound_to_this_challenge_cryptosign_full fx := by
  intro hfull
  have h := hfull nilKeyKS 0 (witnessEnv [2]) witnessDetails witnessScript
    (stdWelcome "alice" "user" "cryptosign" "static")
  rw [hr] at h
  obtain ⟨challenge, sig, key, sb, opened, _, _, _, h4, _, _, _, _, h9⟩ :=
    h (by cases fx.csChecksChallenge <;> rfl) rfl
  have : key = none := by
    have e : nilKeyKS.authKey (witnessDetails.optString "authid") "cryptosign" = .ok none := rfl
    rw [e] at h4
    cases h4; rfl
  rw [this] at h9
  simp at h9

/-- `_gen`: for the facts regenerated from the source on this run, the full statement holds
    exactly when `verifySignature` compares the opened message with the challenge AND
    `Authenticate` refuses a key store answer without a key.  (True before and after the fixes;
    `Gen.Auth.cryptosignChecksChallenge` and `Gen.Auth.csRefusesEmptyKey` say which side applies.) -/
theorem bound_to_this_challenge_cryptosign_gen :
    bound_to_this_challenge_cryptosign_full Facts.gen ↔
      (Gen.Auth.cryptosignChecksChallenge = true ∧ Gen.Auth.csRefusesEmptyKey = true) := by
  have hg : Facts.gen.csChecksChallenge = Gen.Auth.cryptosignChecksChallenge := rfl
  have hg' : Facts.gen.csRefusesEmptyKey = Gen.Auth.csRefusesEmptyKey := rfl
  constructor
  · intro h
    refine ⟨?_, ?_⟩
    · cases hc : Gen.Auth.cryptosignChecksChallenge with
      | true => rfl
      | false => exact absurd h (bound_to_this_challenge_cryptosign_full_fails Facts.gen (hg.trans hc))
    · cases hc : Gen.Auth.csRefusesEmptyKey with
      | true => rfl
      | false => exact absurd h (bound_to_this_challenge_cryptosign_full_fails_no_key_guard Facts.gen (hg'.trans hc))
  · intro ⟨hc, hr⟩
    exact bound_to_this_challenge_cryptosign_partial Facts.gen (hg.trans hc) (hg'.trans hr)

/-- `bound_to_this_challenge_cryptosign`: THE full statement, for the source as it is now
    (`verifySignature` compares the opened message with the challenge: F7 is fixed; `Authenticate`
    refuses a key store answer without a key: the nil-key finding is fixed).  Reverting either fix
    flips `Gen.Auth.cryptosignChecksChallenge` / `Gen.Auth.csRefusesEmptyKey` and this theorem no
    longer checks. -/
theorem bound_to_this_challenge_cryptosign : bound_to_this_challenge_cryptosign_full Facts.gen :=
  bound_to_this_challenge_cryptosign_gen.mpr ⟨by decide, by decide⟩

/-- The replay, end to end, against a router with one realm whose only authenticator is
    cryptosign: the same captured response is presented in two handshakes whose challenges
    differ (`[1]` opens... the response opens to `[2]` in both).  Without the comparison both are
    welcomed; with it both are refused with `invalid signature`. -/
def witnessRouter : RouterCfg :=
  { realms := [{ uri := "r1", authenticators := [.cryptosign witnessKS 0] }], template := none }

def witnessArrivals : List Arrival := ⟨0, .msg (.hello "r1" witnessDetails)⟩ :: witnessScript

theorem cryptosign_replay_witness (fx : Facts) (hfm : fx.firstMatch = true) :
    (fx.csChecksChallenge = false →
      ∀ challenge : Bytes, ∃ sess w,
        (attach fx witnessRouter (witnessEnv challenge) witnessArrivals).outcome = .welcome 1 sess w ∧
        w.get? "authid" = some (.str "alice")) ∧
    (fx.csChecksChallenge = true →
      (attach fx witnessRouter (witnessEnv [1]) witnessArrivals).outcome =
        .abort Gen.N.ErrAuthenticationFailed .invalidSignature) := by
  obtain ⟨wnb, fm, cs, crk, csk, hs, ws, sk⟩ := fx
  simp only at hfm
  subst hfm
  constructor
  · intro hc
    simp only at hc
    subst hc
    intro challenge
    cases csk <;> exact ⟨_, _, rfl, rfl⟩
  · intro hc
    simp only at hc
    subst hc
    cases csk <;> rfl

/-- `bound_to_this_challenge`, all methods at once, at the level of `attach`: whenever WELCOME is
    the outcome and the bypass was not taken, the authenticator chosen is the first configured
    one and, unless its key store vouched for the client (`AlreadyAuth`), it accepted for the
    reason spelled out per method; the CHALLENGE it verified against is the one in the transcript
    of this handshake. -/
theorem bound_to_this_challenge {fx : Facts} (hfm : fx.firstMatch = true) {rt : RouterCfg} {env : Env}
    {arr : List Arrival} {sid : Nat} {sess w : Dict}
    (h : (attach fx rt env arr).outcome = .welcome sid sess w) :
    ∃ d realm details rest rc created,
      arr = ⟨d, .msg (.hello realm details)⟩ :: rest ∧ RealmAvailable rt realm rc created ∧
      ((env.isLocal = true ∧ rc.requireLocalAuth = false) ∨
       ∃ a method, FirstConfigured (realmAuths rc) (offeredMethods (helloDetails env details)) method a ∧
         match a with
         | .anonymous _ => (attach fx rt env arr).sent = [.welcome sid w] ∨ (attach fx rt env arr).sent = []
         | .custom _ _ => (attach fx rt env arr).sent = [.welcome sid w] ∨ (attach fx rt env arr).sent = []
         | .ticket ks t =>
           alreadyAuth ks.bypass ((helloDetails env details).optString "authid") (helloDetails env details) = true ∨
           ((attach fx rt env arr).sent = [.challenge "ticket" [], .welcome sid w] ∧
            TicketAccepts ks t env (helloDetails env details) rest (attach fx rt env arr).rest)
         | .wampcra ks t =>
           alreadyAuth ks.bypass ((helloDetails env details).optString "authid") (helloDetails env details) = true ∨
           ∃ chStr, (attach fx rt env arr).sent =
               [.challenge "wampcra" (craExtra ks ((helloDetails env details).optString "authid") chStr),
                .welcome sid w] ∧
             CraAccepts fx.craRefusesEmptyKey ks t env (helloDetails env details) rest (attach fx rt env arr).rest chStr
         | .cryptosign ks t =>
           alreadyAuth ks.bypass ((helloDetails env details).optString "authid") (helloDetails env details) = true ∨
           ∃ challenge, (attach fx rt env arr).sent =
               [.challenge "cryptosign" [("challenge", .str (hexEncode challenge))], .welcome sid w] ∧
             CsAccepts fx.csChecksChallenge fx.csRefusesEmptyKey ks t env (helloDetails env details) rest
               (attach fx rt env arr).rest challenge) := by
  obtain ⟨d, realm, details, rest, rc, created, harr, hd, hre, hav, hrole, hauth, hcl, hsid, hsess⟩ := attach_welcome h
  subst harr
  obtain ⟨hsent, _, hrest⟩ := attach_welcome_sent h hav
  refine ⟨d, realm, details, rest, rc, created, rfl, hav, ?_⟩
  rcases authClient_ok_iff.mp hauth with hloc | ⟨hn, a, method, w0, hg, hr, hw⟩
  · exact Or.inl ⟨hloc.1, hloc.2.1⟩
  · obtain ⟨hs2, hr2⟩ := authClient_via_sent (script := rest) hn hg
    rw [hs2] at hsent
    rw [hr2] at hrest
    rw [hfm] at hg
    refine Or.inr ⟨a, method, getAuthenticator_first hg, ?_⟩
    cases a with
    | anonymous role =>
      simp only [runAuth, anonymousAuth, List.nil_append] at hsent
      by_cases hq : (fx.welcomeNonBlocking && env.challengeBlocked) = true
      · rw [if_pos hq] at hsent; exact Or.inr hsent
      · rw [if_neg hq] at hsent; exact Or.inl hsent
    | custom m f =>
      simp only [runAuth, List.nil_append] at hsent
      by_cases hq : (fx.welcomeNonBlocking && env.challengeBlocked) = true
      · rw [if_pos hq] at hsent; exact Or.inr hsent
      · rw [if_neg hq] at hsent; exact Or.inl hsent
    | ticket ks t =>
      simp only [runAuth] at hr hsent hrest ⊢
      obtain ⟨_, _, hcase⟩ := ticketAuth_ok hr
      rcases hcase with ⟨ha, _⟩ | ⟨_, hs, hacc⟩
      · exact Or.inl ha
      · rw [hs] at hsent
        rw [← hrest] at hacc
        have hb : env.challengeBlocked = false := hacc.1
        exact Or.inr ⟨by simpa [hb] using hsent, hacc⟩
    | wampcra ks t =>
      simp only [runAuth] at hr hsent hrest ⊢
      obtain ⟨_, _, hcase⟩ := craAuth_ok hr
      rcases hcase with ⟨ha, _⟩ | ⟨_, chStr, hs, hacc⟩
      · exact Or.inl ha
      · rw [hs] at hsent
        rw [← hrest] at hacc
        have hb : env.challengeBlocked = false := hacc.1
        exact Or.inr ⟨chStr, by simpa [hb] using hsent, hacc⟩
    | cryptosign ks t =>
      simp only [runAuth] at hr hsent hrest ⊢
      obtain ⟨_, _, _, hcase⟩ := csAuth_ok hr
      rcases hcase with ⟨ha, _⟩ | ⟨_, _, challenge, hs, hacc⟩
      · exact Or.inl ha
      · rw [hs] at hsent
        rw [← hrest] at hacc
        have hb : env.challengeBlocked = false := hacc.1
        exact Or.inr ⟨challenge, by simpa [hb] using hsent, hacc⟩


/-! ## Identity -/

/-- The four identity details besides the session id. -/
def identityKeys : List String := ["authid", "authrole", "authmethod", "authprovider"]

/-- `identity_session`: the recorded `session` is the id the router drew, whatever HELLO says. -/
theorem identity_session {fx : Facts} {rt : RouterCfg} {env : Env} {arr : List Arrival}
    {sid : Nat} {sess w : Dict} (h : (attach fx rt env arr).outcome = .welcome sid sess w) :
    sess.get? fx.sessionKey = some (.int sid) ∧ sid = env.o.sid := by
  obtain ⟨d, realm, details, rest, rc, created, _, _, _, _, _, _, _, hsid, hsess⟩ := attach_welcome h
  subst hsess
  refine ⟨?_, hsid⟩
  rw [get?_sessDetails]
  simp

/-- `identity_exact`: every key of the recorded details, exactly: the session id; else the value
    in the WELCOME details (router + authenticator) unless the key is skipped there; else the
    value in the HELLO details unless the key is skipped there. -/
theorem identity_exact {fx : Facts} {rt : RouterCfg} {env : Env} {d : Nat} {realm : String}
    {details : Dict} {rest : List Arrival} {sid : Nat} {sess w : Dict}
    (h : (attach fx rt env (⟨d, .msg (.hello realm details)⟩ :: rest)).outcome = .welcome sid sess w)
    (k : String) :
    sess.get? k =
      if k = fx.sessionKey then some (.int sid)
      else if k ∈ fx.welcomeSkip then
        (if k ∈ fx.helloSkip then none else (helloDetails env details).get? k)
      else match w.get? k with
        | some v => some v
        | none => if k ∈ fx.helloSkip then none else (helloDetails env details).get? k := by
  obtain ⟨d', realm', details', rest', rc, created, harr, _, _, _, _, _, _, _, hsess⟩ := attach_welcome h
  simp at harr
  obtain ⟨⟨_, _, h3⟩, _⟩ := harr
  subst h3
  subst hsess
  exact get?_sessDetails _ _ _ _ _

/-- `identity_from_welcome`: WELCOME overrides HELLO.  A key the router/authenticator put into
    the WELCOME details (other than the keys skipped there, i.e. `roles`) is recorded with that
    value, for every HELLO. -/
theorem identity_from_welcome {fx : Facts} {rt : RouterCfg} {env : Env} {arr : List Arrival}
    {sid : Nat} {sess w : Dict} (h : (attach fx rt env arr).outcome = .welcome sid sess w)
    {k : String} {v : WVal} (hk : k ≠ fx.sessionKey) (hs : k ∉ fx.welcomeSkip) (hw : w.get? k = some v) :
    sess.get? k = some v := by
  obtain ⟨d, realm, details, rest, rc, created, _, _, _, _, _, _, _, _, hsess⟩ := attach_welcome h
  subst hsess
  rw [get?_sessDetails]
  simp [hk, hs, hw]

/-- `identity_roles_dropped`: a key skipped in both loops (`roles`) is never recorded, and a key
    skipped in the HELLO loop (`authmethods`) is recorded only if the authenticator supplies it. -/
theorem identity_roles_dropped {fx : Facts} {rt : RouterCfg} {env : Env} {arr : List Arrival}
    {sid : Nat} {sess w : Dict} (h : (attach fx rt env arr).outcome = .welcome sid sess w)
    {k : String} (hk : k ≠ fx.sessionKey) (hh : k ∈ fx.helloSkip)
    (hw : k ∈ fx.welcomeSkip ∨ w.get? k = none) : sess.get? k = none := by
  obtain ⟨d, realm, details, rest, rc, created, _, _, _, _, _, _, _, _, hsess⟩ := attach_welcome h
  subst hsess
  rw [get?_sessDetails]
  rcases hw with hw | hw
  · simp [hk, hh, hw]
  · by_cases hs : k ∈ fx.welcomeSkip
    · simp [hk, hh, hs]
    · simp [hk, hh, hs, hw]

/-- `identity_of_hello_skip`: a key that the HELLO merge loop skips is never taken from HELLO: what
    is recorded under it is the WELCOME's value, or nothing.  (Since "fix: identity keys in HELLO
    details are never copied into the session details" the loop skips the four identity keys and
    `session` besides `authmethods` and `roles`: `identity` below.) -/
theorem identity_of_hello_skip {fx : Facts} {rt : RouterCfg} {env : Env} {arr : List Arrival}
    {sid : Nat} {sess w : Dict} (h : (attach fx rt env arr).outcome = .welcome sid sess w)
    {k : String} (hk : k ≠ fx.sessionKey) (hh : k ∈ fx.helloSkip) :
    sess.get? k = if k ∈ fx.welcomeSkip then none else w.get? k := by
  obtain ⟨d, realm, details, rest, rc, created, _, _, _, _, _, _, _, _, hsess⟩ := attach_welcome h
  subst hsess
  rw [get?_sessDetails]
  by_cases hs : k ∈ fx.welcomeSkip
  · simp [hk, hh, hs]
  · simp only [hk, hs, hh, if_false, if_true]
    cases w.get? k <;> rfl

/-- Identity at full strength: whenever a client is welcomed, the recorded `session` is the id the
    router drew and each of authid, authrole, authmethod, authprovider in the recorded details is
    exactly what the WELCOME details built by the router and the authenticator say — the same value,
    or absent where they have none — whatever the HELLO details contain. -/
def identity_full (fx : Facts) : Prop :=
  ∀ (rt : RouterCfg) (env : Env) (arr : List Arrival) (sid : Nat) (sess w : Dict),
    (attach fx rt env arr).outcome = .welcome sid sess w →
    sess.get? "session" = some (.int sid) ∧ sid = env.o.sid ∧
    ∀ k ∈ identityKeys, sess.get? k = w.get? k

/-- `identity_full_of_skip`: the full statement holds as soon as the HELLO merge loop skips the
    four identity keys (no hypothesis on the authenticator, the key store or the HELLO). -/
theorem identity_full_of_skip {fx : Facts} (hsk : fx.sessionKey = "session") (hws : fx.welcomeSkip = ["roles"])
    (hskip : ∀ k ∈ identityKeys, k ∈ fx.helloSkip) : identity_full fx := by
  intro rt env arr sid sess w h
  have hses := identity_session h
  rw [hsk] at hses
  refine ⟨hses.1, hses.2, ?_⟩
  intro k hk
  have hne : k ≠ fx.sessionKey := by
    rw [hsk]; simp [identityKeys] at hk; rcases hk with h | h | h | h <;> subst h <;> decide
  have hnw : k ∉ fx.welcomeSkip := by
    rw [hws]; simp [identityKeys] at hk; rcases hk with h | h | h | h <;> subst h <;> decide
  rw [identity_of_hello_skip h hne (hskip k hk), if_neg hnw]

/-- `identity`: THE full identity statement for the source as it is now (the HELLO loop of
    `AttachClient` skips session, authid, authrole, authmethod, authprovider).  Removing one of
    them from that loop changes `Gen.Auth.helloSkip` and this theorem no longer checks. -/
theorem identity : identity_full Facts.gen :=
  identity_full_of_skip (by decide) (by decide) (by decide)

/-- `identity_partial`: it holds whenever the authenticator's WELCOME carries the four keys (the
    exact hypothesis; `source_welcome_literals` + `identity_builtin` show the built-in
    authenticators over plain key stores meet it, `identity_local` that the bypass does). -/
theorem identity_partial {fx : Facts} (hsk : fx.sessionKey = "session") (hws : fx.welcomeSkip = ["roles"])
    {rt : RouterCfg} {env : Env} {arr : List Arrival} {sid : Nat} {sess w : Dict}
    (h : (attach fx rt env arr).outcome = .welcome sid sess w)
    (hall : ∀ k ∈ identityKeys, (w.get? k).isSome = true) :
    ∀ k ∈ identityKeys, ∃ v, w.get? k = some v ∧ sess.get? k = some v := by
  intro k hk
  have hsome := hall k hk
  cases hv : w.get? k with
  | none => rw [hv] at hsome; simp at hsome
  | some v =>
    refine ⟨v, rfl, identity_from_welcome h ?_ ?_ hv⟩
    · rw [hsk]; simp [identityKeys] at hk; rcases hk with h | h | h | h <;> subst h <;> decide
    · rw [hws]; simp [identityKeys] at hk; rcases hk with h | h | h | h <;> subst h <;> decide

/-! Regression lemmas: with the skip list the source had before the fix (`[authmethods, roles]`)
    the full statement is false.  Witness: an authenticator that sets only `authid` (any custom
    `auth.Authenticator` may), and a HELLO that carries `authrole: "admin"`. -/

def partialRouter : RouterCfg :=
  { realms := [{ uri := "r1",
                 authenticators := [.custom "partial" (fun _ _ => .ok [("authid", .str "partial-user")])] }],
    template := none }

def smuggleDetails : Dict :=
  [("roles", .dict [("caller", .dict [])]), ("authmethods", .list [.str "partial"]),
   ("authid", .str "root"), ("authrole", .str "admin"), ("authprovider", .str "evil"),
   ("authmethod", .str "local"), ("session", .int 1234)]

def smuggleArrivals : List Arrival := [⟨0, .msg (.hello "r1" smuggleDetails)⟩]

/-- What was recorded for that handshake: the client's own `authrole` and `authprovider`. -/
theorem hello_identity_survives_old_skip_list (fx : Facts) (hfm : fx.firstMatch = true) (hsk : fx.sessionKey = "session")
    (hhs : fx.helloSkip = ["authmethods", "roles"]) (hws : fx.welcomeSkip = ["roles"]) :
    ∃ sess w, (attach fx partialRouter (witnessEnv []) smuggleArrivals).outcome = .welcome 1 sess w ∧
      w.get? "authrole" = none ∧
      sess.get? "authrole" = some (.str "admin") ∧ sess.get? "authprovider" = some (.str "evil") ∧
      sess.get? "authid" = some (.str "partial-user") ∧ sess.get? "authmethod" = some (.str "partial") ∧
      sess.get? "session" = some (.int 1) := by
  obtain ⟨wnb, fm, cs, crk, csk, hs, ws, sk⟩ := fx
  simp only at hfm hsk hhs hws
  subst hfm; subst hsk; subst hhs; subst hws
  exact ⟨_, _, rfl, rfl, rfl, rfl, rfl, rfl, rfl⟩

/-- with the old skip list a HELLO detail survived whenever the authenticator left the key unset -/
theorem identity_full_fails_old_skip_list (fx : Facts) (hfm : fx.firstMatch = true) (hsk : fx.sessionKey = "session")
    (hhs : fx.helloSkip = ["authmethods", "roles"]) (hws : fx.welcomeSkip = ["roles"]) :
    ¬ identity_full fx := by
  intro hfull
  obtain ⟨sess, w, hout, hnone, hadmin, _⟩ := hello_identity_survives_old_skip_list fx hfm hsk hhs hws
  have hv := (hfull _ _ _ _ _ _ hout).2.2 "authrole" (by simp [identityKeys])
  rw [hnone, hadmin] at hv
  simp at hv

/-- What the built-in authenticators (over key stores that are not `BypassKeyStore`s) assign:
    `(authid, authrole, authprovider)`.  It depends on HELLO only through the claimed `authid`,
    which ticket / wampcra / cryptosign verify. -/
def builtinIdentity (a : Authr) (o : Oracle) (details : Dict) : Option (String × String × String) :=
  match a with
  | .anonymous role => some (fmtHex o.authidRand, role, "static")
  | .ticket ks _ =>
    if ks.bypass.isNone then some (details.optString "authid", roleOr ks (details.optString "authid") "", ks.provider)
    else none
  | .wampcra ks _ =>
    if ks.bypass.isNone then some (details.optString "authid", roleOr ks (details.optString "authid") "user", ks.provider)
    else none
  | .cryptosign ks _ =>
    if ks.bypass.isNone then some (details.optString "authid", roleOr ks (details.optString "authid") "", ks.provider)
    else none
  | .custom _ _ => none

theorem finishWelcome_none (authid : String) (w details : Dict) :
    finishWelcome none authid w details = .ok w := rfl

theorem runAuth_builtin {fx : Facts} {a : Authr} {env : Env} {details : Dict} {script : List Arrival}
    {w0 : Dict} {aid role prov : String}
    (hb : builtinIdentity a env.o details = some (aid, role, prov))
    (hr : (runAuth fx a env details script).res = .ok w0) :
    w0.get? "authid" = some (.str aid) ∧ w0.get? "authrole" = some (.str role) ∧
    w0.get? "authprovider" = some (.str prov) := by
  cases a with
  | anonymous r =>
    simp [builtinIdentity] at hb
    obtain ⟨h1, h2, h3⟩ := hb
    subst h1; subst h2; subst h3
    simp [runAuth, anonymousAuth] at hr
    subst hr
    exact ⟨rfl, rfl, rfl⟩
  | custom m f => simp [builtinIdentity] at hb
  | ticket ks t =>
    simp only [builtinIdentity] at hb
    split at hb
    · rename_i hnone
      simp at hb
      obtain ⟨h1, h2, h3⟩ := hb
      subst h1; subst h2; subst h3
      have hbp : ks.bypass = none := by simpa using hnone
      simp only [runAuth] at hr
      obtain ⟨_, hfin, _⟩ := ticketAuth_ok hr
      rw [hbp, finishWelcome_none] at hfin
      simp at hfin
      subst hfin
      exact ⟨rfl, rfl, rfl⟩
    · simp at hb
  | wampcra ks t =>
    simp only [builtinIdentity] at hb
    split at hb
    · rename_i hnone
      simp at hb
      obtain ⟨h1, h2, h3⟩ := hb
      subst h1; subst h2; subst h3
      have hbp : ks.bypass = none := by simpa using hnone
      simp only [runAuth] at hr
      obtain ⟨_, hfin, _⟩ := craAuth_ok hr
      rw [hbp, finishWelcome_none] at hfin
      simp at hfin
      subst hfin
      exact ⟨rfl, rfl, rfl⟩
    · simp at hb
  | cryptosign ks t =>
    simp only [builtinIdentity] at hb
    split at hb
    · rename_i hnone
      simp at hb
      obtain ⟨h1, h2, h3⟩ := hb
      subst h1; subst h2; subst h3
      have hbp : ks.bypass = none := by simpa using hnone
      simp only [runAuth] at hr
      obtain ⟨_, authrole, hrole, hcase⟩ := csAuth_ok hr
      have hro : roleOr ks (details.optString "authid") "" = authrole := by simp [roleOr, hrole]
      rcases hcase with ⟨_, _, hfin⟩ | ⟨_, hw, _⟩
      · rw [hbp, finishWelcome_none] at hfin
        simp at hfin
        subst hfin
        rw [hro]
        exact ⟨rfl, rfl, rfl⟩
      · subst hw
        rw [hro]
        exact ⟨rfl, rfl, rfl⟩
    · simp at hb

/-- `identity_builtin`: for the built-in authenticators the recorded authid / authrole /
    authprovider / authmethod / session are the authenticator's and the router's values, for every
    HELLO details dict (smuggled `session`, `authrole`, `authmethod`, `authprovider` are overridden). -/
theorem identity_builtin {fx : Facts} (hfm : fx.firstMatch = true) (hsk : fx.sessionKey = "session")
    (hws : fx.welcomeSkip = ["roles"])
    {rt : RouterCfg} {env : Env} {d : Nat} {realm : String} {details : Dict} {rest : List Arrival}
    {rc : RealmCfg} {created : Option RealmCfg} {sid : Nat} {sess w : Dict}
    (h : (attach fx rt env (⟨d, .msg (.hello realm details)⟩ :: rest)).outcome = .welcome sid sess w)
    (hav : RealmAvailable rt realm rc created)
    (hnb : ¬ (env.isLocal = true ∧ rc.requireLocalAuth = false))
    {a : Authr} {method aid role prov : String}
    (hfc : FirstConfigured (realmAuths rc) (offeredMethods (helloDetails env details)) method a)
    (hbi : builtinIdentity a env.o (helloDetails env details) = some (aid, role, prov)) :
    sess.get? "session" = some (.int sid) ∧ sid = env.o.sid ∧
    sess.get? "authid" = some (.str aid) ∧ sess.get? "authrole" = some (.str role) ∧
    sess.get? "authprovider" = some (.str prov) ∧ sess.get? "authmethod" = some (.str method) := by
  have hses := identity_session h
  rw [hsk] at hses
  obtain ⟨d', realm', details', rest', rc', created', harr, _, _, hav', _, hauth, _, _, _⟩ := attach_welcome h
  simp at harr
  obtain ⟨⟨_, h2, h3⟩, h4⟩ := harr
  subst h2; subst h3; subst h4
  have e := (lookupRealm_ok_iff.mpr hav).symm.trans (lookupRealm_ok_iff.mpr hav')
  simp at e
  obtain ⟨e1, _⟩ := e
  subst e1
  rcases authClient_ok_iff.mp hauth with hloc | ⟨_, a', method', w0, hg, hr, hw⟩
  · exact absurd ⟨hloc.1, hloc.2.1⟩ hnb
  · rw [hfm, getAuthenticator_of_first hfc] at hg
    simp at hg
    obtain ⟨ea, em⟩ := hg
    subst ea; subst em
    obtain ⟨g1, g2, g3⟩ := runAuth_builtin hbi hr
    have hk : ∀ k : String, k ≠ "session" → k ≠ "roles" → ∀ v, w.get? k = some v → sess.get? k = some v := by
      intro k k1 k2 v hv
      exact identity_from_welcome h (by rw [hsk]; exact k1) (by rw [hws]; simpa using k2) hv
    have hwget : ∀ k : String, k ≠ "authmethod" → k ≠ "roles" → w.get? k = w0.get? k := by
      intro k k1 k2
      rw [hw, get?_set_ne _ _ k2, get?_set_ne _ _ k1]
    have hm : w.get? "authmethod" = some (.str method) := by
      rw [hw, get?_set_ne _ _ (by decide), get?_set_self]
    refine ⟨hses.1, hses.2, ?_, ?_, ?_, ?_⟩
    · exact hk _ (by decide) (by decide) _ (by rw [hwget _ (by decide) (by decide)]; exact g1)
    · exact hk _ (by decide) (by decide) _ (by rw [hwget _ (by decide) (by decide)]; exact g2)
    · exact hk _ (by decide) (by decide) _ (by rw [hwget _ (by decide) (by decide)]; exact g3)
    · exact hk _ (by decide) (by decide) _ hm

/-- `identity_local`: the bypass records authrole `trusted`, authmethod `local`, authprovider
    `static` whatever HELLO says — and as authid the one the client wrote into HELLO, when it is a
    non-empty string (else a random one). -/
theorem identity_local {fx : Facts} (hsk : fx.sessionKey = "session") (hws : fx.welcomeSkip = ["roles"])
    {rt : RouterCfg} {env : Env} {d : Nat} {realm : String} {details : Dict} {rest : List Arrival}
    {rc : RealmCfg} {created : Option RealmCfg} {sid : Nat} {sess w : Dict}
    (h : (attach fx rt env (⟨d, .msg (.hello realm details)⟩ :: rest)).outcome = .welcome sid sess w)
    (hav : RealmAvailable rt realm rc created)
    (hl : env.isLocal = true) (hr : rc.requireLocalAuth = false) :
    sess.get? "session" = some (.int sid) ∧
    sess.get? "authrole" = some (.str "trusted") ∧ sess.get? "authmethod" = some (.str "local") ∧
    sess.get? "authprovider" = some (.str "static") ∧
    sess.get? "authid" = some (.str (if (helloDetails env details).optString "authid" = ""
      then fmtHex env.o.authidRand else (helloDetails env details).optString "authid")) := by
  have hses := identity_session h
  rw [hsk] at hses
  obtain ⟨d', realm', details', rest', rc', created', harr, _, _, hav', _, hauth, _, _, _⟩ := attach_welcome h
  simp at harr
  obtain ⟨⟨_, h2, h3⟩, h4⟩ := harr
  subst h2; subst h3; subst h4
  have e := (lookupRealm_ok_iff.mpr hav).symm.trans (lookupRealm_ok_iff.mpr hav')
  simp at e
  obtain ⟨e1, _⟩ := e
  subst e1
  rcases authClient_ok_iff.mp hauth with ⟨_, _, hw⟩ | ⟨hn, _⟩
  · have hk : ∀ k : String, k ≠ "session" → k ≠ "roles" → ∀ v, w.get? k = some v → sess.get? k = some v := by
      intro k k1 k2 v hv
      exact identity_from_welcome h (by rw [hsk]; exact k1) (by rw [hws]; simpa using k2) hv
    refine ⟨hses.1, ?_, ?_, ?_, ?_⟩
    · exact hk _ (by decide) (by decide) _ (by rw [hw]; rfl)
    · exact hk _ (by decide) (by decide) _ (by rw [hw]; rfl)
    · exact hk _ (by decide) (by decide) _ (by rw [hw]; rfl)
    · refine hk _ (by decide) (by decide) _ ?_
      rw [hw]
      simp only [localWelcome, get?_cons, if_true]
      by_cases he : (helloDetails env details).optString "authid" = "" <;> simp [he]
  · exact absurd ⟨hl, hr⟩ hn

/-- The literal reading of the property for the bypass: the recorded authid is router-made. -/
def identity_local_authid_full (fx : Facts) : Prop :=
  ∀ (rt : RouterCfg) (env : Env) (d : Nat) (realm : String) (details : Dict) (rest : List Arrival)
    (rc : RealmCfg) (created : Option RealmCfg) (sid : Nat) (sess w : Dict),
    (attach fx rt env (⟨d, .msg (.hello realm details)⟩ :: rest)).outcome = .welcome sid sess w →
    RealmAvailable rt realm rc created → env.isLocal = true → rc.requireLocalAuth = false →
    sess.get? "authid" = some (.str (fmtHex env.o.authidRand))

/-- `identity_local_authid_full_fails`: false — an in-process client names itself (`authid` is
    read from HELLO by the bypass; `Gen.Auth.localAuthidFromHello`). -/
theorem identity_local_authid_full_fails (fx : Facts) (hsk : fx.sessionKey = "session")
    (hws : fx.welcomeSkip = ["roles"]) : ¬ identity_local_authid_full fx := by
  intro hfull
  let rt : RouterCfg := { realms := [{ uri := "r1" }], template := none }
  let env : Env := { witnessEnv [] with isLocal := true }
  have hav : RealmAvailable rt "r1" { uri := "r1" } none := ⟨rfl, rfl, Or.inl ⟨rfl, rfl⟩⟩
  have hout : ∃ sess w, (attach fx rt env (⟨0, .msg (.hello "r1" smuggleDetails)⟩ :: [])).outcome = .welcome 1 sess w :=
    ⟨_, _, rfl⟩
  obtain ⟨sess, w, hout⟩ := hout
  have h1 := hfull rt env 0 "r1" smuggleDetails [] _ none 1 sess w hout hav rfl rfl
  have h2 : sess.get? "authid" = some (.str "root") := (identity_local hsk hws hout hav rfl rfl).2.2.2.2
  rw [h1] at h2
  have h3 : fmtHex env.o.authidRand = "root" := by simpa using h2
  exact absurd h3 (by decide)

/-! ## Shown to others -/

theorem get?_pick (d : Dict) (l : List String) (acc : Dict) (k : String) :
    Dict.get? (l.foldl (fun (acc : Dict) k => match d.get? k with | some v => acc.set k v | none => acc) acc) k =
      if k ∈ l then (match d.get? k with | some v => some v | none => acc.get? k) else acc.get? k := by
  induction l generalizing acc with
  | nil => simp
  | cons x xs ih =>
    simp only [List.foldl_cons]
    rw [ih]
    by_cases hx : k = x
    · subst hx
      cases hd : d.get? k with
      | none => simp
      | some v => simp [get?_set_self]
    · have hx' : ¬ x = k := fun e => hx e.symm
      cases hd : d.get? x with
      | none => simp [hx]
      | some v => simp [hx, get?_set_ne _ _ hx]

/-- `clean_preserves_identity`: what `wamp.session.get` and `wamp.session.on_join` show for the
    session id and the four identity keys is what is recorded (MetaStrict or not). -/
theorem clean_preserves_identity (metaStrict : Bool) (inc : List String) (details : Dict)
    {k : String} (hk : k ∈ "session" :: identityKeys) :
    (cleanSessionDetails metaStrict inc details).get? k = details.get? k := by
  have hstd : k ∈ Gen.Auth.metaStdItems := by
    simp [identityKeys] at hk
    rcases hk with h | h | h | h | h <;> subst h <;> decide
  have hnt : k ≠ "transport" := by
    simp [identityKeys] at hk
    rcases hk with h | h | h | h | h <;> subst h <;> decide
  have hclean : Dict.get? (if metaStrict then
      (Gen.Auth.metaStdItems ++ inc).foldl
        (fun (acc : Dict) k => match details.get? k with | some v => acc.set k v | none => acc) []
      else details) k = details.get? k := by
    cases metaStrict with
    | false => rfl
    | true =>
      simp only [if_true]
      rw [get?_pick]
      have : k ∈ Gen.Auth.metaStdItems ++ inc := List.mem_append_left _ hstd
      simp only [this, if_true]
      cases details.get? k <;> rfl
  unfold cleanSessionDetails
  simp only []
  split
  · exact hclean
  · split
    · exact hclean
    · rw [get?_set_ne _ _ hnt]
      exact hclean


theorem filter_get?_none (t : Dict) (k : String) :
    Dict.get? (t.filter (fun kv => kv.1 != k)) k = none := by
  induction t with
  | nil => rfl
  | cons p rest ih =>
    obtain ⟨k1, v1⟩ := p
    by_cases h : k1 = k
    · subst h; simpa [List.filter] using ih
    · have hb : (k1 != k) = true := by simpa using h
      simp only [List.filter, hb]
      rw [get?_cons, if_neg h]
      exact ih

/-- `clean_hides_transport_auth`: when `transport.auth` is a dictionary (what the websocket
    server supplies), nobody is shown it. -/
theorem clean_hides_transport_auth (metaStrict : Bool) (inc : List String) (details : Dict) {t a : Dict}
    (ht : details.get? "transport" = some (.dict t)) (ha : t.get? "auth" = some (.dict a)) :
    ∀ t' : Dict, (cleanSessionDetails metaStrict inc details).get? "transport" = some (.dict t') →
      t'.get? "auth" = none := by
  intro t' h
  unfold cleanSessionDetails at h
  simp only [dictChild, ht, ha] at h
  rw [get?_set_self] at h
  split at h
  · simp at h
  · simp at h
    subst h
    exact filter_get?_none t "auth"

/-- ... but a `transport.auth` that is not a dictionary is shown as it is (`DictChild` treats it as
    absent).  Only a client can produce that, by writing `transport` into its own HELLO on a
    transport that supplies no details (rawsocket, in-process): the value shown is its own. -/
theorem clean_transport_auth_non_dict_shown :
    (cleanSessionDetails false [] [("transport", .dict [("auth", .str "secret")])]).get? "transport" =
      some (.dict [("auth", .str "secret")]) := rfl

/-! ## Nothing a refused client sends is read -/

/-- `refused_reads_nothing_more`: the router takes the client's actions in order; what it has not
    read when the handshake ends (`rest`) is a suffix of the script, and when the outcome is not
    WELCOME no session handler exists that could read it later (`joined = false`, `never_attached`),
    the peer having been closed right after the ABORT. -/
theorem refused_reads_nothing_more (fx : Facts) (rt : RouterCfg) (env : Env) (arr : List Arrival) :
    (∃ consumed, arr = consumed ++ (attach fx rt env arr).rest) ∧
    ((¬ ∃ sid sess w, (attach fx rt env arr).outcome = .welcome sid sess w) →
      (attach fx rt env arr).joined = false) := by
  refine ⟨?_, ?_⟩
  · obtain ⟨pre, h⟩ := attach_suffix fx rt env arr
    exact ⟨pre, h.symm⟩
  · intro h
    cases hj : (attach fx rt env arr).joined with
    | false => rfl
    | true => exact absurd ((never_attached fx rt env arr).mp hj) h

/-! ## Non-vacuity: concrete handshakes that meet the hypotheses above -/

def exKS : KeyStore :=
  { provider := "static",
    authRole := fun a => if a = "alice" ∨ a = "bob" then .ok "user" else .error "no such user",
    authKey := fun a m =>
      if a = "alice" then .ok (some (if m = "ticket" then "t1".toUTF8.toList else [1, 2, 3]))
      else if a = "bob" then .ok none        -- a nil ticket
      else .error "no key",
    passwordInfo := fun _ => ("", 0, 0), bypass := none }

/-- base64 of the client's answer decodes to `[9]`, which is the HMAC of every message (a toy MAC) -/
def exOracle : Oracle :=
  { sid := 42, authidRand := 255, keyNonce := some "k", keyNow := "", chalNonce := some "N", now := "T",
    csChallenge := some [1], b64decode := fun s => if s = "good" then some [9] else none,
    hexdecode := fun _ => none, hmac := fun _ _ => [9], signOpen := fun _ _ => none }

def exEnv : Env := { isLocal := false, routerRoles := .null, o := exOracle }

def exRouter : RouterCfg :=
  { realms := [{ uri := "r1", authenticators := [.ticket exKS 0, .wampcra exKS 0], anonymousAuth := true }],
    template := none }

def exHello (methods : List WVal) (authid : String) : ClientMsg :=
  .hello "r1" [("roles", .dict [("callee", .null)]), ("authmethods", .list methods), ("authid", .str authid),
               ("authrole", .str "admin")]

/-- ticket: the right ticket, 1 ms before the timeout, is accepted under the key store's role -/
example : (ticketAuth exKS 0 exEnv [("authid", .str "alice"), ("authrole", .str "admin")]
      [⟨59999, .msg (.authenticate "t1" [])⟩]).res = .ok (stdWelcome "alice" "user" "ticket" "static") := by
  simp [ticketAuth, exchange, recvTimeout, crTimeout, Gen.Auth.defaultCRAuthTimeoutMs, andThen, ticketMatches,
    storedTicket, exKS, exEnv, alreadyAuth, finishWelcome, roleOr, Dict.optString, Dict.get?]

/-- the first offered method that has an authenticator is the one used (here: the CHALLENGE is
    for ticket although wampcra is configured too and `3`, `nope` come first) -/
example :
    (attach Facts.gen exRouter exEnv [⟨0, .msg (exHello [.int 3, .str "nope", .str "ticket", .str "wampcra"] "alice")⟩]).sent
      = [.challenge "ticket" [], .abort Gen.N.ErrAuthenticationFailed] := rfl

/-- a user whose stored ticket is nil is refused whatever is presented -/
example :
    (attach Facts.gen exRouter exEnv [⟨0, .msg (exHello [.str "ticket"] "bob")⟩,
      ⟨0, .msg (.authenticate "" [])⟩]).outcome = .abort Gen.N.ErrAuthenticationFailed .invalidTicket := rfl

/-- too late by one millisecond -/
example :
    (attach Facts.gen exRouter exEnv [⟨0, .msg (exHello [.str "ticket"] "alice")⟩,
      ⟨60000, .msg (.authenticate "t1" [])⟩]).outcome = .abort Gen.N.ErrAuthenticationFailed .recvTimeout := rfl

/-- wampcra: accepted; a response that does not decode is refused -/
example : ∃ sess w,
    (attach Facts.gen exRouter exEnv [⟨0, .msg (exHello [.str "wampcra"] "alice")⟩,
      ⟨0, .msg (.authenticate "good" [])⟩]).outcome = .welcome 42 sess w := ⟨_, _, rfl⟩
example :
    (attach Facts.gen exRouter exEnv [⟨0, .msg (exHello [.str "wampcra"] "alice")⟩,
      ⟨0, .msg (.authenticate "bad" [])⟩]).outcome = .abort Gen.N.ErrAuthenticationFailed .invalidSignature := rfl

set_option maxRecDepth 20000 in
/-- the wampcra challenge of this handshake: nonce, timestamp and session id of THIS handshake -/
example : craChallengeStr "N" "static" "alice" "T" "user" 42 =
    "{ \"nonce\":\"N\", \"authprovider\":\"static\", \"authid\":\"alice\", \"timestamp\":\"T\", \"authrole\":\"user\", \"authmethod\":\"wampcra\", \"session\":42 }" := by
  decide

/-- anonymous when no method is offered; `authmethods` of the wrong type counts as none; a role
    announced with a non-dict value counts -/
example : ∃ sess w,
    (attach Facts.gen exRouter exEnv
      [⟨4999, .msg (.hello "r1" [("roles", .dict [("caller", .int 7)]), ("authmethods", .str "ticket")])⟩]).outcome
      = .welcome 42 sess w ∧ sess.get? "authid" = some (.str "ff") ∧ sess.get? "authmethod" = some (.str "anonymous") := by
  refine ⟨_, _, rfl, ?_, ?_⟩ <;> rfl

/-- no client role; silence; no such realm; a non-HELLO first message -/
example : (attach Facts.gen exRouter exEnv [⟨0, .msg (.hello "r1" [("roles", .dict [("broker", .dict [])])])⟩]).outcome
    = .abort Gen.N.ErrNoSuchRole .noRoles := rfl
example : (attach Facts.gen exRouter exEnv [⟨5000, .msg (exHello [] "alice")⟩]).outcome = .dropped .helloTimeout := rfl
example : (attach Facts.gen exRouter exEnv [⟨0, .msg (.hello "nx" [("roles", .dict [("caller", .dict [])])])⟩]).outcome
    = .abort Gen.N.ErrNoSuchRealm .noSuchRealm := rfl
example : (attach Facts.gen exRouter exEnv [⟨0, .msg (.other 16)⟩]).outcome
    = .abort Gen.N.ErrProtocolViolation (.notHello 16) := rfl

/-! ## Replays, method by method (audit D: a1, a2, a3) -/

/-! ### ticket: a recorded DEVIATION from "a response captured from another handshake never succeeds" -/

/-- `TicketAuthenticator.Authenticate` reads nothing of the handshake it runs in — not the session
    id, not a nonce, not the clock, no cryptographic oracle — except whether the CHALLENGE can be
    queued: its whole result (transcript, verdict, unread client actions) is the same in any two
    handshakes.  (ticket.go: the CHALLENGE carries no extra, `authRsp.Signature` is compared with
    `string(ticket)`, ticket.go:103.) -/
theorem ticketAuth_env_irrelevant (ks : KeyStore) (t : Nat) (env₁ env₂ : Env) (details : Dict)
    (script : List Arrival) (hb : env₁.challengeBlocked = env₂.challengeBlocked) :
    ticketAuth ks t env₁ details script = ticketAuth ks t env₂ details script := by
  unfold ticketAuth
  rw [hb]

/-- `ticket_replay_accepted` (audit D a1/d4) — DEVIATION, recorded.  The property text says that for
    the challenge methods "(wampcra, ticket, cryptosign) … a response captured from another handshake
    never succeeds".  For ticket the opposite holds: whatever the client sent in a handshake (`env₁`)
    in which the ticket authenticator accepted it, the same client actions are accepted, with the
    same WELCOME details, in EVERY other handshake (`env₂`: any session id, nonces, clock, oracle)
    whose CHALLENGE can be queued.  Faithful to Go and to the WAMP specification: a ticket is a
    bearer secret, the ticket CHALLENGE is empty and there is nothing for the response to be bound
    to.  The clause of the property holds for wampcra (`wampcra_replay_rejected'`) and cryptosign
    (`cryptosign_replay_rejected`) only; `replay_never_succeeds_ticket_full_fails` is its refutation
    for ticket. -/
theorem ticket_replay_accepted {ks : KeyStore} {t : Nat} {env₁ env₂ : Env} {details : Dict}
    {script : List Arrival} {w : Dict}
    (h : (ticketAuth ks t env₁ details script).res = .ok w)
    (hsend : env₂.challengeBlocked = false) :
    (ticketAuth ks t env₂ details script).res = .ok w := by
  obtain ⟨ha, hfin, hcase⟩ := ticketAuth_ok h
  rcases hcase with ⟨hal, _⟩ | ⟨_, _, hb1, _⟩
  · simp only [ticketAuth, beq_iff_eq, ha, hal, if_true, if_false]
    exact hfin
  · rw [← ticketAuth_env_irrelevant ks t env₁ env₂ details script (hb1.trans hsend.symm)]
    exact h

/-- The clause of the property, read literally for ticket: a response that the ticket authenticator
    accepted (on the challenge path) in one handshake is refused in a handshake with another
    session id. -/
def replay_never_succeeds_ticket_full : Prop :=
  ∀ (ks : KeyStore) (t : Nat) (env₁ env₂ : Env) (details : Dict) (script : List Arrival) (w : Dict),
    (ticketAuth ks t env₁ details script).res = .ok w →
    alreadyAuth ks.bypass (details.optString "authid") details = false →
    env₂.o.sid ≠ env₁.o.sid →
    ∀ w', (ticketAuth ks t env₂ details script).res ≠ .ok w'

/-- another handshake: other session id, other nonce, other clock, other random authid -/
def exEnv' : Env :=
  { exEnv with o := { exOracle with sid := 43, chalNonce := some "N'", now := "T'", authidRand := 7 } }

/-- `replay_never_succeeds_ticket_full_fails`: that literal reading is FALSE (of the model and of the
    Go code alike; not a defect — see `ticket_replay_accepted`).  Witness: alice's ticket `t1`,
    presented in the handshake with session id 42 and again in the one with session id 43. -/
theorem replay_never_succeeds_ticket_full_fails : ¬ replay_never_succeeds_ticket_full := by
  intro hfull
  have h1 : (ticketAuth exKS 0 exEnv [("authid", .str "alice")] [⟨0, .msg (.authenticate "t1" [])⟩]).res =
      .ok (stdWelcome "alice" "user" "ticket" "static") := by
    simp [ticketAuth, exchange, recvTimeout, crTimeout, Gen.Auth.defaultCRAuthTimeoutMs, andThen, ticketMatches,
      storedTicket, exKS, exEnv, alreadyAuth, finishWelcome, roleOr, Dict.optString, Dict.get?]
  exact hfull exKS 0 exEnv exEnv' _ _ _ h1 rfl (by decide) _ (ticket_replay_accepted h1 rfl)

/-- the hypotheses of `ticket_replay_accepted` are met by that pair of handshakes -/
example : (ticketAuth exKS 0 exEnv' [("authid", .str "alice")] [⟨0, .msg (.authenticate "t1" [])⟩]).res =
    .ok (stdWelcome "alice" "user" "ticket" "static") :=
  ticket_replay_accepted (env₁ := exEnv)
    (by simp [ticketAuth, exchange, recvTimeout, crTimeout, Gen.Auth.defaultCRAuthTimeoutMs, andThen,
          ticketMatches, storedTicket, exKS, exEnv, alreadyAuth, finishWelcome, roleOr, Dict.optString, Dict.get?])
    rfl

/-- the two client messages of the replay: HELLO as alice offering ticket, AUTHENTICATE with `t1` -/
def ticketReplayArrivals : List Arrival :=
  [⟨0, .msg (exHello [.str "ticket"] "alice")⟩, ⟨0, .msg (.authenticate "t1" [])⟩]

/-- `ticket_replay_witness`: the same, end to end through `attach`: against the router `exRouter`
    the SAME two client messages are welcomed as alice in every handshake of a remote peer —
    whatever session id the router draws, whatever its nonces, clock and crypto answer. -/
theorem ticket_replay_witness (env : Env) (hl : env.isLocal = false) (ht : env.transport = [])
    (hb : env.challengeBlocked = false) :
    ∃ sess, (attach Facts.gen exRouter env ticketReplayArrivals).outcome =
        .welcome env.o.sid sess
          (((stdWelcome "alice" "user" "ticket" "static").set "authmethod" (.str "ticket")).set "roles"
            env.routerRoles) ∧
      sess.get? "authid" = some (.str "alice") := by
  have h : ∃ sess, (attach Facts.gen exRouter env ticketReplayArrivals).outcome =
        .welcome env.o.sid sess
          (((stdWelcome "alice" "user" "ticket" "static").set "authmethod" (.str "ticket")).set "roles"
            env.routerRoles) := by
    refine ⟨_, attach_of_welcomed ⟨0, "r1", _, _, _, none, rfl, by decide, by decide,
      ⟨rfl, rfl, Or.inl ⟨rfl, rfl⟩⟩, rfl, ?_, rfl, rfl, rfl⟩⟩
    refine authClient_ok_iff.mpr (Or.inr ⟨by simp [hl], .ticket exKS 0, "ticket", _, ?_, ?_, rfl⟩)
    · simp only [helloDetails, ht]; rfl
    · simp [runAuth, helloDetails, ht, ticketAuth, exchange, recvTimeout, crTimeout,
        Gen.Auth.defaultCRAuthTimeoutMs, andThen, ticketMatches, storedTicket, exKS, hb, alreadyAuth,
        finishWelcome, roleOr, Dict.optString, Dict.get?]
  obtain ⟨sess, h⟩ := h
  exact ⟨sess, h, identity_from_welcome h (by decide) (by decide) rfl⟩

example : ∃ sess w, (attach Facts.gen exRouter exEnv ticketReplayArrivals).outcome = .welcome 42 sess w ∧
    sess.get? "authid" = some (.str "alice") :=
  let ⟨sess, h, ha⟩ := ticket_replay_witness exEnv rfl rfl rfl; ⟨sess, _, h, ha⟩
example : ∃ sess w, (attach Facts.gen exRouter exEnv' ticketReplayArrivals).outcome = .welcome 43 sess w ∧
    sess.get? "authid" = some (.str "alice") :=
  let ⟨sess, h, ha⟩ := ticket_replay_witness exEnv' rfl rfl rfl; ⟨sess, _, h, ha⟩

/-! ### wampcra: a replay from a handshake with another session id is refused -/

/-- `craChallengeStr_sid_inj` (audit D a2/d2): the challenge string `makeChallengeStr` renders
    determines the session id it was rendered for — two challenge strings that are equal were made
    for the same session id, whatever nonce, provider, authid, timestamp and authrole went into them
    (hostile ones included: they all come before the last `:` of the string, and the regenerated
    format `Gen.Auth.craChallengeFormat` ends in `"session":%d }`).  Since the router draws a fresh
    session id per handshake (`wamp.GlobalID`, C19), challenge strings of different handshakes
    differ.  Proof: Nexus/Auth/WpDChallenge.lean. -/
theorem craChallengeStr_sid_inj {n p a t r n' p' a' t' r' : String} {s₁ s₂ : Nat}
    (h : craChallengeStr n p a t r s₁ = craChallengeStr n' p' a' t' r' s₂) : s₁ = s₂ :=
  Auth.WpD.craChallengeStr_sid_inj h

/-- `wampcra_replay_rejected'` (audit D a2/d2): `wampcra_replay_rejected` with its bundled hypothesis
    split into the part that is a property of the code and the part that is an assumption on the
    primitive.  A response that is the MAC (under the key the router holds for the claimed authid)
    of the challenge string of a handshake with ANOTHER SESSION ID — any nonce, provider, authid,
    timestamp, authrole — is refused in this handshake, provided only that (ii) the MAC is injective
    for this key (`hinj`: distinct messages have distinct MACs — the collision-resistance assumption,
    out of scope as in the trusted base) and (i) the session ids differ (`hsid`).  The other
    hypotheses merely say what a replay is: the response arrives in time (`hans`), the key store did
    not vouch for the client without a challenge (`hb`, the `AlreadyAuth` exception), and the
    response was valid for that other challenge (`hother`). -/
theorem wampcra_replay_rejected' {rk : Bool} {ks : KeyStore} {t : Nat} {env : Env} {details : Dict}
    {script : List Arrival} {sig : String} {rest : List Arrival}
    {otherNonce otherProvider otherAuthid otherTs otherRole : String} {otherSid : Nat}
    (hans : AnswersInTime (crTimeout t) script sig rest)
    (hb : alreadyAuth ks.bypass (details.optString "authid") details = false)
    (hother : ∃ sb, env.o.b64decode sig = some sb ∧
        sb = env.o.hmac (craKey rk ks env.o (details.optString "authid"))
          (craChallengeStr otherNonce otherProvider otherAuthid otherTs otherRole otherSid))
    (hsid : otherSid ≠ env.o.sid)
    (hinj : ∀ a b, env.o.hmac (craKey rk ks env.o (details.optString "authid")) a =
        env.o.hmac (craKey rk ks env.o (details.optString "authid")) b → a = b) :
    ∀ w, (craAuth rk ks t env details script).res ≠ .ok w := by
  intro w h
  obtain ⟨nonce, _, _, _, hn, _⟩ := wampcra_bound_to_this_challenge h hb
  refine wampcra_replay_rejected hn hans hb hother ?_ w h
  intro e
  exact hsid (craChallengeStr_sid_inj (hinj _ _ e))

/-- a toy MAC that is injective in the message (the UTF-8 bytes of the message; the key is ignored)
    and a toy base64 (the UTF-8 bytes of the text) -/
def injOracle (sid : Nat) (nonce : String) : Oracle :=
  { exOracle with sid := sid, chalNonce := some nonce,
                  b64decode := fun s => some s.toUTF8.data.toList,
                  hmac := fun _ m => m.toUTF8.data.toList }

/-- that toy MAC is injective in the message, for every key (hypothesis `hinj` below is satisfiable) -/
theorem injOracle_hmac_inj (sid : Nat) (nonce : String) (k : Bytes) (a b : String)
    (h : (injOracle sid nonce).hmac k a = (injOracle sid nonce).hmac k b) : a = b := by
  have h1 : a.toUTF8.data.toList = b.toUTF8.data.toList := h
  have h2 : a.toUTF8.data = b.toUTF8.data := Array.toList_inj.mp h1
  have h3 : a.toUTF8 = b.toUTF8 := by
    cases ha : a.toUTF8; cases hb : b.toUTF8; rw [ha, hb] at h2; simp at h2; rw [h2]
  exact String.toByteArray_inj.mp h3

/-- the hypotheses of `wampcra_replay_rejected'` are satisfiable: under the injective toy MAC, the
    response that was valid in ANY handshake with session id 41 (whatever its nonce, timestamp, …)
    is refused in the handshake with session id 42 -/
example (n1 p a ts r : String) : ∀ w,
    (craAuth Facts.gen.craRefusesEmptyKey exKS 0 { exEnv with o := injOracle 42 "N2" } [("authid", .str "alice")]
      [⟨0, .msg (.authenticate (craChallengeStr n1 p a ts r 41) [])⟩]).res ≠ .ok w :=
  wampcra_replay_rejected' (otherNonce := n1) (otherProvider := p) (otherAuthid := a)
    (otherTs := ts) (otherRole := r) (otherSid := 41)
    ⟨0, [], rfl, by decide⟩ rfl ⟨_, rfl, by simp only [injOracle]⟩ (by decide) (injOracle_hmac_inj 42 "N2" _)

/-! ### cryptosign: a signature that opens to another challenge is refused -/

/-- `cryptosign_replay_rejected_of_checks`: for every `fx` whose `verifySignature` compares the opened
    message with the challenge. -/
theorem cryptosign_replay_rejected_of_checks {fx : Facts} (hcc : fx.csChecksChallenge = true)
    {ks : KeyStore} {t : Nat} {env : Env} {details : Dict} {script : List Arrival}
    {sig : String} {rest : List Arrival} {key : Option Bytes} {sb other : Bytes}
    (hans : AnswersInTime (crTimeout t) script sig rest)
    (hb : alreadyAuth ks.bypass (details.optString "authid") details = false)
    (hk : ks.authKey (details.optString "authid") "cryptosign" = .ok key)
    (hd : env.o.hexdecode sig = some sb)
    (ho : env.o.signOpen sb (pad32 (key.getD [])) = some other)
    (hne : env.o.csChallenge ≠ some other) :
    ∀ w, (csAuth fx.csChecksChallenge fx.csRefusesEmptyKey ks t env details script).res ≠ .ok w := by
  intro w h
  obtain ⟨challenge, sig', key', sb', opened, hc, _, hans', hk', hd', _, ho', heq', _⟩ :=
    bound_to_this_challenge_cryptosign_weak fx h hb
  have heq := heq' hcc
  obtain ⟨d, e, hs, _⟩ := hans
  obtain ⟨d', e', hs', _⟩ := hans'
  rw [hs] at hs'
  simp at hs'
  obtain ⟨⟨_, hsig, _⟩, _⟩ := hs'
  subst hsig
  rw [hk] at hk'
  simp at hk'
  subst hk'
  rw [hd] at hd'
  simp at hd'
  subst hd'
  rw [ho] at ho'
  simp at ho'
  subst ho'
  exact hne (heq ▸ hc)

/-- `cryptosign_replay_rejected` (audit D a3/d3), general, for the source as it is now: a response
    whose signature is VALID under the stored public key but opens to a message other than the
    challenge issued in this handshake (`hne`) — e.g. a response captured from another handshake, or
    any other message the key's owner ever signed — is refused, for every key store, oracle, HELLO
    and script.  (`cryptosign_replay_witness` is one instance, end to end.) -/
theorem cryptosign_replay_rejected
    {ks : KeyStore} {t : Nat} {env : Env} {details : Dict} {script : List Arrival}
    {sig : String} {rest : List Arrival} {key : Option Bytes} {sb other : Bytes}
    (hans : AnswersInTime (crTimeout t) script sig rest)
    (hb : alreadyAuth ks.bypass (details.optString "authid") details = false)
    (hk : ks.authKey (details.optString "authid") "cryptosign" = .ok key)
    (hd : env.o.hexdecode sig = some sb)
    (ho : env.o.signOpen sb (pad32 (key.getD [])) = some other)
    (hne : env.o.csChallenge ≠ some other) :
    ∀ w, (csAuth Facts.gen.csChecksChallenge Facts.gen.csRefusesEmptyKey ks t env details script).res ≠ .ok w :=
  cryptosign_replay_rejected_of_checks (by decide) hans hb hk hd ho hne

/-- its hypotheses are satisfiable: the captured response of the F7 witness opens to `[2]`, the
    challenge of this handshake is `[1]` -/
example : ∀ w,
    (csAuth Facts.gen.csChecksChallenge Facts.gen.csRefusesEmptyKey witnessKS 0 (witnessEnv [1]) witnessDetails witnessScript).res ≠ .ok w :=
  cryptosign_replay_rejected (other := [2]) ⟨0, [], rfl, by decide⟩ rfl rfl rfl rfl (by decide)

/-! ## Users without a key are refused (audit D b/d6; finding fixed in /repo 7f39285)

  `KeyStore.AuthKey` returns `([]byte, error)`.  It may answer `(nil, nil)` for a user — "known, no
  key for this method"; the key store of the repository's own tests does so for every method but
  wampcra and ticket (test/auth_test.go:183-199).  The ticket authenticator always refused that
  (`ticket == nil ||`, ticket.go:103).  wampcra and cryptosign used to go on with the nil slice — the
  expected wampcra response was the HMAC under the EMPTY key of the challenge string the client had
  just been sent (computable by anyone), and cryptosign verified against the ALL-ZERO public key.
  Since 7f39285 both test `err != nil || len(key) == 0` right after `AuthKey`
  (`Gen.Auth.craKeyGuard`, `Gen.Auth.csKeyGuard`, pinned by `source_shape`):
    * crauth.go: no key is treated like a key store error — the response is checked against a
      throw-away random key (`craThrowAway`: `nonce()`, or the clock when that is empty), which is
      never sent to anyone (`wampcra_challenge_hides_random_key`);
    * cryptosign.go: `Authenticate` returns an error before any CHALLENGE: ABORT.
  The model follows through the regenerated facts `craRefusesEmptyKey` / `csRefusesEmptyKey`
  (`Facts.gen`); the `…_without_guard` theorems keep the old behaviour as regression lemmas for a
  tree without the guard, and the `_gen` theorems stop checking if a guard is reverted. -/

/-- with the guard, a key store answer without a key (nil or empty slice, no error) makes wampcra
    use the throw-away key -/
theorem craKey_of_no_key {ks : KeyStore} {o : Oracle} {authid : String} {k : Option Bytes}
    (hk : ks.authKey authid "wampcra" = .ok k) (he : (k.getD []).isEmpty = true) :
    craKey true ks o authid = craThrowAway o := by
  simp [craKey, hk, he]

/-- … and in every case the key is a stored NON-EMPTY key or the throw-away key -/
theorem craKey_guarded_cases (ks : KeyStore) (o : Oracle) (authid : String) :
    craKey true ks o authid = craThrowAway o ∨
    ∃ k, ks.authKey authid "wampcra" = .ok (some k) ∧ k ≠ [] ∧ craKey true ks o authid = k := by
  unfold craKey
  cases h : ks.authKey authid "wampcra" with
  | error e => exact Or.inl rfl
  | ok k =>
    cases k with
    | none => exact Or.inl (by simp)
    | some k =>
      by_cases he : k = []
      · exact Or.inl (by simp [he])
      · refine Or.inr ⟨k, rfl, he, ?_⟩
        have : k.isEmpty = false := by cases k with | nil => exact absurd rfl he | cons _ _ => rfl
        simp [this]

/-- `wampcra_empty_key_random_key`: with the guard, if the key store has no key for the claimed
    authid, whatever response is accepted on the challenge path decodes to the MAC of THIS
    handshake's challenge string under the THROW-AWAY RANDOM KEY of this handshake — not under the
    empty key, nor any key the client could know. -/
theorem wampcra_empty_key_random_key {ks : KeyStore} {t : Nat} {env : Env} {details : Dict}
    {script : List Arrival} {w : Dict} {k : Option Bytes}
    (hk : ks.authKey (details.optString "authid") "wampcra" = .ok k) (he : (k.getD []).isEmpty = true)
    (h : (craAuth true ks t env details script).res = .ok w)
    (hb : alreadyAuth ks.bypass (details.optString "authid") details = false) :
    ∃ nonce sig sb, env.o.chalNonce = some nonce ∧
      AnswersInTime (crTimeout t) script sig (craAuth true ks t env details script).rest ∧
      env.o.b64decode sig = some sb ∧
      sb = env.o.hmac (craThrowAway env.o) (craChallengeOf ks env (details.optString "authid") nonce) := by
  obtain ⟨nonce, chStr, sig, sb, hn, hch, _, _, hans, hdec, heq⟩ := wampcra_bound_to_this_challenge h hb
  refine ⟨nonce, sig, sb, hn, hans, hdec, ?_⟩
  rw [craKey_of_no_key hk he] at heq
  rw [heq, hch]
  rfl

/-- `wampcra_empty_key_refused` (replaces `wampcra_nil_key_public_mac`): with the guard, when the key
    store answers no key for the claimed authid (nil or empty, no error), every response that does
    not decode to the MAC of the challenge string under the throw-away random key is refused — in
    particular every response the client can compute from what it was sent, because the random key
    is not in it (`wampcra_challenge_hides_random_key`); that a client cannot guess the MAC under an
    unknown random key is the assumption on the primitive, stated as `hsig`. -/
theorem wampcra_empty_key_refused {ks : KeyStore} {t : Nat} {env : Env} {details : Dict}
    {script : List Arrival} {sig : String} {rest : List Arrival} {nonce : String} {k : Option Bytes}
    (hk : ks.authKey (details.optString "authid") "wampcra" = .ok k) (he : (k.getD []).isEmpty = true)
    (hb : alreadyAuth ks.bypass (details.optString "authid") details = false)
    (hn : env.o.chalNonce = some nonce)
    (hans : AnswersInTime (crTimeout t) script sig rest)
    (hsig : env.o.b64decode sig ≠
      some (env.o.hmac (craThrowAway env.o) (craChallengeOf ks env (details.optString "authid") nonce))) :
    ∀ w, (craAuth true ks t env details script).res ≠ .ok w := by
  intro w h
  obtain ⟨nonce', sig', sb, hn', hans', hdec, heq⟩ := wampcra_empty_key_random_key hk he h hb
  rw [hn] at hn'
  cases hn'
  obtain ⟨d, e, hs, _⟩ := hans
  obtain ⟨d', e', hs', _⟩ := hans'
  rw [hs] at hs'
  simp at hs'
  obtain ⟨⟨_, hsig', _⟩, _⟩ := hs'
  subst hsig'
  rw [hdec, heq] at hsig
  exact hsig rfl

/-- The former exploit, refused: the MAC of the (public) challenge string under the EMPTY key is
    not accepted, as soon as it differs from the MAC under the throw-away key. -/
theorem wampcra_empty_key_mac_refused {ks : KeyStore} {t : Nat} {env : Env} {details : Dict}
    {script : List Arrival} {sig : String} {rest : List Arrival} {nonce : String} {k : Option Bytes}
    (hk : ks.authKey (details.optString "authid") "wampcra" = .ok k) (he : (k.getD []).isEmpty = true)
    (hb : alreadyAuth ks.bypass (details.optString "authid") details = false)
    (hn : env.o.chalNonce = some nonce)
    (hans : AnswersInTime (crTimeout t) script sig rest)
    (hsig : env.o.b64decode sig =
      some (env.o.hmac [] (craChallengeOf ks env (details.optString "authid") nonce)))
    (hmac : env.o.hmac [] (craChallengeOf ks env (details.optString "authid") nonce) ≠
      env.o.hmac (craThrowAway env.o) (craChallengeOf ks env (details.optString "authid") nonce)) :
    ∀ w, (craAuth true ks t env details script).res ≠ .ok w :=
  wampcra_empty_key_refused hk he hb hn hans (by rw [hsig]; intro e; exact hmac (Option.some.inj e))

/-- … for the source as it is now: `Gen.Auth.craRefusesEmptyKey` is `true` (the guard is
    `err != nil || len(key) == 0`).  Reverting the Go fix flips the constant and this stops checking. -/
theorem wampcra_empty_key_refused_gen {ks : KeyStore} {t : Nat} {env : Env} {details : Dict}
    {script : List Arrival} {sig : String} {rest : List Arrival} {nonce : String} {k : Option Bytes}
    (hk : ks.authKey (details.optString "authid") "wampcra" = .ok k) (he : (k.getD []).isEmpty = true)
    (hb : alreadyAuth ks.bypass (details.optString "authid") details = false)
    (hn : env.o.chalNonce = some nonce)
    (hans : AnswersInTime (crTimeout t) script sig rest)
    (hsig : env.o.b64decode sig ≠
      some (env.o.hmac (craThrowAway env.o) (craChallengeOf ks env (details.optString "authid") nonce))) :
    ∀ w, (runAuth Facts.gen (.wampcra ks t) env details script).res ≠ .ok w := by
  have hg : Facts.gen.craRefusesEmptyKey = true := by decide
  show ∀ w, (craAuth Facts.gen.craRefusesEmptyKey ks t env details script).res ≠ .ok w
  rw [hg]
  exact wampcra_empty_key_refused hk he hb hn hans hsig

/-- What the client is sent does not depend on the throw-away key: the CHALLENGE (and everything
    else wampcra sends) is the same whatever `nonce()` / the clock answer for that key. -/
theorem wampcra_challenge_hides_random_key (rk : Bool) (ks : KeyStore) (t : Nat) (env : Env) (details : Dict)
    (script : List Arrival) (kn : Option String) (know : String) :
    (craAuth rk ks t { env with o := { env.o with keyNonce := kn, keyNow := know } } details script).sent =
      (craAuth rk ks t env details script).sent := by
  unfold craAuth
  dsimp only
  split
  · rfl
  · split
    · rfl
    · split <;> rfl

/-- `wampcra_nil_key_public_mac_without_guard` (regression lemma; the former
    `wampcra_nil_key_public_mac`): in a tree WITHOUT the guard (`refuseEmpty = false`), if the key store
    answers `(nil, nil)`, whoever answers the CHALLENGE with the MAC under the EMPTY key of the
    challenge string — which it was just sent — is welcomed. -/
theorem wampcra_nil_key_public_mac_without_guard {ks : KeyStore} {t : Nat} {env : Env} {details : Dict}
    {script : List Arrival} {sig : String} {rest : List Arrival} {nonce : String}
    (hid : details.optString "authid" ≠ "")
    (hk : ks.authKey (details.optString "authid") "wampcra" = .ok none)
    (hbp : ks.bypass = none)
    (hn : env.o.chalNonce = some nonce)
    (hsend : env.challengeBlocked = false)
    (hans : AnswersInTime (crTimeout t) script sig rest)
    (hsig : env.o.b64decode sig =
      some (env.o.hmac [] (craChallengeOf ks env (details.optString "authid") nonce))) :
    (craAuth false ks t env details script).sent =
      [.challenge "wampcra" (craExtra ks (details.optString "authid")
        (craChallengeOf ks env (details.optString "authid") nonce))] ∧
    (craExtra ks (details.optString "authid")
        (craChallengeOf ks env (details.optString "authid") nonce)).get? "challenge" =
      some (.str (craChallengeOf ks env (details.optString "authid") nonce)) ∧
    (craAuth false ks t env details script).res =
      .ok (stdWelcome (details.optString "authid") (roleOr ks (details.optString "authid") "user")
        "wampcra" ks.provider) := by
  have hkey : craKey false ks env.o (details.optString "authid") = [] := by simp [craKey, hk]
  have hv : craVerify env.o sig (craChallengeOf ks env (details.optString "authid") nonce)
      (craKey false ks env.o (details.optString "authid")) = true := by
    rw [hkey]; exact craVerify_iff.mpr ⟨_, hsig, rfl⟩
  have hal : alreadyAuth ks.bypass (details.optString "authid") details = false := by
    rw [hbp]; rfl
  refine ⟨?_, ?_, ?_⟩
  · simp only [craAuth, beq_iff_eq, hid, hal, hn, hsend, if_false, exchange_of_answer hans]
    simp
  · unfold craExtra; split <;> rfl
  · simp only [craAuth, beq_iff_eq, hid, hal, hn, hsend, if_false, exchange_of_answer hans, andThen, hv,
      if_true]
    rw [hbp]
    rfl

/-- `cryptosign_empty_key_refused` (replaces `cryptosign_nil_key_zero_key`): with the guard, when the
    key store answers no key for the claimed authid (nil or empty, no error) the cryptosign
    authenticator fails at once: NOTHING is sent (no CHALLENGE), nothing of the client's script is
    read, the result is the key error — `attach` turns it into ABORT `authentication_failed`
    (`cryptosign_empty_key_witness`). -/
theorem cryptosign_empty_key_refused {checks : Bool} {ks : KeyStore} {t : Nat} {env : Env} {details : Dict}
    {script : List Arrival} {authrole : String} {k : Option Bytes}
    (hid : details.optString "authid" ≠ "")
    (hr : ks.authRole (details.optString "authid") = .ok authrole)
    (hb : alreadyAuth ks.bypass (details.optString "authid") details = false)
    (hk : ks.authKey (details.optString "authid") "cryptosign" = .ok k) (he : (k.getD []).isEmpty = true) :
    csAuth checks true ks t env details script = { sent := [], res := .error .keyError, rest := script } := by
  simp only [csAuth, beq_iff_eq, hid, hr, hb, hk, he, if_false, Bool.false_eq_true, Bool.and_self, if_true]

/-- … for the source as it is now (`Gen.Auth.csRefusesEmptyKey = true`); reverting the Go fix flips
    the constant and this stops checking. -/
theorem cryptosign_empty_key_refused_gen {ks : KeyStore} {t : Nat} {env : Env} {details : Dict}
    {script : List Arrival} {authrole : String} {k : Option Bytes}
    (hid : details.optString "authid" ≠ "")
    (hr : ks.authRole (details.optString "authid") = .ok authrole)
    (hb : alreadyAuth ks.bypass (details.optString "authid") details = false)
    (hk : ks.authKey (details.optString "authid") "cryptosign" = .ok k) (he : (k.getD []).isEmpty = true) :
    runAuth Facts.gen (.cryptosign ks t) env details script =
      { sent := [], res := .error .keyError, rest := script } := by
  have hg : Facts.gen.csRefusesEmptyKey = true := by decide
  show csAuth Facts.gen.csChecksChallenge Facts.gen.csRefusesEmptyKey ks t env details script = _
  rw [hg]
  exact cryptosign_empty_key_refused hid hr hb hk he

/-- `cryptosign_nil_key_zero_key_without_guard` (regression lemma; the former
    `cryptosign_nil_key_zero_key`): in a tree WITHOUT the guard, a `(nil, nil)` answer makes cryptosign
    verify the response against the ALL-ZERO 32-byte public key. -/
theorem cryptosign_nil_key_zero_key_without_guard {checks : Bool} {ks : KeyStore} {t : Nat} {env : Env}
    {details : Dict} {script : List Arrival} {sig : String} {rest : List Arrival} {authrole : String}
    {challenge sb : Bytes}
    (hid : details.optString "authid" ≠ "")
    (hr : ks.authRole (details.optString "authid") = .ok authrole)
    (hk : ks.authKey (details.optString "authid") "cryptosign" = .ok none)
    (hbp : ks.bypass = none)
    (hc : env.o.csChallenge = some challenge)
    (hsend : env.challengeBlocked = false)
    (hans : AnswersInTime (crTimeout t) script sig rest)
    (hd : env.o.hexdecode sig = some sb) (hl : sb.length = Gen.Auth.cryptosignSignedLen)
    (ho : env.o.signOpen sb (List.replicate 32 0) = some challenge) :
    (csAuth checks false ks t env details script).res =
      .ok (stdWelcome (details.optString "authid") authrole "cryptosign" ks.provider) := by
  have hal : alreadyAuth ks.bypass (details.optString "authid") details = false := by
    rw [hbp]; rfl
  have hpad : pad32 ((none : Option Bytes).getD []) = List.replicate 32 0 := by decide
  have hv : csVerify checks env.o sig ((none : Option Bytes).getD []) challenge = .ok true :=
    csVerify_true_iff.mpr ⟨sb, challenge, hd, hl, by rw [hpad]; exact ho, fun _ => rfl⟩
  simp only [csAuth, beq_iff_eq, hid, hr, hal, hk, hc, hsend, if_false, exchange_of_answer hans, andThen,
    csDecide, hv, Bool.false_and, Bool.false_eq_true]

/-! The witnesses, end to end.  `exKS` knows `bob` (role `user`) and answers `(nil, nil)` for his key,
    whatever the method.  Toy primitives that DO depend on the key: the MAC of any message is the key
    followed by the byte 9 (so the MAC under the empty key is `[9]`, under alice's key `[1,2,3,9]`,
    under the throw-away key "k" `[107, 9]`); one text base64-decodes to `[9]`; `sign.Open` verifies
    under the all-zero key only. -/

def keyedOracle : Oracle :=
  { exOracle with
      b64decode := fun s => if s = "mac-under-the-empty-key" then some [9] else none,
      hmac := fun k _ => k ++ [9],
      hexdecode := fun s => if s = "signed-with-the-zero-key" then some (List.replicate 96 7) else none,
      signOpen := fun _ pk => if pk = List.replicate 32 0 then some [1] else none }

def keyedEnv : Env := { isLocal := false, routerRoles := .null, o := keyedOracle }

def nilKeyRouter : RouterCfg :=
  { realms := [{ uri := "r1", authenticators := [.wampcra exKS 0, .cryptosign exKS 0] }], template := none }

/-- the challenge string the router sends to "bob" in this handshake -/
def bobChallenge : String := craChallengeStr "N" "static" "bob" "T" "user" 42

theorem c09_toList_loop_eq (bs : ByteArray) (i : Nat) (r : List UInt8) :
    ByteArray.toList.loop bs i r = r.reverse ++ bs.data.toList.drop i := by
  fun_induction ByteArray.toList.loop bs i r with
  | case1 i r h ih =>
    rw [ih]
    have h' : i < bs.data.toList.length := h
    rw [List.drop_eq_getElem_cons h']
    have hg : bs.get! i = bs.data.toList[i] := by
      cases bs with
      | mk d =>
        show d[i]! = _
        have : i < d.size := h
        simp [this]
    rw [hg, List.reverse_cons, List.append_assoc]
    rfl
  | case2 i r h =>
    have : bs.data.toList.length ≤ i := Nat.le_of_not_lt h
    rw [List.drop_eq_nil_of_le this, List.append_nil]

/-- the throw-away key of the example oracle: the bytes of "k" -/
theorem keyedOracle_throwAway : craThrowAway keyedOracle = [107] := by
  show ("k".toUTF8).toList = [107]
  unfold ByteArray.toList
  rw [c09_toList_loop_eq]
  decide

/-- `wampcra_empty_key_witness` (replaces `wampcra_nil_key_witness`): a remote client says it is bob
    — for whom the key store has no key — and answers the CHALLENGE with the MAC under the EMPTY key
    (`[9]`): the source as it is now (`Facts.gen`) refuses, because the expected MAC is the one
    under the throw-away key (`[107, 9]`); a tree without the guard welcomed that client as bob. -/
theorem wampcra_empty_key_witness :
    exKS.authKey "bob" "wampcra" = .ok none ∧
    (∀ w, (runAuth Facts.gen (.wampcra exKS 0) keyedEnv [("authid", .str "bob")]
        [⟨0, .msg (.authenticate "mac-under-the-empty-key" [])⟩]).res ≠ .ok w) ∧
    (∃ sess w,
      (attach { Facts.gen with craRefusesEmptyKey := false } nilKeyRouter keyedEnv
        [⟨0, .msg (exHello [.str "wampcra"] "bob")⟩,
         ⟨0, .msg (.authenticate "mac-under-the-empty-key" [])⟩]).outcome = .welcome 42 sess w ∧
      sess.get? "authid" = some (.str "bob")) := by
  refine ⟨rfl, ?_, ⟨_, _, rfl, ?_⟩⟩
  · refine wampcra_empty_key_refused_gen (k := none) (nonce := "N") (rest := []) rfl rfl rfl rfl
      ⟨0, [], rfl, by decide⟩ ?_
    show keyedOracle.b64decode "mac-under-the-empty-key" ≠
      some (keyedOracle.hmac (craThrowAway keyedOracle) _)
    rw [keyedOracle_throwAway]
    decide
  · rfl

/-- `cryptosign_empty_key_witness` (replaces `cryptosign_nil_key_witness`): the same client with
    cryptosign: the source as it is now sends ABORT `authentication_failed` and NO CHALLENGE; a tree
    without the guard verified under the all-zero key and welcomed the client as bob. -/
theorem cryptosign_empty_key_witness :
    exKS.authKey "bob" "cryptosign" = .ok none ∧
    (attach Facts.gen nilKeyRouter keyedEnv
      [⟨0, .msg (exHello [.str "cryptosign"] "bob")⟩,
       ⟨0, .msg (.authenticate "signed-with-the-zero-key" [])⟩]).outcome =
        .abort Gen.N.ErrAuthenticationFailed .keyError ∧
    (attach Facts.gen nilKeyRouter keyedEnv
      [⟨0, .msg (exHello [.str "cryptosign"] "bob")⟩,
       ⟨0, .msg (.authenticate "signed-with-the-zero-key" [])⟩]).joined = false ∧
    (∃ sess w,
      (attach { Facts.gen with csRefusesEmptyKey := false } nilKeyRouter keyedEnv
        [⟨0, .msg (exHello [.str "cryptosign"] "bob")⟩,
         ⟨0, .msg (.authenticate "signed-with-the-zero-key" [])⟩]).outcome = .welcome 42 sess w ∧
      sess.get? "authid" = some (.str "bob")) := by
  refine ⟨rfl, rfl, rfl, _, _, rfl, ?_⟩
  rfl

/-- the hypotheses of the general theorems are met by those handshakes -/
example : csAuth true true exKS 0 keyedEnv [("authid", .str "bob")]
      [⟨0, .msg (.authenticate "signed-with-the-zero-key" [])⟩] =
    { sent := [], res := .error .keyError, rest := [⟨0, .msg (.authenticate "signed-with-the-zero-key" [])⟩] } :=
  cryptosign_empty_key_refused (k := none) (authrole := "user") (by decide) rfl rfl rfl rfl
example : (craAuth false exKS 0 keyedEnv [("authid", .str "bob")]
      [⟨0, .msg (.authenticate "mac-under-the-empty-key" [])⟩]).res =
    .ok (stdWelcome "bob" "user" "wampcra" "static") :=
  (wampcra_nil_key_public_mac_without_guard (nonce := "N") (by decide) rfl rfl rfl rfl ⟨0, [], rfl, by decide⟩ rfl).2.2
example : (csAuth true false exKS 0 keyedEnv [("authid", .str "bob")]
      [⟨0, .msg (.authenticate "signed-with-the-zero-key" [])⟩]).res =
    .ok (stdWelcome "bob" "user" "cryptosign" "static") :=
  cryptosign_nil_key_zero_key_without_guard (challenge := [1]) (by decide) rfl rfl rfl rfl rfl ⟨0, [], rfl, by decide⟩ rfl
    (by decide) rfl

end Nexus.C09
