/-
  C12 (broker half) — Identity is disclosed only when allowed; recipients get independent messages.

  Property text.  "A publisher's or caller's identity (session id, authid, authrole) appears in an
  EVENT or INVOCATION only if disclosure was requested by the originator (disclose_me) or by the
  callee's registration (disclose_caller), the realm allows disclosure (or the requester is
  trusted), and - for disclose_me - the recipient announced the identification feature; a
  disallowed disclose_me request is refused with wamp.error.option_disallowed.disclose_me and not
  delivered.  The details of a message delivered to one recipient depend only on that recipient
  and its own subscription or registration, never on other recipients of the same publication, and
  never change after delivery; in-process recipients get private copies of details and payload,
  and session meta events and wamp.session.get never expose transport authentication data."

  This file: the EVENT clauses, about `Broker.syncPublish` (router/broker.go `syncPublish`,
  `syncPubEvent`, `prepareEvent`, `disclosePublisher`).  `p.disclose` is the flag `broker.publish`
  computes: disclose_me requested AND allowed by the realm (a disallowed request never reaches
  `syncPublish`: `Realm.handlePublish` answers option_disallowed.disclose_me; that refusal, the
  dealer half and the immutability/copy clauses are not in this file).
  Vocabulary: `isPublisherKey`, `disclosedTo`, `deliveryOf`, `Expected`, `expectedEvent`
  (Nexus/L2/Proofs/BrokerSpec.lean).

  clause                                                               theorem
  -------------------------------------------------------------------  ------------------------------
  publisher / publisher_authid / publisher_authrole occur in a
    delivered EVENT only if p.disclose ∧ recipient announced
    subscriber.publisher_identification; then they carry the
    publisher's session id and its authid / authrole                   C12_disclose_event
  … needs: the payload-passthru details contain no publisher key
    (true of every publication the realm hands over)                   C12_disclose_event_full, C12_disclose_event_full_fails,
                                                                       C12_realm_base_ok
  the EVENT delivered to k through s is a function of (p, s, k's
    session) only: equal for any two brokers / session tables that
    agree on s and on k's session                                      C12_independent
  stored history entries never contain a publisher key                 C12_history_no_identity
  realm level (`Realm.handlePublish`): disclose_me = true while the
    realm disallows disclosure → nothing is delivered to anybody, no
    history entry, no publication id drawn, exactly one ERROR
    option_disallowed.disclose_me to the publisher iff acknowledged    C12_refused_publish
  … and only then: `p.disclose` of the publication handed to the
    broker is set iff disclose_me is the bool true (and then the realm
    allows disclosure)                                                 C12_disclose_flag
  realm level, for the publication `pubOf r s opts …` actually handed
    over (no side condition left): a publisher key in a delivered
    EVENT ⇒ disclose_me = true ∧ the realm allows disclosure ∧ the
    recipient is attached and announced the feature; conversely the
    three keys are then present with the publisher's id/authid/authrole C12_realm_event, C12_realm_event_disclosed,
                                                                       C12_realm_event_details
  REGISTER (`Realm.handleRegister`): a registration with disclose =
    true either was there before (same id, same flag) or was created
    by this REGISTER with disclose_caller = true ∧ (realm allows ∨
    registrant's authrole = "trusted")                                 C12_reg_disclose_origin
  disallowed disclose_caller: exactly one ERROR
    option_disallowed.disclose_me offered to the sender, dealer state
    unchanged, nothing announced                                       C12_register_refused
  every handler refusal of REGISTER announces nothing                  C12_register_refusals_silent
  "the realm allows disclosure" is a constant: in every reachable
    realm the broker's and the dealer's `allowDisclose` / `strict`
    equal the configuration                                            C12_flags_const
  in every reachable realm no stored history entry carries a
    publisher key (with Nexus.C20.C20_answer_no_identity: no
    get_events answer does)                                            C12_history_no_identity_realm
-/
import Nexus.L2.Proofs.BrokerHist
import Nexus.L2.Proofs.BrokerBase
import Nexus.L2.Proofs.RealmPublish
import Nexus.L2.Proofs.WpARealm
import Nexus.L2.Proofs.WpABkC01
import Nexus.L2.Proofs.WpABkC12

namespace Nexus.C12
open Nexus.L2 Gen.N

/-! ### example state: two recipients of one publication, only one announced the feature -/

def exB : Broker :=
  let b1 := (({} : Broker).syncSubscribe 1 1 "t" "exact" 0).1
  (b1.syncSubscribe 2 1 "t" "exact" 0).1
def exSess : SessKey → Option Session := fun k =>
  if k = 1 then some { key := 1, details := [], roles := [("subscriber", ["publisher_identification"])], isLocal := false }
  else if k = 2 then some { key := 2, details := [], roles := [("subscriber", [])], isLocal := false }
  else none
def exPub : Publication :=
  { publisher := 3, pubDetails := [("authid", .str "alice"), ("authrole", .str "user")], topic := "t", pubId := 9,
    args := [], kw := [], opts := [], excludePub := true, disclose := true, baseDetails := [] }

theorem exB_inv : BrokerInv exB := ((BrokerInv.empty false false).subscribe ..).subscribe ..

/-! ### disclosure -/

/-- Every EVENT `syncPublish` delivers goes to an attached session `c` (the one stored under the
    recipient's key) and, provided the payload-passthru details carry no publisher key:
    * if NOT (`p.disclose` and `c` announced `subscriber.features.publisher_identification`), none of
      `publisher`, `publisher_authid`, `publisher_authrole` occurs in its details;
    * otherwise `publisher` is the publisher's session id, and `publisher_authid` /
      `publisher_authrole` are exactly the publisher's `authid` / `authrole` (absent iff absent). -/
theorem C12_disclose_event (b : Broker) (sess : SessKey → Option Session) (now : Nat) (p : Publication)
    (hbase : ∀ key, isPublisherKey key → p.baseDetails.get? key = none) :
    ∀ x ∈ (b.syncPublish sess now p).2, ∃ (s : Sub) (c : Session) (d : Dict),
      sess x.to = some c ∧ x.msg = .event s.id p.pubId d p.args p.kw ∧
      (¬(p.disclose = true ∧ c.hasFeature RoleSubscriber FeaturePubIdent = true) →
          ∀ key, isPublisherKey key → d.get? key = none) ∧
      ((p.disclose = true ∧ c.hasFeature RoleSubscriber FeaturePubIdent = true) →
          d.get? "publisher" = some (.int (sidOf p.publisher)) ∧
          d.get? "publisher_authid" = p.pubDetails.get? "authid" ∧
          d.get? "publisher_authrole" = p.pubDetails.get? "authrole") := by
  intro x hx
  obtain ⟨s, k, c, ⟨_, _, _, hc, _, _⟩, rfl⟩ := (mem_syncPublish_sends b sess now p x).mp hx
  refine ⟨s, c, eventDetails p s.isPattern (some c), hc, rfl, ?_, ?_⟩
  · intro hno key hkey
    apply eventDetails_get?_pubkey_none p _ _ key hkey (hbase key hkey)
    unfold disclosedTo
    cases hd : p.disclose <;> cases hf : c.hasFeature RoleSubscriber FeaturePubIdent <;> simp_all
  · intro hyes
    apply eventDetails_get?_pubkeys p _ _ hbase
    unfold disclosedTo
    simp [hyes.1, hyes.2]

/-- non-vacuity: in the example both cases occur (session 1 announced the feature, session 2 did not),
    and the hypothesis on `baseDetails` holds. -/
example : (∀ key, isPublisherKey key → exPub.baseDetails.get? key = none) ∧ exPub.disclose = true ∧
    (∃ c, exSess 1 = some c ∧ c.hasFeature RoleSubscriber FeaturePubIdent = true) ∧
    (∃ c, exSess 2 = some c ∧ c.hasFeature RoleSubscriber FeaturePubIdent = false) :=
  ⟨fun _ _ => rfl, rfl, ⟨_, rfl, by decide⟩, ⟨_, rfl, by decide⟩⟩

/-- the "only if" clause without the side condition on `baseDetails` … -/
def C12_disclose_event_full : Prop :=
  ∀ (b : Broker) (sess : SessKey → Option Session) (now : Nat) (p : Publication),
    ∀ x ∈ (b.syncPublish sess now p).2, ∀ sub pub d args kw, x.msg = .event sub pub d args kw →
      ∀ c, sess x.to = some c → ∀ key, isPublisherKey key → d.get? key ≠ none →
        p.disclose = true ∧ c.hasFeature RoleSubscriber FeaturePubIdent = true

/-- … is false of the broker taken alone: a `publisher` key already present in the payload-passthru
    details is forwarded to everybody.  (Not reachable through the realm, see `C12_realm_base_ok`.) -/
theorem C12_disclose_event_full_fails : ¬ C12_disclose_event_full := by
  intro h
  let p : Publication := { exPub with disclose := false, baseDetails := [("publisher", .int 3)] }
  have hx : (⟨2, .event 1 9 [("publisher", .int 3)] [] []⟩ : Send) ∈ (exB.syncPublish exSess 0 p).2 := by
    have : (exB.syncPublish exSess 0 p).2 =
        [⟨1, .event 1 9 [("publisher", .int 3)] [] []⟩, ⟨2, .event 1 9 [("publisher", .int 3)] [] []⟩] := by rfl
    rw [this]; simp
  have := h exB exSess 0 p _ hx 1 9 _ [] [] rfl _ rfl "publisher" (Or.inl rfl) (by simp [Dict.get?])
  exact absurd this.1 (by decide)

/-- The `baseDetails` the realm builds (`handlePublish`: payload-passthru keys only) contain no
    publisher key. -/
theorem C12_realm_base_ok (opts : Dict) (usesPPT : Bool) (key : String) (hk : isPublisherKey key) :
    (if usesPPT then pptInto opts [] else ([] : Dict)).get? key = none :=
  realm_base_ok opts usesPPT key (Or.inr hk)

/-! ### independence -/

/-- What session `k` receives through subscription `s` for publication `p` is `deliveryOf sess p s k`,
    which mentions the broker only through `s` and the session table only through `sess k`.  Hence:
    for any two brokers (satisfying the invariant) and any two session tables that agree on `s` (id,
    topic, policy, whether `k` is a member) and on `k`'s session, the messages `k` receives through
    `s` are the same — whatever the other subscriptions, members, sessions and their features are. -/
theorem C12_independent {b1 b2 : Broker} (hb1 : BrokerInv b1) (hb2 : BrokerInv b2)
    (sess1 sess2 : SessKey → Option Session) (now1 now2 : Nat) (p : Publication)
    {s1 s2 : Sub} (hs1 : s1 ∈ b1.subs) (hs2 : s2 ∈ b2.subs)
    (hid : s1.id = s2.id) (htopic : s1.topic = s2.topic) (hkind : s1.kind = s2.kind)
    (k : SessKey) (hmem : k ∈ s1.members ↔ k ∈ s2.members) (hsess : sess1 k = sess2 k) :
    through (b1.syncPublish sess1 now1 p).2 k s1.id = deliveryOf sess1 p s1 k ∧
    through (b2.syncPublish sess2 now2 p).2 k s2.id = deliveryOf sess2 p s2 k ∧
    through (b1.syncPublish sess1 now1 p).2 k s1.id = through (b2.syncPublish sess2 now2 p).2 k s2.id := by
  have e1 := through_syncPublish_eq_deliveryOf hb1 sess1 now1 p hs1 k
  have e2 := through_syncPublish_eq_deliveryOf hb2 sess2 now2 p hs2 k
  refine ⟨e1, e2, ?_⟩
  rw [e1, e2]
  exact deliveryOf_congr sess1 sess2 p s1 s2 k hid htopic hkind hmem hsess

/-- non-vacuity: two different brokers / session tables agreeing on subscription 1 and session 2 -/
example : ∃ (b2 : Broker) (sess2 : SessKey → Option Session) (s1 s2 : Sub), BrokerInv exB ∧ BrokerInv b2 ∧
    s1 ∈ exB.subs ∧ s2 ∈ b2.subs ∧ s1.id = s2.id ∧ s1.topic = s2.topic ∧ s1.kind = s2.kind ∧
    ((2 : SessKey) ∈ s1.members ↔ (2 : SessKey) ∈ s2.members) ∧ exSess 2 = sess2 2 ∧ s1.members ≠ s2.members ∧
    exSess 1 ≠ sess2 1 := by
  refine ⟨(({} : Broker).syncSubscribe 2 1 "t" "exact" 0).1, fun k => if k = 2 then exSess 2 else none,
    { id := 1, topic := "t", «match» := "exact", members := [1, 2] },
    { id := 1, topic := "t", «match» := "exact", members := [2] },
    exB_inv, (BrokerInv.empty false false).subscribe .., ?_, ?_, rfl, rfl, rfl, by simp, rfl, by simp, ?_⟩
  · have : exB.subs = [{ id := 1, topic := "t", «match» := "exact", members := [1, 2] }] := by rfl
    rw [this]; simp
  · have : (({} : Broker).syncSubscribe 2 1 "t" "exact" 0).1.subs =
        [{ id := 1, topic := "t", «match» := "exact", members := [2] }] := by rfl
    rw [this]; simp
  · simp [exSess]

/-! ### history -/

/-- Stored history entries never contain a publisher key: if no entry of the stores does, none does
    after any sequence of steps whose publications carry no publisher key in their payload-passthru
    details — whatever `disclose` and the recipients' features are. -/
theorem C12_history_no_identity {b : Broker} (hb : BrokerInv b) (steps : List BStep)
    (hclean : ∀ h ∈ b.hist, ∀ e ∈ h.entries, ∀ key, isPublisherKey key → e.details.get? key = none)
    (hbase : ∀ sess now p, BStep.publish sess now p ∈ steps →
      ∀ key, isPublisherKey key → p.baseDetails.get? key = none) :
    ∀ h ∈ (b.run steps).hist, ∀ e ∈ h.entries, ∀ key, isPublisherKey key → e.details.get? key = none :=
  HistClean.run steps hb hclean hbase

/-- … in particular from the pre-initialised broker (all stores empty). -/
theorem C12_history_no_identity_init (strict allowDisclose : Bool) (cfg : List (String × String × Nat))
    (steps : List BStep)
    (hbase : ∀ sess now p, BStep.publish sess now p ∈ steps →
      ∀ key, isPublisherKey key → p.baseDetails.get? key = none) :
    ∀ h ∈ ((({ strict := strict, allowDisclose := allowDisclose } : Broker).preInit cfg).run steps).hist,
      ∀ e ∈ h.entries, ∀ key, isPublisherKey key → e.details.get? key = none := by
  apply C12_history_no_identity (BrokerInv.preInit strict allowDisclose cfg) steps _ hbase
  intro h hh e he
  rw [preInit_entries cfg _ (by simp) h hh] at he
  simp at he

/-! ### realm level: the refusal -/

open Realm in
/-- PUBLISH (valid topic, payload passthru not refused) asking for `disclose_me` in a realm that does
    not allow disclosure: the publication is REFUSED — no EVENT is delivered to anybody (every queue
    other than the publisher's own is untouched), nothing is stored (the broker, hence every history
    store, is unchanged), no publication id is drawn — and the publisher's queue is offered exactly one
    ERROR(PUBLISH, req, wamp.error.option_disallowed.disclose_me) iff `acknowledge` is the bool true
    (dropped, changing nothing, if that queue is full); without acknowledgement nothing happens at all. -/
theorem C12_refused_publish (r : Realm) (s : Session) (req : Nat) (opts : Dict) (topic : String)
    (args : List WVal) (kw : Dict) (hv : validUri r.broker.strict "" topic = true)
    (hp : pptRefused s opts = false)
    (hdis : opts.get? OptDiscloseMe = some (.bool true)) (hrealm : r.broker.allowDisclose = false) :
    (opts.optFlag OptAcknowledge = false → handlePublish r s req opts topic args kw = r) ∧
    (opts.optFlag OptAcknowledge = true →
      handlePublish r s req opts topic args kw =
        r.trySend ⟨s.key, .error tPUBLISH req [] ErrOptionDisallowedDiscloseMe [] []⟩ ∧
      ∀ c, s.key ≠ metaKey → r.client? s.key = some c →
        (c.cap ≤ r.queueLen s.key → handlePublish r s req opts topic args kw = r) ∧
        (r.queueLen s.key < c.cap →
          (handlePublish r s req opts topic args kw).queueOf s.key =
            r.queueOf s.key ++ [.error tPUBLISH req [] ErrOptionDisallowedDiscloseMe [] []])) ∧
    (∀ k, k ≠ s.key → (handlePublish r s req opts topic args kw).queueOf k = r.queueOf k) ∧
    (handlePublish r s req opts topic args kw).broker = r.broker ∧
    (handlePublish r s req opts topic args kw).pubCount = r.pubCount ∧
    (handlePublish r s req opts topic args kw).clients = r.clients := by
  have hd : discloseRefused r opts = true := by
    unfold discloseRefused
    rw [(optFlag_iff opts OptDiscloseMe).mpr hdis, hrealm]; rfl
  have heq := handlePublish_refused r s req opts topic args kw hv hp hd
  have hf := deliver_frame (ackList opts ⟨s.key, errMsg tPUBLISH req ErrOptionDisallowedDiscloseMe⟩) r
  refine ⟨?_, ?_, ?_, by rw [heq]; exact hf.broker, by rw [heq]; exact hf.pubCount, by rw [heq]; exact hf.clients⟩
  · intro ha; rw [heq]; unfold ackList; rw [ha]; rfl
  · intro ha
    have heq' : handlePublish r s req opts topic args kw =
        r.trySend ⟨s.key, .error tPUBLISH req [] ErrOptionDisallowedDiscloseMe [] []⟩ := by
      rw [heq]; unfold ackList; rw [ha]; rfl
    refine ⟨heq', ?_⟩
    intro c hk hc
    rw [heq']
    obtain ⟨h1, h2⟩ := trySend_client_effect r ⟨s.key, .error tPUBLISH req [] ErrOptionDisallowedDiscloseMe [] []⟩ hk hc
    exact ⟨h1, fun hroom => (h2 hroom).1⟩
  · intro k hk
    rw [heq]
    unfold ackList
    split
    · show (r.trySend ⟨s.key, _⟩).queueOf k = _
      rw [queueOf_trySend, if_neg (fun h => hk h.1.symm)]
    · rfl

/-- non-vacuity -/
example : validUri false "" "a.b" = true ∧
    Realm.pptRefused { key := 1, details := [], roles := [], isLocal := false }
      [("disclose_me", .bool true), ("acknowledge", .bool true)] = false ∧
    Dict.get? [("disclose_me", .bool true), ("acknowledge", .bool true)] OptDiscloseMe = some (.bool true) ∧
    ({} : Realm).broker.allowDisclose = false := by
  refine ⟨by decide +kernel, by decide +kernel, by rfl, rfl⟩

open Realm in
/-- The `disclose` flag of the publication the realm hands to the broker is exactly "the option
    `disclose_me` is the bool true"; when it is set and the publication is not refused, the realm
    allows disclosure.  (So `p.disclose` in `C12_disclose_event` means: requested AND allowed.) -/
theorem C12_disclose_flag (r : Realm) (s : Session) (opts : Dict) (topic : String) (args : List WVal) (kw : Dict) :
    ((pubOf r s opts topic args kw).disclose = true ↔ opts.get? OptDiscloseMe = some (.bool true)) ∧
    ((pubOf r s opts topic args kw).disclose = true → discloseRefused r opts = false →
      r.broker.allowDisclose = true) := by
  refine ⟨optFlag_iff opts OptDiscloseMe, ?_⟩
  intro h1 h2
  unfold discloseRefused at h2
  have : opts.optFlag OptDiscloseMe = true := h1
  rw [this] at h2
  simpa using h2

/-! ### realm level: the EVENTs of the publication actually handed over (work package A, audit C12-a5) -/

open Realm in
/-- The three disclosure theorems composed for the publication `pubOf r s opts …` that `handlePublish`
    hands to the broker (no side condition on `baseDetails` left: `C01_pubOf_base`).  Every message
    sent is an EVENT for an attached session `c`, carrying the next publication id and the publisher's
    arguments, and its details
    * contain NO publisher key unless `disclose_me` is the boolean true and `c` announced
      `subscriber.features.publisher_identification`;
    * in that case carry `publisher` = the publisher's session id and `publisher_authid` /
      `publisher_authrole` = the publisher's `authid` / `authrole` (absent iff absent). -/
theorem C12_realm_event_details (r : Realm) (s : Session) (opts : Dict) (topic : String) (args : List WVal) (kw : Dict) :
    ∀ x ∈ (r.broker.syncPublish r.session? r.now (pubOf r s opts topic args kw)).2,
      ∃ (sub : Sub) (c : Session) (d : Dict), r.session? x.to = some c ∧
        x.msg = .event sub.id (pubBase + r.pubCount) d args kw ∧
        (¬(opts.get? OptDiscloseMe = some (.bool true) ∧ c.hasFeature RoleSubscriber FeaturePubIdent = true) →
            ∀ key, isPublisherKey key → d.get? key = none) ∧
        ((opts.get? OptDiscloseMe = some (.bool true) ∧ c.hasFeature RoleSubscriber FeaturePubIdent = true) →
            d.get? "publisher" = some (.int (sidOf s.key)) ∧
            d.get? "publisher_authid" = s.details.get? "authid" ∧
            d.get? "publisher_authrole" = s.details.get? "authrole") := by
  intro x hx
  have hbase : ∀ key, isPublisherKey key → (pubOf r s opts topic args kw).baseDetails.get? key = none :=
    fun key hk => (Nexus.L2.WpA.C01_pubOf_base r s opts topic args kw).1 key (Or.inr hk)
  have hflag := (C12_disclose_flag r s opts topic args kw).1
  obtain ⟨sub, c, d, hc, hm, hno, hyes⟩ :=
    C12_disclose_event r.broker r.session? r.now (pubOf r s opts topic args kw) hbase x hx
  refine ⟨sub, c, d, hc, hm, ?_, ?_⟩
  · intro h; exact hno (fun hh => h ⟨hflag.mp hh.1, hh.2⟩)
  · intro h; exact hyes ⟨hflag.mpr h.1, h.2⟩

open Realm in
/-- "Only if", in the form of the property text: a publisher key in a delivered EVENT ⇒ the publisher
    asked (`disclose_me` = true), the realm allows disclosure, and the recipient is an attached
    session that announced the identification feature.  (`hd`: the publication was not refused — a
    refused one is not handed over at all, `C12_refused_publish`.) -/
theorem C12_realm_event (r : Realm) (s : Session) (opts : Dict) (topic : String) (args : List WVal) (kw : Dict)
    (hd : discloseRefused r opts = false) :
    ∀ x ∈ (r.broker.syncPublish r.session? r.now (pubOf r s opts topic args kw)).2,
      ∀ sub pub d a k, x.msg = .event sub pub d a k → ∀ key, isPublisherKey key → d.get? key ≠ none →
        opts.get? OptDiscloseMe = some (.bool true) ∧ r.broker.allowDisclose = true ∧
        ∃ c, r.session? x.to = some c ∧ c.hasFeature RoleSubscriber FeaturePubIdent = true := by
  intro x hx sub pub d a k hmsg key hkey hne
  obtain ⟨sub', c, d', hc, hm, hno, _⟩ := C12_realm_event_details r s opts topic args kw x hx
  rw [hm] at hmsg
  have hdd : d' = d := by injection hmsg
  subst hdd
  have hboth : opts.get? OptDiscloseMe = some (.bool true) ∧ c.hasFeature RoleSubscriber FeaturePubIdent = true := by
    apply Classical.byContradiction
    intro h
    exact hne (hno h key hkey)
  have hflag := C12_disclose_flag r s opts topic args kw
  exact ⟨hboth.1, hflag.2 (hflag.1.mpr hboth.1) hd, c, hc, hboth.2⟩

open Realm in
/-- "If": when the publisher asked, the realm allows it (the publication is handed over) and the
    recipient announced the feature, the three keys ARE there with the publisher's data. -/
theorem C12_realm_event_disclosed (r : Realm) (s : Session) (opts : Dict) (topic : String) (args : List WVal) (kw : Dict)
    (hdis : opts.get? OptDiscloseMe = some (.bool true)) :
    ∀ x ∈ (r.broker.syncPublish r.session? r.now (pubOf r s opts topic args kw)).2,
      ∀ c, r.session? x.to = some c → c.hasFeature RoleSubscriber FeaturePubIdent = true →
        ∃ sub d, x.msg = .event sub (pubBase + r.pubCount) d args kw ∧
          d.get? "publisher" = some (.int (sidOf s.key)) ∧
          d.get? "publisher_authid" = s.details.get? "authid" ∧
          d.get? "publisher_authrole" = s.details.get? "authrole" := by
  intro x hx c hc hf
  obtain ⟨sub, c', d, hc', hm, _, hyes⟩ := C12_realm_event_details r s opts topic args kw x hx
  rw [hc] at hc'
  cases hc'
  exact ⟨sub.id, d, hm, hyes ⟨hdis, hf⟩⟩

/-- non-vacuity: a realm that allows disclosure, one subscriber (session 1) that announced the
    feature; the publication of session 3 (authid alice) with `disclose_me` is not refused and its one
    EVENT carries the three keys. -/
def exRealm : Realm :=
  { broker := { (({} : Broker).syncSubscribe 1 1 "t" "exact" 0).1 with allowDisclose := true },
    clients := [{ key := 1, details := [], roles := [("subscriber", ["publisher_identification"])], isLocal := false },
                { key := 3, details := [("authid", .str "alice")], roles := [], isLocal := false }] }

example : Realm.discloseRefused exRealm [("disclose_me", .bool true)] = false ∧
    Dict.get? [("disclose_me", .bool true)] OptDiscloseMe = some (.bool true) ∧
    (exRealm.broker.syncPublish exRealm.session? exRealm.now
      (Realm.pubOf exRealm { key := 3, details := [("authid", .str "alice")], roles := [], isLocal := false }
        [("disclose_me", .bool true)] "t" [.int 7] [])).2.map (fun x => (x.to, x.msg.eventPub?)) =
      [(1, some pubBase)] ∧
    (∃ c, exRealm.session? 1 = some c ∧ c.hasFeature RoleSubscriber FeaturePubIdent = true) := by
  refine ⟨by decide, by rfl, by decide +kernel,
    ⟨{ key := 1, details := [], roles := [("subscriber", ["publisher_identification"])], isLocal := false },
      by rfl, by decide⟩⟩

/-! ### realm level: REGISTER and `disclose_caller` (work package A, audit C12-a2) -/

open Realm Nexus.L2.WpA in
/-- Where a registration's `disclose` flag comes from.  After `handleRegister r s req opts proc`, a
    registration `g` with `g.disclose = true` either continues a registration that was already there
    (same id, same flag: joining a shared registration changes only its `callees`, so the flag is the
    CREATOR's), or it is the registration created by this very REGISTER — fresh id, `s` its only
    callee — and then `disclose_caller` was requested (the boolean true) AND the realm allows
    disclosure or the registering session's authrole is "trusted". -/
theorem C12_reg_disclose_origin (r : Realm) (s : Session) (req : Nat) (opts : Dict) (proc : String) :
    ∀ g ∈ (handleRegister r s req opts proc).ds.d.regs, g.disclose = true →
      (∃ g0 ∈ r.ds.d.regs, g0.id = g.id ∧ g0.disclose = g.disclose) ∨
      (g.id = r.ds.d.nextReg + 1 ∧ g.callees = [s.key] ∧ g.proc = proc ∧
        opts.optFlag OptDiscloseCaller = true ∧
        (r.ds.d.allowDisclose = true ∨ sessAttr s.details "authrole" = "trusted")) := by
  intro g hg hdis
  rw [handleRegister_eq] at hg
  cases hr : registerRefusal r s req opts proc with
  | some m =>
    rw [hr] at hg
    simp only [trySend_ds] at hg
    exact Or.inl ⟨g, hg, rfl, rfl⟩
  | none =>
    rw [hr] at hg
    simp only [applyD_ds] at hg
    rcases syncRegister_regs_origin _ _ _ _ _ _ _ _ _ g hg with h | ⟨h1, h2, h3, h4⟩
    · exact Or.inl h
    · refine Or.inr ⟨h1, h2, h3, by rw [← h4]; exact hdis, ?_⟩
      have hflag : opts.optFlag OptDiscloseCaller = true := by rw [← h4]; exact hdis
      unfold registerRefusal at hr
      split at hr
      · cases hr
      · split at hr
        · cases hr
        · split at hr
          · cases hr
          · rename_i hno
            cases ha : r.ds.d.allowDisclose with
            | true => exact Or.inl rfl
            | false =>
              right
              apply Classical.byContradiction
              intro ht
              exact hno ⟨ha, hflag, ht⟩

open Realm Nexus.L2.WpA in
/-- REGISTER with `disclose_caller` in a realm that disallows disclosure, by a session whose authrole
    is not "trusted" (URI valid, not a `wamp.` URI from a client): REFUSED.  The whole effect is one
    ERROR(REGISTER, req, wamp.error.option_disallowed.disclose_me) offered to the sender's queue
    (appended if there is room, dropped — changing nothing — if the queue is full); the dealer state,
    hence every registration, is unchanged; no meta event is queued; nobody else's queue changes. -/
theorem C12_register_refused (r : Realm) (s : Session) (req : Nat) (opts : Dict) (proc : String)
    (hv : validUri r.ds.d.strict (opts.optString OptMatch) proc = true)
    (hw : ¬(proc.startsWith "wamp." = true ∧ s.key ≠ metaKey))
    (hd : opts.optFlag OptDiscloseCaller = true) (ha : r.ds.d.allowDisclose = false)
    (ht : sessAttr s.details "authrole" ≠ "trusted") :
    handleRegister r s req opts proc =
      r.trySend ⟨s.key, .error tREGISTER req [] ErrOptionDisallowedDiscloseMe [] []⟩ ∧
    (handleRegister r s req opts proc).ds = r.ds ∧
    (handleRegister r s req opts proc).tasks = r.tasks ∧
    (handleRegister r s req opts proc).broker = r.broker ∧
    (handleRegister r s req opts proc).clients = r.clients ∧
    (∀ k, k ≠ s.key → (handleRegister r s req opts proc).queueOf k = r.queueOf k) ∧
    (∀ c, s.key ≠ metaKey → r.client? s.key = some c →
      (c.cap ≤ r.queueLen s.key → handleRegister r s req opts proc = r) ∧
      (r.queueLen s.key < c.cap →
        (handleRegister r s req opts proc).queueOf s.key =
          r.queueOf s.key ++ [.error tREGISTER req [] ErrOptionDisallowedDiscloseMe [] []])) := by
  have hr : registerRefusal r s req opts proc = some (errMsg tREGISTER req ErrOptionDisallowedDiscloseMe) := by
    unfold registerRefusal
    rw [if_neg (by simp [hv]), if_neg hw, if_pos ⟨ha, hd, ht⟩]
  have heq : handleRegister r s req opts proc =
      r.trySend ⟨s.key, .error tREGISTER req [] ErrOptionDisallowedDiscloseMe [] []⟩ := by
    rw [handleRegister_eq, hr]; rfl
  have hf := trySend_frame r ⟨s.key, .error tREGISTER req [] ErrOptionDisallowedDiscloseMe [] []⟩
  refine ⟨heq, by rw [heq]; exact hf.ds, ?_, by rw [heq]; exact hf.broker, by rw [heq]; exact hf.clients, ?_, ?_⟩
  · rw [heq]; exact trySend_tasks_noninv r _ (fun _ _ _ _ _ h => by cases h)
  · intro k hk
    rw [heq, queueOf_trySend, if_neg (fun h => hk h.1.symm)]
  · intro c hk hc
    rw [heq]
    obtain ⟨h1, h2⟩ := trySend_client_effect r ⟨s.key, .error tREGISTER req [] ErrOptionDisallowedDiscloseMe [] []⟩ hk hc
    exact ⟨h1, fun hroom => (h2 hroom).1⟩

/-- non-vacuity: an ordinary client asking for `disclose_caller` in the default realm (disclosure not
    allowed) -/
example : validUri ({} : Realm).ds.d.strict (Dict.optString [("disclose_caller", .bool true)] OptMatch) "a.b" = true ∧
    ¬(("a.b" : String).startsWith "wamp." = true ∧ (5 : SessKey) ≠ metaKey) ∧
    Dict.optFlag [("disclose_caller", .bool true)] OptDiscloseCaller = true ∧
    ({} : Realm).ds.d.allowDisclose = false ∧ sessAttr [("authrole", .str "user")] "authrole" ≠ "trusted" := by
  refine ⟨by decide +kernel, by decide +kernel, by decide, rfl, by decide⟩

open Realm Nexus.L2.WpA in
/-- Every refusal of REGISTER in the handler (invalid URI; a `wamp.` URI from a client; disallowed
    `disclose_caller`; unknown invocation policy) announces nothing: the effect is one
    ERROR(REGISTER, req, …) offered to the sender; the dealer state is unchanged and no task (hence no
    meta event) is queued. -/
theorem C12_register_refusals_silent (r : Realm) (s : Session) (req : Nat) (opts : Dict) (proc : String)
    (h : validUri r.ds.d.strict (opts.optString OptMatch) proc = false ∨
         (proc.startsWith "wamp." = true ∧ s.key ≠ metaKey) ∨
         (r.ds.d.allowDisclose = false ∧ opts.optFlag OptDiscloseCaller = true ∧
            sessAttr s.details "authrole" ≠ "trusted") ∨
         (opts.optString OptInvoke) ∉ knownPolicies) :
    ∃ uri a, handleRegister r s req opts proc = r.trySend ⟨s.key, .error tREGISTER req [] uri a []⟩ ∧
      (handleRegister r s req opts proc).ds = r.ds ∧
      (handleRegister r s req opts proc).tasks = r.tasks ∧
      (handleRegister r s req opts proc).broker = r.broker := by
  have hr : ∃ uri a, registerRefusal r s req opts proc = some (.error tREGISTER req [] uri a []) := by
    unfold registerRefusal
    split
    · exact ⟨_, _, rfl⟩
    · split
      · exact ⟨_, _, rfl⟩
      · split
        · exact ⟨_, _, rfl⟩
        · split
          · exact ⟨_, _, rfl⟩
          · rename_i h1 h2 h3 h4
            rcases h with h | h | h | h
            · exact absurd h h1
            · exact absurd h h2
            · exact absurd h h3
            · exact absurd h h4
  obtain ⟨uri, a, hr⟩ := hr
  have heq : handleRegister r s req opts proc = r.trySend ⟨s.key, .error tREGISTER req [] uri a []⟩ := by
    rw [handleRegister_eq, hr]
  have hf := trySend_frame r ⟨s.key, .error tREGISTER req [] uri a []⟩
  exact ⟨uri, a, heq, by rw [heq]; exact hf.ds,
    by rw [heq]; exact trySend_tasks_noninv r _ (fun _ _ _ _ _ h => by cases h), by rw [heq]; exact hf.broker⟩

/-- non-vacuity: the four refusal reasons on concrete requests -/
example : validUri false "" "a..b" = false ∧ ("wamp.x" : String).startsWith "wamp." = true ∧
    Dict.optString [("invoke", .str "nonsense")] OptInvoke ∉ Realm.knownPolicies := by
  refine ⟨by decide +kernel, by decide +kernel, by decide⟩

/-! ### realm level (work package A): every reachable realm -/

/-- "The realm allows disclosure" is a constant of the realm: in every reachable state the broker's
    and the dealer's copies of `allowDisclose` (and of `strict`) are the configured values.  So
    `r.broker.allowDisclose` in `C12_refused_publish` / `C12_disclose_flag` and `s.d.allowDisclose` in the
    dealer theorems (C12Dealer) all mean `cfg.allowDisclose`. -/
theorem C12_flags_const {cfg : Config} {r : Realm} (h : Realm.Reachable cfg r) :
    r.broker.allowDisclose = cfg.allowDisclose ∧ r.ds.d.allowDisclose = cfg.allowDisclose ∧
    r.broker.strict = cfg.strict ∧ r.ds.d.strict = cfg.strict := by
  obtain ⟨a, b, c, d, _, _⟩ := WpA.flags_const h
  exact ⟨a, b, c, d⟩

/-- non-vacuity: `Realm.Reachable` is inhabited for a configuration that allows disclosure -/
example : ∃ r, Realm.Reachable { allowDisclose := true } r ∧ r.broker.allowDisclose = true := by
  have hs : (Realm.create { allowDisclose := true }).isSome = true := by decide +kernel
  cases hc : Realm.create { allowDisclose := true } with
  | none => rw [hc] at hs; cases hs
  | some r => exact ⟨r, .init hc, (C12_flags_const (.init hc)).1⟩

/-- In every reachable realm no stored history entry carries a publisher key — whatever was
    published with `disclose_me` and whoever was subscribed: the hypotheses of
    `C12_history_no_identity_init` hold for the run that produced the realm's broker. -/
theorem C12_history_no_identity_realm {cfg : Config} {r : Realm} (h : Realm.Reachable cfg r) :
    ∀ st ∈ r.broker.hist, ∀ e ∈ st.entries, ∀ key, isPublisherKey key → e.details.get? key = none := by
  obtain ⟨steps, hb, ht⟩ := WpA.reachable_run h
  rw [hb]
  exact C12_history_no_identity_init cfg.strict cfg.allowDisclose cfg.history steps
    (fun sess now p hm key hk => WpA.Trace.pubOk ht sess now p hm key (Or.inr hk))

end Nexus.C12
