/-
  C05 — Ending a session removes all of its effects and state.

  Property text.  "When a session ends for any reason (GOODBYE, lost transport, kill through the
  meta API, protocol violation), from then on no event or invocation is routed to it, its
  subscriptions and registrations no longer exist for matching, sharing decisions or the meta API,
  every call it was serving is answered to its caller with an error, its own pending calls are
  abandoned (progressive results for them are interrupted), and its stored testaments are
  published exactly once.  Once all sessions of a realm have left and all calls have completed, the
  router holds no per-session, per-subscription, per-registration or per-call state, so
  arbitrarily long runs of sessions and calls, including failed and refused ones, do not grow the
  router."

  The theorems are about the realm model `Nexus.L2.Realm` (router/realm.go + the handler halves of
  broker.go / dealer.go).  The carrier is the invariant `Realm.RealmInv` (Nexus/L2/Proofs/RealmInv.lean):
  `BrokerInv` and `DealerInv` of the sibling proofs + LIVE REFERENCES + well-formed pending tasks.
  It holds initially, is preserved by EVERY external input (`stepOp`), EVERY internal task
  (`runTask`, whichever pending task is scheduled next — this is how all interleavings of the
  broker/dealer/realm/meta goroutines are covered), every timed event, and hence by `step` and in
  every reachable state.

  Vocabulary:  `r.isClient k`  k is the key of a session in `r.clients`;
               `r.att k`       k = metaKey ∨ r.isClient k;
               `r.broker.mem k` k is a member of some subscription;
               `r.ds.refs k`   k is a callee of a registration, a caller of a pending call, the
                               callee of an invocation, or a key of the callee index (DealerRefs.lean);
               `Gone r k`      ¬ broker.mem k ∧ no broker-index entry of k ∧ ¬ ds.refs k.

  clause                                                        theorem
  ------------------------------------------------------------  ----------------------------------
  LIVE REFERENCES: every subscriber, broker-index key and        C05_live_refs
  caller is attached; every callee, callee-index key,
  invocation callee and retrying handler is attached or is the
  meta session (which holds the wamp.* registrations)
  every message waiting in `inbox` was sent by an attached,      C05_live_refs_inbox
  buffered session whose handler is still busy
  … holds initially / preserved by every input, task, timed      C05_live_refs_init, _stepOp,
  event, step / in every reachable state                         _runTask, _timed, _step, _reachable
  after the leave of k (EVERY mode: lost, killed, aborted,       C05_leave_gone
  violation, shutdown) k occurs nowhere: clients, ending,
  subscriptions, broker index, registrations, callee index,
  calls, invocations, testament table
  "no event or invocation is routed to it": sends go only to     (consequence of C05_live_refs +
  members / callees / callers, all attached                      C05_leave_gone; C04_no_panic)
  every call k was serving → exactly one ERROR(CALL,             C05_leave_served_calls
  wamp.error.canceled) to its caller, in that step (shutdown
  is quiet by design); the calls are removed
  k's own calls are gone; a later progressive YIELD for them     C05_leave_own_calls
  finds no invocation and draws an INTERRUPT
  testaments: k's bucket is taken from the table and turned      C05_leave_testaments
  into publish tasks exactly once, detached then destroyed,
  followed by on_leave, for EVERY non-shutdown mode (kill_all
  included: F30 fixed); nothing for shutdown
  testament buckets are stored under keys of attached sessions   C05_testaments_task_level,
  only: kept by every task / input / timed event / step;         C05_testaments_attached, _reachable,
  add_testament of a caller that has left stores nothing          C05_add_testament_unattached
  "the router holds no per-session … state" once no session      C05_returns_to_empty
  is attached
  calls / invocations / invocationByCall have equal sizes,       C05_bounded
  every entry belongs to attached sessions (so the tables are
  bounded by the pending calls of attached sessions)

  HYPOTHESES ON SESSION KEYS.  None of the theorems below needs "joins use fresh keys" or
  "no session joins with key 0 (= metaKey)": `isClient` / `att` are stated by key, `Realm.leave k`
  removes every client entry with key k, and a client that (in the model only — the harness never
  does it, the router draws random non-zero ids) carried the key 0 would merely be conflated with
  the meta session by `att`.  Where key freshness matters (one realm per session) it is an explicit
  hypothesis: `C11_attach_once_step`, `C11_sessions_partitioned`, `C11_dispatch_own_realm`.

  NOT proved here / recorded limits
  * `queues`: the model keeps the outbound queue of a departed session that had stopped reading
    (`ghosts`) until the harness observes the closure (`resume`); queue keys ⊆ sessions joined to
    the realm is C11 (`Realm.Conf`).  `C05_returns_to_empty` therefore says nothing about `queues`.
  * testaments (finding F20, fixed): `add_testament` stores under the caller id found in the
    invocation details.  In the real router the handler goroutines are concurrent, so the caller may
    have left when the meta handler runs; `sessionAddTestament` now looks the caller up in `clients`
    and stores nothing when it is gone (`C05_add_testament_unattached`).  With that, "every testament
    bucket belongs to an attached session" is an invariant at the granularity of single tasks
    (`C05_testaments_task_level`, which REPLACES the former witness `C05_testaments_task_level_fails`
    — that theorem exhibited a pending `metaInvoke add_testament` of a non-attached caller leaving a
    testament of a session that does not exist; it is false for the fixed router), of steps and in
    every reachable state (`C05_testaments_attached`, `C05_testaments_attached_reachable`).
    `C05_leave_testaments` (what leave does to the table) is unconditional.
  * F30 (fixed in /repo 624448b, model follows): sessions ended by `kill_all` used to lose their
    testaments and their `on_leave`; now `kill_all` is a kill like any other and
    `C05_leave_testaments` holds at full strength for every non-shutdown mode.  Only the realm
    shutdown (Router.Close / RemoveRealm) is silent, by design.
-/
import Nexus.L2.Proofs.RealmLeave
import Nexus.L2.Proofs.RealmMeta

namespace Nexus.C05
open Nexus.L2 Nexus.L2.Realm Nexus.Gen.N

/-! ## Live references -/

/-- What the invariant says about references to sessions. -/
theorem C05_live_refs (r : Realm) (hi : RealmInv r) :
    (∀ s ∈ r.broker.subs, ∀ k ∈ s.members, r.isClient k) ∧
    (∀ e ∈ r.broker.index, r.isClient e.1) ∧
    (∀ g ∈ r.ds.d.regs, ∀ k ∈ g.callees, r.att k) ∧
    (∀ e ∈ r.ds.d.index, r.att e.1) ∧
    (∀ c ∈ r.ds.d.calls, r.isClient c.sess) ∧
    (∀ v ∈ r.ds.d.invs, r.att v.callee ∧ r.isClient v.callId.sess) ∧
    (∀ p ∈ r.ds.d.byCall, r.isClient p.1.sess ∧ r.att p.2.sess) ∧
    (∀ x ∈ r.retries, r.att x.callee) := by
  refine ⟨fun s hs k hk => hi.bmem k ⟨s, hs, hk⟩, fun e he => hi.bmem e.1 (hi.binv.index_mem he),
    fun g hg k hk => hi.dref k (Or.inl ⟨g.id, g, hg, rfl, hk⟩),
    fun e he => hi.dref e.1 (Or.inr (Or.inr (Or.inr ⟨e, he, rfl⟩))), hi.callers, ?_, ?_, hi.retr⟩
  · intro v hv
    exact ⟨hi.dref _ (Or.inr (Or.inr (Or.inl ⟨v, hv, rfl⟩))), hi.callers _ (hi.dinv.call.inv_call hv).1⟩
  · intro p hp
    obtain ⟨v, hv, hvi, hvc⟩ := (hi.dinv.call.byInv p.1 p.2).mp hp
    refine ⟨hi.callers _ ((hi.dinv.call.callBy p.1).mpr ⟨p.2, hp⟩), ?_⟩
    have := hi.dref _ (Or.inr (Or.inr (Or.inl ⟨v, hv, rfl⟩)))
    rw [hi.dinv.call.callee v hv, hvi] at this
    exact this

/-- … and about what waits in the transport: every message in `inbox` was sent by an attached,
    `buffered` session whose handler is still in the yield retry loop (clause `inb` of `RealmInv`,
    kept by every input, task and timed event like the rest): nothing waits for a session that has
    left, nor for one whose handler could read it. -/
theorem C05_live_refs_inbox (r : Realm) (hi : RealmInv r) :
    ∀ e ∈ r.inbox, (∃ c ∈ r.clients, c.key = e.1 ∧ c.buffered = true) ∧ r.busy e.1 = true := hi.inb

/-- The freshly created realm satisfies the invariant. -/
theorem C05_live_refs_init (cfg : Config) (r : Realm) (h : Realm.create cfg = some r) : RealmInv r :=
  (create_rinv h).1

/-- Every external input keeps it (join, message, transport loss, stall, resume, buffer, tick, rnd). -/
theorem C05_live_refs_stepOp (r : Realm) (hi : RealmInv r) (op : Op) : RealmInv (r.stepOp op) :=
  (stepOp_inv hi op).1

/-- Every internal task keeps it — for ANY pending task (`hi.tasks` says that every pending task is
    `TaskOk`), so for every order in which the goroutines' atomic actions are scheduled. -/
theorem C05_live_refs_runTask (r : Realm) (hi : RealmInv r) (t : Task) (ht : TaskOk t) : RealmInv (r.runTask t) :=
  (runTask_inv hi t ht).1

example (r : Realm) (hi : RealmInv r) (t : Task) (ht : t ∈ r.tasks) : TaskOk t := hi.tasks t ht

/-- Timed events keep it: a call timeout, and a turn of the yield retry loop of a pending retry. -/
theorem C05_live_refs_timed (r : Realm) (hi : RealmInv r) :
    (∀ t, RealmInv (r.timerDue t)) ∧ (∀ x ∈ r.retries, RealmInv (r.retryDue x)) :=
  ⟨fun t => (timerDue_rinv hi t).1, fun x hx => (retryDue_rinv hi x (hi.retr x hx)).1⟩

/-- One input run to quiescence keeps it. -/
theorem C05_live_refs_step (r : Realm) (hi : RealmInv r) (hp : FuelOnly r.panic) (op : Op) : RealmInv (r.step op).2 :=
  (step_inv hi hp op).1

/-- Hence it holds in every state reachable from `Realm.create cfg` by any history. -/
theorem C05_live_refs_reachable (cfg : Config) (r : Realm) (h : Realm.Reachable cfg r) : RealmInv r := h.inv.1

-- non-vacuity: the default realm (no sessions, nothing registered) satisfies the invariant
example : RealmInv ({} : Realm) := RealmInv.empty []

/-! ## The leave event -/

/-- After the handler of an attached session `k` has exited — in EVERY mode — `k` is no longer in
    `clients` nor `ending`, is a member of no subscription, has no broker-index entry, is referred to
    by no registration, callee-index entry, call or invocation, and owns no testament bucket; the
    invariant holds and nothing panicked.  (`¬ busy k`: the handler is not in the yield retry loop —
    `runTask` defers the departure until it is free; `Router.shutdownRealm` clears the retries.) -/
theorem C05_leave_gone (r : Realm) (hi : RealmInv r) (k : SessKey) (mode : LeaveMode)
    (hk : r.isClient k) (hnb : r.busy k = false) :
    let r' := r.leave k mode
    RealmInv r' ∧ r'.panic = r.panic ∧
    ¬ r'.isClient k ∧ k ∉ r'.ending ∧
    ¬ r'.broker.mem k ∧ (∀ e ∈ r'.broker.index, e.1 ≠ k) ∧
    (∀ id, ¬ calleeRel r'.ds.d.regs id k) ∧ (∀ e ∈ r'.ds.d.index, e.1 ≠ k) ∧
    (∀ c ∈ r'.ds.d.calls, c.sess ≠ k) ∧
    (∀ v ∈ r'.ds.d.invs, v.callee ≠ k ∧ v.callId.sess ≠ k) ∧
    (∀ t ∈ r'.testaments, t.1 ≠ k) ∧
    (∀ k', r'.isClient k' ↔ r.isClient k' ∧ k' ≠ k) := by
  intro r'
  have hnb' : ∀ x ∈ r.retries, x.callee ≠ k := not_busy (by rw [hnb]; simp)
  obtain ⟨h1, h2, h3, h4⟩ := leave_inv hi k mode hnb'
  obtain ⟨⟨g1, g2, g3⟩, g4⟩ := h3 hk
  have hcalls : ∀ c ∈ r'.ds.d.calls, c.sess ≠ k := fun c hc e => g3 (Or.inr (Or.inl ⟨c, hc, e⟩))
  refine ⟨h1, h2, g4, leave_ending r k mode hk, g1, g2, fun id h => g3 (Or.inl ⟨id, h⟩),
    fun e he h => g3 (Or.inr (Or.inr (Or.inr ⟨e, he, h⟩))), hcalls, ?_, ?_, ?_⟩
  · intro v hv
    exact ⟨fun e => g3 (Or.inr (Or.inr (Or.inl ⟨v, hv, e⟩))), hcalls _ (h1.dinv.call.inv_call hv).1⟩
  · intro t ht
    have : t ∈ r.testaments.filter (fun t => t.1 != k) := leave_testaments r k mode hk ▸ ht
    simpa using (List.mem_filter.mp this).2
  · exact leave_isClient hi k mode hk hnb'

/-- Every call `k` was serving is answered in that step: the dealer part of the (non-shutdown)
    departure hands exactly one ERROR(CALL, request, wamp.error.canceled, ["<text>"]) per invocation
    whose callee is `k` to the caller's queue (non-blocking `trySend`, in table order), and those
    calls are no longer pending afterwards.  For the shutdown mode the same table updates happen
    without any message (quiet by design: Router.Close / RemoveRealm). -/
theorem C05_leave_served_calls (r : Realm) (hi : RealmInv r) (k : SessKey) :
    (syncRemoveSession r.denv r.ds k).sends =
      (r.ds.d.invs.filter (fun v => v.callee == k)).map (fun v => goneErr v.callId) ∧
    (∀ x ∈ (syncRemoveSession r.denv r.ds k).sends, r.isClient x.to) ∧
    (∀ c ∈ (syncRemoveSession r.denv r.ds k).st.d.calls, ∀ v ∈ r.ds.d.invs, v.callee = k → v.callId ≠ c) ∧
    leaveRemove r k false =
      (let ra := r.applyD (syncRemoveSession r.denv r.ds k)
       ({ ra with broker := (ra.broker.syncRemoveSession k ra.pubCount).1,
                  pubCount := ra.pubCount + (ra.broker.syncRemoveSession k ra.pubCount).2.2 } : Realm).deliver
         (ra.broker.syncRemoveSession k ra.pubCount).2.1) ∧
    leaveRemove r k true =
      ({ r with ds := (syncRemoveSession r.denv r.ds k).st, broker := (r.broker.syncRemoveSession k r.pubCount).1 } : Realm).setPanic
        (syncRemoveSession r.denv r.ds k).panic := by
  have hs := syncRemoveSession_sends (env := r.denv) hi.dinv k
  refine ⟨hs, ?_, ?_, rfl, rfl⟩
  · intro x hx
    rw [hs] at hx
    obtain ⟨v, hv, rfl⟩ := List.mem_map.mp hx
    exact hi.callers _ (hi.dinv.call.inv_call (List.mem_filter.mp hv).1).1
  · intro c hc
    exact (syncRemoveSession_calls hi.dinv k c hc).2.2

-- the ERROR a caller gets
example (c : ReqId) : goneErr c = ⟨c.sess, .error tCALL c.req [] ErrCanceled [.str "<text>"] []⟩ := rfl

/-- `k`'s own calls are abandoned: after the leave no call, link or invocation with caller `k` is
    left, and a later YIELD of the callee for such an invocation finds no invocation — a progressive
    YIELD draws INTERRUPT(killnowait) (if the callee's queue has room), a final one is ignored. -/
theorem C05_leave_own_calls (r : Realm) (hi : RealmInv r) (k : SessKey) (mode : LeaveMode)
    (hk : r.isClient k) (hnb : r.busy k = false) (v : Invk) (_hv : v ∈ r.ds.d.invs) (hvk : v.callId.sess = k) :
    let r' := r.leave k mode
    v.callId ∉ r'.ds.d.calls ∧ (∀ p ∈ r'.ds.d.byCall, p.1.sess ≠ k) ∧ r'.ds.d.findInv v.id = none ∨
      (∃ w ∈ r'.ds.d.invs, w.id = v.id ∧ w.callId.sess ≠ k) := by
  intro r'
  obtain ⟨h1, _, _, _, _, _, _, _, hcalls, hinvs, _, _⟩ := C05_leave_gone r hi k mode hk hnb
  by_cases hex : ∃ w ∈ r'.ds.d.invs, w.id = v.id
  · obtain ⟨w, hw, hwi⟩ := hex
    exact Or.inr ⟨w, hw, hwi, (hinvs w hw).2⟩
  · refine Or.inl ⟨fun hc => hcalls _ hc hvk, ?_, ?_⟩
    · intro p hp
      exact hcalls _ ((h1.dinv.call.callBy p.1).mpr ⟨p.2, hp⟩)
    · rw [findInv_eq_none]
      intro w hw e
      exact hex ⟨w, hw, e⟩

/-- … and what `syncYield` does when it finds no invocation (the link to the dealer model). -/
theorem C05_yield_after_leave (env : DEnv) (s : DState) (callee : SessKey) (req : Nat) (opts : Dict)
    (args : List WVal) (kw : Dict) (canRetry : Bool) (hf : s.d.findInv ⟨callee, req⟩ = none) :
    (env.full callee = false →
      syncYield env s callee req opts args kw true canRetry =
        { st := s, sends := [⟨callee, .interrupt req [(OptMode, .str CancelModeKillNoWait)]⟩] }) ∧
    syncYield env s callee req opts args kw false canRetry = { st := s } := by
  refine ⟨fun hfull => ?_, ?_⟩
  · rw [syncYield_none opts args kw true canRetry hf]; simp [hfull]
  · rw [syncYield_none opts args kw false canRetry hf]; simp

/-- Testaments.  The bucket of `k` is removed from the table (every mode).  For EVERY non-shutdown
    mode — lost, killed (kill, kill_by_authid, kill_by_authrole AND kill_all), aborted, violation —
    the departure appends, after the tasks of the table removal, exactly: one publish task per
    testament — detached first, then destroyed, in stored order — followed by the
    `wamp.session.on_leave` announcement: the stored testaments are published exactly once.  For
    the realm shutdown nothing is appended (quiet by design). -/
theorem C05_leave_testaments (r : Realm) (k : SessKey) (s : Session) (mode : LeaveMode)
    (hf : r.clients.find? (fun c => c.key == k) = some s) :
    (r.leave k mode).testaments = r.testaments.filter (fun t => t.1 != k) ∧
    (mode.isShutdown = false →
      (r.leave k mode).tasks =
        leaveBaseTasks r k mode ++ (testamentTasks (bucketOf r k) ++ [.metaPub (onLeavePub s)])) ∧
    (mode.isShutdown = true → (r.leave k mode).tasks = leaveBaseTasks r k mode) ∧
    (∀ b, bucketOf r k = some b →
      testamentTasks (bucketOf r k) = (b.detached ++ b.destroyed).map (fun t => Task.metaPub (testamentPub t))) ∧
    (bucketOf r k = none → testamentTasks (bucketOf r k) = []) := by
  refine ⟨leave_testaments r k mode (isClient_of_find hf), ?_, ?_, ?_, ?_⟩
  · intro h
    rw [leave_tasks' mode hf, h]
    rfl
  · intro h
    rw [leave_tasks' mode hf, h]
    simp
  · intro b hb; rw [hb]; rfl
  · intro hb; rw [hb]; rfl

-- which modes are silent: only the shutdown
example : LeaveMode.lost.isShutdown = false ∧ (LeaveMode.violation "x").isShutdown = false ∧
    LeaveMode.aborted.isShutdown = false ∧
    (LeaveMode.killed (.goodbye [] "r") false).isShutdown = false ∧
    (LeaveMode.killed (.goodbye [] "r") true).isShutdown = false ∧
    LeaveMode.shutdown.isShutdown = true := by decide

/-! ## Testaments belong to attached sessions -/

-- a testament that uses payload passthru (`ppt_scheme` in its publish options) is published like any
-- other: the meta session announces the publisher feature (it used to be aborted by its own publish)
example : ({} : Realm).metaS.hasFeature RolePublisher FeaturePayloadPassthruMode = true := by decide

/-- the per-task statement "testament keys are attached sessions" for an arbitrary pending task … -/
def C05_testaments_task_level_full : Prop :=
  ∀ (r : Realm) (t : Task), RealmInv r → TaskOk t → (∀ x ∈ r.testaments, r.isClient x.1) →
    ∀ x ∈ (r.runTask t).testaments, (r.runTask t).isClient x.1

/-- … HOLDS at task granularity (F20 fixed: `sessionAddTestament` checks `r.clients[caller]`; this theorem
    replaces the former witness theorem `C05_testaments_task_level_fails`).  Whichever pending task runs
    next: `add_testament` stores nothing for a caller that is no longer attached
    (`C05_add_testament_unattached`), `flush_testaments` only shrinks or rewrites an existing bucket, the
    departure of a session takes its own bucket out (`C05_leave_testaments`), and no other task writes
    the table.  So also when the `add_testament` invocation of a session is still pending when the
    session has left (the interleaving the real router's concurrent handlers can produce), no testament
    of a session that does not exist is ever stored. -/
theorem C05_testaments_task_level : C05_testaments_task_level_full :=
  fun _ t hi ht h => runTask_testaments hi h t ht

/-- `add_testament` by a caller that is not an attached client (its id is below the session-id base, or
    names no session in `clients`): the answer is the same empty YIELD, the state is UNCHANGED. -/
theorem C05_add_testament_unattached (r : Realm) (req c : Nat) (details : Dict) (kw : Dict) (topic : String)
    (targs : List WVal) (tkw : Dict) (rest : List WVal) (hc : callerOf details = some c)
    (hs : scopeOf kw = "destroyed" ∨ scopeOf kw = "detached")
    (hna : c < sidBase ∨ ∀ s ∈ r.clients, s.key ≠ c - sidBase) :
    metaProc r MetaProcSessionAddTestament req details (.str topic :: .list targs :: .dict tkw :: rest) kw =
      (mYield req [], r) :=
  metaProc_addTestament_unattached r req c details kw topic targs tkw rest hc hs hna

-- the former counterexample (no client, pending `add_testament` of session 5): nothing is stored now
example : let r0 : Realm := { metaProcs := [(1, MetaProcSessionAddTestament)] }
    (r0.runTask (.metaInvoke 7 1 [("caller", .int (sidBase + 5))] [.str "t", .list [], .dict []] [])).testaments = [] := by
  decide

/-- The invariant "every testament bucket is stored under the key of an attached session" is kept by
    every external input, every internal task, every timed event and every step, and holds in every
    reachable state. -/
theorem C05_testaments_attached (r : Realm) (hi : RealmInv r) (h : TestamentsAttached r) :
    (∀ op, TestamentsAttached (r.stepOp op)) ∧
    (∀ t, TaskOk t → TestamentsAttached (r.runTask t)) ∧
    (∀ t, TestamentsAttached (r.timerDue t)) ∧ (∀ x, TestamentsAttached (r.retryDue x)) ∧
    (FuelOnly r.panic → ∀ op, TestamentsAttached (r.step op).2) :=
  ⟨stepOp_testaments hi h, fun t ht => runTask_testaments hi h t ht, timerDue_testaments h, retryDue_testaments h,
   fun hp op => step_testaments hi hp h op⟩

theorem C05_testaments_attached_reachable (cfg : Config) (r : Realm) (h : Realm.Reachable cfg r) :
    ∀ x ∈ r.testaments, r.isClient x.1 := h.testaments

/-! ## After the last session has left -/

/-- In a state satisfying the invariant in which no session is attached: every subscription left is
    memberless and has a history store (i.e. is a pre-created history subscription), the broker
    index is empty, every registration left has the meta session as its only callee (the `wamp.*`
    meta procedures), the callee index has no key but the meta session, and there is no call, no
    invocation, no call→invocation link; only the meta session's handler can be in a retry loop.
    Holds in particular for every reachable state with `clients = []`, whatever the history
    (refused / failed calls and registrations included). -/
theorem C05_returns_to_empty (r : Realm) (hi : RealmInv r) (hc : r.clients = []) :
    (∀ s ∈ r.broker.subs, s.members = [] ∧ r.broker.hasHist s.id = true) ∧
    r.broker.index = [] ∧
    (∀ g ∈ r.ds.d.regs, g.callees = [metaKey]) ∧
    (∀ e ∈ r.ds.d.index, e.1 = metaKey) ∧
    r.ds.d.calls = [] ∧ r.ds.d.invs = [] ∧ r.ds.d.byCall = [] ∧
    (∀ x ∈ r.retries, x.callee = metaKey) := by
  have nocl : ∀ k, ¬ r.isClient k := by
    rintro k ⟨c, hcm, _⟩
    rw [hc] at hcm; cases hcm
  have attm : ∀ k, r.att k → k = metaKey := fun k h => h.elim id (fun h => absurd h (nocl k))
  have hcalls : r.ds.d.calls = [] := by
    cases hcs : r.ds.d.calls with
    | nil => rfl
    | cons c cs => exact absurd (hi.callers c (by rw [hcs]; exact List.mem_cons_self ..)) (nocl _)
  have hsz := CallInv.sizes hi.dinv.call
  rw [hcalls] at hsz
  have hby : r.ds.d.byCall = [] := List.eq_nil_of_length_eq_zero hsz.1.symm
  have hinv : r.ds.d.invs = [] := List.eq_nil_of_length_eq_zero (by rw [← hsz.2, hby]; rfl)
  obtain ⟨l1, l2, l3, l4, _, _, _, l8⟩ := C05_live_refs r hi
  refine ⟨?_, ?_, ?_, fun e he => attm _ (l4 e he), hcalls, hinv, hby, fun x hx => attm _ (l8 x hx)⟩
  · intro s hs
    have hm : s.members = [] := by
      cases hms : s.members with
      | nil => rfl
      | cons k ks => exact absurd (l1 s hs k (by rw [hms]; exact List.mem_cons_self ..)) (nocl k)
    exact ⟨hm, hi.binv.empty_hist s hs hm⟩
  · cases hix : r.broker.index with
    | nil => rfl
    | cons e es => exact absurd (l2 e (by rw [hix]; exact List.mem_cons_self ..)) (nocl _)
  · intro g hg
    obtain ⟨hne, hnd⟩ := hi.dinv.reg.regs.callees g hg
    have hall : ∀ k ∈ g.callees, k = metaKey := fun k hk => attm k (l3 g hg k hk)
    cases hcs : g.callees with
    | nil => exact absurd hcs hne
    | cons a as =>
      rw [hcs] at hall hnd
      have ha : a = metaKey := hall a (List.mem_cons_self ..)
      cases has : as with
      | nil => rw [ha]
      | cons b bs =>
        rw [has] at hall hnd
        have hb : b = metaKey := hall b (List.mem_cons_of_mem _ (List.mem_cons_self ..))
        have := (List.nodup_cons.mp hnd).1
        rw [ha, hb] at this
        exact absurd (List.mem_cons_self ..) this

example (cfg : Config) (r : Realm) (h : Realm.Reachable cfg r) (hc : r.clients = []) :
    r.ds.d.calls = [] ∧ r.broker.index = [] :=
  ⟨(C05_returns_to_empty r h.inv.1 hc).2.2.2.2.1, (C05_returns_to_empty r h.inv.1 hc).2.1⟩

/-! ## Boundedness -/

/-- The three call tables always have the same number of entries, one per pending call, and every
    entry belongs to an attached caller and an attached (or meta) callee: the tables cannot hold
    anything for sessions that have left, whatever calls were refused or failed before. -/
theorem C05_bounded (r : Realm) (hi : RealmInv r) :
    r.ds.d.calls.length = r.ds.d.byCall.length ∧ r.ds.d.byCall.length = r.ds.d.invs.length ∧
    r.ds.d.calls.Nodup ∧
    (∀ c ∈ r.ds.d.calls, r.isClient c.sess) ∧
    (∀ v ∈ r.ds.d.invs, v.callId ∈ r.ds.d.calls ∧ r.att v.callee) :=
  ⟨(CallInv.sizes hi.dinv.call).1, (CallInv.sizes hi.dinv.call).2, hi.dinv.call.calls, hi.callers,
   fun v hv => ⟨(hi.dinv.call.inv_call hv).1, ((C05_live_refs r hi).2.2.2.2.2.1 v hv).1⟩⟩

end Nexus.C05
