/-
  C05 — Ending a session removes all of its effects and state.

  Property text.  "When a session ends for any reason (GOODBYE, lost transport, kill through the
  meta API, protocol violation), from then on no event or invocation is routed to it, its
  subscriptions and registrations no longer exist for matching, sharing decisions or the meta API,
  every call it was serving is answered to its caller with an error, its own pending calls are
  abandoned (progressive results for them are interrupted), and its stored testaments are
  published exactly once.  Once all sessions of a realm have left and all calls have completed, the
  router holds no per-session, per-subscription, per-registration or per-call state, so
  arbitrarily long runs of sessions and calls, including failed and refused ones, do not grow the
  router."

  The theorems are about the realm model `Nexus.L2.Realm` (router/realm.go + the handler halves of
  broker.go / dealer.go).  The carrier is the invariant `Realm.RealmInv` (Nexus/L2/Proofs/RealmInv.lean):
  `BrokerInv` and `DealerInv` of the sibling proofs + LIVE REFERENCES + well-formed pending tasks.
  It holds initially, is preserved by EVERY external input (`stepOp`), EVERY internal task
  (`runTask`, whichever pending task is scheduled next — this is how all interleavings of the
  broker/dealer/realm/meta goroutines are covered), every timed event, and hence by `step` and in
  every reachable state.

  Vocabulary:  `r.isClient k`  k is the key of a session in `r.clients`;
               `r.att k`       k = metaKey ∨ r.isClient k;
               `r.broker.mem k` k is a member of some subscription;
               `r.ds.refs k`   k is a callee of a registration, a caller of a pending call, the
                               callee of an invocation, or a key of the callee index (DealerRefs.lean);
               `Gone r k`      ¬ broker.mem k ∧ no broker-index entry of k ∧ ¬ ds.refs k.

  clause                                                        theorem
  ------------------------------------------------------------  ----------------------------------
  LIVE REFERENCES: every subscriber, broker-index key and        C05_live_refs
  caller is attached; every callee, callee-index key,
  invocation callee and retrying handler is attached or is the
  meta session (which holds the wamp.* registrations)
  every message waiting in `inbox` was sent by an attached,      C05_live_refs_inbox
  buffered session whose handler is still busy
  … holds initially / preserved by every input, task, timed      C05_live_refs_init, _stepOp,
  event, step / in every reachable state                         _runTask, _timed, _step, _reachable
  after the leave of k (EVERY mode: lost, killed, aborted,       C05_leave_gone
  violation, shutdown) k occurs nowhere: clients, ending,
  subscriptions, broker index, registrations, callee index,
  calls, invocations, testament table
  "no event or invocation is routed to it": sends go only to     (consequence of C05_live_refs +
  members / callees / callers, all attached                      C05_leave_gone; C04_no_panic)
  every call k was serving → exactly one ERROR(CALL,             C05_leave_served_calls
  wamp.error.canceled) to its caller, in that step (shutdown
  is quiet by design); the calls are removed
  k's own calls are gone; a later progressive YIELD for them     C05_leave_own_calls
  finds no invocation and draws an INTERRUPT
  [WP-C] … sharpened: the invocation, the call and the link     C05_leave_own_calls'
  of every call made by k ARE gone (no alternative)
  [WP-C] … hence the callee's later YIELD for it: progressive    C05_yield_after_caller_left (dealer),
  ⇒ INTERRUPT(killnowait) appended to the callee's queue if      C05_yield_after_caller_left_realm
  there is room, nothing else changes; final ⇒ nothing at all    (`handleYield`, end to end)
  [WP-C] "registrations no longer exist": every registration    C05_leave_regs_gone
  left has callees, none of them k, and is an old one minus k;
  `matchProcedure` / `findProc` / `findReg` return only such;
  a registration whose only callee was k is not found any more
  [WP-C] the same for subscriptions (`findId` / `findTopic` /    C05_leave_subs_gone
  `matching`); a subscription whose only member was k and that
  has no history store is gone; the history stores are untouched
  [WP-C] meta API after the leave: list_callees/count_callees,   C05_leave_meta_callees,
  list_subscribers/count_subscribers, session.list/count/get     C05_leave_meta_subscribers,
  never mention / count k                                         C05_leave_meta_sessions
  testaments: k's bucket is taken from the table and turned      C05_leave_testaments
  into publish tasks exactly once, detached then destroyed,
  followed by on_leave, for EVERY non-shutdown mode (kill_all
  included: F30 fixed); nothing for shutdown
  [WP-C] running a testament's publish task: a well-formed       C05_testament_published,
  testament (valid topic, disclose_me allowed) IS published      C05_meta_publisher_reachable
  — `ppt_scheme` included — to exactly the C01-expected
  subscribers, nobody is aborted, no task, no acknowledgement;   C05_testament_published_reachable
  in reachable states the feature hypothesis holds by itself
  [WP-C] an ill-formed one (invalid topic / disclose_me          C05_testament_dropped
  refused) leaves the state unchanged (also with acknowledge)
  [WP-C] exactly one publish task per stored testament, the      C05_testaments_exactly_once
  bucket is gone, and each task publishes once / never
  testament buckets are stored under keys of attached sessions   C05_testaments_task_level,
  only: kept by every task / input / timed event / step;         C05_testaments_attached, _reachable,
  add_testament of a caller that has left stores nothing          C05_add_testament_unattached
  [WP-C] "for any reason" (kill through the meta API, ABORT by    C05_ending_only_busy,
  broker/dealer, …): marking a session as ending and queueing     C05_marked_ending_gone,
  its `leave` always go together; at quiescence only sessions    C05_end_pending_preserved
  with a busy handler (deferred departure) are still marked;
  from any moment inside a step, a marked session with a free
  handler is gone once the pending tasks have run
  [WP-C] … at every level: reachable state, every single task,   C05_testaments_live
  every input, every step
  [WP-C] FROM THE INPUT TO THE EFFECT: an input that ends k       C05_end_input_gone,
  (lost transport, GOODBYE, protocol violation) — by the END OF   C05_end_input_gone_inv
  THAT STEP k is no client and occurs nowhere (tables, ending,
  deferred, inbox, retries, testaments), nothing is pending;
  unless k's handler is busy / the task fuel ran out (`drain`
  induction principle `WpC.drain_quiescent`)
  "the router holds no per-session … state" once no session      C05_returns_to_empty
  is attached
  [WP-C] … and no testament, nobody ending, nothing deferred,    C05_returns_to_empty'
  nothing waiting in a transport, only the meta session's
  handler possibly retrying, no pending task (EVERY history     C05_returns_to_empty'_full (def),
  of inputs: `Realm.Reachable`)                                  C05_returns_to_empty'_full_holds
  calls / invocations / invocationByCall have equal sizes,       C05_bounded
  every entry belongs to attached sessions (so the tables are
  bounded by the pending calls of attached sessions)

  HYPOTHESES ON SESSION KEYS.  None of the theorems below — the [WP-C] §4 ones included, which are now
  stated over EVERY history of inputs (`Realm.Reachable`): `join` under a key in use or the meta key and
  `drop` of a key that names no attached client are no-ops of the model, so every reachable realm satisfies
  `WpC.CtlInv` (`Realm.Reachable.ctl`, `Realm.Reachable.clients_wf`) —
  needs "joins use fresh keys" or
  "no session joins with key 0 (= metaKey)": `isClient` / `att` are stated by key, `Realm.leave k`
  removes every client entry with key k, and a client that (in the model only — the harness never
  does it, the router draws random non-zero ids) carried the key 0 would merely be conflated with
  the meta session by `att`.  Where key freshness matters (one realm per session) it is an explicit
  hypothesis: `C11_attach_once_step`, `C11_sessions_partitioned`, `C11_dispatch_own_realm`.

  NOT proved here / recorded limits
  * `queues`: the model keeps the outbound queue of a departed session that had stopped reading
    (`ghosts`) until the harness observes the closure (`resume`); queue keys ⊆ sessions joined to
    the realm is C11 (`Realm.Conf`).  `C05_returns_to_empty` therefore says nothing about `queues`.
  * testaments (finding F20, fixed): `add_testament` stores under the caller id found in the
    invocation details.  In the real router the handler goroutines are concurrent, so the caller may
    have left when the meta handler runs; `sessionAddTestament` now looks the caller up in `clients`
    and stores nothing when it is gone (`C05_add_testament_unattached`).  With that, "every testament
    bucket belongs to an attached session" is an invariant at the granularity of single tasks
    (`C05_testaments_task_level`, which REPLACES the former witness `C05_testaments_task_level_fails`
    — that theorem exhibited a pending `metaInvoke add_testament` of a non-attached caller leaving a
    testament of a session that does not exist; it is false for the fixed router), of steps and in
    every reachable state (`C05_testaments_attached`, `C05_testaments_attached_reachable`).
    `C05_leave_testaments` (what leave does to the table) is unconditional.
  * [WP-C] a testament whose publish options say `acknowledge: true` makes the router produce
    PUBLISHED (or the ERROR of the two silent cases) for the META session; the model's `trySend` drops
    everything but INVOCATIONs addressed to the meta session (`C05_testament_published`,
    `C05_testament_dropped` say so explicitly).  In Go `metaProcedureHandler` reacts to such a message
    by re-sending its previous response (realm.go `default:` branch) — harmless today, not modelled.
  * F30 (fixed in /repo 624448b, model follows): sessions ended by `kill_all` used to lose their
    testaments and their `on_leave`; now `kill_all` is a kill like any other and
    `C05_leave_testaments` holds at full strength for every non-shutdown mode.  Only the realm
    shutdown (Router.Close / RemoveRealm) is silent, by design.
-/
import Nexus.L2.Proofs.RealmLeave
import Nexus.L2.Proofs.RealmMeta
-- [WP-C / C05 — begin imports]
import Nexus.L2.Proofs.WpCLeaveCalls
import Nexus.L2.Proofs.WpCLeaveTables
import Nexus.L2.Proofs.WpCLeaveTestament
import Nexus.L2.Proofs.WpCPend
-- [WP-C / C05 — end imports]

namespace Nexus.C05
open Nexus.L2 Nexus.L2.Realm Nexus.Gen.N

/-! ## Live references -/

/-- What the invariant says about references to sessions. -/
theorem C05_live_refs (r : Realm) (hi : RealmInv r) :
    (∀ s ∈ r.broker.subs, ∀ k ∈ s.members, r.isClient k) ∧
    (∀ e ∈ r.broker.index, r.isClient e.1) ∧
    (∀ g ∈ r.ds.d.regs, ∀ k ∈ g.callees, r.att k) ∧
    (∀ e ∈ r.ds.d.index, r.att e.1) ∧
    (∀ c ∈ r.ds.d.calls, r.isClient c.sess) ∧
    (∀ v ∈ r.ds.d.invs, r.att v.callee ∧ r.isClient v.callId.sess) ∧
    (∀ p ∈ r.ds.d.byCall, r.isClient p.1.sess ∧ r.att p.2.sess) ∧
    (∀ x ∈ r.retries, r.att x.callee) := by
  refine ⟨fun s hs k hk => hi.bmem k ⟨s, hs, hk⟩, fun e he => hi.bmem e.1 (hi.binv.index_mem he),
    fun g hg k hk => hi.dref k (Or.inl ⟨g.id, g, hg, rfl, hk⟩),
    fun e he => hi.dref e.1 (Or.inr (Or.inr (Or.inr ⟨e, he, rfl⟩))), hi.callers, ?_, ?_, hi.retr⟩
  · intro v hv
    exact ⟨hi.dref _ (Or.inr (Or.inr (Or.inl ⟨v, hv, rfl⟩))), hi.callers _ (hi.dinv.call.inv_call hv).1⟩
  · intro p hp
    obtain ⟨v, hv, hvi, hvc⟩ := (hi.dinv.call.byInv p.1 p.2).mp hp
    refine ⟨hi.callers _ ((hi.dinv.call.callBy p.1).mpr ⟨p.2, hp⟩), ?_⟩
    have := hi.dref _ (Or.inr (Or.inr (Or.inl ⟨v, hv, rfl⟩)))
    rw [hi.dinv.call.callee v hv, hvi] at this
    exact this

/-- … and about what waits in the transport: every message in `inbox` was sent by an attached,
    `buffered` session whose handler is still in the yield retry loop (clause `inb` of `RealmInv`,
    kept by every input, task and timed event like the rest): nothing waits for a session that has
    left, nor for one whose handler could read it. -/
theorem C05_live_refs_inbox (r : Realm) (hi : RealmInv r) :
    ∀ e ∈ r.inbox, (∃ c ∈ r.clients, c.key = e.1 ∧ c.buffered = true) ∧ r.busy e.1 = true := hi.inb

/-- The freshly created realm satisfies the invariant. -/
theorem C05_live_refs_init (cfg : Config) (r : Realm) (h : Realm.create cfg = some r) : RealmInv r :=
  (create_rinv h).1

/-- Every external input keeps it (join, message, transport loss, stall, resume, buffer, tick, rnd). -/
theorem C05_live_refs_stepOp (r : Realm) (hi : RealmInv r) (op : Op) : RealmInv (r.stepOp op) :=
  (stepOp_inv hi op).1

/-- Every internal task keeps it — for ANY pending task (`hi.tasks` says that every pending task is
    `TaskOk`), so for every order in which the goroutines' atomic actions are scheduled. -/
theorem C05_live_refs_runTask (r : Realm) (hi : RealmInv r) (t : Task) (ht : TaskOk t) : RealmInv (r.runTask t) :=
  (runTask_inv hi t ht).1

example (r : Realm) (hi : RealmInv r) (t : Task) (ht : t ∈ r.tasks) : TaskOk t := hi.tasks t ht

/-- Timed events keep it: a call timeout, and a turn of the yield retry loop of a pending retry. -/
theorem C05_live_refs_timed (r : Realm) (hi : RealmInv r) :
    (∀ t, RealmInv (r.timerDue t)) ∧ (∀ x ∈ r.retries, RealmInv (r.retryDue x)) :=
  ⟨fun t => (timerDue_rinv hi t).1, fun x hx => (retryDue_rinv hi x (hi.retr x hx)).1⟩

/-- One input run to quiescence keeps it. -/
theorem C05_live_refs_step (r : Realm) (hi : RealmInv r) (hp : FuelOnly r.panic) (op : Op) : RealmInv (r.step op).2 :=
  (step_inv hi hp op).1

/-- Hence it holds in every state reachable from `Realm.create cfg` by any history. -/
theorem C05_live_refs_reachable (cfg : Config) (r : Realm) (h : Realm.Reachable cfg r) : RealmInv r := h.inv.1

-- non-vacuity: the default realm (no sessions, nothing registered) satisfies the invariant
example : RealmInv ({} : Realm) := RealmInv.empty []

/-! ## The leave event -/

/-- After the handler of an attached session `k` has exited — in EVERY mode — `k` is no longer in
    `clients` nor `ending`, is a member of no subscription, has no broker-index entry, is referred to
    by no registration, callee-index entry, call or invocation, and owns no testament bucket; the
    invariant holds and nothing panicked.  (`¬ busy k`: the handler is not in the yield retry loop —
    `runTask` defers the departure until it is free; `Router.shutdownRealm` clears the retries.) -/
theorem C05_leave_gone (r : Realm) (hi : RealmInv r) (k : SessKey) (mode : LeaveMode)
    (hk : r.isClient k) (hnb : r.busy k = false) :
    let r' := r.leave k mode
    RealmInv r' ∧ r'.panic = r.panic ∧
    ¬ r'.isClient k ∧ k ∉ r'.ending ∧
    ¬ r'.broker.mem k ∧ (∀ e ∈ r'.broker.index, e.1 ≠ k) ∧
    (∀ id, ¬ calleeRel r'.ds.d.regs id k) ∧ (∀ e ∈ r'.ds.d.index, e.1 ≠ k) ∧
    (∀ c ∈ r'.ds.d.calls, c.sess ≠ k) ∧
    (∀ v ∈ r'.ds.d.invs, v.callee ≠ k ∧ v.callId.sess ≠ k) ∧
    (∀ t ∈ r'.testaments, t.1 ≠ k) ∧
    (∀ k', r'.isClient k' ↔ r.isClient k' ∧ k' ≠ k) := by
  intro r'
  have hnb' : ∀ x ∈ r.retries, x.callee ≠ k := not_busy (by rw [hnb]; simp)
  obtain ⟨h1, h2, h3, h4⟩ := leave_inv hi k mode hnb'
  obtain ⟨⟨g1, g2, g3⟩, g4⟩ := h3 hk
  have hcalls : ∀ c ∈ r'.ds.d.calls, c.sess ≠ k := fun c hc e => g3 (Or.inr (Or.inl ⟨c, hc, e⟩))
  refine ⟨h1, h2, g4, leave_ending r k mode hk, g1, g2, fun id h => g3 (Or.inl ⟨id, h⟩),
    fun e he h => g3 (Or.inr (Or.inr (Or.inr ⟨e, he, h⟩))), hcalls, ?_, ?_, ?_⟩
  · intro v hv
    exact ⟨fun e => g3 (Or.inr (Or.inr (Or.inl ⟨v, hv, e⟩))), hcalls _ (h1.dinv.call.inv_call hv).1⟩
  · intro t ht
    have : t ∈ r.testaments.filter (fun t => t.1 != k) := leave_testaments r k mode hk ▸ ht
    simpa using (List.mem_filter.mp this).2
  · exact leave_isClient hi k mode hk hnb'

/-- Every call `k` was serving is answered in that step: the dealer part of the (non-shutdown)
    departure hands exactly one ERROR(CALL, request, wamp.error.canceled, ["<text>"]) per invocation
    whose callee is `k` to the caller's queue (non-blocking `trySend`, in table order), and those
    calls are no longer pending afterwards.  For the shutdown mode the same table updates happen
    without any message (quiet by design: Router.Close / RemoveRealm). -/
theorem C05_leave_served_calls (r : Realm) (hi : RealmInv r) (k : SessKey) :
    (syncRemoveSession r.denv r.ds k).sends =
      (r.ds.d.invs.filter (fun v => v.callee == k)).map (fun v => goneErr v.callId) ∧
    (∀ x ∈ (syncRemoveSession r.denv r.ds k).sends, r.isClient x.to) ∧
    (∀ c ∈ (syncRemoveSession r.denv r.ds k).st.d.calls, ∀ v ∈ r.ds.d.invs, v.callee = k → v.callId ≠ c) ∧
    leaveRemove r k false =
      (let ra := r.applyD (syncRemoveSession r.denv r.ds k)
       ({ ra with broker := (ra.broker.syncRemoveSession k ra.pubCount).1,
                  pubCount := ra.pubCount + (ra.broker.syncRemoveSession k ra.pubCount).2.2 } : Realm).deliver
         (ra.broker.syncRemoveSession k ra.pubCount).2.1) ∧
    leaveRemove r k true =
      ({ r with ds := (syncRemoveSession r.denv r.ds k).st, broker := (r.broker.syncRemoveSession k r.pubCount).1 } : Realm).setPanic
        (syncRemoveSession r.denv r.ds k).panic := by
  have hs := syncRemoveSession_sends (env := r.denv) hi.dinv k
  refine ⟨hs, ?_, ?_, rfl, rfl⟩
  · intro x hx
    rw [hs] at hx
    obtain ⟨v, hv, rfl⟩ := List.mem_map.mp hx
    exact hi.callers _ (hi.dinv.call.inv_call (List.mem_filter.mp hv).1).1
  · intro c hc
    exact (syncRemoveSession_calls hi.dinv k c hc).2.2

-- the ERROR a caller gets
example (c : ReqId) : goneErr c = ⟨c.sess, .error tCALL c.req [] ErrCanceled [.str "<text>"] []⟩ := rfl

/-- `k`'s own calls are abandoned: after the leave no call, link or invocation with caller `k` is
    left, and a later YIELD of the callee for such an invocation finds no invocation — a progressive
    YIELD draws INTERRUPT(killnowait) (if the callee's queue has room), a final one is ignored. -/
theorem C05_leave_own_calls (r : Realm) (hi : RealmInv r) (k : SessKey) (mode : LeaveMode)
    (hk : r.isClient k) (hnb : r.busy k = false) (v : Invk) (_hv : v ∈ r.ds.d.invs) (hvk : v.callId.sess = k) :
    let r' := r.leave k mode
    v.callId ∉ r'.ds.d.calls ∧ (∀ p ∈ r'.ds.d.byCall, p.1.sess ≠ k) ∧ r'.ds.d.findInv v.id = none ∨
      (∃ w ∈ r'.ds.d.invs, w.id = v.id ∧ w.callId.sess ≠ k) := by
  intro r'
  obtain ⟨h1, _, _, _, _, _, _, _, hcalls, hinvs, _, _⟩ := C05_leave_gone r hi k mode hk hnb
  by_cases hex : ∃ w ∈ r'.ds.d.invs, w.id = v.id
  · obtain ⟨w, hw, hwi⟩ := hex
    exact Or.inr ⟨w, hw, hwi, (hinvs w hw).2⟩
  · refine Or.inl ⟨fun hc => hcalls _ hc hvk, ?_, ?_⟩
    · intro p hp
      exact hcalls _ ((h1.dinv.call.callBy p.1).mpr ⟨p.2, hp⟩)
    · rw [findInv_eq_none]
      intro w hw e
      exact hex ⟨w, hw, e⟩

/-- … and what `syncYield` does when it finds no invocation (the link to the dealer model). -/
theorem C05_yield_after_leave (env : DEnv) (s : DState) (callee : SessKey) (req : Nat) (opts : Dict)
    (args : List WVal) (kw : Dict) (canRetry : Bool) (hf : s.d.findInv ⟨callee, req⟩ = none) :
    (env.full callee = false →
      syncYield env s callee req opts args kw true canRetry =
        { st := s, sends := [⟨callee, .interrupt req [(OptMode, .str CancelModeKillNoWait)]⟩] }) ∧
    syncYield env s callee req opts args kw false canRetry = { st := s } := by
  refine ⟨fun hfull => ?_, ?_⟩
  · rw [syncYield_none opts args kw true canRetry hf]; simp [hfull]
  · rw [syncYield_none opts args kw false canRetry hf]; simp

/-! ## [WP-C / C05 §1 — begin] the calls of a departed caller, sharpened -/

/-- Example states for the non-vacuity examples of the WP-C sections: sessions 1 and 2 join, 2 registers
    "p" and subscribes to "t", 1 calls "p" (the INVOCATION is in 2's queue, the call is pending). Built
    by `stepOp`, so the invariant holds by `C05_live_refs_stepOp`. -/
def WpCEx.r3 : Realm :=
  ((({} : Realm).stepOp (.join 1 false [] [] 8)).stepOp (.join 2 false [] [] 8)).stepOp (.msg 2 (.register 1 [] "p"))
def WpCEx.r4 : Realm := WpCEx.r3.stepOp (.msg 2 (.subscribe 2 [] "t"))
def WpCEx.r5 : Realm := WpCEx.r4.stepOp (.msg 1 (.call 1 [] "p" [] []))

theorem WpCEx.r4_inv : RealmInv WpCEx.r4 :=
  C05_live_refs_stepOp _ (C05_live_refs_stepOp _ (C05_live_refs_stepOp _ (C05_live_refs_stepOp _
    (RealmInv.empty []) _) _) _) _
theorem WpCEx.r5_inv : RealmInv WpCEx.r5 := C05_live_refs_stepOp _ WpCEx.r4_inv _

/-- `k`'s own calls ARE gone (sharpening of `C05_leave_own_calls`, whose second alternative is
    impossible): for every invocation `v` of a call made by `k`, after the leave — in every mode — no
    invocation with `v`'s id is stored (invocation ids are unique and the departure only removes
    invocations, so an invocation left over under that id would be `v` itself, whose caller is gone),
    the call is not pending and has no call→invocation link.  So whatever the callee still sends for
    that invocation finds nothing. -/
theorem C05_leave_own_calls' (r : Realm) (hi : RealmInv r) (k : SessKey) (mode : LeaveMode)
    (hk : r.isClient k) (hnb : r.busy k = false) (v : Invk) (hv : v ∈ r.ds.d.invs) (hvk : v.callId.sess = k) :
    let r' := r.leave k mode
    r'.ds.d.findInv v.id = none ∧ v.callId ∉ r'.ds.d.calls ∧ (∀ p ∈ r'.ds.d.byCall, p.1 ≠ v.callId) := by
  intro r'
  obtain ⟨h1, _, _, _, _, _, _, _, hcalls, hinvs, _, _⟩ := C05_leave_gone r hi k mode hk hnb
  obtain ⟨s, hf⟩ := WpC.find_of_isClient hk
  refine ⟨WpC.leave_findInv_none hi mode hf (fun w hw => (hinvs w hw).2) hv hvk, fun hc => hcalls _ hc hvk, ?_⟩
  intro p hp e
  exact hcalls _ ((h1.dinv.call.callBy p.1).mpr ⟨p.2, hp⟩) (e ▸ hvk)

-- non-vacuity: in the example state session 1 is attached, not busy, and has a pending call
example : RealmInv WpCEx.r5 ∧ WpCEx.r5.isClient 1 ∧ WpCEx.r5.busy 1 = false ∧
    ∃ v ∈ WpCEx.r5.ds.d.invs, v.callId.sess = 1 :=
  ⟨WpCEx.r5_inv, by unfold Realm.isClient; decide +kernel, by decide +kernel, by decide +kernel⟩

/-- "Progressive results for them are interrupted", at the dealer: after the caller `k` has left, the
    callee's YIELD for that invocation (`v.id = (v.callee, v.id.req)`), handled in the state after the
    leave, finds no invocation.  A progressive YIELD is answered with exactly one
    INTERRUPT(request, {mode: killnowait}) to the callee when the callee's queue is not full, and with
    nothing when it is full; a final YIELD is ignored.  The dealer state is unchanged in all three cases,
    nothing is sent to anybody else, nobody is aborted, the handler never enters the retry loop. -/
theorem C05_yield_after_caller_left (r : Realm) (hi : RealmInv r) (k : SessKey) (mode : LeaveMode)
    (hk : r.isClient k) (hnb : r.busy k = false) (v : Invk) (hv : v ∈ r.ds.d.invs) (hvk : v.callId.sess = k)
    (opts : Dict) (args : List WVal) (kw : Dict) (canRetry : Bool) :
    let r' := r.leave k mode
    (r'.isFull v.callee = false →
      syncYield r'.denv r'.ds v.callee v.id.req opts args kw true canRetry =
        { st := r'.ds, sends := [⟨v.callee, .interrupt v.id.req [(OptMode, .str CancelModeKillNoWait)]⟩] }) ∧
    (r'.isFull v.callee = true →
      syncYield r'.denv r'.ds v.callee v.id.req opts args kw true canRetry = { st := r'.ds }) ∧
    syncYield r'.denv r'.ds v.callee v.id.req opts args kw false canRetry = { st := r'.ds } := by
  intro r'
  have hid : (⟨v.callee, v.id.req⟩ : ReqId) = v.id := by
    rw [hi.dinv.call.callee v hv]
  have hfn : r'.ds.d.findInv ⟨v.callee, v.id.req⟩ = none := by
    rw [hid]; exact (C05_leave_own_calls' r hi k mode hk hnb v hv hvk).1
  obtain ⟨h1, h2⟩ := C05_yield_after_leave r'.denv r'.ds v.callee v.id.req opts args kw canRetry hfn
  refine ⟨h1, ?_, h2⟩
  intro hfull
  rw [syncYield_none opts args kw true canRetry hfn]
  have : r'.denv.full v.callee = true := hfull
  simp [this]

/-- … and end to end, at the realm: the callee session `s` (`s.key = v.callee`) sends
    YIELD(v.id.req, opts, args, kw) after the caller `k` has left.  `handleYield` in the state `r'` after
    the leave is `r'` with INTERRUPT(v.id.req, {mode: killnowait}) offered to `s`'s own queue when the
    YIELD is progressive and that queue is not full, and is exactly `r'` otherwise.  For a callee that
    is an attached (non-meta) session with capacity `c.cap`: the new state is `r'` with exactly that
    message appended to exactly that queue (everything else — tables, other queues, tasks, retries,
    panic flag — unchanged); if the YIELD is final or the queue is full, nothing changes at all.  For the
    meta session as callee (the `wamp.*` procedures) nothing changes either.  (A callee that is `k`
    itself is no longer attached: its queue counts as full, nothing changes.) -/
theorem C05_yield_after_caller_left_realm (r : Realm) (hi : RealmInv r) (k : SessKey) (mode : LeaveMode)
    (hk : r.isClient k) (hnb : r.busy k = false) (v : Invk) (hv : v ∈ r.ds.d.invs) (hvk : v.callId.sess = k)
    (s : Session) (hs : s.key = v.callee) (opts : Dict) (args : List WVal) (kw : Dict) :
    let r' := r.leave k mode
    let intr : Msg := .interrupt v.id.req [(OptMode, .str CancelModeKillNoWait)]
    handleYield r' s v.id.req opts args kw =
      (if opts.optFlag OptProgress = true ∧ r'.isFull s.key = false then r'.trySend ⟨s.key, intr⟩ else r') ∧
    (∀ c, s.key ≠ metaKey → r'.client? s.key = some c →
      handleYield r' s v.id.req opts args kw =
        (if opts.optFlag OptProgress = true ∧ r'.queueLen s.key < c.cap
         then { r' with queues := enq r'.queues s.key intr } else r') ∧
      (opts.optFlag OptProgress = true → r'.queueLen s.key < c.cap →
        (handleYield r' s v.id.req opts args kw).queueOf s.key = r'.queueOf s.key ++ [intr] ∧
        ∀ k', k' ≠ s.key → (handleYield r' s v.id.req opts args kw).queueOf k' = r'.queueOf k')) ∧
    (s.key = metaKey → handleYield r' s v.id.req opts args kw = r') := by
  intro r' intr
  have hid : (⟨s.key, v.id.req⟩ : ReqId) = v.id := by
    rw [hs, hi.dinv.call.callee v hv]
  have hfn : r'.ds.d.findInv ⟨s.key, v.id.req⟩ = none := by
    rw [hid]; exact (C05_leave_own_calls' r hi k mode hk hnb v hv hvk).1
  refine ⟨WpC.handleYield_noInv r' s v.id.req opts args kw hfn, ?_,
    WpC.handleYield_noInv_meta r' s v.id.req opts args kw hfn⟩
  intro c hne hc
  have heq := WpC.handleYield_noInv_client r' s c v.id.req opts args kw hfn hne hc
  refine ⟨heq, ?_⟩
  intro hp hroom
  rw [heq, if_pos ⟨hp, hroom⟩]
  refine ⟨?_, fun k' hk' => ?_⟩
  · show qlook (enq r'.queues s.key intr) s.key = _
    rw [qlook_enq, if_pos rfl]; rfl
  · show qlook (enq r'.queues s.key intr) k' = _
    rw [qlook_enq, if_neg hk']; rfl

-- non-vacuity, end to end on the example: caller 1 is lost; callee 2's progressive YIELD for the
-- invocation (request id 1) appends one INTERRUPT (type 69) to 2's queue, a final YIELD nothing
example :
    let r' := WpCEx.r5.leave 1 .lost
    let s2 : Session := { key := 2, details := [], roles := [], isLocal := false, cap := 8 }
    (∃ v ∈ WpCEx.r5.ds.d.invs, v.callId.sess = 1 ∧ v.callee = 2 ∧ v.id.req = 1) ∧
    ((handleYield r' s2 1 [(OptProgress, .bool true)] [] []).queueOf 2).map Msg.typeCode =
      (r'.queueOf 2).map Msg.typeCode ++ [69] ∧
    ((handleYield r' s2 1 [] [] []).queueOf 2).map Msg.typeCode = (r'.queueOf 2).map Msg.typeCode := by
  decide +kernel

/-! ## [WP-C / C05 §1 — end] -/

/-! ## [WP-C / C05 §2 — begin] registrations, subscriptions and the meta API after the leave -/

/-- "Its registrations no longer exist for matching, sharing decisions or the meta API."  After the
    leave of `k` (every mode):
    * every registration left has at least one callee, `k` is not among them, and it is a
      registration that existed before — same id, procedure, match, policy — whose callees are the old
      callees without `k`;
    * hence `matchProcedure p` (what CALL routes by), `findProc p kind` (what REGISTER shares by,
      `wamp.registration.lookup`) and `findReg id` (UNREGISTER, `wamp.registration.get` …) return only
      such registrations;
    * a registration whose ONLY callee was `k` has been deleted: its id is not found, no registration
      with its (procedure, match kind) is found — a later REGISTER of that procedure creates a new
      registration, a CALL does not match it — and no lookup whatsoever returns it. -/
theorem C05_leave_regs_gone (r : Realm) (hi : RealmInv r) (k : SessKey) (mode : LeaveMode)
    (hk : r.isClient k) (hnb : r.busy k = false) :
    let r' := r.leave k mode
    (∀ g ∈ r'.ds.d.regs, g.callees ≠ [] ∧ k ∉ g.callees ∧
      ∃ g0 ∈ r.ds.d.regs, g.id = g0.id ∧ g.proc = g0.proc ∧ g.«match» = g0.«match» ∧ g.policy = g0.policy ∧
        ∀ c, c ∈ g.callees ↔ c ∈ g0.callees ∧ c ≠ k) ∧
    (∀ p g, r'.ds.d.matchProcedure p = some g → g ∈ r'.ds.d.regs ∧ g.callees ≠ [] ∧ k ∉ g.callees) ∧
    (∀ p kind g, r'.ds.d.findProc p kind = some g → g ∈ r'.ds.d.regs ∧ g.callees ≠ [] ∧ k ∉ g.callees) ∧
    (∀ id g, r'.ds.d.findReg id = some g → g ∈ r'.ds.d.regs ∧ g.callees ≠ [] ∧ k ∉ g.callees) ∧
    (∀ g ∈ r.ds.d.regs, g.callees = [k] →
      r'.ds.d.findReg g.id = none ∧ r'.ds.d.findProc g.proc g.kind = none ∧
      (∀ g' ∈ r'.ds.d.regs, g'.id ≠ g.id ∧ ¬ (g'.proc = g.proc ∧ g'.kind = g.kind)) ∧
      (∀ p g', r'.ds.d.matchProcedure p = some g' → g'.id ≠ g.id ∧ ¬ (g'.proc = g.proc ∧ g'.kind = g.kind))) := by
  intro r'
  obtain ⟨h1, _, _, _, _, _, hrel, _⟩ := C05_leave_gone r hi k mode hk hnb
  obtain ⟨s, hf⟩ := WpC.find_of_isClient hk
  have hframe := WpC.leave_reg_frame hi mode hf h1
  have hall : ∀ g ∈ r'.ds.d.regs, g.callees ≠ [] ∧ k ∉ g.callees :=
    fun g hg => ⟨(h1.dinv.reg.regs.callees g hg).1, fun hc => hrel g.id ⟨g, hg, rfl, hc⟩⟩
  have hsole : ∀ g ∈ r.ds.d.regs, g.callees = [k] →
      ∀ g' ∈ r'.ds.d.regs, g'.id ≠ g.id ∧ ¬ (g'.proc = g.proc ∧ g'.kind = g.kind) := by
    intro g hg hgc g' hg'
    obtain ⟨g0, hg0, e1, e2, e3, _, hc⟩ := hframe g' hg'
    have hne : g0 ≠ g := by
      rintro rfl
      obtain ⟨c, hcm⟩ := List.exists_mem_of_ne_nil _ (hall g' hg').1
      obtain ⟨hc1, hc2⟩ := (hc c).mp hcm
      rw [hgc] at hc1
      exact hc2 (List.mem_singleton.mp hc1)
    refine ⟨fun e => hne (WpC.reg_eq_of_id hi.dinv.reg.regs hg0 hg (e1.symm.trans e)), fun e => hne ?_⟩
    exact WpC.reg_eq_of_key hi.dinv.reg.regs hg0 hg (e2.symm.trans e.1) ((WpC.reg_kind_eq e3).symm.trans e.2)
  refine ⟨fun g hg => ⟨(hall g hg).1, (hall g hg).2, ?_⟩, ?_, ?_, ?_, ?_⟩
  · obtain ⟨g0, hg0, e⟩ := hframe g hg
    exact ⟨g0, hg0, e⟩
  · intro p g hm
    have := matchProcedure_mem hm
    exact ⟨this, hall g this⟩
  · intro p kind g hm
    have : g ∈ r'.ds.d.regs := List.mem_of_find?_eq_some hm
    exact ⟨this, hall g this⟩
  · intro id g hm
    have : g ∈ r'.ds.d.regs := List.mem_of_find?_eq_some hm
    exact ⟨this, hall g this⟩
  · intro g hg hgc
    have hs := hsole g hg hgc
    refine ⟨findReg_eq_none.mpr (fun g' hg' => (hs g' hg').1),
      findProc_eq_none.mpr (fun g' hg' e => (hs g' hg').2 ⟨e.2, e.1⟩), hs, ?_⟩
    intro p g' hm
    exact hs g' (matchProcedure_mem hm)

-- non-vacuity: in the example state session 2 is the only callee of the registration of "p"; after its
-- departure no registration is left at all
example : RealmInv WpCEx.r5 ∧ WpCEx.r5.isClient 2 ∧ WpCEx.r5.busy 2 = false ∧
    (∃ g ∈ WpCEx.r5.ds.d.regs, g.callees = [2] ∧ g.proc = "p") ∧
    (WpCEx.r5.leave 2 .lost).ds.d.regs.length = 0 :=
  ⟨WpCEx.r5_inv, by unfold Realm.isClient; decide +kernel, by decide +kernel, by decide +kernel, by decide +kernel⟩

/-- "Its subscriptions no longer exist for matching or the meta API."  After the leave of `k`:
    * every subscription left does not have `k` among its members, is a subscription that existed
      before — same id, topic, match — whose members are the old members without `k`, and if it has no
      member at all it has a history store (a pre-configured history subscription);
    * the history stores are untouched;
    * `findId id` (UNSUBSCRIBE, `wamp.subscription.get` …), `findTopic t kind` (SUBSCRIBE,
      `wamp.subscription.lookup`) and `matching t` (PUBLISH, `wamp.subscription.match`) return only
      such subscriptions;
    * a subscription whose ONLY member was `k` and that has no history store has been deleted: neither
      its id nor its (topic, match kind) is found any more, `matching` never returns it. -/
theorem C05_leave_subs_gone (r : Realm) (hi : RealmInv r) (k : SessKey) (mode : LeaveMode)
    (hk : r.isClient k) (hnb : r.busy k = false) :
    let r' := r.leave k mode
    (∀ s ∈ r'.broker.subs, k ∉ s.members ∧ (s.members = [] → r'.broker.hasHist s.id = true) ∧
      ∃ s0 ∈ r.broker.subs, s.id = s0.id ∧ s.topic = s0.topic ∧ s.«match» = s0.«match» ∧
        ∀ c, c ∈ s.members ↔ c ∈ s0.members ∧ c ≠ k) ∧
    r'.broker.hist = r.broker.hist ∧
    (∀ id s, r'.broker.findId id = some s → s ∈ r'.broker.subs ∧ k ∉ s.members) ∧
    (∀ t kind s, r'.broker.findTopic t kind = some s → s ∈ r'.broker.subs ∧ k ∉ s.members) ∧
    (∀ t x, x ∈ r'.broker.matching t → x.1 ∈ r'.broker.subs ∧ k ∉ x.1.members) ∧
    (∀ s ∈ r.broker.subs, s.members = [k] → r.broker.hasHist s.id = false →
      r'.broker.findId s.id = none ∧ r'.broker.findTopic s.topic s.kind = none ∧
      (∀ s' ∈ r'.broker.subs, s'.id ≠ s.id ∧ ¬ (s'.topic = s.topic ∧ s'.kind = s.kind)) ∧
      (∀ t x, x ∈ r'.broker.matching t → x.1.id ≠ s.id)) := by
  intro r'
  obtain ⟨h1, _, _, _, hmem, _⟩ := C05_leave_gone r hi k mode hk hnb
  obtain ⟨s, hf⟩ := WpC.find_of_isClient hk
  have hframe := WpC.leave_sub_frame hi mode hf h1
  have hhist : r'.broker.hist = r.broker.hist := (WpC.leave_subs_sub hi mode hf).2
  have hall : ∀ s ∈ r'.broker.subs, k ∉ s.members := fun s hs hc => hmem ⟨s, hs, hc⟩
  have hsole : ∀ s0 ∈ r.broker.subs, s0.members = [k] → r.broker.hasHist s0.id = false →
      ∀ s' ∈ r'.broker.subs, s'.id ≠ s0.id ∧ ¬ (s'.topic = s0.topic ∧ s'.kind = s0.kind) := by
    intro s0 hs0 hm hh s' hs'
    obtain ⟨s1, hs1, e1, e2, e3, hc⟩ := hframe s' hs'
    have hne : s1 ≠ s0 := by
      rintro rfl
      have hempty : s'.members = [] := by
        cases hms : s'.members with
        | nil => rfl
        | cons c cs =>
          obtain ⟨hc1, hc2⟩ := (hc c).mp (by rw [hms]; exact List.mem_cons_self ..)
          rw [hm] at hc1
          exact absurd (List.mem_singleton.mp hc1) hc2
      have := h1.binv.empty_hist s' hs' hempty
      unfold Broker.hasHist at this hh
      rw [hhist, e1, hh] at this
      cases this
    refine ⟨fun e => hne (eq_of_id_eq hi.binv.ids_nodup hs1 hs0 (e1.symm.trans e)), fun e => hne ?_⟩
    exact hi.binv.topic_unique s1 hs1 s0 hs0 (e2.symm.trans e.1) ((WpC.sub_kind_eq e3).symm.trans e.2)
  refine ⟨fun s' hs' => ⟨hall s' hs', h1.binv.empty_hist s' hs', ?_⟩, hhist, ?_, ?_, ?_, ?_⟩
  · obtain ⟨s0, hs0, e⟩ := hframe s' hs'
    exact ⟨s0, hs0, e⟩
  · intro id s' hm
    exact ⟨(findId_some hm).1, hall s' (findId_some hm).1⟩
  · intro t kind s' hm
    exact ⟨(findTopic_some hm).1, hall s' (findTopic_some hm).1⟩
  · intro t x hx
    exact ⟨matching_sub hx, hall x.1 (matching_sub hx)⟩
  · intro s0 hs0 hm hh
    have hs := hsole s0 hs0 hm hh
    refine ⟨?_, ?_, hs, fun t x hx => (hs x.1 (matching_sub hx)).1⟩
    · unfold Broker.findId
      rw [List.find?_eq_none]
      intro s' hs' e
      exact (hs s' hs').1 (by simpa using e)
    · unfold Broker.findTopic
      rw [List.find?_eq_none]
      intro s' hs' e
      simp only [Bool.and_eq_true, beq_iff_eq] at e
      exact (hs s' hs').2 ⟨e.2, e.1⟩

-- non-vacuity: in the example state session 2 is the only subscriber of "t" (no history store);
-- after its departure no subscription is left
example : (∃ s ∈ WpCEx.r5.broker.subs, s.members = [2] ∧ s.topic = "t" ∧ WpCEx.r5.broker.hasHist s.id = false) ∧
    (WpCEx.r5.leave 2 .lost).broker.subs.length = 0 :=
  ⟨by decide +kernel, by decide +kernel⟩

/-- The meta API after the leave of `k`, registrations: `wamp.registration.list_callees` and
    `wamp.registration.count_callees` (for whatever arguments) either answer
    ERROR wamp.error.no_such_registration, or answer for a registration `g` still in the table the list
    `g.callees` (as session ids) resp. its length — and `k` is not in that list (so its session id is
    not listed and it is not counted). -/
theorem C05_leave_meta_callees (r : Realm) (hi : RealmInv r) (k : SessKey) (mode : LeaveMode)
    (hk : r.isClient k) (hnb : r.busy k = false) (req : Nat) (details : Dict) (args : List WVal) (kw : Dict) :
    let r' := r.leave k mode
    match regArg r' args with
    | none =>
      metaProc r' MetaProcRegListCallees req details args kw = (mErr req ErrNoSuchRegistration, r') ∧
      metaProc r' MetaProcRegCountCallees req details args kw = (mErr req ErrNoSuchRegistration, r')
    | some g =>
      g ∈ r'.ds.d.regs ∧ k ∉ g.callees ∧ sidVal k ∉ g.callees.map sidVal ∧
      metaProc r' MetaProcRegListCallees req details args kw = (mYield req [.list (g.callees.map sidVal)], r') ∧
      metaProc r' MetaProcRegCountCallees req details args kw = (mYield req [.int g.callees.length], r') := by
  intro r'
  have h1 := metaProc_regListCallees r' req details args kw
  have h2 := metaProc_regCountCallees r' req details args kw
  cases hra : regArg r' args with
  | none =>
    rw [hra] at h1 h2
    exact ⟨h1, h2⟩
  | some g =>
    rw [hra] at h1 h2
    obtain ⟨id, hfr⟩ : ∃ id, r'.ds.d.findReg id = some g := by
      unfold regArg at hra
      split at hra
      · split at hra
        · exact ⟨_, hra⟩
        · cases hra
      · cases hra
    obtain ⟨hm, _, hnk⟩ := (C05_leave_regs_gone r hi k mode hk hnb).2.2.2.1 id g hfr
    exact ⟨hm, hnk, WpC.sidVal_not_mem hnk, h1, h2⟩

/-- The meta API after the leave of `k`, subscriptions: `wamp.subscription.list_subscribers` and
    `wamp.subscription.count_subscribers` either answer ERROR wamp.error.no_such_subscription, or answer
    for a subscription `s` still in the table the list `s.members` (as session ids) resp. its length —
    and `k` is not in that list. -/
theorem C05_leave_meta_subscribers (r : Realm) (hi : RealmInv r) (k : SessKey) (mode : LeaveMode)
    (hk : r.isClient k) (hnb : r.busy k = false) (req : Nat) (details : Dict) (args : List WVal) (kw : Dict) :
    let r' := r.leave k mode
    match subArg r' args with
    | none =>
      metaProc r' MetaProcSubListSubscribers req details args kw = (mErr req ErrNoSuchSubscription, r') ∧
      metaProc r' MetaProcSubCountSubscribers req details args kw = (mErr req ErrNoSuchSubscription, r')
    | some s =>
      s ∈ r'.broker.subs ∧ k ∉ s.members ∧ sidVal k ∉ s.members.map sidVal ∧
      metaProc r' MetaProcSubListSubscribers req details args kw = (mYield req [.list (s.members.map sidVal)], r') ∧
      metaProc r' MetaProcSubCountSubscribers req details args kw = (mYield req [.int s.members.length], r') := by
  intro r'
  have h1 := metaProc_subListSubscribers r' req details args kw
  have h2 := metaProc_subCountSubscribers r' req details args kw
  cases hra : subArg r' args with
  | none =>
    rw [hra] at h1 h2
    exact ⟨h1, h2⟩
  | some s =>
    rw [hra] at h1 h2
    obtain ⟨id, hfr⟩ : ∃ id, r'.broker.findId id = some s := by
      unfold subArg at hra
      split at hra
      · split at hra
        · exact ⟨_, hra⟩
        · cases hra
      · cases hra
    obtain ⟨hm, hnk⟩ := (C05_leave_subs_gone r hi k mode hk hnb).2.2.1 id s hfr
    exact ⟨hm, hnk, WpC.sidVal_not_mem hnk, h1, h2⟩

/-- The meta API after the leave of `k`, sessions: the client list is the old one without the entries
    of key `k`; `wamp.session.list` answers the ids of the OTHER sessions selected by the authrole
    filter, `wamp.session.count` their number, and `wamp.session.get` of `k`'s session id answers
    ERROR wamp.error.no_such_session.  (No hypothesis is needed: this is what `sess.Close()` /
    `delete(r.clients, sid)` does, in every mode; for a `k` that is not attached the leave is a no-op
    and the filter removes nothing.) -/
theorem C05_leave_meta_sessions (r : Realm) (k : SessKey) (mode : LeaveMode)
    (req : Nat) (details : Dict) (args : List WVal) (kw : Dict) :
    let r' := r.leave k mode
    r'.clients = r.clients.filter (fun c => c.key != k) ∧
    (∀ f, sessSel r' f = (sessSel r f).filter (fun c => c.key != k) ∧
      sidVal k ∉ (sessSel r' f).map (fun c => sidVal c.key)) ∧
    metaProc r' MetaProcSessionList req details args kw =
      (match sessFilter args with
       | none => (mErr req ErrInvalidArgument, r')
       | some f => (mYield req [.list (((sessSel r f).filter (fun c => c.key != k)).map (fun c => sidVal c.key))], r')) ∧
    metaProc r' MetaProcSessionCount req details args kw =
      (match sessFilter args with
       | none => (mErr req ErrInvalidArgument, r')
       | some f => (mYield req [.int ((sessSel r f).filter (fun c => c.key != k)).length], r')) ∧
    (∀ a rest, a.asID = some (sidOf k) →
      metaProc r' MetaProcSessionGet req details (a :: rest) kw = (mErr req ErrNoSuchSession, r')) := by
  intro r'
  have hcl : r'.clients = r.clients.filter (fun c => c.key != k) := WpC.leave_clients r k mode
  have hsel : ∀ f, sessSel r' f = (sessSel r f).filter (fun c => c.key != k) := by
    intro f
    unfold sessSel
    rw [hcl, List.filter_filter, List.filter_filter]
    apply List.filter_congr
    intro c _
    exact Bool.and_comm _ _
  refine ⟨hcl, fun f => ⟨hsel f, ?_⟩, ?_, ?_, ?_⟩
  · intro hm
    obtain ⟨c, hc, e⟩ := List.mem_map.mp hm
    rw [hsel] at hc
    have := (List.mem_filter.mp hc).2
    have hck : c.key = k := WpC.sidVal_inj e
    simp [hck] at this
  · rw [metaProc_sessionList]
    cases sessFilter args with
    | none => rfl
    | some f => simp only [hsel]
  · rw [metaProc_sessionCount]
    cases sessFilter args with
    | none => rfl
    | some f => simp only [hsel]
  · intro a rest ha
    rw [metaProc_sessionGet]
    simp only [ha]
    have : r'.keyOfSid (sidOf k) = none := by
      unfold keyOfSid
      rw [List.find?_eq_none]
      intro c hc e
      rw [hcl] at hc
      have hne := (List.mem_filter.mp hc).2
      have hck : c.key = k := WpC.sidOf_inj (by simpa using e)
      simp [hck] at hne
    rw [this]

-- non-vacuity on the example: after 2 has left, `wamp.session.list` shows session 1 only,
-- `wamp.session.count` answers 1, `wamp.session.get` of 2's id answers no_such_session
example :
    let r' := WpCEx.r5.leave 2 .lost
    (sessSel WpCEx.r5 []).map (·.key) = [1, 2] ∧ (sessSel r' []).map (·.key) = [1] ∧
    (WVal.int (sidOf 2)).asID = some (sidOf 2) := by
  decide +kernel

/-! ## [WP-C / C05 §2 — end] -/

/-- Testaments.  The bucket of `k` is removed from the table (every mode).  For EVERY non-shutdown
    mode — lost, killed (kill, kill_by_authid, kill_by_authrole AND kill_all), aborted, violation —
    the departure appends, after the tasks of the table removal, exactly: one publish task per
    testament — detached first, then destroyed, in stored order — followed by the
    `wamp.session.on_leave` announcement: the stored testaments are published exactly once.  For
    the realm shutdown nothing is appended (quiet by design). -/
theorem C05_leave_testaments (r : Realm) (k : SessKey) (s : Session) (mode : LeaveMode)
    (hf : r.clients.find? (fun c => c.key == k) = some s) :
    (r.leave k mode).testaments = r.testaments.filter (fun t => t.1 != k) ∧
    (mode.isShutdown = false →
      (r.leave k mode).tasks =
        leaveBaseTasks r k mode ++ (testamentTasks (bucketOf r k) ++ [.metaPub (onLeavePub s)])) ∧
    (mode.isShutdown = true → (r.leave k mode).tasks = leaveBaseTasks r k mode) ∧
    (∀ b, bucketOf r k = some b →
      testamentTasks (bucketOf r k) = (b.detached ++ b.destroyed).map (fun t => Task.metaPub (testamentPub t))) ∧
    (bucketOf r k = none → testamentTasks (bucketOf r k) = []) := by
  refine ⟨leave_testaments r k mode (isClient_of_find hf), ?_, ?_, ?_, ?_⟩
  · intro h
    rw [leave_tasks' mode hf, h]
    rfl
  · intro h
    rw [leave_tasks' mode hf, h]
    simp
  · intro b hb; rw [hb]; rfl
  · intro hb; rw [hb]; rfl

-- which modes are silent: only the shutdown
example : LeaveMode.lost.isShutdown = false ∧ (LeaveMode.violation "x").isShutdown = false ∧
    LeaveMode.aborted.isShutdown = false ∧
    (LeaveMode.killed (.goodbye [] "r") false).isShutdown = false ∧
    (LeaveMode.killed (.goodbye [] "r") true).isShutdown = false ∧
    LeaveMode.shutdown.isShutdown = true := by decide

/-! ## [WP-C / C05 §3 — begin] what the publish task of a testament does -/

/-- The meta session is never written: in every reachable state it is the session the realm was created
    with — key 0, role publisher with the payload passthru feature (so a testament carrying `ppt_scheme`
    passes the feature test of `broker.publish`; the meta session used to be aborted by its own publish,
    audit §0). -/
theorem C05_meta_publisher_reachable (cfg : Config) (r : Realm) (h : Realm.Reachable cfg r) :
    r.metaS = ({} : Realm).metaS ∧ r.metaS.key = metaKey ∧
    r.metaS.hasFeature RolePublisher FeaturePayloadPassthruMode = true := by
  rw [WpC.Reachable.metaS h]
  exact ⟨rfl, rfl, by decide⟩

/-- A WELL-FORMED TESTAMENT IS PUBLISHED.  Running the publish task the departure queued for testament
    `t`, in any state `r` satisfying the invariant in which the topic is a valid URI, `disclose_me` is
    not requested or the realm allows disclosure, and the meta session has the publisher's payload
    passthru feature (true in every reachable state, `C05_meta_publisher_reachable`):

    * the new state is `r` with the publication counter advanced by one, the broker after
      `syncPublish` of the publication `p := WpC.testamentPublication r t` — published by the meta
      session under the next publication id, the testament's topic, arguments and publish options
      (`ppt_*` keys go into the event details) — and its EVENTs `evs` delivered;
    * `evs` are exactly the C01-expected EVENTs: one per (subscription matching the topic, member allowed
      by the testament's black/white lists), nothing else (`C01_delivery_exact` instantiated);
    * every attached client's queue is its old queue offered its EVENTs in order (dropped when full);
      all other queues are untouched;
    * no acknowledgement is queued anywhere and NO TASK is created (the PUBLISHED a testament with
      `acknowledge: true` asks for goes to the meta session, which drops it), nobody is aborted or
      marked as ending, nothing panics, clients / dealer / testament table / subscriptions are
      unchanged, the invariant holds. -/
theorem C05_testament_published (r : Realm) (hi : RealmInv r) (t : Testament)
    (hv : validUri r.broker.strict "" t.topic = true)
    (hd : t.opts.optFlag OptDiscloseMe = false ∨ r.broker.allowDisclose = true)
    (hf : r.metaS.hasFeature RolePublisher FeaturePayloadPassthruMode = true) :
    let p := WpC.testamentPublication r t
    let evs := (r.broker.syncPublish r.session? r.now p).2
    let r' := r.runTask (.metaPub (testamentPub t))
    r' = ({ r with pubCount := r.pubCount + 1,
                   broker := (r.broker.syncPublish r.session? r.now p).1 } : Realm).deliver evs ∧
    (p.publisher = metaKey ∧ p.pubId = pubBase + r.pubCount ∧ p.topic = t.topic ∧ p.args = t.args ∧
      p.kw = t.kw ∧ p.opts = t.opts ∧ p.disclose = t.opts.optFlag OptDiscloseMe ∧
      p.baseDetails = (if pptScheme t.opts != "" then pptInto t.opts [] else [])) ∧
    (∀ x ∈ evs, ∃ s k c, Expected r.broker r.session? p s k c ∧ x = ⟨k, expectedEvent p s c⟩) ∧
    (∀ s k c, Expected r.broker r.session? p s k c → through evs k s.id = [⟨k, expectedEvent p s c⟩]) ∧
    (∀ k c, k ≠ metaKey → r.client? k = some c → r'.queueOf k = accept c.cap (r.queueOf k) (msgsTo k evs)) ∧
    (∀ k, (k = metaKey ∨ r.client? k = none) → r'.queueOf k = r.queueOf k) ∧
    r'.pubCount = r.pubCount + 1 ∧ r'.tasks = r.tasks ∧ r'.ending = r.ending ∧ r'.panic = r.panic ∧
    r'.clients = r.clients ∧ r'.ds = r.ds ∧ r'.testaments = r.testaments ∧
    r'.broker.subs = r.broker.subs ∧ RealmInv r' := by
  intro p evs r'
  have heq : r' = ({ r with pubCount := r.pubCount + 1,
                            broker := (r.broker.syncPublish r.session? r.now p).1 } : Realm).deliver evs :=
    WpC.runTask_testament_ok hi.metaKey t hv hd hf
  obtain ⟨f1, f2, f3, f4, _, _, f7, f8, _, _, _⟩ := brokerStep_frame r
    (r.broker.syncPublish r.session? r.now p).1 (r.pubCount + 1) evs
  obtain ⟨d1, d2, _, _⟩ := delivery_exact hi.binv r.session? r.now p
  obtain ⟨hinv, hpanic⟩ := runTask_inv hi (.metaPub (testamentPub t)) trivial
  refine ⟨heq, ⟨rfl, rfl, rfl, rfl, rfl, rfl, rfl, rfl⟩, d1, d2, ?_, ?_, by rw [heq, f2], ?_, by rw [heq, f7],
    hpanic, by rw [heq, f3], by rw [heq, f4], by rw [heq, f8], ?_, hinv⟩
  · intro k c hk hc
    rw [heq]; exact brokerStep_queue r _ _ _ k c hk hc
  · intro k hk
    rw [heq]; exact brokerStep_queue_other r _ _ _ k hk
  · rw [heq, ddeliver_tasks, WpC.publish_sends_no_task, List.append_nil]
  · rw [heq, f1]; exact (syncPublish_subs _ _ _ _).1

/-- … in particular in every reachable state, where the feature hypothesis holds by itself: a stored
    testament with a valid topic (and `disclose_me` allowed or absent) is published when its task runs,
    whatever else its publish options contain (`ppt_scheme`, `acknowledge`, black/white lists). -/
theorem C05_testament_published_reachable (cfg : Config) (r : Realm) (h : Realm.Reachable cfg r) (t : Testament)
    (hv : validUri r.broker.strict "" t.topic = true)
    (hd : t.opts.optFlag OptDiscloseMe = false ∨ r.broker.allowDisclose = true) :
    r.runTask (.metaPub (testamentPub t)) =
      ({ r with pubCount := r.pubCount + 1,
                broker := (r.broker.syncPublish r.session? r.now (WpC.testamentPublication r t)).1 } : Realm).deliver
        (r.broker.syncPublish r.session? r.now (WpC.testamentPublication r t)).2 ∧
    (r.runTask (.metaPub (testamentPub t))).tasks = r.tasks ∧
    (r.runTask (.metaPub (testamentPub t))).ending = r.ending ∧
    (r.runTask (.metaPub (testamentPub t))).panic = r.panic := by
  obtain ⟨e, _, _, _, _, _, _, ht, he, hp, _⟩ :=
    C05_testament_published r h.inv.1 t hv hd (C05_meta_publisher_reachable cfg r h).2.2
  exact ⟨e, ht, he, hp⟩

-- non-vacuity: in the example state session 2 subscribes to "t"; a testament for "t" that uses payload
-- passthru is well-formed, and running its publish task appends one EVENT (type 36) to 2's queue
example :
    let t : Testament := { topic := "t", args := [.int 7], kw := [], opts := [(OptPPTScheme, .str "x")] }
    RealmInv WpCEx.r4 ∧ validUri WpCEx.r4.broker.strict "" t.topic = true ∧
    t.opts.optFlag OptDiscloseMe = false ∧
    WpCEx.r4.metaS.hasFeature RolePublisher FeaturePayloadPassthruMode = true ∧ pptScheme t.opts = "x" ∧
    ((WpCEx.r4.runTask (.metaPub (testamentPub t))).queueOf 2).map Msg.typeCode =
      (WpCEx.r4.queueOf 2).map Msg.typeCode ++ [36] ∧
    (WpCEx.r4.runTask (.metaPub (testamentPub t))).ending = WpCEx.r4.ending :=
  ⟨WpCEx.r4_inv, by decide +kernel, by decide +kernel, by decide +kernel, by decide +kernel, by decide +kernel,
    by decide +kernel⟩

/-- THE SILENT CASES, exactly.  A testament whose topic is not a valid URI (for the realm's strictness,
    exact match), or that asks for `disclose_me` in a realm that does not allow disclosure, is dropped
    when its publish task runs: the state is UNCHANGED — no publication id is drawn, nothing is sent,
    no task, nobody is aborted.  This holds whatever the testament's options say about acknowledgement:
    `metaPublish` passes the stored `publish_options` on, so with `acknowledge: true` the router does
    produce ERROR(PUBLISH, 0, wamp.error.invalid_uri / option_disallowed.disclose_me) — addressed to
    the meta session, which drops everything but INVOCATIONs.  (In Go the meta-procedure handler would
    answer such a message by re-sending its previous response, see audit C04 (c); the model drops it.) -/
theorem C05_testament_dropped (r : Realm) (hi : RealmInv r) (t : Testament) :
    (validUri r.broker.strict "" t.topic = false → r.runTask (.metaPub (testamentPub t)) = r) ∧
    (validUri r.broker.strict "" t.topic = true →
      r.metaS.hasFeature RolePublisher FeaturePayloadPassthruMode = true →
      t.opts.optFlag OptDiscloseMe = true → r.broker.allowDisclose = false →
      r.runTask (.metaPub (testamentPub t)) = r) :=
  ⟨WpC.runTask_testament_invalid hi.metaKey t, fun hv hf hd ha => WpC.runTask_testament_disclose hi.metaKey t hv hf hd ha⟩

-- non-vacuity: an invalid topic with `acknowledge: true`; `disclose_me` in the default realm (disclosure off)
example :
    let t1 : Testament := { topic := "a..b", args := [], kw := [], opts := [(OptAcknowledge, .bool true)] }
    let t2 : Testament := { topic := "t", args := [], kw := [], opts := [(OptDiscloseMe, .bool true), (OptAcknowledge, .bool true)] }
    validUri WpCEx.r4.broker.strict "" t1.topic = false ∧ t1.opts.optFlag OptAcknowledge = true ∧
    validUri WpCEx.r4.broker.strict "" t2.topic = true ∧ t2.opts.optFlag OptDiscloseMe = true ∧
    WpCEx.r4.broker.allowDisclose = false := by
  decide +kernel

/-- the testaments stored for session `k`, in publication order: detached first, then destroyed -/
def testamentsOf (r : Realm) (k : SessKey) : List Testament :=
  match bucketOf r k with
  | some b => b.detached ++ b.destroyed
  | none => []

/-- a testament the router will publish: valid topic, and `disclose_me` not requested or allowed -/
def WellFormedTestament (r : Realm) (t : Testament) : Prop :=
  validUri r.broker.strict "" t.topic = true ∧
  (t.opts.optFlag OptDiscloseMe = false ∨ r.broker.allowDisclose = true)

/-- "ITS STORED TESTAMENTS ARE PUBLISHED EXACTLY ONCE."  The departure of the attached session `k` in any
    non-shutdown mode
    * appends to the pending tasks — after those of the table removal — exactly one publish task per
      stored testament (`testamentsOf r k`: detached then destroyed, in stored order), followed by
      `wamp.session.on_leave`: nothing is queued twice, nothing is left out;
    * removes `k`'s bucket from the testament table (and `k` from `clients`, so nothing can be stored
      for it again: `C05_add_testament_unattached`): no later event can queue them a second time;
    * and whenever such a task runs — in whatever state `r2` satisfying the invariant (whose meta session
      is the publisher the realm was created with) — it publishes the testament ONCE if the testament
      is well-formed for `r2` (one publication id, the EVENTs of `C05_testament_published`) and NOT AT
      ALL otherwise (`r2` unchanged).  `strict` and `allowDisclose` are configuration constants, so
      well-formedness does not depend on when the task runs.
    For the shutdown mode nothing is queued (`C05_leave_testaments`). -/
theorem C05_testaments_exactly_once (r : Realm) (k : SessKey) (s : Session) (mode : LeaveMode)
    (hf : r.clients.find? (fun c => c.key == k) = some s) (hm : mode.isShutdown = false) :
    (r.leave k mode).tasks =
      leaveBaseTasks r k mode ++ ((testamentsOf r k).map (fun t => Task.metaPub (testamentPub t)) ++
        [.metaPub (onLeavePub s)]) ∧
    bucketOf (r.leave k mode) k = none ∧ testamentsOf (r.leave k mode) k = [] ∧
    (∀ r2 : Realm, RealmInv r2 → r2.metaS.hasFeature RolePublisher FeaturePayloadPassthruMode = true →
      ∀ t : Testament,
        (WellFormedTestament r2 t →
          r2.runTask (.metaPub (testamentPub t)) =
            ({ r2 with pubCount := r2.pubCount + 1,
                       broker := (r2.broker.syncPublish r2.session? r2.now (WpC.testamentPublication r2 t)).1 } : Realm).deliver
              (r2.broker.syncPublish r2.session? r2.now (WpC.testamentPublication r2 t)).2 ∧
          (r2.runTask (.metaPub (testamentPub t))).pubCount = r2.pubCount + 1) ∧
        (¬ WellFormedTestament r2 t → r2.runTask (.metaPub (testamentPub t)) = r2)) := by
  obtain ⟨h1, h2, _, h4, h5⟩ := C05_leave_testaments r k s mode hf
  have htt : testamentTasks (bucketOf r k) = (testamentsOf r k).map (fun t => Task.metaPub (testamentPub t)) := by
    unfold testamentsOf
    cases hb : bucketOf r k with
    | none => rfl
    | some b => rfl
  have hbk : bucketOf (r.leave k mode) k = none := by
    unfold bucketOf
    rw [h1]
    have : (r.testaments.filter (fun t => t.1 != k)).find? (fun t => t.1 == k) = none := by
      rw [List.find?_eq_none]
      intro x hx
      have := (List.mem_filter.mp hx).2
      simpa using this
    rw [this]; rfl
  refine ⟨by rw [h2 hm, htt], hbk, by unfold testamentsOf; rw [hbk], ?_⟩
  intro r2 hi2 hf2 t
  constructor
  · rintro ⟨hv, hd⟩
    obtain ⟨e, _, _, _, _, _, hpc, _⟩ := C05_testament_published r2 hi2 t hv hd hf2
    exact ⟨e, hpc⟩
  · intro hnw
    cases hv : validUri r2.broker.strict "" t.topic with
    | false => exact (C05_testament_dropped r2 hi2 t).1 hv
    | true =>
      cases hd : t.opts.optFlag OptDiscloseMe with
      | false => exact absurd ⟨hv, Or.inl hd⟩ hnw
      | true =>
        cases ha : r2.broker.allowDisclose with
        | true => exact absurd ⟨hv, Or.inr ha⟩ hnw
        | false => exact (C05_testament_dropped r2 hi2 t).2 hv hf2 hd ha

-- non-vacuity: session 2 of the example state with one detached and one destroyed testament stored
-- (`RealmInv` does not mention the testament table); its loss queues the two publish tasks, detached
-- first, then on_leave: three tasks after those of the table removal
example :
    let ta : Testament := { topic := "t", args := [], kw := [], opts := [] }
    let tb : Testament := { topic := "a..b", args := [], kw := [], opts := [] }
    let r : Realm := { WpCEx.r4 with testaments := [(2, { detached := [tb], destroyed := [ta] })] }
    RealmInv r ∧ (r.clients.find? (fun c => c.key == 2)).isSome = true ∧
    (testamentsOf r 2).map (·.topic) = ["a..b", "t"] ∧
    (r.leave 2 .lost).tasks.length = (leaveBaseTasks r 2 .lost).length + 3 ∧
    WellFormedTestament r ta ∧ ¬ WellFormedTestament r tb := by
  refine ⟨?_, by decide +kernel, by decide +kernel, by decide +kernel, ⟨by decide +kernel, Or.inl (by decide +kernel)⟩, ?_⟩
  · have hi := WpCEx.r4_inv
    exact hi.of_parts rfl hi.binv hi.dinv hi.bmem hi.dref hi.callers hi.retr hi.tasks hi.inb rfl
  · rintro ⟨hv, _⟩
    revert hv
    decide +kernel

/-! ## [WP-C / C05 §3 — end] -/

/-! ## Testaments belong to attached sessions -/

-- a testament that uses payload passthru (`ppt_scheme` in its publish options) is published like any
-- other: the meta session announces the publisher feature (it used to be aborted by its own publish)
example : ({} : Realm).metaS.hasFeature RolePublisher FeaturePayloadPassthruMode = true := by decide

/-- the per-task statement "testament keys are attached sessions" for an arbitrary pending task … -/
def C05_testaments_task_level_full : Prop :=
  ∀ (r : Realm) (t : Task), RealmInv r → TaskOk t → (∀ x ∈ r.testaments, r.isClient x.1) →
    ∀ x ∈ (r.runTask t).testaments, (r.runTask t).isClient x.1

/-- … HOLDS at task granularity (F20 fixed: `sessionAddTestament` checks `r.clients[caller]`; this theorem
    replaces the former witness theorem `C05_testaments_task_level_fails`).  Whichever pending task runs
    next: `add_testament` stores nothing for a caller that is no longer attached
    (`C05_add_testament_unattached`), `flush_testaments` only shrinks or rewrites an existing bucket, the
    departure of a session takes its own bucket out (`C05_leave_testaments`), and no other task writes
    the table.  So also when the `add_testament` invocation of a session is still pending when the
    session has left (the interleaving the real router's concurrent handlers can produce), no testament
    of a session that does not exist is ever stored. -/
theorem C05_testaments_task_level : C05_testaments_task_level_full :=
  fun _ t hi ht h => runTask_testaments hi h t ht

/-- `add_testament` by a caller that is not an attached client (its id is below the session-id base, or
    names no session in `clients`): the answer is the same empty YIELD, the state is UNCHANGED. -/
theorem C05_add_testament_unattached (r : Realm) (req c : Nat) (details : Dict) (kw : Dict) (topic : String)
    (targs : List WVal) (tkw : Dict) (rest : List WVal) (hc : callerOf details = some c)
    (hs : scopeOf kw = "destroyed" ∨ scopeOf kw = "detached")
    (hna : c < sidBase ∨ ∀ s ∈ r.clients, s.key ≠ c - sidBase) :
    metaProc r MetaProcSessionAddTestament req details (.str topic :: .list targs :: .dict tkw :: rest) kw =
      (mYield req [], r) :=
  metaProc_addTestament_unattached r req c details kw topic targs tkw rest hc hs hna

-- the former counterexample (no client, pending `add_testament` of session 5): nothing is stored now
example : let r0 : Realm := { metaProcs := [(1, MetaProcSessionAddTestament)] }
    (r0.runTask (.metaInvoke 7 1 [("caller", .int (sidBase + 5))] [.str "t", .list [], .dict []] [])).testaments = [] := by
  decide

/-- The invariant "every testament bucket is stored under the key of an attached session" is kept by
    every external input, every internal task, every timed event and every step, and holds in every
    reachable state. -/
theorem C05_testaments_attached (r : Realm) (hi : RealmInv r) (h : TestamentsAttached r) :
    (∀ op, TestamentsAttached (r.stepOp op)) ∧
    (∀ t, TaskOk t → TestamentsAttached (r.runTask t)) ∧
    (∀ t, TestamentsAttached (r.timerDue t)) ∧ (∀ x, TestamentsAttached (r.retryDue x)) ∧
    (FuelOnly r.panic → ∀ op, TestamentsAttached (r.step op).2) :=
  ⟨stepOp_testaments hi h, fun t ht => runTask_testaments hi h t ht, timerDue_testaments h, retryDue_testaments h,
   fun hp op => step_testaments hi hp h op⟩

theorem C05_testaments_attached_reachable (cfg : Config) (r : Realm) (h : Realm.Reachable cfg r) :
    ∀ x ∈ r.testaments, r.isClient x.1 := h.testaments

/-! ## After the last session has left -/

/-- In a state satisfying the invariant in which no session is attached: every subscription left is
    memberless and has a history store (i.e. is a pre-created history subscription), the broker
    index is empty, every registration left has the meta session as its only callee (the `wamp.*`
    meta procedures), the callee index has no key but the meta session, and there is no call, no
    invocation, no call→invocation link; only the meta session's handler can be in a retry loop.
    Holds in particular for every reachable state with `clients = []`, whatever the history
    (refused / failed calls and registrations included). -/
theorem C05_returns_to_empty (r : Realm) (hi : RealmInv r) (hc : r.clients = []) :
    (∀ s ∈ r.broker.subs, s.members = [] ∧ r.broker.hasHist s.id = true) ∧
    r.broker.index = [] ∧
    (∀ g ∈ r.ds.d.regs, g.callees = [metaKey]) ∧
    (∀ e ∈ r.ds.d.index, e.1 = metaKey) ∧
    r.ds.d.calls = [] ∧ r.ds.d.invs = [] ∧ r.ds.d.byCall = [] ∧
    (∀ x ∈ r.retries, x.callee = metaKey) := by
  have nocl : ∀ k, ¬ r.isClient k := by
    rintro k ⟨c, hcm, _⟩
    rw [hc] at hcm; cases hcm
  have attm : ∀ k, r.att k → k = metaKey := fun k h => h.elim id (fun h => absurd h (nocl k))
  have hcalls : r.ds.d.calls = [] := by
    cases hcs : r.ds.d.calls with
    | nil => rfl
    | cons c cs => exact absurd (hi.callers c (by rw [hcs]; exact List.mem_cons_self ..)) (nocl _)
  have hsz := CallInv.sizes hi.dinv.call
  rw [hcalls] at hsz
  have hby : r.ds.d.byCall = [] := List.eq_nil_of_length_eq_zero hsz.1.symm
  have hinv : r.ds.d.invs = [] := List.eq_nil_of_length_eq_zero (by rw [← hsz.2, hby]; rfl)
  obtain ⟨l1, l2, l3, l4, _, _, _, l8⟩ := C05_live_refs r hi
  refine ⟨?_, ?_, ?_, fun e he => attm _ (l4 e he), hcalls, hinv, hby, fun x hx => attm _ (l8 x hx)⟩
  · intro s hs
    have hm : s.members = [] := by
      cases hms : s.members with
      | nil => rfl
      | cons k ks => exact absurd (l1 s hs k (by rw [hms]; exact List.mem_cons_self ..)) (nocl k)
    exact ⟨hm, hi.binv.empty_hist s hs hm⟩
  · cases hix : r.broker.index with
    | nil => rfl
    | cons e es => exact absurd (l2 e (by rw [hix]; exact List.mem_cons_self ..)) (nocl _)
  · intro g hg
    obtain ⟨hne, hnd⟩ := hi.dinv.reg.regs.callees g hg
    have hall : ∀ k ∈ g.callees, k = metaKey := fun k hk => attm k (l3 g hg k hk)
    cases hcs : g.callees with
    | nil => exact absurd hcs hne
    | cons a as =>
      rw [hcs] at hall hnd
      have ha : a = metaKey := hall a (List.mem_cons_self ..)
      cases has : as with
      | nil => rw [ha]
      | cons b bs =>
        rw [has] at hall hnd
        have hb : b = metaKey := hall b (List.mem_cons_of_mem _ (List.mem_cons_self ..))
        have := (List.nodup_cons.mp hnd).1
        rw [ha, hb] at this
        exact absurd (List.mem_cons_self ..) this

example (cfg : Config) (r : Realm) (h : Realm.Reachable cfg r) (hc : r.clients = []) :
    r.ds.d.calls = [] ∧ r.broker.index = [] :=
  ⟨(C05_returns_to_empty r h.inv.1 hc).2.2.2.2.1, (C05_returns_to_empty r h.inv.1 hc).2.1⟩

/-! ## Boundedness -/

/-- The three call tables always have the same number of entries, one per pending call, and every
    entry belongs to an attached caller and an attached (or meta) callee: the tables cannot hold
    anything for sessions that have left, whatever calls were refused or failed before. -/
theorem C05_bounded (r : Realm) (hi : RealmInv r) :
    r.ds.d.calls.length = r.ds.d.byCall.length ∧ r.ds.d.byCall.length = r.ds.d.invs.length ∧
    r.ds.d.calls.Nodup ∧
    (∀ c ∈ r.ds.d.calls, r.isClient c.sess) ∧
    (∀ v ∈ r.ds.d.invs, v.callId ∈ r.ds.d.calls ∧ r.att v.callee) :=
  ⟨(CallInv.sizes hi.dinv.call).1, (CallInv.sizes hi.dinv.call).2, hi.dinv.call.calls, hi.callers,
   fun v hv => ⟨(hi.dinv.call.inv_call hv).1, ((C05_live_refs r hi).2.2.2.2.2.1 v hv).1⟩⟩

/-! ## [WP-C / C05 §4 — begin] from the INPUT that ends a session to "gone", and the empty realm -/

open Nexus.L2.WpC in
/-- FROM THE INPUT TO THE EFFECT ("for any reason … from then on").  The theorems above are about the function
    `Realm.leave`; this one connects an INPUT to it.  In a state reachable by ANY history of inputs
    (`Realm.Reachable`) whose
    panic flag is `none` (so nothing is pending: `Reachable.quiescent`), let `k` be an attached session that
    is not already ending and whose handler is not in the yield retry loop, and let the input be one that
    ends it (`EndsInput`): its transport is lost (`.drop k`), or it sends GOODBYE, or a protocol violation —
    any message type the router does not expect, or an ERROR not answering an INVOCATION — that the
    authorization gate lets through.  Then, when the step is over and unless the model's task fuel ran out
    (`panic = none` afterwards), `k` is no client any more and occurs NOWHERE: not in a subscription, the
    broker index, a registration, the callee index, a call, an invocation (`Gone`), not in `ending`, among
    the deferred departures, the waiting transport input, the retrying handlers or the testament table; and
    no task is pending.  The proof is the `drain` induction principle (`drain_quiescent`) with the property
    "a `leave k` is pending while `k` is attached" (`drain_gone`).

    Exceptions, all explicit hypotheses: a BUSY handler (in the retry loop) notices its end only when the
    loop ends (≤ 65.5 s, `C07_retry_*`; the departure is deferred: `runTask_leave`), and a session that is
    already ending ignores further input. -/
theorem C05_end_input_gone (cfg : Config) (r : Realm) (h : Realm.Reachable cfg r) (hp0 : r.panic = none) (k : SessKey)
    (hk : r.isClient k) (hb : r.busy k = false) (he : k ∉ r.ending) (op : Op) (hop : EndsInput r k op)
    (hp : (r.step op).2.panic = none) :
    ¬ (r.step op).2.isClient k ∧ Gone (r.step op).2 k ∧ (∀ t ∈ (r.step op).2.testaments, t.1 ≠ k) ∧
    k ∉ (r.step op).2.ending ∧ (∀ d ∈ (r.step op).2.deferred, d.1 ≠ k) ∧ (∀ e ∈ (r.step op).2.inbox, e.1 ≠ k) ∧
    (∀ x ∈ (r.step op).2.retries, x.callee ≠ k) ∧ (r.step op).2.tasks = [] := by
  have _ht : r.tasks = [] := Reachable.quiescent h hp0
  obtain ⟨g1, g2, g3, g4, g5, g6, g7, _, _⟩ := step_gone h.inv.1 h.ctl hk hb he hop hp
  refine ⟨g1, g2, ?_, g3, g4, g5, g6, g7⟩
  intro t ht e
  exact g1 (e ▸ (Realm.Reachable.step op h).testaments t ht)

open Nexus.L2.WpC in
/-- the state-level form (no history): from any state satisfying the two invariants -/
theorem C05_end_input_gone_inv (r : Realm) (hi : RealmInv r) (hc : CtlInv r) (k : SessKey)
    (hk : r.isClient k) (hb : r.busy k = false) (he : k ∉ r.ending) (op : Op) (hop : EndsInput r k op)
    (hp : (r.step op).2.panic = none) :
    ¬ (r.step op).2.isClient k ∧ Gone (r.step op).2 k ∧ k ∉ (r.step op).2.ending ∧ (r.step op).2.tasks = [] := by
  obtain ⟨g1, g2, g3, _, _, _, g7, _, _⟩ := step_gone hi hc hk hb he hop hp
  exact ⟨g1, g2, g3, g7⟩

-- non-vacuity: session 1 (attached, with a pending call to session 2) loses its transport / says GOODBYE / sends WELCOME
open Nexus.L2.WpC in
example : EndsInput WpCEx.r5 1 (.drop 1) ∧ EndsInput WpCEx.r5 1 (.msg 1 (.goodbye [] "wamp.close.normal")) ∧
    EndsInput WpCEx.r5 1 (.msg 1 (.welcome 1 [])) ∧
    WpCEx.r5.busy 1 = false ∧ 1 ∉ WpCEx.r5.ending ∧ (WpCEx.r5.step (.drop 1)).2.panic = none ∧
    (WpCEx.r5.step (.drop 1)).2.clients.map (·.key) = [2] := by
  obtain ⟨s1, hf⟩ := Option.isSome_iff_exists.mp
    (by decide +kernel : (WpCEx.r5.clients.find? (fun c => c.key == 1)).isSome = true)
  have hz : WpCEx.r5.cfg.authz = none := by
    cases h : WpCEx.r5.cfg.authz with
    | none => rfl
    | some l => exact absurd (show WpCEx.r5.cfg.authz.isNone = true by decide +kernel) (by rw [h]; simp)
  have hg : ∀ m, (authzGate WpCEx.r5 s1 m).1 = true := by
    intro m; unfold authzGate; rw [hz]
  exact ⟨Or.inl rfl, Or.inr ⟨_, s1, rfl, hf, rfl, hg _⟩, Or.inr ⟨_, s1, rfl, hf, rfl, hg _⟩,
    by decide +kernel, by decide +kernel, by decide +kernel, by decide +kernel⟩

open Nexus.L2.WpC in
/-- TESTAMENTS ARE LIVE, at every level.  Every testament bucket is stored under the key of an attached
    session: in every reachable state (`Reachable`, any inputs), kept by every step, and — since F20 is fixed
    (`add_testament` checks `clients`) — kept by EVERY SINGLE internal task, external input and timed event
    whichever is scheduled next (`C05_testaments_task_level`, `C05_testaments_attached`).  So the statement
    holds at the level of atomic actions, not only at quiescence. -/
theorem C05_testaments_live (cfg : Config) (r : Realm) (h : Realm.Reachable cfg r) :
    (∀ t ∈ r.testaments, r.isClient t.1) ∧
    (∀ task, TaskOk task → ∀ t ∈ (r.runTask task).testaments, (r.runTask task).isClient t.1) ∧
    (∀ op, ∀ t ∈ (r.stepOp op).testaments, (r.stepOp op).isClient t.1) ∧
    (∀ op, ∀ t ∈ (r.step op).2.testaments, (r.step op).2.isClient t.1) :=
  ⟨h.testaments, fun task ht => runTask_testaments h.inv.1 h.testaments task ht,
   fun op => stepOp_testaments h.inv.1 h.testaments op, fun op => (Realm.Reachable.step op h).testaments⟩

open Nexus.L2.WpC in
/-- "ONCE ALL SESSIONS OF A REALM HAVE LEFT … THE ROUTER HOLDS NO PER-SESSION STATE", completed.
    `C05_returns_to_empty` covers the broker and dealer tables; this adds the realm's own per-session state.
    In EVERY reachable state (`Realm.Reachable`, any history of inputs) in which no session is attached: the
    testament table is empty, nobody is marked as ending, no departure is deferred, no input waits in a
    transport, only the meta session's handler can be in the retry loop (F19, for ≤ 65.5 s, then it is gone
    too), and — unless a fuel marker was set — no task is pending.  (`queues`, `closedPeers`, `ghosts` hold
    what departed sessions have not yet read; they are the subject of C07/C11. The dealer's `timers` list
    keeps cancelled timers until they fire: a model artefact, in Go the goroutine ends.) -/
theorem C05_returns_to_empty' (cfg : Config) (r : Realm) (h : Realm.Reachable cfg r) (hc : r.clients = []) :
    r.testaments = [] ∧ r.ending = [] ∧ r.deferred = [] ∧ r.inbox = [] ∧
    (∀ x ∈ r.retries, x.callee = metaKey ∧ pptScheme x.opts = "") ∧
    (r.panic = none → r.tasks = []) ∧
    ((∀ s ∈ r.broker.subs, s.members = [] ∧ r.broker.hasHist s.id = true) ∧ r.broker.index = [] ∧
     (∀ g ∈ r.ds.d.regs, g.callees = [metaKey]) ∧ (∀ e ∈ r.ds.d.index, e.1 = metaKey) ∧
     r.ds.d.calls = [] ∧ r.ds.d.invs = [] ∧ r.ds.d.byCall = [] ∧ (∀ x ∈ r.retries, x.callee = metaKey)) := by
  have hi := h.inv.1
  have hct := h.ctl
  have nocl : ∀ k, ¬ r.isClient k := by
    rintro k ⟨c, hcm, _⟩
    rw [hc] at hcm; cases hcm
  have hretr : ∀ x ∈ r.retries, x.callee = metaKey := fun x hx => (hi.retr x hx).elim id (fun h => absurd h (nocl _))
  refine ⟨?_, ?_, ?_, ?_, fun x hx => ⟨hretr x hx, hct.safe.retries x hx (hretr x hx)⟩,
    fun hp => Reachable.quiescent h hp, C05_returns_to_empty r hi hc⟩
  · cases ht : r.testaments with
    | nil => rfl
    | cons t ts => exact absurd (h.testaments t (by rw [ht]; exact List.mem_cons_self ..)) (nocl _)
  · cases he : r.ending with
    | nil => rfl
    | cons j js => exact absurd (hct.ending j (by rw [he]; exact List.mem_cons_self ..)) (nocl _)
  · cases hd : r.deferred with
    | nil => rfl
    | cons d ds =>
      exfalso
      have hdm : d ∈ r.deferred := by rw [hd]; exact List.mem_cons_self ..
      obtain ⟨x, hx, hxk⟩ := List.any_eq_true.mp (hct.defBusy d hdm)
      have : x.callee = d.1 := by simpa using hxk
      exact hct.safe.deferred d hdm (this ▸ hretr x hx)
  · cases hib : r.inbox with
    | nil => rfl
    | cons e es =>
      exfalso
      obtain ⟨⟨c, hcm, _⟩, _⟩ := hi.inb e (by rw [hib]; exact List.mem_cons_self ..)
      rw [hc] at hcm; cases hcm

/-- the `ending` clause over ALL histories of the model's input type (kept as a named statement: it was
    false while `.drop k` was accepted for a key naming no attached client — the former witness
    `C05_returns_to_empty'_full_fails`) … -/
def C05_returns_to_empty'_full : Prop :=
  ∀ (cfg : Config) (r : Realm), Realm.Reachable cfg r → r.clients = [] → r.ending = []

/-- … holds: it is a clause of `C05_returns_to_empty'`. -/
theorem C05_returns_to_empty'_full_holds : C05_returns_to_empty'_full :=
  fun cfg r h hc => (C05_returns_to_empty' cfg r h hc).2.1

-- non-vacuity: the freshly created realm; and the input of the former witness changes nothing
example (cfg : Config) (r : Realm) (h : Realm.create cfg = some r) : Realm.Reachable cfg r ∧ r.clients = [] :=
  ⟨.init h, (create_rinv h).2.2.1⟩
example (cfg : Config) (r : Realm) (h : Realm.create cfg = some r) : r.stepOp (.drop 5) = r :=
  stepOp_drop_absent (by rw [(create_rinv h).2.2.1]; intro c hc; cases hc)

open Nexus.L2.WpC in
/-- "FOR ANY REASON": whoever is marked as ending leaves by the end of the step.  Every way a session's end
    is decided — lost transport, GOODBYE, protocol violation, ABORT by the broker (`handlePublish`) or the
    dealer (`syncCall`, `syncYield`), kill / kill_by_authid / kill_by_authrole / kill_all through the meta API
    (`C18_kill`: exactly the selected sessions are marked and get a `leave` task) — marks the session in
    `ending` and queues its `leave` together (`Paired`).  So (invariant `EndPending`) in EVERY reachable state
    (any history of inputs) each key in `ending` has its departure pending or deferred, and AT QUIESCENCE
    (`panic = none`, hence no pending task) the only sessions still marked are attached sessions whose handler
    is in the yield retry loop, their departure being deferred until the loop ends (≤ 65.5 s, C07): everybody
    else who was told to end HAS left (and then occurs nowhere: `C05_leave_gone`). -/
theorem C05_ending_only_busy (cfg : Config) (r : Realm) (h : Realm.Reachable cfg r) :
    (∀ k ∈ r.ending, (∃ mode, Task.leave k mode ∈ r.tasks) ∨ ∃ d ∈ r.deferred, d.1 = k) ∧
    (r.panic = none → ∀ k ∈ r.ending, r.isClient k ∧ r.busy k = true ∧ ∃ mode, (k, mode) ∈ r.deferred) :=
  ⟨h.endPending, fun hp => ending_only_busy h.ctl h.endPending (Reachable.quiescent h hp)⟩

open Nexus.L2.WpC in
/-- … and from ANY moment inside a step (a state `q` between two atomic actions, satisfying the invariants —
    e.g. right after the `kill` meta procedure ran): a session that is marked as ending and whose handler is
    free is, once the pending tasks have run (no fuel marker), no client any more and referenced nowhere. -/
theorem C05_marked_ending_gone (q : Realm) (hi : RealmInv q) (hc : CtlInv q) (he : EndPending q) (k : SessKey)
    (hk : k ∈ q.ending) (hb : q.busy k = false) (hp : (drain taskFuel q).panic = none) :
    ¬ (drain taskFuel q).isClient k ∧ Gone (drain taskFuel q) k ∧ k ∉ (drain taskFuel q).ending ∧
    (drain taskFuel q).tasks = [] := by
  have hkm : k ≠ metaKey := hc.safe.client_ne (hc.ending k hk)
  obtain ⟨g1, g2, g3, g4, _⟩ := drain_gone hkm q hi hc (leaving_of_ending hc he hk hb) hp
  obtain ⟨q1, q2, _⟩ := gone_of_not_client g3 g4 hkm g1
  exact ⟨g1, q1, q2, g2⟩

/-- `EndPending` is kept by every atomic action (so it holds between any two of them). -/
theorem C05_end_pending_preserved (r : Realm) (hi : RealmInv r) (hc : Nexus.L2.WpC.CtlInv r) (h : Nexus.L2.WpC.EndPending r) :
    (∀ op, Nexus.L2.WpC.EndPending (r.stepOp op)) ∧
    (∀ t ts, r.tasks = t :: ts → Nexus.L2.WpC.EndPending (runTask { r with tasks := ts } t)) ∧
    (∀ t, Nexus.L2.WpC.EndPending (r.timerDue t)) ∧ (∀ x, Nexus.L2.WpC.EndPending (r.retryDue x)) ∧
    (FuelOnly r.panic → ∀ op, Nexus.L2.WpC.EndPending (r.step op).2) :=
  ⟨fun op => h.stepOp op, fun _ _ ht => h.runHead hc ht, fun t => h.timerDue t, fun x => h.retryDue x,
   fun hp op => h.step' hi hp hc op⟩

-- non-vacuity of `C05_marked_ending_gone`: session 1 of the example state has just been told to end (kill)
open Nexus.L2.WpC in
example : let q : Realm := { WpCEx.r5 with tasks := [.leave 1 (.killed (.goodbye [] "wamp.close.normal") false)], ending := [1] }
    1 ∈ q.ending ∧ q.busy 1 = false ∧ (drain taskFuel q).panic = none ∧ (drain taskFuel q).clients.map (·.key) = [2] := by
  intro q
  exact ⟨List.mem_singleton.mpr rfl, by decide +kernel, by decide +kernel, by decide +kernel⟩

/-! ## [WP-C / C05 §4 — end] -/

end Nexus.C05
