/-
  C02 (history level) — the REPLY STREAM of a call over whole realm histories.

  Property text (the clauses proved here).  "For every CALL […] the caller receives at most one final
  reply (a RESULT without the progress flag or an ERROR of type CALL) bearing that call's request id,
  preceded only by progressive RESULTs of that same call and followed by nothing more for that request;
  it never receives a reply for a request id it did not issue."

  Nexus/Props/C02.lean proves this for runs of the DEALER (`C02_episode`) and, at realm level, only for
  single handlers.  Here it is proved for every history of `Realm.step` — every interleaving of inputs
  of all sessions, internal tasks, call timers, turns of the yield retry loop, departures — for a realm
  WITHOUT an Authorizer (`cfg.authz = none`).  With an Authorizer the statement is FALSE of the model and
  of the router (finding F47, `C02_realm_one_final_full_fails`): `C02_hist_episode_full_fails` restates the
  counterexample in the vocabulary of this file.

  Vocabulary: the ghost trace `traceHist r ops`, `x.script` (`dsteps`: the dealer steps of the action,
  `offers`: what it hands to `trySend`), `x.enqueued` (the offers appended to a queue) — see
  Nexus/Props/C08Hist.lean, whose `C08_hist_trace` states that the queues change in no other way.
  `repliesFor c l`: the replies to the call `c = (caller, request)` in `l`: RESULTs and ERRORs of type
  CALL addressed to `c.sess` with request id `c.req`.  `x.call? = some c`: the action `x` is the handler
  of session `c.sess` reading a CALL message with request id `c.req` (read off the action itself).
  `offersOf tr`, `enqueuedOf tr`, `dealerReplies c tr`: all offers / all enqueued offers / all replies for
  `c` sent by dealer steps, along a trace, in order.

  clause                                                                theorem
  --------------------------------------------------------------------  -----------------------------------
  the dealer steps of the ghost trace form a run of the dealer from the
    dealer state at the start to the one at the end                      C02_hist_dealer_run
  ONLY THE DEALER REPLIES (no Authorizer): in every action the replies
    among the offers are exactly those its dealer steps send — or none
    (a departure at router shutdown discards them); the handlers' own
    ERRORs (invalid URI, bad cancel mode, unknown policy, disclose_me)
    are of type PUBLISH/SUBSCRIBE/REGISTER/CANCEL, never CALL: `handleCall`
    has no error path of its own; what is enqueued is a sub-list          C02_hist_only_dealer_replies
  bridge to the dealer-level theorems: enqueued ⊑ offered ⊑ the reply
    stream of that dealer run; `C02_episode` applied through it            C02_hist_replies_sublist,
                                                                          C02_hist_episode_dealer
  every action obeys the reply discipline towards every call: at most one
    reply, only for a pending call or the CALL being handled, a final one
    only with the removal of the call                                     C02_hist_action_discipline
  THE EPISODE: over a history in which no NEW call re-uses the id `c` (every
    handler reading a CALL `c` finds it pending: later chunks), the replies
    ENQUEUED for `c` are progressive RESULTs followed by at most one final
    reply, after which `c` is not pending                                 C02_hist_episode
  … the same for a history that STARTS with the CALL input opening `c`    C02_hist_episode_from_call
  NO FOREIGN REPLY: from a fresh realm, a session that has never sent a
    CALL with request id `q` is never offered — let alone reads — a RESULT
    or ERROR(CALL) bearing `q`                                            C02_hist_no_foreign_reply,
                                                                          C02_hist_no_foreign_reply_read
  with an Authorizer: the episode statement at full strength is false     C02_hist_episode_full (def),
                                                                          C02_hist_episode_full_fails
-/
import Nexus.L2.Proofs.WpEReplies
import Nexus.Props.C02
import Nexus.Props.C08Hist

namespace Nexus.C02
open Nexus.L2 Nexus.L2.Realm Nexus.L2.WpE Gen.N

/-- the dealer steps of the ghost trace of a history are a run of the dealer -/
theorem C02_hist_dealer_run (r : Realm) (ops : List Op) :
    Run r.ds (dstepsOf (traceHist r ops)) (runOps r ops).ds := (hist_tables r ops).2.2

/-- every action of the history of a reachable realm starts in a state satisfying the dealer invariant -/
theorem hist_dinv {cfg : Config} {r : Realm} (h : Realm.Reachable cfg r) (ops : List Op) :
    ∀ x ∈ traceHist r ops, DealerInv x.pre.ds := by
  have key : ∀ {a b : Realm} {tr : List Rec}, Chain a tr b → DealerInv a.ds → ∀ x ∈ tr, DealerInv x.pre.ds := by
    intro a b tr hc
    induction hc with
    | nil => intro _ _ hx; cases hx
    | @cons x tr r' _ ih =>
      intro hi y hy
      rcases List.mem_cons.mp hy with rfl | hy
      · exact hi
      · exact ih (x.dinv_post hi) y hy
  exact key (chain_hist ops r) h.inv.1.dinv

/-- EVERY ACTION OBEYS THE REPLY DISCIPLINE towards every call `c`: its dealer steps send at most one reply for `c`;
    only if `c` is pending when the action starts or the action is the handler reading the CALL `c`; a final reply
    only if `c` is not pending when the action ends; and `c` is pending at the end only if it was at the start or
    the action is that CALL. -/
theorem C02_hist_action_discipline {cfg : Config} {r : Realm} (h : Realm.Reachable cfg r) (ops : List Op) (c : ReqId) :
    ∀ x ∈ traceHist r ops, ActOk x.pre.ds x.script.dsteps x.post.ds c (x.call? = some c) :=
  fun x hx => x.actOk (hist_dinv h ops x hx) c

/-- ONLY THE DEALER REPLIES.  In a realm without an Authorizer, for every action of every history and every call `c`:
    the replies for `c` among the offers of the action are exactly the replies its dealer steps send, or there is
    none; and the replies enqueued are a sub-list of those offered. -/
theorem C02_hist_only_dealer_replies {cfg : Config} {r : Realm} (h : Realm.Reachable cfg r) (hz : cfg.authz = none)
    (ops : List Op) (c : ReqId) :
    ∀ x ∈ traceHist r ops,
      (repliesFor c x.script.offers = replyStream c x.script.dsteps ∨ repliesFor c x.script.offers = []) ∧
      (repliesFor c x.enqueued).Sublist (repliesFor c x.script.offers) := by
  intro x hx
  have hcfg := (chain_cfg (chain_hist ops r)).1 x hx
  have hk := (hist_inv h ops x hx).2
  have hw := traceHist_wf ops r x hx
  refine ⟨x.offer_replies (by rw [hcfg, (WpA.flags_const h).2.2.2.2.1]; exact hz) (fun t e => ?_) c,
    repliesFor_sublist c (taken_sublist _ _)⟩
  have hh := hw t e
  have hmem : t ∈ x.pre.tasks := by
    cases hl : x.pre.tasks with
    | nil => rw [hl] at hh; cases hh
    | cons a l =>
      rw [hl] at hh
      simp only [List.head?_cons, Option.some.injEq] at hh
      subst hh; exact List.mem_cons_self ..
  exact (hk.tasks t hmem).evOk

/-- THE BRIDGE TO THE DEALER-LEVEL THEOREMS (no Authorizer): over any history from a reachable realm, the replies for `c`
    appended to the queues are a sub-list of the replies offered, which are a sub-list of the REPLY STREAM
    `replyStream c` of the dealer run `C02_hist_dealer_run` — the object `C02_episode`, `C02_nothing_after_final_chunks`,
    `C08_progress_order` … of Nexus/Props/C02.lean and C08Dealer.lean speak about. -/
theorem C02_hist_replies_sublist {cfg : Config} {r : Realm} (h : Realm.Reachable cfg r) (hz : cfg.authz = none)
    (ops : List Op) (c : ReqId) :
    (repliesFor c (enqueuedOf (traceHist r ops))).Sublist (repliesFor c (offersOf (traceHist r ops))) ∧
    (repliesFor c (offersOf (traceHist r ops))).Sublist (replyStream c (dstepsOf (traceHist r ops))) := by
  have hz' : r.cfg.authz = none := by rw [(WpA.flags_const h).2.2.2.2.1]; exact hz
  obtain ⟨s1, s2⟩ := chain_replies_sublist (chain_hist ops r) (traceHist_wf ops r) hz' (Reachable.killOk h) c
  rw [dealerReplies_eq] at s1
  exact ⟨s2, s1⟩

/-- … hence `C02_episode` itself applies: if every dealer step of the history that is a CALL step for `c` in the sense of
    `IsCallStep` finds `c` pending, the enqueued replies have the shape progress* final?. -/
theorem C02_hist_episode_dealer {cfg : Config} {r : Realm} (h : Realm.Reachable cfg r) (hz : cfg.authz = none)
    (ops : List Op) (c : ReqId)
    (hno : ∀ p ∈ dstepsOf (traceHist r ops), IsCallStep p.1 p.2 c → c ∈ p.1.d.calls) :
    ∃ ps f, repliesFor c (enqueuedOf (traceHist r ops)) = ps ++ f ∧ (∀ y ∈ ps, y.msg.isFinalReply = false) ∧
      (f = [] ∨ ∃ y, f = [y] ∧ y.msg.isFinalReply = true ∧ c ∉ (runOps r ops).ds.d.calls) := by
  obtain ⟨ps, f, e, hp, hf⟩ := C02_episode c (C02_hist_dealer_run r ops) h.inv.1.dinv hno
  obtain ⟨s1, s2⟩ := C02_hist_replies_sublist h hz ops c
  exact shape_sublist (s1.trans s2) e hp hf

/-- THE EPISODE OF ONE CALL, REALM LEVEL.  A realm without an Authorizer, any reachable state, any further inputs `ops`
    — of the caller, the callee and every bystander — during which no NEW call re-uses the id `c` (every handler that
    reads a CALL with id `c` finds `c` pending: the later chunks of a progressive call invocation).  Then the replies
    for `c` that are appended to the caller's queue over the whole history are a list of progressive RESULTs
    followed by at most one final reply (RESULT without `progress`, or ERROR of type CALL), nothing after it, and
    with the final reply `c` is no longer pending at the end.  The same holds for the replies OFFERED (a full queue
    drops a message: the enqueued ones are a sub-list). -/
theorem C02_hist_episode {cfg : Config} {r : Realm} (h : Realm.Reachable cfg r) (hz : cfg.authz = none)
    (ops : List Op) (c : ReqId)
    (hno : ∀ x ∈ traceHist r ops, x.call? = some c → c ∈ x.pre.ds.d.calls) :
    (∃ ps f, repliesFor c (enqueuedOf (traceHist r ops)) = ps ++ f ∧ (∀ y ∈ ps, y.msg.isFinalReply = false) ∧
      (f = [] ∨ ∃ y, f = [y] ∧ y.msg.isFinalReply = true ∧ c ∉ (runOps r ops).ds.d.calls)) ∧
    (∃ ps f, repliesFor c (offersOf (traceHist r ops)) = ps ++ f ∧ (∀ y ∈ ps, y.msg.isFinalReply = false) ∧
      (f = [] ∨ ∃ y, f = [y] ∧ y.msg.isFinalReply = true ∧ c ∉ (runOps r ops).ds.d.calls)) := by
  have hchain := chain_hist ops r
  obtain ⟨ps, f, e, hp, hf⟩ := chain_episode hchain c h.inv.1.dinv hno
  have hz' : r.cfg.authz = none := by rw [(WpA.flags_const h).2.2.2.2.1]; exact hz
  obtain ⟨s1, s2⟩ := chain_replies_sublist hchain (traceHist_wf ops r) hz' (Reachable.killOk h) c
  exact ⟨shape_sublist (s2.trans s1) e hp hf, shape_sublist s1 e hp hf⟩

theorem chain_cons_inv {a b : Realm} {x : Rec} {tr : List Rec} (h : Chain a (x :: tr) b) :
    a = x.pre ∧ Chain x.post tr b := by
  cases h with
  | cons hc => exact ⟨rfl, hc⟩

/-- … STARTING WITH THE CALL: the history begins with the input `op` (in particular the CALL that opens `c`, whatever
    the dealer does with it: refuse it, route it, find the callee's queue full), followed by inputs `ops` during
    which no new call re-uses the id. -/
theorem C02_hist_episode_from_call {cfg : Config} {r : Realm} (h : Realm.Reachable cfg r) (hz : cfg.authz = none)
    (op : Op) (ops : List Op) (c : ReqId) (hop : ∀ ms, op ≠ .tick ms)
    (hno : ∀ x ∈ (traceHist r (op :: ops)).tail, x.call? = some c → c ∈ x.pre.ds.d.calls) :
    ∃ ps f, repliesFor c (enqueuedOf (traceHist r (op :: ops))) = ps ++ f ∧ (∀ y ∈ ps, y.msg.isFinalReply = false) ∧
      (f = [] ∨ ∃ y, f = [y] ∧ y.msg.isFinalReply = true ∧ c ∉ (runOps r (op :: ops)).ds.d.calls) := by
  have hchain := chain_hist (op :: ops) r
  have e0 : traceHist r (op :: ops) = ⟨r, .op op⟩ :: (traceHist r (op :: ops)).tail := by
    have e : traceStep r op =
        ⟨r, .op op⟩ :: (traceDrain taskFuel (r.stepOp op) ++ [⟨drain taskFuel (r.stepOp op), .flush⟩]) := by
      cases op <;> first | rfl | exact absurd rfl (hop _)
    have e1 : traceHist r (op :: ops) = traceStep r op ++ traceHist (r.step op).2 ops := rfl
    rw [e1, e]; rfl
  have rest : Chain (⟨r, .op op⟩ : Rec).post (traceHist r (op :: ops)).tail (runOps r (op :: ops)) := by
    rw [e0] at hchain
    exact (chain_cons_inv hchain).2
  obtain ⟨ps, f, e, hp, hf⟩ := chain_episode_from (x0 := ⟨r, .op op⟩) rest c h.inv.1.dinv hno
  have hz' : r.cfg.authz = none := by rw [(WpA.flags_const h).2.2.2.2.1]; exact hz
  obtain ⟨s1, s2⟩ := chain_replies_sublist hchain (traceHist_wf (op :: ops) r) hz' (Reachable.killOk h) c
  rw [← e0] at e
  exact shape_sublist (s2.trans s1) e hp hf

/-- NO FOREIGN REPLY.  A realm without an Authorizer, started fresh; any inputs `ops`; a session `k` and a request id
    `q` such that `k` never sends a CALL with request id `q`.  Then no action of the history offers — let alone
    enqueues — a RESULT or an ERROR of type CALL for session `k` bearing request id `q`; and (`k`, `q`) is never a
    pending call. -/
theorem C02_hist_no_foreign_reply {cfg : Config} {r0 : Realm} (h0 : Realm.create cfg = some r0) (hz : cfg.authz = none)
    (ops : List Op) (k : SessKey) (q : Nat)
    (hnever : ∀ opts proc args kw, Op.msg k (.call q opts proc args kw) ∉ ops) :
    (∀ x ∈ traceHist r0 ops, repliesFor ⟨k, q⟩ x.script.offers = []) ∧
    (⟨k, q⟩ : ReqId) ∉ (runOps r0 ops).ds.d.calls := by
  have hr : Realm.Reachable cfg r0 := .init h0
  have hchain := chain_hist ops r0
  have hw := traceHist_wf ops r0
  let P : SessKey → Msg → Prop := fun k' m => Op.msg k' m ∈ ops
  have hopP : ∀ x ∈ traceHist r0 ops, ∀ k' m, x.act = .op (.msg k' m) → P k' m :=
    fun x hx k' m e => traceHist_ops ops r0 x hx _ e
  have htok := (chain_tasksOk (P := P) hchain hw hopP (tasksOk_create h0)).1
  have hnocall : ∀ x ∈ traceHist r0 ops, x.call? = some (⟨k, q⟩ : ReqId) → (⟨k, q⟩ : ReqId) ∈ x.pre.ds.d.calls := by
    intro x hx hc
    obtain ⟨o, p, a, kw, hP⟩ := x.call_src (hw x hx) (htok x hx) (hopP x hx) hc
    exact absurd hP (hnever o p a kw)
  have hc0 : (⟨k, q⟩ : ReqId) ∉ r0.ds.d.calls := by
    intro hc
    obtain ⟨c, hcm, _⟩ := hr.inv.1.callers _ hc
    have : r0.clients = [] := by
      unfold Realm.create at h0
      split at h0
      · cases h0
      · split at h0
        · cases h0
        · extract_lets b d at h0
          cases h0
          exact (registerMeta_fields (metaProcNames cfg) { cfg := cfg, broker := b, ds := { d := d } }).2.1
    rw [this] at hcm
    cases hcm
  obtain ⟨h1, h2, _⟩ := chain_no_reply hchain ⟨k, q⟩ hr.inv.1.dinv hc0 hnocall
  refine ⟨?_, h2⟩
  intro x hx
  rcases (C02_hist_only_dealer_replies hr hz ops ⟨k, q⟩ x hx).1 with e | e
  · rw [e]; exact h1 x hx
  · exact e

/-- … in terms of what `k` READS: at the end of no step of the history does session `k` read a RESULT or an ERROR of
    type CALL bearing a request id it has never used in a CALL. -/
theorem C02_hist_no_foreign_reply_read {cfg : Config} {r0 : Realm} (h0 : Realm.create cfg = some r0)
    (hz : cfg.authz = none) (ops : List Op) (op : Op) (k : SessKey) (q : Nat)
    (hnever : ∀ opts proc args kw, Op.msg k (.call q opts proc args kw) ∉ ops ++ [op]) :
    ∀ e ∈ ((runOps r0 ops).step op).1.out, e.1 = k → ∀ m ∈ e.2, m.replyReq ≠ some q := by
  intro e he hk m hm hq
  obtain ⟨x, hx, hs⟩ := read_src h0 ops op e he m hm
  have hnone := (C02_hist_no_foreign_reply h0 hz (ops ++ [op]) k q hnever).1 x hx
  have hmem : (⟨e.1, m⟩ : Send) ∈ repliesFor ⟨k, q⟩ x.script.offers := by
    unfold repliesFor
    refine List.mem_filter.mpr ⟨Rec.enqueued_offers hs, ?_⟩
    simp [Send.replyTo, hq, hk]
  rw [hnone] at hmem
  cases hmem

/-! ### non-vacuity: a progressive call -/

/-- callee 1 (progressive results, call canceling) and caller 2 join; 1 registers "p" -/
def exSetup : List Op :=
  [ .join 1 false [] [(RoleCallee, [FeatureCallCanceling, FeatureProgCallResults])] 8,
    .join 2 false [] [(RoleCaller, [FeatureProgCallResults])] 8,
    .msg 1 (.register 1 [] "p") ]

/-- the CALL 7 of session 2, asking for progressive results -/
def exCall : Op := .msg 2 (.call 7 [(OptReceiveProgress, .bool true)] "p" [] [])

/-- two progressive YIELDs, the final YIELD, and a duplicate of it -/
def exYields : List Op :=
  [ .msg 1 (.yield 1 [(OptProgress, .bool true)] [.int 1] []),
    .msg 1 (.yield 1 [(OptProgress, .bool true)] [.int 2] []),
    .msg 1 (.yield 1 [] [.int 3] []),
    .msg 1 (.yield 1 [] [.int 4] []) ]

def exP0 : Realm := (Realm.create {}).getD default

theorem exP0_create : Realm.create {} = some exP0 := by
  have : (Realm.create {}).isSome = true := by decide +kernel
  unfold exP0
  cases h : Realm.create {} with
  | none => rw [h] at this; cases this
  | some r => rfl

/-- the state after the setup is reachable, and the realm has no Authorizer -/
theorem exP1_reachable : Realm.Reachable {} (runOps exP0 exSetup) := runOps_reachable exSetup (.init exP0_create)

set_option maxRecDepth 100000 in
/-- the hypotheses of `C02_hist_episode_from_call` are met by the history "CALL 7, then the four YIELDs" from that
    state (no later action is a CALL (2, 7)), and the replies enqueued for (2, 7) are: progressive RESULT, progressive
    RESULT, final RESULT — the duplicate final YIELD is answered by nothing -/
example :
    (∀ x ∈ (traceHist (runOps exP0 exSetup) (exCall :: exYields)).tail,
      x.call? = some (⟨2, 7⟩ : ReqId) → (⟨2, 7⟩ : ReqId) ∈ x.pre.ds.d.calls) ∧
    (repliesFor ⟨2, 7⟩ (enqueuedOf (traceHist (runOps exP0 exSetup) (exCall :: exYields)))).map
      (fun s => (s.msg.typeCode, s.msg.isFinalReply)) = [(50, false), (50, false), (50, true)] := by
  decide +kernel

/-- the state after the CALL is reachable too -/
theorem exP2_reachable : Realm.Reachable {} (runOps exP0 (exSetup ++ [exCall])) :=
  runOps_reachable _ (.init exP0_create)

set_option maxRecDepth 100000 in
/-- the hypotheses of `C02_hist_episode` are met by the four YIELDs from the state after the CALL (no action of that
    history is a CALL (2, 7) at all), with the same three replies -/
example :
    (∀ x ∈ traceHist (runOps exP0 (exSetup ++ [exCall])) exYields,
      x.call? = some (⟨2, 7⟩ : ReqId) → (⟨2, 7⟩ : ReqId) ∈ x.pre.ds.d.calls) ∧
    (repliesFor ⟨2, 7⟩ (enqueuedOf (traceHist (runOps exP0 (exSetup ++ [exCall])) exYields))).map
      (fun s => (s.msg.typeCode, s.msg.isFinalReply)) = [(50, false), (50, false), (50, true)] := by
  decide +kernel

/-- the hypothesis of `C02_hist_no_foreign_reply` is met by the whole example history, session 2 and the request id 8
    (session 2 only ever sends CALL 7) -/
example : ∀ opts proc args kw, Op.msg 2 (.call 8 opts proc args kw) ∉ exSetup ++ [exCall] ++ exYields := by
  intro opts proc args kw hmem
  simp [exSetup, exCall, exYields] at hmem

/-! ### with an Authorizer: false (finding F47) -/

/-- the episode statement at full strength: for EVERY configuration (reachable state, any further inputs during which no
    new call re-uses the id) -/
def C02_hist_episode_full : Prop :=
  ∀ (cfg : Config) (r : Realm), Realm.Reachable cfg r → ∀ (ops : List Op) (c : ReqId),
    (∀ x ∈ traceHist r ops, x.call? = some c → c ∈ x.pre.ds.d.calls) →
    ∃ ps f, repliesFor c (enqueuedOf (traceHist r ops)) = ps ++ f ∧ (∀ y ∈ ps, y.msg.isFinalReply = false) ∧
      (f = [] ∨ ∃ y, f = [y] ∧ y.msg.isFinalReply = true)

def exD0 : Realm := (Realm.create Ex.cfgDenyQ).getD default

theorem exD0_create : Realm.create Ex.cfgDenyQ = some exD0 := by
  have : (Realm.create Ex.cfgDenyQ).isSome = true := by decide +kernel
  unfold exD0
  cases h : Realm.create Ex.cfgDenyQ with
  | none => rw [h] at this; cases this
  | some r => rfl

set_option maxRecDepth 100000 in
/-- FALSE with an Authorizer (F47, as `C02_realm_one_final_full_fails`): in the realm whose Authorizer denies CALLs to
    "q", after callee 1 registered "p" and caller 2 opened the progressive call 7 to "p" (the first four inputs of
    `Ex.opsDenied`), the last chunk names "q": the GATE answers ERROR(CALL, 7, not_authorized) — no dealer step, the
    action is not a CALL action — and the call lives on; the callee's YIELD then brings RESULT(7): two final replies
    are enqueued for (2, 7) although no new call re-used the id. -/
theorem C02_hist_episode_full_fails : ¬ C02_hist_episode_full := by
  intro hfull
  have hr : Realm.Reachable Ex.cfgDenyQ (runOps exD0 (Ex.opsDenied.take 4)) :=
    runOps_reachable _ (.init exD0_create)
  have hno : ∀ x ∈ traceHist (runOps exD0 (Ex.opsDenied.take 4)) (Ex.opsDenied.drop 4),
      x.call? = some (⟨2, 7⟩ : ReqId) → (⟨2, 7⟩ : ReqId) ∈ x.pre.ds.d.calls := by decide +kernel
  have hfin : (repliesFor ⟨2, 7⟩ (enqueuedOf (traceHist (runOps exD0 (Ex.opsDenied.take 4)) (Ex.opsDenied.drop 4)))).map
      (fun s => s.msg.isFinalReply) = [true, true] := by decide +kernel
  obtain ⟨ps, f, e, hp, hf⟩ := hfull _ _ hr _ ⟨2, 7⟩ hno
  rw [e] at hfin
  have hps : ps = [] := by
    cases ps with
    | nil => rfl
    | cons y ys =>
      have := hp y (List.mem_cons_self ..)
      simp only [List.cons_append, List.map_cons, List.cons.injEq] at hfin
      rw [this] at hfin
      exact absurd hfin.1 (by decide)
  subst hps
  rcases hf with rfl | ⟨y, rfl, _⟩
  · simp at hfin
  · simp at hfin

end Nexus.C02
