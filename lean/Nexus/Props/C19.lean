/-
  C19 — URI validation/matching and id generation follow the WAMP rules.

  Property text.  "A URI is accepted for a purpose exactly when its dot-separated components
  satisfy the rule for that purpose (loose: no whitespace, '.' or '#' inside a component;
  strict: only [0-9a-z_]; all components non-empty for exact use, last may be empty for prefix,
  any may be empty for wildcard); a topic or procedure matches a prefix pattern iff it starts
  with it, and a wildcard pattern iff it has the same number of components and equals it in
  every non-empty one.  Request ids issued within a session start at 1, increase by 1 and wrap
  from 2^53 to 1, router-wide random ids lie in [1, 2^53], ids read from messages are accepted
  only within that range, and a received request id counts as new exactly when it is larger
  than the last one or lies within the allowed wrap-around window."

  All theorems are for ALL byte strings / ALL 64-bit values, and are stated over the definitions
  REGENERATED from the Go source by `gen uri` / `gen ids` (namespace `Nexus.Gen`):
  the six regex ASTs, the `ValidURI` dispatch, `MatchPrefix`/`MatchWildcard`, `MaxID`, `deltaID`,
  `idGenNext`, `isNewRecvID`, `updateLastRecvID`, `asIDInRange`/`asIDOfInt64`, `globalID`.

  clause                                                   theorem
  -------------------------------------------------------  ------------------------------------------
  loose / exact       `^([^\s\.#]+\.)*([^\s\.#]+)$`        looseURINonEmpty_iff_rule
  loose / prefix      `^([^\s\.#]+\.)*([^\s\.#]*)$`        looseURILastEmpty_iff_rule
  loose / wildcard    `^(([^\s\.#]+\.)|\.)*([^\s\.#]+)?$`  looseURIEmpty_iff_rule
  strict / exact      `^([0-9a-z_]+\.)*([0-9a-z_]+)$`      strictURINonEmpty_iff_rule
  strict / prefix     `^([0-9a-z_]+\.)*([0-9a-z_]*)$`      strictURILastEmpty_iff_rule
  strict / wildcard   `^(([0-9a-z_]+\.)|\.)*([0-9a-z_]+)?$` strictURIEmpty_iff_rule
  ValidURI picks the right pattern for (strict, match)     dispatch, dispatch_prefix, dispatch_wildcard,
                                                           dispatch_other_is_exact
  "accepted exactly when the components satisfy the rule"  validURI_iff_rule           (headline)
  the executable matcher decides regex membership          matcher_correct
  the executable rule (driver request `rule`) decides it   ruleB_iff_rule
  edge cases of the rule (empty URI, lone dot)             rule_empty_uri, validURI_empty_uri, rule_lone_dot
  "whitespace" is RE2's ASCII \s (VT, NBSP are accepted)   whitespace_is_ascii_class
  prefix pattern: "iff it starts with it"                  prefixMatch_iff
  wildcard pattern: same #components ∧ equal at non-empty  wildcardMatch_iff
  request ids start at 1                                   idgen_first
  … increase by 1 and wrap from 2^53 to 1                  idgen_succ, idgen_next_step, idgen_wrap
  … always within [1, 2^53]                                idgen_range, idgen_closed_form
  random ids lie in [1, 2^53] for every draw               globalid_range, globalid_bound_is_maxID
  ids read from messages accepted only within the range    asid_int64_iff, asid_uint64_iff, asid_uint64_wrap_rejected,
                                                           asid_iff_value, asid_accepts_iff (all 9 Go representations),
                                                           asInt64_switch_modelled (the 9 cases are the source's)
  received id is new ⇔ valid ∧ (first ∨ larger ∨ window)   isnew_reachable (full strength: after ANY history),
                                                           isnew_iff, isnew_in_words (for every last ≤ 2^53),
                                                           recv_last_invariant, update_spec, wrapDistance_is_next_steps,
                                                           isnew_arbitrary_last_full_fails (last > 2^53 is
                                                           unreachable and the formula does not extend to it)
  the constants                                            consts

  EDGE CASES of the URI rule (they are what the regexes do; the iff is exact):
  * the components are `strings.Split(uri, ".")`: the EMPTY URI is ONE EMPTY component.  Hence ""
    is rejected for exact use, but ACCEPTED for prefix use (its only component is the last one) and
    for wildcard use, in loose and strict mode alike (`rule_empty_uri`, `validURI_empty_uri`);
  * "." is two empty components: rejected for exact and prefix, accepted for wildcard (`rule_lone_dot`);
  * any `match` value other than the exact byte strings "prefix" / "wildcard" (e.g. "exact", "",
    "Prefix", garbage) means exact use (`dispatch_other_is_exact`);
  * "whitespace" is the class `\s` of Go's RE2 = {TAB, LF, FF, CR, SPACE}; VT (0x0B) and the
    Unicode spaces (U+0085, U+00A0, U+2028 …) are NOT whitespace for the loose rule and are accepted
    inside components (`whitespace_is_ascii_class`).  This is the recorded interpretation.

  TRUSTED BASE specific to this file
  * Go's `regexp` implements regular-language membership for the six anchored patterns (`^…$`
    without flags is begin/end of text), and `\s` is the ASCII class above.
  * Byte-level modelling is exact for Go's rune-level engine here: every character the six patterns
    mention is ASCII; `gen uri` refuses non-ASCII patterns.  A multi-byte UTF-8 rune consists of
    bytes ≥ 0x80 only, an invalid byte decodes to U+FFFD (width 1); such a rune is accepted by the
    negated loose class and rejected by the strict class, and so is each of its bytes in the byte
    model; the classes occur only under `+`/`*`, so rune boundaries do not matter.
  * `strings.Split(s, ".")` = `splitDot`, `strings.HasPrefix` = `List.isPrefixOf` (gen checks that
    PrefixMatch is exactly that call); the hand-written `wildcardMatch` mirrors the Go loop and is
    tied by the `uriid` correspondence family and a source hash.
  * `secureInt63n(n)` returns a value in `[0, n)` (its documentation; crypto/rand.Int).
  * Go's float→int64 conversion truncates toward zero when the result fits; out of range it is
    implementation-defined (the model takes amd64's 0x8000000000000000; every choice is rejected).
-/
import Nexus.Uri.Lemmas
import Nexus.Ids.Lemmas

namespace Nexus.C19
open Nexus.Uri Nexus.Uri.Regex Nexus.Ids Nexus.Gen

/-! ## URI validation -/

/-- The executable matcher used by the model driver decides regex membership. -/
theorem matcher_correct (r : Regex) (s : List UInt8) : matchB r s = true ↔ Matches r s :=
  matchB_iff

theorem looseURINonEmpty_iff_rule (s : List UInt8) :
    Matches looseURINonEmpty s ↔ rule false .nonEmpty s := by
  have h : looseURINonEmpty = shapeNonEmpty looseC := rfl
  rw [h, matches_shapeNonEmpty looseC_dot, rule_eq_ruleC, looseC_mem_eq]

theorem looseURILastEmpty_iff_rule (s : List UInt8) :
    Matches looseURILastEmpty s ↔ rule false .lastEmpty s := by
  have h : looseURILastEmpty = shapeLastEmpty looseC := rfl
  rw [h, matches_shapeLastEmpty looseC_dot, rule_eq_ruleC, looseC_mem_eq]

theorem looseURIEmpty_iff_rule (s : List UInt8) :
    Matches looseURIEmpty s ↔ rule false .anyEmpty s := by
  have h : looseURIEmpty = shapeAnyEmpty looseC := rfl
  rw [h, matches_shapeAnyEmpty looseC_dot, rule_eq_ruleC, looseC_mem_eq]

theorem strictURINonEmpty_iff_rule (s : List UInt8) :
    Matches strictURINonEmpty s ↔ rule true .nonEmpty s := by
  have h : strictURINonEmpty = shapeNonEmpty strictC := rfl
  rw [h, matches_shapeNonEmpty strictC_dot, rule_eq_ruleC, strictC_mem_eq]

theorem strictURILastEmpty_iff_rule (s : List UInt8) :
    Matches strictURILastEmpty s ↔ rule true .lastEmpty s := by
  have h : strictURILastEmpty = shapeLastEmpty strictC := rfl
  rw [h, matches_shapeLastEmpty strictC_dot, rule_eq_ruleC, strictC_mem_eq]

theorem strictURIEmpty_iff_rule (s : List UInt8) :
    Matches strictURIEmpty s ↔ rule true .anyEmpty s := by
  have h : strictURIEmpty = shapeAnyEmpty strictC := rfl
  rw [h, matches_shapeAnyEmpty strictC_dot, rule_eq_ruleC, strictC_mem_eq]

/-- Each entry of the table `regexFor` recognises exactly the rule of its (strict, policy). -/
theorem regexFor_iff_rule (strict : Bool) (p : Policy) (s : List UInt8) :
    Matches (regexFor strict p) s ↔ rule strict p s := by
  cases strict <;> cases p
  · exact looseURINonEmpty_iff_rule s
  · exact looseURILastEmpty_iff_rule s
  · exact looseURIEmpty_iff_rule s
  · exact strictURINonEmpty_iff_rule s
  · exact strictURILastEmpty_iff_rule s
  · exact strictURIEmpty_iff_rule s

/-- The generated `ValidURI` dispatch picks, for every `strict` and every `match` byte string,
    the pattern of the policy that `match` denotes. -/
theorem dispatch (strict : Bool) (mtch : List UInt8) :
    validURIRegex strict mtch = regexFor strict (policyOf mtch) := by
  have hne : prefixName ≠ wildcardName := by decide
  simp only [validURIRegex, policyOf, matchPrefix_eq, matchWildcard_eq]
  cases strict <;> by_cases hw : mtch = wildcardName <;> by_cases hp : mtch = prefixName <;>
    simp [hw, hp, hne, regexFor]

theorem dispatch_prefix (strict : Bool) :
    validURIRegex strict prefixName = if strict then strictURILastEmpty else looseURILastEmpty := by
  rw [dispatch]; cases strict <;> rfl

theorem dispatch_wildcard (strict : Bool) :
    validURIRegex strict wildcardName = if strict then strictURIEmpty else looseURIEmpty := by
  rw [dispatch]; cases strict <;> rfl

/-- Any match string other than "prefix" / "wildcard" means exact use. -/
theorem dispatch_other_is_exact (strict : Bool) (mtch : List UInt8)
    (hp : mtch ≠ prefixName) (hw : mtch ≠ wildcardName) :
    validURIRegex strict mtch = if strict then strictURINonEmpty else looseURINonEmpty := by
  rw [dispatch]
  simp only [policyOf, hp, hw, if_false]
  cases strict <;> rfl

-- non-vacuity: "exact", "" and "Prefix" are such match strings
example : asciiBytes ['e', 'x', 'a', 'c', 't'] ≠ prefixName ∧ asciiBytes ['e', 'x', 'a', 'c', 't'] ≠ wildcardName := by decide
example : ([] : List UInt8) ≠ prefixName ∧ ([] : List UInt8) ≠ wildcardName := by decide
example : asciiBytes ['P', 'r', 'e', 'f', 'i', 'x'] ≠ prefixName ∧ asciiBytes ['P', 'r', 'e', 'f', 'i', 'x'] ≠ wildcardName := by decide
-- the names are the ASCII strings "prefix" / "wildcard", and the Go constants are these bytes
example : "prefix".toList = ['p', 'r', 'e', 'f', 'i', 'x'] ∧ "wildcard".toList = ['w', 'i', 'l', 'd', 'c', 'a', 'r', 'd'] := by decide
example : MatchPrefix = prefixName ∧ MatchWildcard = wildcardName := by decide

/-- HEADLINE.  `URI(u).ValidURI(strict, match)` is true exactly when the dot-separated components
    of `u` satisfy the rule for the purpose `match` denotes — for every byte string `u`, every
    byte string `match`, both modes. -/
theorem validURI_iff_rule (strict : Bool) (mtch u : List UInt8) :
    validURI strict mtch u = true ↔ rule strict (policyOf mtch) u := by
  rw [validURI, matchB_iff, dispatch, regexFor_iff_rule]

/-- The rule is decidable: `ruleB` (what the driver's `rule` request runs against the real
    `ValidURI` in the correspondence family) decides it. -/
theorem ruleB_iff_rule (strict : Bool) (p : Policy) (s : List UInt8) :
    ruleB strict p s = true ↔ rule strict p s :=
  ruleB_iff strict p s

/-- The empty URI is one empty component: rejected for exact use, accepted for prefix and wildcard. -/
theorem rule_empty_uri (strict : Bool) :
    ¬ rule strict .nonEmpty [] ∧ rule strict .lastEmpty [] ∧ rule strict .anyEmpty [] := by
  refine ⟨?_, ?_, ?_⟩
  · intro h; exact h.2 [] (by simp [splitDot, splitAux]) rfl
  · constructor <;> simp [splitDot, splitAux, emptiness]
  · constructor <;> simp [splitDot, splitAux, emptiness]

theorem validURI_empty_uri (strict : Bool) (mtch : List UInt8) :
    validURI strict mtch [] = true ↔ (mtch = prefixName ∨ mtch = wildcardName) := by
  rw [validURI_iff_rule]
  have h := rule_empty_uri strict
  have hne : prefixName ≠ wildcardName := by decide
  unfold policyOf
  by_cases hw : mtch = wildcardName
  · simp [hw, h.2.2]
  · by_cases hp : mtch = prefixName
    · subst hp; simp [hne, h.2.1]
    · simp [hp, hw, h.1]

/-- "." is two empty components: only the wildcard policy accepts it. -/
theorem rule_lone_dot (strict : Bool) :
    ¬ rule strict .nonEmpty [dot] ∧ ¬ rule strict .lastEmpty [dot] ∧ rule strict .anyEmpty [dot] := by
  have hs : splitDot [dot] = [[], []] := by decide
  refine ⟨?_, ?_, ?_⟩
  · intro h; exact h.2 [] (by simp [hs]) rfl
  · intro h; exact h.2 [] (by simp [hs]) rfl
  · constructor
    · simp [hs]
    · trivial

/-- The recorded interpretation of "whitespace": RE2's ASCII class.  TAB, LF, FF, CR and SPACE are
    rejected inside a loose component; VT (0x0B), the raw byte 0xA0 and UTF-8 encoded U+00A0 /
    U+2028 are accepted. -/
theorem whitespace_is_ascii_class :
    (∀ b : UInt8, b ∈ [0x09, 0x0a, 0x0c, 0x0d, 0x20] → validURI false [] [0x61, b, 0x62] = false) ∧
    validURI false [] [0x61, 0x0b, 0x62] = true ∧
    validURI false [] [0x61, 0xa0, 0x62] = true ∧
    validURI false [] [0x61, 0xc2, 0xa0, 0x62] = true ∧
    validURI false [] [0x61, 0xe2, 0x80, 0xa8, 0x62] = true := by
  refine ⟨?_, by decide, by decide, by decide, by decide⟩
  intro b hb
  simp only [List.mem_cons, List.not_mem_nil, or_false] at hb
  rcases hb with rfl | rfl | rfl | rfl | rfl <;> decide

-- concrete instances of the headline theorem, both directions
example : rule false .nonEmpty (asciiBytes ['a', '.', 'B', '-', '1']) :=
  (validURI_iff_rule false [] _).mp (by decide)
example : ¬ rule true .nonEmpty (asciiBytes ['a', '.', 'B']) :=
  fun h => absurd ((validURI_iff_rule true [] _).mpr h) (by decide)
example : rule true .lastEmpty (asciiBytes ['a', 'b', '.']) ∧ ¬ rule true .nonEmpty (asciiBytes ['a', 'b', '.']) :=
  ⟨(validURI_iff_rule true prefixName _).mp (by decide),
   fun h => absurd ((validURI_iff_rule true [] _).mpr h) (by decide)⟩
example : rule true .anyEmpty (asciiBytes ['a', '.', '.', 'b']) ∧ ¬ rule true .lastEmpty (asciiBytes ['a', '.', '.', 'b']) :=
  ⟨(validURI_iff_rule true wildcardName _).mp (by decide),
   fun h => absurd ((validURI_iff_rule true prefixName _).mpr h) (by decide)⟩

/-! ## Matching -/

/-- A URI matches a prefix pattern iff it starts with it. -/
theorem prefixMatch_iff (u p : List UInt8) : prefixMatch u p = true ↔ ∃ t, u = p ++ t := by
  rw [prefixMatch, List.isPrefixOf_iff_prefix]
  constructor
  · rintro ⟨t, rfl⟩; exact ⟨t, rfl⟩
  · rintro ⟨t, rfl⟩; exact ⟨t, rfl⟩

/-- A URI matches a wildcard pattern iff both have the same number of components and the
    pattern equals the URI in each of its non-empty components. -/
theorem wildcardMatch_iff (u w : List UInt8) :
    wildcardMatch u w = true ↔
      (splitDot u).length = (splitDot w).length ∧
      ∀ i (hw : i < (splitDot w).length) (hu : i < (splitDot u).length),
        (splitDot w)[i] = [] ∨ (splitDot w)[i] = (splitDot u)[i] := by
  simp only [wildcardMatch]
  by_cases hlen : (splitDot u).length = (splitDot w).length
  · rw [if_neg (fun h => h hlen)]
    constructor
    · intro h; exact ⟨hlen, (wildLoop_iff _ _ hlen.symm).mp h⟩
    · rintro ⟨_, h⟩; exact (wildLoop_iff _ _ hlen.symm).mpr h
  · rw [if_pos hlen]; simp [hlen]

example : wildcardMatch (asciiBytes ['a', '.', 'b', '.', 'c']) (asciiBytes ['a', '.', '.', 'c']) = true := by decide
example : wildcardMatch (asciiBytes ['a', '.', 'b', '.', 'c']) (asciiBytes ['a', '.', '.']) = true := by decide
example : wildcardMatch (asciiBytes ['a', '.', 'b', '.', 'c']) (asciiBytes ['a', '.', 'c']) = false := by decide
example : wildcardMatch [] [] = true ∧ wildcardMatch [dot] [] = false := by decide

/-! ## Constants -/

theorem consts : MaxID = 2 ^ 53 ∧ deltaID = 500 ∧ MaxID_u64.toNat = 2 ^ 53 ∧ MaxID_i64.toInt = 2 ^ 53 ∧
    deltaID_u64.toNat = 500 := by decide

/-! ## Request ids issued within a session (`IDGen.Next`, regenerated as `idGenNext`) -/

/-- The first id a fresh generator issues is 1. -/
theorem idgen_first : idGenSeq 0 = 1 := by decide

/-- One step of `Next` from any reachable counter value `s ≤ 2^53`: `s + 1`, except that after
    `2^53` comes `1`; the stored counter equals the id returned. -/
theorem idgen_next_step (s : UInt64) (hs : s.toNat ≤ 2 ^ 53) :
    (idGenNext s).2.toNat = (if s.toNat = 2 ^ 53 then 1 else s.toNat + 1) ∧
    (idGenNext s).1 = (idGenNext s).2 := by
  obtain ⟨h, h'⟩ := idGenNext_toNat s
  refine ⟨?_, h'⟩
  rw [h]
  have : (s.toNat + 1) % 2 ^ 64 = s.toNat + 1 := Nat.mod_eq_of_lt (by omega)
  rw [this]
  split <;> split <;> omega

-- non-vacuity: the counter values 0 (fresh), 41 and 2^53 satisfy the hypothesis
example : (0 : UInt64).toNat ≤ 2 ^ 53 ∧ (41 : UInt64).toNat ≤ 2 ^ 53 ∧ MaxID_u64.toNat ≤ 2 ^ 53 := by decide
example : idGenNext 41 = (42, 42) := by decide

/-- Wrap: after `2^53` the next id is `1`. -/
theorem idgen_wrap : idGenNext MaxID_u64 = (1, 1) ∧ idGenNext (MaxID_u64 - 1) = (MaxID_u64, MaxID_u64) := by
  decide

/-- The n-th id (0-based) of a fresh generator is `n mod 2^53 + 1`. -/
theorem idgen_closed_form (n : Nat) : (idGenSeq n).toNat = n % 2 ^ 53 + 1 := by
  have hstate : ∀ n, (idGenState n).toNat = if n = 0 then 0 else (n - 1) % 2 ^ 53 + 1 := by
    intro n
    induction n with
    | zero => rfl
    | succ n ih =>
      have hle : (idGenState n).toNat ≤ 2 ^ 53 := by rw [ih]; split <;> omega
      have hstep := idgen_next_step (idGenState n) hle
      have e : idGenState (n + 1) = (idGenNext (idGenState n)).2 := hstep.2
      rw [e, hstep.1, ih, if_neg (Nat.succ_ne_zero n)]
      by_cases hn : n = 0
      · subst hn; simp
      · rw [if_neg hn]
        split <;> omega
  have hle : (idGenState n).toNat ≤ 2 ^ 53 := by rw [hstate]; split <;> omega
  have hstep := idgen_next_step (idGenState n) hle
  rw [idGenSeq, hstep.1, hstate]
  by_cases hn : n = 0
  · subst hn; simp
  · rw [if_neg hn]
    split <;> omega

/-- Every id issued lies in `[1, 2^53]`. -/
theorem idgen_range (n : Nat) : 1 ≤ (idGenSeq n).toNat ∧ (idGenSeq n).toNat ≤ 2 ^ 53 := by
  rw [idgen_closed_form]; omega

/-- Ids increase by 1 and wrap from `2^53` to `1`. -/
theorem idgen_succ (n : Nat) :
    (idGenSeq (n + 1)).toNat = if (idGenSeq n).toNat = 2 ^ 53 then 1 else (idGenSeq n).toNat + 1 := by
  rw [idgen_closed_form, idgen_closed_form]
  split <;> omega

/-! ## Router-wide random ids (`GlobalID`, regenerated as `globalID` over the drawn value) -/

theorem globalid_bound_is_maxID : globalIDRandBound = MaxID ∧ MaxID = 2 ^ 53 := by decide

/-- For every value `r ∈ [0, MaxID)` the random source can return, `GlobalID` is `r + 1 ∈ [1, 2^53]`. -/
theorem globalid_range (r : Int64) (h0 : 0 ≤ r.toInt) (h1 : r.toInt < globalIDRandBound) :
    ((globalID r).toNat : Int) = r.toInt + 1 ∧ 1 ≤ (globalID r).toNat ∧ (globalID r).toNat ≤ 2 ^ 53 := by
  have hb : (globalIDRandBound : Int) = 2 ^ 53 := by decide
  rw [hb] at h1
  have hc := toNat_toUInt64 r
  rw [if_pos h0] at hc
  have h1' : (1 : UInt64).toNat = 1 := rfl
  have : (globalID r).toNat = r.toUInt64.toNat + 1 := by
    simp only [globalID, UInt64.toNat_add, h1']
    exact Nat.mod_eq_of_lt (by omega)
  omega

-- non-vacuity: the extreme draws 0 and MaxID-1
example : (0 : Int64).toInt = 0 ∧ globalID 0 = 1 := by decide
example : (9007199254740991 : Int64).toInt < globalIDRandBound ∧ globalID 9007199254740991 = MaxID_u64 := by decide

/-! ## Ids read from messages (`AsID`: regenerated range test after the `AsInt64` type switch) -/

/-- The hand-written `Nexus.Ids.asInt64` (one constructor of `GoNum` per case, each converted by
    Go's `int64(v)`) covers exactly the cases of the type switch of `AsInt64` as it is in the source:
    this pins the regenerated table; a new, removed or altered case breaks the proof. -/
theorem asInt64_switch_modelled :
    asInt64Cases =
      [("int64", "v"), ("ID", "int64(v)"), ("uint64", "int64(v)"), ("int", "int64(v)"),
       ("int32", "int64(v)"), ("uint", "int64(v)"), ("uint32", "int64(v)"),
       ("float64", "int64(v)"), ("float32", "int64(v)")] := by decide

/-- For every int64 value: accepted iff `1 ≤ v ≤ 2^53`, and the id is `v`. -/
theorem asid_int64_iff (v : Int64) (id : UInt64) :
    asID (.int64 v) = some id ↔ (1 ≤ v.toInt ∧ v.toInt ≤ 2 ^ 53) ∧ (id.toNat : Int) = v.toInt :=
  asIDOfInt64_iff v id

/-- For every uint64 value (wamp.ID, uint64, uint): accepted iff `1 ≤ u ≤ 2^53`, id `= u`. -/
theorem asid_uint64_iff (u id : UInt64) :
    asID (.uint64 u) = some id ↔ (1 ≤ u.toNat ∧ u.toNat ≤ 2 ^ 53) ∧ id = u := by
  rw [asID, asInt64, asIDOfInt64_iff, toInt_toInt64, ← UInt64.toNat_inj]
  have := u64_toNat_lt u
  split <;> omega

/-- The uint64 → int64 conversion wraps: values ≥ 2^63 become negative and are rejected. -/
theorem asid_uint64_wrap_rejected (u : UInt64) (h : 2 ^ 63 ≤ u.toNat) :
    (u.toInt64).toInt < 0 ∧ asID (.uint64 u) = none ∧ asID (.id u) = none ∧ asID (.uint u) = none := by
  have hneg : (u.toInt64).toInt < 0 := by
    rw [toInt_toInt64]; have := u64_toNat_lt u; split <;> omega
  have hnone : asIDOfInt64 u.toInt64 = none := (asIDOfInt64_none_iff _).mpr (by omega)
  exact ⟨hneg, hnone, hnone, hnone⟩

-- non-vacuity: 2^63 and 2^64-1
example : 2 ^ 63 ≤ (9223372036854775808 : UInt64).toNat ∧ 2 ^ 63 ≤ (18446744073709551615 : UInt64).toNat := by decide

/-- ALL representations `AsInt64` knows (int64, ID, uint64, int, int32, uint, uint32, float64,
    float32 — every bit pattern): accepted iff the mathematical value the Go value denotes
    (floats: truncated toward zero; NaN/±Inf: none) lies in `[1, 2^53]`, and the id is that value. -/
theorem asid_iff_value (n : GoNum) (id : UInt64) :
    asID n = some id ↔ ∃ v, n.value = some v ∧ 1 ≤ v ∧ v ≤ 2 ^ 53 ∧ (id.toNat : Int) = v := by
  have hu : ∀ u : UInt64, asIDOfInt64 u.toInt64 = some id ↔
      ∃ v, some (u.toNat : Int) = some v ∧ 1 ≤ v ∧ v ≤ 2 ^ 53 ∧ (id.toNat : Int) = v := by
    intro u
    rw [asIDOfInt64_iff, toInt_toInt64]
    have := u64_toNat_lt u
    constructor
    · intro h; exact ⟨u.toNat, rfl, by split at h <;> omega⟩
    · rintro ⟨v, hv, h⟩
      cases hv
      split <;> omega
  have hf : ∀ t : Option Int, asIDOfInt64 (truncToInt64 t) = some id ↔
      ∃ v, t = some v ∧ 1 ≤ v ∧ v ≤ 2 ^ 53 ∧ (id.toNat : Int) = v := by
    intro t
    rw [asIDOfInt64_iff, truncToInt64_toInt]
    cases t with
    | none => simp
    | some t =>
      simp only [Option.some.injEq, exists_eq_left']
      split <;> omega
  cases n with
  | int64 v =>
    simp only [asID, asInt64, GoNum.value, asIDOfInt64_iff, Option.some.injEq, exists_eq_left']
    omega
  | id u => exact hu u
  | uint64 u => exact hu u
  | int v =>
    simp only [asID, asInt64, GoNum.value, asIDOfInt64_iff, Option.some.injEq, exists_eq_left']
    omega
  | int32 v =>
    simp only [asID, asInt64, GoNum.value, asIDOfInt64_iff, Int32.toInt_toInt64, Option.some.injEq,
      exists_eq_left']
    omega
  | uint u => exact hu u
  | uint32 u =>
    have := hu u.toUInt64
    rw [UInt32.toNat_toUInt64] at this
    exact this
  | float64 b => exact hf (f64Trunc b)
  | float32 b => exact hf (f32Trunc b)

/-- Acceptance alone, for all representations. -/
theorem asid_accepts_iff (n : GoNum) :
    (asID n).isSome = true ↔ ∃ v, n.value = some v ∧ 1 ≤ v ∧ v ≤ 2 ^ 53 := by
  constructor
  · intro h
    obtain ⟨id, hid⟩ := Option.isSome_iff_exists.mp h
    obtain ⟨v, hv, h1, h2, _⟩ := (asid_iff_value n id).mp hid
    exact ⟨v, hv, h1, h2⟩
  · rintro ⟨v, hv, h1, h2⟩
    have hlt : v.toNat < 2 ^ 64 := by omega
    have : asID n = some (UInt64.ofNat v.toNat) :=
      (asid_iff_value n _).mpr ⟨v, hv, h1, h2, by
        rw [UInt64.toNat_ofNat', Nat.mod_eq_of_lt hlt]; omega⟩
    rw [this]; rfl

-- concrete: 2^53 accepted, 2^53+1 and 0 and -1 rejected, float64 2^53 accepted, 1.5 ↦ 1, NaN rejected
example : asID (.int64 9007199254740992) = some 9007199254740992 ∧ asID (.int64 9007199254740993) = none ∧
    asID (.int64 0) = none ∧ asID (.int64 (-1)) = none ∧ asID (.uint64 18446744073709551615) = none := by decide
example : asID (.float64 0x4340000000000000) = some 9007199254740992 ∧ asID (.float64 0x3ff8000000000000) = some 1 ∧
    asID (.float64 0x7ff8000000000000) = none ∧ asID (.float64 0x4340000000000001) = none := by decide

/-! ## Received request ids (`Session.IsNewRecvID` / `UpdateLastRecvIDLocked`, regenerated) -/

/-- `UpdateLastRecvID`: answers `IsNewRecvID`, and stores the id iff it is new. -/
theorem update_spec (last id : UInt64) :
    updateLastRecvID last id = (if isNewRecvID last id then id else last, isNewRecvID last id) :=
  updateLastRecvID_eq last id

/-- new ⇔ valid ∧ (no previous id ∨ greater ∨ (smaller ∧ MaxID − (last − id) < deltaID)),
    for every `id` and every stored `last ≤ 2^53` (which is every reachable one: `recv_last_invariant`). -/
theorem isnew_iff (last id : UInt64) (hlast : last.toNat ≤ MaxID) :
    isNewRecvID last id = true ↔
      (1 ≤ id.toNat ∧ id.toNat ≤ MaxID) ∧
      (last.toNat = 0 ∨ id.toNat > last.toNat ∨
        (id.toNat < last.toNat ∧ MaxID - (last.toNat - id.toNat) < deltaID)) := by
  rw [maxID_eq] at hlast ⊢
  rw [deltaID_eq]
  exact isNewRecvID_iff last id hlast

-- non-vacuity: last = 2^53 satisfies the hypothesis, and the window case is inhabited
example : MaxID_u64.toNat ≤ MaxID ∧ isNewRecvID MaxID_u64 3 = true ∧ isNewRecvID MaxID_u64 500 = false := by decide

/-- Number of `Next` steps from `last` forward to `id` when `id < last`, going over the wrap
    `2^53 → 1`: `(2^53 − last) + id`. -/
def wrapDistance (last id : Nat) : Nat := (2 ^ 53 - last) + id

/-- The same in the property's words: a received id is new exactly when it is a valid id and
    (nothing was received before, or) it is larger than the last one, or it lies within the
    allowed wrap-around window, i.e. fewer than `deltaID = 500` steps ahead of the last one
    across the wrap. -/
theorem isnew_in_words (last id : UInt64) (hlast : last.toNat ≤ 2 ^ 53) :
    isNewRecvID last id = true ↔
      (1 ≤ id.toNat ∧ id.toNat ≤ 2 ^ 53) ∧
      (last.toNat = 0 ∨ id.toNat > last.toNat ∨
        (id.toNat < last.toNat ∧ wrapDistance last.toNat id.toNat < 500)) := by
  rw [isNewRecvID_iff last id hlast]
  unfold wrapDistance
  constructor <;> rintro ⟨hv, h⟩ <;> refine ⟨hv, ?_⟩ <;> omega

/-- `wrapDistance` really is the wrap-around distance: issuing `wrapDistance last id` further ids
    after `last` (with the generator's own wrap `2^53 → 1`) arrives exactly at `id`. -/
theorem wrapDistance_is_next_steps (last id : UInt64)
    (hid : 1 ≤ id.toNat) (hlt : id.toNat < last.toNat) (hlast : last.toNat ≤ 2 ^ 53) :
    nextIter (wrapDistance last.toNat id.toNat) last = id := by
  have iter : ∀ k (s : UInt64), 1 ≤ s.toNat → s.toNat ≤ 2 ^ 53 →
      (nextIter k s).toNat = (s.toNat - 1 + k) % 2 ^ 53 + 1 := by
    intro k
    induction k with
    | zero => intro s h1 h2; simp only [nextIter]; omega
    | succ k ih =>
      intro s h1 h2
      have hstep := idgen_next_step s h2
      have e : (idGenNext s).1.toNat = if s.toNat = 2 ^ 53 then 1 else s.toNat + 1 := by
        rw [hstep.2, hstep.1]
      have hr : 1 ≤ (idGenNext s).1.toNat ∧ (idGenNext s).1.toNat ≤ 2 ^ 53 := by
        rw [e]; split <;> omega
      simp only [nextIter]
      rw [ih _ hr.1 hr.2, e]
      split <;> omega
  apply UInt64.toNat_inj.mp
  rw [iter _ last (by omega) hlast]
  unfold wrapDistance
  omega

-- non-vacuity: last = 2^53 - 2, id = 3: 5 steps (2^53-1, 2^53, 1, 2, 3)
example : wrapDistance 9007199254740990 3 = 5 ∧ nextIter 5 9007199254740990 = 3 := by decide

example : (9007199254740900 : UInt64).toNat ≤ 2 ^ 53 ∧ wrapDistance 9007199254740900 7 = 99 ∧
    isNewRecvID 9007199254740900 7 = true := by decide

/-- Invariant: whatever ids are received, the stored `lastRecvID` stays `≤ 2^53`
    (it is 0 or an accepted, hence valid, id). -/
theorem recv_last_invariant (ids : List UInt64) (last : UInt64) (hlast : last.toNat ≤ 2 ^ 53) :
    (recvRun last ids).2.toNat ≤ 2 ^ 53 := by
  induction ids generalizing last with
  | nil => exact hlast
  | cons id ids ih =>
    simp only [recvRun]
    apply ih
    rw [updateLastRecvID_eq]
    by_cases h : isNewRecvID last id = true
    · simp only [h, if_true]
      exact ((isNewRecvID_iff last id hlast).mp h).1.2
    · simp only [h]; exact hlast

example : ((0 : UInt64).toNat ≤ 2 ^ 53) := by decide

/-- FULL STRENGTH over reachable states: after ANY history of received ids on a fresh session,
    the next id is new ⇔ valid ∧ (no previous ∨ larger ∨ within the wrap-around window). -/
theorem isnew_reachable (history : List UInt64) (id : UInt64) :
    let last := (recvRun 0 history).2
    isNewRecvID last id = true ↔
      (1 ≤ id.toNat ∧ id.toNat ≤ 2 ^ 53) ∧
      (last.toNat = 0 ∨ id.toNat > last.toNat ∨
        (id.toNat < last.toNat ∧ wrapDistance last.toNat id.toNat < 500)) :=
  isnew_in_words _ id (recv_last_invariant history 0 (by decide))

/-- The formula of `isnew_iff` claimed for ALL 64-bit values of the stored `lastRecvID`, reachable
    or not.  (Stronger than the property, which speaks about sessions; kept to document exactly
    how far the arithmetic goes.) -/
def isnew_arbitrary_last_full : Prop :=
  ∀ last id : UInt64,
    isNewRecvID last id = true ↔
      (1 ≤ id.toNat ∧ id.toNat ≤ MaxID) ∧
      (last.toNat = 0 ∨ id.toNat > last.toNat ∨
        (id.toNat < last.toNat ∧ MaxID - (last.toNat - id.toNat) < deltaID))

/-- … is FALSE: for the unreachable stored value `2^64 − 1` the uint64 subtraction
    `MaxID − (last − id)` wraps around and the code answers "not new" where the formula over the
    natural numbers says "new".  No session can get there (`recv_last_invariant`), so this is not a
    defect of the implementation; `isnew_iff` is the part that holds (hypothesis `last ≤ MaxID`) and
    `isnew_reachable` is the property at full strength. -/
theorem isnew_arbitrary_last_full_fails : ¬ isnew_arbitrary_last_full := by
  intro h
  have h1 := (h 18446744073709551615 1).mpr (by decide)
  have h2 : isNewRecvID 18446744073709551615 1 = false := by decide
  rw [h2] at h1
  cases h1

end Nexus.C19
