/-
  C19 — URI validation/matching and id generation follow the WAMP rules.

  Property text.  "A URI is accepted for a purpose exactly when its dot-separated components
  satisfy the rule for that purpose (loose: no whitespace, '.' or '#' inside a component;
  strict: only [0-9a-z_]; all components non-empty for exact use, last may be empty for prefix,
  any may be empty for wildcard); a topic or procedure matches a prefix pattern iff it starts
  with it, and a wildcard pattern iff it has the same number of components and equals it in
  every non-empty one.  Request ids issued within a session start at 1, increase by 1 and wrap
  from 2^53 to 1, router-wide random ids lie in [1, 2^53], ids read from messages are accepted
  only within that range, and a received request id counts as new exactly when it is larger
  than the last one or lies within the allowed wrap-around window."

  All theorems are for ALL byte strings / ALL 64-bit values, and are stated over the definitions
  REGENERATED from the Go source by `gen uri` / `gen ids` (namespace `Nexus.Gen`):
  the six regex ASTs, the `ValidURI` dispatch, `MatchPrefix`/`MatchWildcard`, `MaxID`, `deltaID`,
  `idGenNext`, `isNewRecvID`, `updateLastRecvID`, `asIDInRange`/`asIDOfInt64`, `globalID`.

  clause                                                   theorem
  -------------------------------------------------------  ------------------------------------------
  loose / exact       `^([^\s\.#]+\.)*([^\s\.#]+)$`        looseURINonEmpty_iff_rule
  loose / prefix      `^([^\s\.#]+\.)*([^\s\.#]*)$`        looseURILastEmpty_iff_rule
  loose / wildcard    `^(([^\s\.#]+\.)|\.)*([^\s\.#]+)?$`  looseURIEmpty_iff_rule
  strict / exact      `^([0-9a-z_]+\.)*([0-9a-z_]+)$`      strictURINonEmpty_iff_rule
  strict / prefix     `^([0-9a-z_]+\.)*([0-9a-z_]*)$`      strictURILastEmpty_iff_rule
  strict / wildcard   `^(([0-9a-z_]+\.)|\.)*([0-9a-z_]+)?$` strictURIEmpty_iff_rule
  ValidURI picks the right pattern for (strict, match)     dispatch, dispatch_prefix, dispatch_wildcard,
                                                           dispatch_other_is_exact
  "accepted exactly when the components satisfy the rule"  validURI_iff_rule           (headline)
  the executable matcher decides regex membership          matcher_correct
  the executable rule (driver request `rule`) decides it   ruleB_iff_rule
  edge cases of the rule (empty URI, lone dot)             rule_empty_uri, validURI_empty_uri, rule_lone_dot
  "whitespace" is RE2's ASCII \s (VT, NBSP are accepted)   whitespace_is_ascii_class
  prefix pattern: "iff it starts with it"                  prefixMatch_iff
  wildcard pattern: same #components ∧ equal at non-empty  wildcardMatch_iff
  request ids start at 1                                   idgen_first
  … increase by 1 and wrap from 2^53 to 1                  idgen_succ, idgen_next_step, idgen_wrap
  … always within [1, 2^53]                                idgen_range, idgen_closed_form
  random ids lie in [1, 2^53] for every draw               globalid_range, globalid_bound_is_maxID
  ids read from messages accepted only within the range    asid_int64_iff, asid_uint64_iff, asid_uint64_wrap_rejected,
                                                           asid_iff_value, asid_accepts_iff (all 9 Go representations),
                                                           asInt64_switch_modelled (the 9 cases are the source's)
  received id is new ⇔ valid ∧ (first ∨ larger ∨ window)   isnew_reachable (full strength: after ANY history),
                                                           isnew_iff, isnew_in_words (for every last ≤ 2^53),
                                                           recv_last_invariant, update_spec, wrapDistance_is_next_steps,
                                                           isnew_arbitrary_last_full_fails (last > 2^53 is
                                                           unreachable and the formula does not extend to it)
  the constants                                            consts

  WpD additions (audit D, section C19)
  closed form of k `Next` calls; nextIter = the generator  nextIter_closed, nextIter_fresh, idgen_is_nextIter,
                                                           nextIter_closed_full_fails (s = 0, k = 0 boundary)
  which step counts lead from last to id; the least one    nextIter_eq_iff, stepsTo_is_least, wrapDistance_is_least_steps
  window = "issued within < 500 further `Next` calls"      isnew_iff_steps, isnew_iff_least_steps,
                                                           isnew_reachable_steps (after ANY history)
  generator/receiver compatibility                         next_ids_are_new, recv_accepts_generated, recv_accepts_idgen,
                                                           next_ids_are_new_500_full_fails (the bound is tight)
  replay of the id just presented                          isnew_self, same_id_not_new_twice, accepted_not_new_again,
                                                           older_id_new_iff, accepted_id_stays_old_full_fails (observation)
  float→int64 implementation-defined cases, any platform   asid_float_oor_rejected, asid_float_oor_rejected_on,
                                                           asid_known_platforms_benign, asid_iff_value_on,
                                                           asid_every_platform_full_fails (hypothetical platform)
  dynamic types outside the nine                           asid_other_rejected, asid_any_iff
  String-level L2 functions = these byte-level functions   matchKind_policy, validUri_eq, validUri_iff_rule, prefixMatch_eq,
    (in Nexus/L2/Proofs/WpDUriBridge.lean, namespace       wildcardMatch_eq, prefixMatch_string_iff, wildcardMatch_string_iff
     Nexus.C19; that file imports this one)

  EDGE CASES of the URI rule (they are what the regexes do; the iff is exact):
  * the components are `strings.Split(uri, ".")`: the EMPTY URI is ONE EMPTY component.  Hence ""
    is rejected for exact use, but ACCEPTED for prefix use (its only component is the last one) and
    for wildcard use, in loose and strict mode alike (`rule_empty_uri`, `validURI_empty_uri`);
  * "." is two empty components: rejected for exact and prefix, accepted for wildcard (`rule_lone_dot`);
  * any `match` value other than the exact byte strings "prefix" / "wildcard" (e.g. "exact", "",
    "Prefix", garbage) means exact use (`dispatch_other_is_exact`);
  * "whitespace" is the class `\s` of Go's RE2 = {TAB, LF, FF, CR, SPACE}; VT (0x0B) and the
    Unicode spaces (U+0085, U+00A0, U+2028 …) are NOT whitespace for the loose rule and are accepted
    inside components (`whitespace_is_ascii_class`).  This is the recorded interpretation.

  TRUSTED BASE specific to this file
  * Go's `regexp` implements regular-language membership for the six anchored patterns (`^…$`
    without flags is begin/end of text), and `\s` is the ASCII class above.
  * Byte-level modelling is exact for Go's rune-level engine here: every character the six patterns
    mention is ASCII; `gen uri` refuses non-ASCII patterns.  A multi-byte UTF-8 rune consists of
    bytes ≥ 0x80 only, an invalid byte decodes to U+FFFD (width 1); such a rune is accepted by the
    negated loose class and rejected by the strict class, and so is each of its bytes in the byte
    model; the classes occur only under `+`/`*`, so rune boundaries do not matter.
  * `strings.Split(s, ".")` = `splitDot`, `strings.HasPrefix` = `List.isPrefixOf` (gen checks that
    PrefixMatch is exactly that call); the hand-written `wildcardMatch` mirrors the Go loop and is
    tied by the `uriid` correspondence family and a source hash.
  * `secureInt63n(n)` returns a value in `[0, n)` (its documentation; crypto/rand.Int).
  * Go's float→int64 conversion truncates toward zero when the result fits; out of range it is
    implementation-defined (the model takes amd64's 0x8000000000000000).  "Every platform's choice
    is rejected" is the theorem `asid_iff_value_on` under the explicit side condition
    `FloatConv.Benign` (the platform's answers lie outside [1, 2^53]); amd64, arm64 and every
    platform answering 0 / MinInt64 / MaxInt64 satisfy it (`asid_known_platforms_benign`); without the
    side condition the sentence is false (`asid_every_platform_full_fails`).
-/
import Nexus.Uri.Lemmas
import Nexus.Ids.Lemmas
import Nexus.Ids.WpDSteps
import Nexus.Ids.WpDAsID

namespace Nexus.C19
open Nexus.Uri Nexus.Uri.Regex Nexus.Ids Nexus.Gen

/-! ## URI validation -/

/-- The executable matcher used by the model driver decides regex membership. -/
theorem matcher_correct (r : Regex) (s : List UInt8) : matchB r s = true ↔ Matches r s :=
  matchB_iff

theorem looseURINonEmpty_iff_rule (s : List UInt8) :
    Matches looseURINonEmpty s ↔ rule false .nonEmpty s := by
  have h : looseURINonEmpty = shapeNonEmpty looseC := rfl
  rw [h, matches_shapeNonEmpty looseC_dot, rule_eq_ruleC, looseC_mem_eq]

theorem looseURILastEmpty_iff_rule (s : List UInt8) :
    Matches looseURILastEmpty s ↔ rule false .lastEmpty s := by
  have h : looseURILastEmpty = shapeLastEmpty looseC := rfl
  rw [h, matches_shapeLastEmpty looseC_dot, rule_eq_ruleC, looseC_mem_eq]

theorem looseURIEmpty_iff_rule (s : List UInt8) :
    Matches looseURIEmpty s ↔ rule false .anyEmpty s := by
  have h : looseURIEmpty = shapeAnyEmpty looseC := rfl
  rw [h, matches_shapeAnyEmpty looseC_dot, rule_eq_ruleC, looseC_mem_eq]

theorem strictURINonEmpty_iff_rule (s : List UInt8) :
    Matches strictURINonEmpty s ↔ rule true .nonEmpty s := by
  have h : strictURINonEmpty = shapeNonEmpty strictC := rfl
  rw [h, matches_shapeNonEmpty strictC_dot, rule_eq_ruleC, strictC_mem_eq]

theorem strictURILastEmpty_iff_rule (s : List UInt8) :
    Matches strictURILastEmpty s ↔ rule true .lastEmpty s := by
  have h : strictURILastEmpty = shapeLastEmpty strictC := rfl
  rw [h, matches_shapeLastEmpty strictC_dot, rule_eq_ruleC, strictC_mem_eq]

theorem strictURIEmpty_iff_rule (s : List UInt8) :
    Matches strictURIEmpty s ↔ rule true .anyEmpty s := by
  have h : strictURIEmpty = shapeAnyEmpty strictC := rfl
  rw [h, matches_shapeAnyEmpty strictC_dot, rule_eq_ruleC, strictC_mem_eq]

/-- Each entry of the table `regexFor` recognises exactly the rule of its (strict, policy). -/
theorem regexFor_iff_rule (strict : Bool) (p : Policy) (s : List UInt8) :
    Matches (regexFor strict p) s ↔ rule strict p s := by
  cases strict <;> cases p
  · exact looseURINonEmpty_iff_rule s
  · exact looseURILastEmpty_iff_rule s
  · exact looseURIEmpty_iff_rule s
  · exact strictURINonEmpty_iff_rule s
  · exact strictURILastEmpty_iff_rule s
  · exact strictURIEmpty_iff_rule s

/-- The generated `ValidURI` dispatch picks, for every `strict` and every `match` byte string,
    the pattern of the policy that `match` denotes. -/
theorem dispatch (strict : Bool) (mtch : List UInt8) :
    validURIRegex strict mtch = regexFor strict (policyOf mtch) := by
  have hne : prefixName ≠ wildcardName := by decide
  simp only [validURIRegex, policyOf, matchPrefix_eq, matchWildcard_eq]
  cases strict <;> by_cases hw : mtch = wildcardName <;> by_cases hp : mtch = prefixName <;>
    simp [hw, hp, hne, regexFor]

theorem dispatch_prefix (strict : Bool) :
    validURIRegex strict prefixName = if strict then strictURILastEmpty else looseURILastEmpty := by
  rw [dispatch]; cases strict <;> rfl

theorem dispatch_wildcard (strict : Bool) :
    validURIRegex strict wildcardName = if strict then strictURIEmpty else looseURIEmpty := by
  rw [dispatch]; cases strict <;> rfl

/-- Any match string other than "prefix" / "wildcard" means exact use. -/
theorem dispatch_other_is_exact (strict : Bool) (mtch : List UInt8)
    (hp : mtch ≠ prefixName) (hw : mtch ≠ wildcardName) :
    validURIRegex strict mtch = if strict then strictURINonEmpty else looseURINonEmpty := by
  rw [dispatch]
  simp only [policyOf, hp, hw, if_false]
  cases strict <;> rfl

-- non-vacuity: "exact", "" and "Prefix" are such match strings
example : asciiBytes ['e', 'x', 'a', 'c', 't'] ≠ prefixName ∧ asciiBytes ['e', 'x', 'a', 'c', 't'] ≠ wildcardName := by decide
example : ([] : List UInt8) ≠ prefixName ∧ ([] : List UInt8) ≠ wildcardName := by decide
example : asciiBytes ['P', 'r', 'e', 'f', 'i', 'x'] ≠ prefixName ∧ asciiBytes ['P', 'r', 'e', 'f', 'i', 'x'] ≠ wildcardName := by decide
-- the names are the ASCII strings "prefix" / "wildcard", and the Go constants are these bytes
example : "prefix".toList = ['p', 'r', 'e', 'f', 'i', 'x'] ∧ "wildcard".toList = ['w', 'i', 'l', 'd', 'c', 'a', 'r', 'd'] := by decide
example : MatchPrefix = prefixName ∧ MatchWildcard = wildcardName := by decide

/-- HEADLINE.  `URI(u).ValidURI(strict, match)` is true exactly when the dot-separated components
    of `u` satisfy the rule for the purpose `match` denotes — for every byte string `u`, every
    byte string `match`, both modes. -/
theorem validURI_iff_rule (strict : Bool) (mtch u : List UInt8) :
    validURI strict mtch u = true ↔ rule strict (policyOf mtch) u := by
  rw [validURI, matchB_iff, dispatch, regexFor_iff_rule]

/-- The rule is decidable: `ruleB` (what the driver's `rule` request runs against the real
    `ValidURI` in the correspondence family) decides it. -/
theorem ruleB_iff_rule (strict : Bool) (p : Policy) (s : List UInt8) :
    ruleB strict p s = true ↔ rule strict p s :=
  ruleB_iff strict p s

/-- The empty URI is one empty component: rejected for exact use, accepted for prefix and wildcard. -/
theorem rule_empty_uri (strict : Bool) :
    ¬ rule strict .nonEmpty [] ∧ rule strict .lastEmpty [] ∧ rule strict .anyEmpty [] := by
  refine ⟨?_, ?_, ?_⟩
  · intro h; exact h.2 [] (by simp [splitDot, splitAux]) rfl
  · constructor <;> simp [splitDot, splitAux, emptiness]
  · constructor <;> simp [splitDot, splitAux, emptiness]

theorem validURI_empty_uri (strict : Bool) (mtch : List UInt8) :
    validURI strict mtch [] = true ↔ (mtch = prefixName ∨ mtch = wildcardName) := by
  rw [validURI_iff_rule]
  have h := rule_empty_uri strict
  have hne : prefixName ≠ wildcardName := by decide
  unfold policyOf
  by_cases hw : mtch = wildcardName
  · simp [hw, h.2.2]
  · by_cases hp : mtch = prefixName
    · subst hp; simp [hne, h.2.1]
    · simp [hp, hw, h.1]

/-- "." is two empty components: only the wildcard policy accepts it. -/
theorem rule_lone_dot (strict : Bool) :
    ¬ rule strict .nonEmpty [dot] ∧ ¬ rule strict .lastEmpty [dot] ∧ rule strict .anyEmpty [dot] := by
  have hs : splitDot [dot] = [[], []] := by decide
  refine ⟨?_, ?_, ?_⟩
  · intro h; exact h.2 [] (by simp [hs]) rfl
  · intro h; exact h.2 [] (by simp [hs]) rfl
  · constructor
    · simp [hs]
    · trivial

/-- The recorded interpretation of "whitespace": RE2's ASCII class.  TAB, LF, FF, CR and SPACE are
    rejected inside a loose component; VT (0x0B), the raw byte 0xA0 and UTF-8 encoded U+00A0 /
    U+2028 are accepted. -/
theorem whitespace_is_ascii_class :
    (∀ b : UInt8, b ∈ [0x09, 0x0a, 0x0c, 0x0d, 0x20] → validURI false [] [0x61, b, 0x62] = false) ∧
    validURI false [] [0x61, 0x0b, 0x62] = true ∧
    validURI false [] [0x61, 0xa0, 0x62] = true ∧
    validURI false [] [0x61, 0xc2, 0xa0, 0x62] = true ∧
    validURI false [] [0x61, 0xe2, 0x80, 0xa8, 0x62] = true := by
  refine ⟨?_, by decide, by decide, by decide, by decide⟩
  intro b hb
  simp only [List.mem_cons, List.not_mem_nil, or_false] at hb
  rcases hb with rfl | rfl | rfl | rfl | rfl <;> decide

-- concrete instances of the headline theorem, both directions
example : rule false .nonEmpty (asciiBytes ['a', '.', 'B', '-', '1']) :=
  (validURI_iff_rule false [] _).mp (by decide)
example : ¬ rule true .nonEmpty (asciiBytes ['a', '.', 'B']) :=
  fun h => absurd ((validURI_iff_rule true [] _).mpr h) (by decide)
example : rule true .lastEmpty (asciiBytes ['a', 'b', '.']) ∧ ¬ rule true .nonEmpty (asciiBytes ['a', 'b', '.']) :=
  ⟨(validURI_iff_rule true prefixName _).mp (by decide),
   fun h => absurd ((validURI_iff_rule true [] _).mpr h) (by decide)⟩
example : rule true .anyEmpty (asciiBytes ['a', '.', '.', 'b']) ∧ ¬ rule true .lastEmpty (asciiBytes ['a', '.', '.', 'b']) :=
  ⟨(validURI_iff_rule true wildcardName _).mp (by decide),
   fun h => absurd ((validURI_iff_rule true prefixName _).mpr h) (by decide)⟩

/-! ## Matching -/

/-- A URI matches a prefix pattern iff it starts with it. -/
theorem prefixMatch_iff (u p : List UInt8) : prefixMatch u p = true ↔ ∃ t, u = p ++ t := by
  rw [prefixMatch, List.isPrefixOf_iff_prefix]
  constructor
  · rintro ⟨t, rfl⟩; exact ⟨t, rfl⟩
  · rintro ⟨t, rfl⟩; exact ⟨t, rfl⟩

/-- A URI matches a wildcard pattern iff both have the same number of components and the
    pattern equals the URI in each of its non-empty components. -/
theorem wildcardMatch_iff (u w : List UInt8) :
    wildcardMatch u w = true ↔
      (splitDot u).length = (splitDot w).length ∧
      ∀ i (hw : i < (splitDot w).length) (hu : i < (splitDot u).length),
        (splitDot w)[i] = [] ∨ (splitDot w)[i] = (splitDot u)[i] := by
  simp only [wildcardMatch]
  by_cases hlen : (splitDot u).length = (splitDot w).length
  · rw [if_neg (fun h => h hlen)]
    constructor
    · intro h; exact ⟨hlen, (wildLoop_iff _ _ hlen.symm).mp h⟩
    · rintro ⟨_, h⟩; exact (wildLoop_iff _ _ hlen.symm).mpr h
  · rw [if_pos hlen]; simp [hlen]

example : wildcardMatch (asciiBytes ['a', '.', 'b', '.', 'c']) (asciiBytes ['a', '.', '.', 'c']) = true := by decide
example : wildcardMatch (asciiBytes ['a', '.', 'b', '.', 'c']) (asciiBytes ['a', '.', '.']) = true := by decide
example : wildcardMatch (asciiBytes ['a', '.', 'b', '.', 'c']) (asciiBytes ['a', '.', 'c']) = false := by decide
example : wildcardMatch [] [] = true ∧ wildcardMatch [dot] [] = false := by decide

/-! ## Constants -/

theorem consts : MaxID = 2 ^ 53 ∧ deltaID = 500 ∧ MaxID_u64.toNat = 2 ^ 53 ∧ MaxID_i64.toInt = 2 ^ 53 ∧
    deltaID_u64.toNat = 500 := by decide

/-! ## Request ids issued within a session (`IDGen.Next`, regenerated as `idGenNext`) -/

/-- The first id a fresh generator issues is 1. -/
theorem idgen_first : idGenSeq 0 = 1 := by decide

/-- One step of `Next` from any reachable counter value `s ≤ 2^53`: `s + 1`, except that after
    `2^53` comes `1`; the stored counter equals the id returned. -/
theorem idgen_next_step (s : UInt64) (hs : s.toNat ≤ 2 ^ 53) :
    (idGenNext s).2.toNat = (if s.toNat = 2 ^ 53 then 1 else s.toNat + 1) ∧
    (idGenNext s).1 = (idGenNext s).2 := by
  obtain ⟨h, h'⟩ := idGenNext_toNat s
  refine ⟨?_, h'⟩
  rw [h]
  have : (s.toNat + 1) % 2 ^ 64 = s.toNat + 1 := Nat.mod_eq_of_lt (by omega)
  rw [this]
  split <;> split <;> omega

-- non-vacuity: the counter values 0 (fresh), 41 and 2^53 satisfy the hypothesis
example : (0 : UInt64).toNat ≤ 2 ^ 53 ∧ (41 : UInt64).toNat ≤ 2 ^ 53 ∧ MaxID_u64.toNat ≤ 2 ^ 53 := by decide
example : idGenNext 41 = (42, 42) := by decide

/-- Wrap: after `2^53` the next id is `1`. -/
theorem idgen_wrap : idGenNext MaxID_u64 = (1, 1) ∧ idGenNext (MaxID_u64 - 1) = (MaxID_u64, MaxID_u64) := by
  decide

/-- The n-th id (0-based) of a fresh generator is `n mod 2^53 + 1`. -/
theorem idgen_closed_form (n : Nat) : (idGenSeq n).toNat = n % 2 ^ 53 + 1 := by
  have hstate : ∀ n, (idGenState n).toNat = if n = 0 then 0 else (n - 1) % 2 ^ 53 + 1 := by
    intro n
    induction n with
    | zero => rfl
    | succ n ih =>
      have hle : (idGenState n).toNat ≤ 2 ^ 53 := by rw [ih]; split <;> omega
      have hstep := idgen_next_step (idGenState n) hle
      have e : idGenState (n + 1) = (idGenNext (idGenState n)).2 := hstep.2
      rw [e, hstep.1, ih, if_neg (Nat.succ_ne_zero n)]
      by_cases hn : n = 0
      · subst hn; simp
      · rw [if_neg hn]
        split <;> omega
  have hle : (idGenState n).toNat ≤ 2 ^ 53 := by rw [hstate]; split <;> omega
  have hstep := idgen_next_step (idGenState n) hle
  rw [idGenSeq, hstep.1, hstate]
  by_cases hn : n = 0
  · subst hn; simp
  · rw [if_neg hn]
    split <;> omega

/-- Every id issued lies in `[1, 2^53]`. -/
theorem idgen_range (n : Nat) : 1 ≤ (idGenSeq n).toNat ∧ (idGenSeq n).toNat ≤ 2 ^ 53 := by
  rw [idgen_closed_form]; omega

/-- Ids increase by 1 and wrap from `2^53` to `1`. -/
theorem idgen_succ (n : Nat) :
    (idGenSeq (n + 1)).toNat = if (idGenSeq n).toNat = 2 ^ 53 then 1 else (idGenSeq n).toNat + 1 := by
  rw [idgen_closed_form, idgen_closed_form]
  split <;> omega

/-- Request ids of one session do not repeat within a full cycle: two of any `2^53` consecutive
    ids issued by a generator are different (so a reply can be matched to its request by id as
    long as fewer than `2^53` requests are outstanding). -/
theorem idgen_no_repeat (i j : Nat) (hij : i < j) (hj : j < i + 2 ^ 53) : idGenSeq i ≠ idGenSeq j := by
  intro h
  have h' := congrArg UInt64.toNat h
  rw [idgen_closed_form, idgen_closed_form] at h'
  omega

/-- ... and the cycle is exact: the id issued `2^53` calls later is the same one again. -/
theorem idgen_period (n : Nat) : idGenSeq (n + 2 ^ 53) = idGenSeq n := by
  apply UInt64.toNat_inj.mp
  rw [idgen_closed_form, idgen_closed_form]
  omega

/-- Two issued ids are equal exactly when their positions agree modulo `2^53`. -/
theorem idgen_eq_iff (i j : Nat) : idGenSeq i = idGenSeq j ↔ i % 2 ^ 53 = j % 2 ^ 53 := by
  constructor
  · intro h
    have h' := congrArg UInt64.toNat h
    rw [idgen_closed_form, idgen_closed_form] at h'
    omega
  · intro h
    apply UInt64.toNat_inj.mp
    rw [idgen_closed_form, idgen_closed_form, h]

example : idGenSeq 0 ≠ idGenSeq 1 := idgen_no_repeat 0 1 (by decide) (by decide)

/-! ## Router-wide random ids (`GlobalID`, regenerated as `globalID` over the drawn value) -/

theorem globalid_bound_is_maxID : globalIDRandBound = MaxID ∧ MaxID = 2 ^ 53 := by decide

/-- For every value `r ∈ [0, MaxID)` the random source can return, `GlobalID` is `r + 1 ∈ [1, 2^53]`. -/
theorem globalid_range (r : Int64) (h0 : 0 ≤ r.toInt) (h1 : r.toInt < globalIDRandBound) :
    ((globalID r).toNat : Int) = r.toInt + 1 ∧ 1 ≤ (globalID r).toNat ∧ (globalID r).toNat ≤ 2 ^ 53 := by
  have hb : (globalIDRandBound : Int) = 2 ^ 53 := by decide
  rw [hb] at h1
  have hc := toNat_toUInt64 r
  rw [if_pos h0] at hc
  have h1' : (1 : UInt64).toNat = 1 := rfl
  have : (globalID r).toNat = r.toUInt64.toNat + 1 := by
    simp only [globalID, UInt64.toNat_add, h1']
    exact Nat.mod_eq_of_lt (by omega)
  omega

-- non-vacuity: the extreme draws 0 and MaxID-1
example : (0 : Int64).toInt = 0 ∧ globalID 0 = 1 := by decide
example : (9007199254740991 : Int64).toInt < globalIDRandBound ∧ globalID 9007199254740991 = MaxID_u64 := by decide

/-! ## Ids read from messages (`AsID`: regenerated range test after the `AsInt64` type switch) -/

/-- The hand-written `Nexus.Ids.asInt64` (one constructor of `GoNum` per case, each converted by
    Go's `int64(v)`) covers exactly the cases of the type switch of `AsInt64` as it is in the source:
    this pins the regenerated table; a new, removed or altered case breaks the proof. -/
theorem asInt64_switch_modelled :
    asInt64Cases =
      [("int64", "v"), ("ID", "int64(v)"), ("uint64", "int64(v)"), ("int", "int64(v)"),
       ("int32", "int64(v)"), ("uint", "int64(v)"), ("uint32", "int64(v)"),
       ("float64", "int64(v)"), ("float32", "int64(v)")] := by decide

/-- For every int64 value: accepted iff `1 ≤ v ≤ 2^53`, and the id is `v`. -/
theorem asid_int64_iff (v : Int64) (id : UInt64) :
    asID (.int64 v) = some id ↔ (1 ≤ v.toInt ∧ v.toInt ≤ 2 ^ 53) ∧ (id.toNat : Int) = v.toInt :=
  asIDOfInt64_iff v id

/-- For every uint64 value (wamp.ID, uint64, uint): accepted iff `1 ≤ u ≤ 2^53`, id `= u`. -/
theorem asid_uint64_iff (u id : UInt64) :
    asID (.uint64 u) = some id ↔ (1 ≤ u.toNat ∧ u.toNat ≤ 2 ^ 53) ∧ id = u := by
  rw [asID, asInt64, asIDOfInt64_iff, toInt_toInt64, ← UInt64.toNat_inj]
  have := u64_toNat_lt u
  split <;> omega

/-- The uint64 → int64 conversion wraps: values ≥ 2^63 become negative and are rejected. -/
theorem asid_uint64_wrap_rejected (u : UInt64) (h : 2 ^ 63 ≤ u.toNat) :
    (u.toInt64).toInt < 0 ∧ asID (.uint64 u) = none ∧ asID (.id u) = none ∧ asID (.uint u) = none := by
  have hneg : (u.toInt64).toInt < 0 := by
    rw [toInt_toInt64]; have := u64_toNat_lt u; split <;> omega
  have hnone : asIDOfInt64 u.toInt64 = none := (asIDOfInt64_none_iff _).mpr (by omega)
  exact ⟨hneg, hnone, hnone, hnone⟩

-- non-vacuity: 2^63 and 2^64-1
example : 2 ^ 63 ≤ (9223372036854775808 : UInt64).toNat ∧ 2 ^ 63 ≤ (18446744073709551615 : UInt64).toNat := by decide

/-- ALL representations `AsInt64` knows (int64, ID, uint64, int, int32, uint, uint32, float64,
    float32 — every bit pattern): accepted iff the mathematical value the Go value denotes
    (floats: truncated toward zero; NaN/±Inf: none) lies in `[1, 2^53]`, and the id is that value. -/
theorem asid_iff_value (n : GoNum) (id : UInt64) :
    asID n = some id ↔ ∃ v, n.value = some v ∧ 1 ≤ v ∧ v ≤ 2 ^ 53 ∧ (id.toNat : Int) = v := by
  have hu : ∀ u : UInt64, asIDOfInt64 u.toInt64 = some id ↔
      ∃ v, some (u.toNat : Int) = some v ∧ 1 ≤ v ∧ v ≤ 2 ^ 53 ∧ (id.toNat : Int) = v := by
    intro u
    rw [asIDOfInt64_iff, toInt_toInt64]
    have := u64_toNat_lt u
    constructor
    · intro h; exact ⟨u.toNat, rfl, by split at h <;> omega⟩
    · rintro ⟨v, hv, h⟩
      cases hv
      split <;> omega
  have hf : ∀ t : Option Int, asIDOfInt64 (truncToInt64 t) = some id ↔
      ∃ v, t = some v ∧ 1 ≤ v ∧ v ≤ 2 ^ 53 ∧ (id.toNat : Int) = v := by
    intro t
    rw [asIDOfInt64_iff, truncToInt64_toInt]
    cases t with
    | none => simp
    | some t =>
      simp only [Option.some.injEq, exists_eq_left']
      split <;> omega
  cases n with
  | int64 v =>
    simp only [asID, asInt64, GoNum.value, asIDOfInt64_iff, Option.some.injEq, exists_eq_left']
    omega
  | id u => exact hu u
  | uint64 u => exact hu u
  | int v =>
    simp only [asID, asInt64, GoNum.value, asIDOfInt64_iff, Option.some.injEq, exists_eq_left']
    omega
  | int32 v =>
    simp only [asID, asInt64, GoNum.value, asIDOfInt64_iff, Int32.toInt_toInt64, Option.some.injEq,
      exists_eq_left']
    omega
  | uint u => exact hu u
  | uint32 u =>
    have := hu u.toUInt64
    rw [UInt32.toNat_toUInt64] at this
    exact this
  | float64 b => exact hf (f64Trunc b)
  | float32 b => exact hf (f32Trunc b)

/-- Acceptance alone, for all representations. -/
theorem asid_accepts_iff (n : GoNum) :
    (asID n).isSome = true ↔ ∃ v, n.value = some v ∧ 1 ≤ v ∧ v ≤ 2 ^ 53 := by
  constructor
  · intro h
    obtain ⟨id, hid⟩ := Option.isSome_iff_exists.mp h
    obtain ⟨v, hv, h1, h2, _⟩ := (asid_iff_value n id).mp hid
    exact ⟨v, hv, h1, h2⟩
  · rintro ⟨v, hv, h1, h2⟩
    have hlt : v.toNat < 2 ^ 64 := by omega
    have : asID n = some (UInt64.ofNat v.toNat) :=
      (asid_iff_value n _).mpr ⟨v, hv, h1, h2, by
        rw [UInt64.toNat_ofNat', Nat.mod_eq_of_lt hlt]; omega⟩
    rw [this]; rfl

-- concrete: 2^53 accepted, 2^53+1 and 0 and -1 rejected, float64 2^53 accepted, 1.5 ↦ 1, NaN rejected
example : asID (.int64 9007199254740992) = some 9007199254740992 ∧ asID (.int64 9007199254740993) = none ∧
    asID (.int64 0) = none ∧ asID (.int64 (-1)) = none ∧ asID (.uint64 18446744073709551615) = none := by decide
example : asID (.float64 0x4340000000000000) = some 9007199254740992 ∧ asID (.float64 0x3ff8000000000000) = some 1 ∧
    asID (.float64 0x7ff8000000000000) = none ∧ asID (.float64 0x4340000000000001) = none := by decide

/-! ## Received request ids (`Session.IsNewRecvID` / `UpdateLastRecvIDLocked`, regenerated) -/

/-- `UpdateLastRecvID`: answers `IsNewRecvID`, and stores the id iff it is new. -/
theorem update_spec (last id : UInt64) :
    updateLastRecvID last id = (if isNewRecvID last id then id else last, isNewRecvID last id) :=
  updateLastRecvID_eq last id

/-- new ⇔ valid ∧ (no previous id ∨ greater ∨ (smaller ∧ MaxID − (last − id) < deltaID)),
    for every `id` and every stored `last ≤ 2^53` (which is every reachable one: `recv_last_invariant`). -/
theorem isnew_iff (last id : UInt64) (hlast : last.toNat ≤ MaxID) :
    isNewRecvID last id = true ↔
      (1 ≤ id.toNat ∧ id.toNat ≤ MaxID) ∧
      (last.toNat = 0 ∨ id.toNat > last.toNat ∨
        (id.toNat < last.toNat ∧ MaxID - (last.toNat - id.toNat) < deltaID)) := by
  rw [maxID_eq] at hlast ⊢
  rw [deltaID_eq]
  exact isNewRecvID_iff last id hlast

-- non-vacuity: last = 2^53 satisfies the hypothesis, and the window case is inhabited
example : MaxID_u64.toNat ≤ MaxID ∧ isNewRecvID MaxID_u64 3 = true ∧ isNewRecvID MaxID_u64 500 = false := by decide

/-- Number of `Next` steps from `last` forward to `id` when `id < last`, going over the wrap
    `2^53 → 1`: `(2^53 − last) + id`. -/
def wrapDistance (last id : Nat) : Nat := (2 ^ 53 - last) + id

/-- The same in the property's words: a received id is new exactly when it is a valid id and
    (nothing was received before, or) it is larger than the last one, or it lies within the
    allowed wrap-around window, i.e. fewer than `deltaID = 500` steps ahead of the last one
    across the wrap. -/
theorem isnew_in_words (last id : UInt64) (hlast : last.toNat ≤ 2 ^ 53) :
    isNewRecvID last id = true ↔
      (1 ≤ id.toNat ∧ id.toNat ≤ 2 ^ 53) ∧
      (last.toNat = 0 ∨ id.toNat > last.toNat ∨
        (id.toNat < last.toNat ∧ wrapDistance last.toNat id.toNat < 500)) := by
  rw [isNewRecvID_iff last id hlast]
  unfold wrapDistance
  constructor <;> rintro ⟨hv, h⟩ <;> refine ⟨hv, ?_⟩ <;> omega

/-- `wrapDistance` really is the wrap-around distance: issuing `wrapDistance last id` further ids
    after `last` (with the generator's own wrap `2^53 → 1`) arrives exactly at `id`. -/
theorem wrapDistance_is_next_steps (last id : UInt64)
    (hid : 1 ≤ id.toNat) (hlt : id.toNat < last.toNat) (hlast : last.toNat ≤ 2 ^ 53) :
    nextIter (wrapDistance last.toNat id.toNat) last = id := by
  have iter : ∀ k (s : UInt64), 1 ≤ s.toNat → s.toNat ≤ 2 ^ 53 →
      (nextIter k s).toNat = (s.toNat - 1 + k) % 2 ^ 53 + 1 := by
    intro k
    induction k with
    | zero => intro s h1 h2; simp only [nextIter]; omega
    | succ k ih =>
      intro s h1 h2
      have hstep := idgen_next_step s h2
      have e : (idGenNext s).1.toNat = if s.toNat = 2 ^ 53 then 1 else s.toNat + 1 := by
        rw [hstep.2, hstep.1]
      have hr : 1 ≤ (idGenNext s).1.toNat ∧ (idGenNext s).1.toNat ≤ 2 ^ 53 := by
        rw [e]; split <;> omega
      simp only [nextIter]
      rw [ih _ hr.1 hr.2, e]
      split <;> omega
  apply UInt64.toNat_inj.mp
  rw [iter _ last (by omega) hlast]
  unfold wrapDistance
  omega

-- non-vacuity: last = 2^53 - 2, id = 3: 5 steps (2^53-1, 2^53, 1, 2, 3)
example : wrapDistance 9007199254740990 3 = 5 ∧ nextIter 5 9007199254740990 = 3 := by decide

example : (9007199254740900 : UInt64).toNat ≤ 2 ^ 53 ∧ wrapDistance 9007199254740900 7 = 99 ∧
    isNewRecvID 9007199254740900 7 = true := by decide

/-- Invariant: whatever ids are received, the stored `lastRecvID` stays `≤ 2^53`
    (it is 0 or an accepted, hence valid, id). -/
theorem recv_last_invariant (ids : List UInt64) (last : UInt64) (hlast : last.toNat ≤ 2 ^ 53) :
    (recvRun last ids).2.toNat ≤ 2 ^ 53 := by
  induction ids generalizing last with
  | nil => exact hlast
  | cons id ids ih =>
    simp only [recvRun]
    apply ih
    rw [updateLastRecvID_eq]
    by_cases h : isNewRecvID last id = true
    · simp only [h, if_true]
      exact ((isNewRecvID_iff last id hlast).mp h).1.2
    · simp only [h]; exact hlast

example : ((0 : UInt64).toNat ≤ 2 ^ 53) := by decide

/-- FULL STRENGTH over reachable states: after ANY history of received ids on a fresh session,
    the next id is new ⇔ valid ∧ (no previous ∨ larger ∨ within the wrap-around window). -/
theorem isnew_reachable (history : List UInt64) (id : UInt64) :
    let last := (recvRun 0 history).2
    isNewRecvID last id = true ↔
      (1 ≤ id.toNat ∧ id.toNat ≤ 2 ^ 53) ∧
      (last.toNat = 0 ∨ id.toNat > last.toNat ∨
        (id.toNat < last.toNat ∧ wrapDistance last.toNat id.toNat < 500)) :=
  isnew_in_words _ id (recv_last_invariant history 0 (by decide))

/-- The formula of `isnew_iff` claimed for ALL 64-bit values of the stored `lastRecvID`, reachable
    or not.  (Stronger than the property, which speaks about sessions; kept to document exactly
    how far the arithmetic goes.) -/
def isnew_arbitrary_last_full : Prop :=
  ∀ last id : UInt64,
    isNewRecvID last id = true ↔
      (1 ≤ id.toNat ∧ id.toNat ≤ MaxID) ∧
      (last.toNat = 0 ∨ id.toNat > last.toNat ∨
        (id.toNat < last.toNat ∧ MaxID - (last.toNat - id.toNat) < deltaID))

/-- … is FALSE: for the unreachable stored value `2^64 − 1` the uint64 subtraction
    `MaxID − (last − id)` wraps around and the code answers "not new" where the formula over the
    natural numbers says "new".  No session can get there (`recv_last_invariant`), so this is not a
    defect of the implementation; `isnew_iff` is the part that holds (hypothesis `last ≤ MaxID`) and
    `isnew_reachable` is the property at full strength. -/
theorem isnew_arbitrary_last_full_fails : ¬ isnew_arbitrary_last_full := by
  intro h
  have h1 := (h 18446744073709551615 1).mpr (by decide)
  have h2 : isNewRecvID 18446744073709551615 1 = false := by decide
  rw [h2] at h1
  cases h1

/-! ## WpD — generator/receiver compatibility; the window as "least number of `Next` steps"
    (audit a3, d1–d3) -/

/-- Closed form of `k` calls of `IDGen.Next` starting from any issued id `s ∈ [1, 2^53]`: the
    counter is `(s − 1 + k) mod 2^53 + 1` — for every `k` and every such `s`.  (Audit d1; this is
    the lemma that was local to `wrapDistance_is_next_steps`.) -/
theorem nextIter_closed (k : Nat) (s : UInt64) (h1 : 1 ≤ s.toNat) (h2 : s.toNat ≤ 2 ^ 53) :
    (nextIter k s).toNat = (s.toNat - 1 + k) % 2 ^ 53 + 1 :=
  WpD.nextIter_closed k s h1 h2

-- non-vacuity: s = 1, s = 2^53 satisfy the hypotheses; 2^53 + 3 steps from 2^53 − 1 end at 2
example : 1 ≤ (1 : UInt64).toNat ∧ (1 : UInt64).toNat ≤ 2 ^ 53 ∧ 1 ≤ MaxID_u64.toNat ∧ MaxID_u64.toNat ≤ 2 ^ 53 := by decide
example : (nextIter (2 ^ 53 + 3) 9007199254740991).toNat = 2 := by
  rw [nextIter_closed _ _ (by decide) (by decide)]; decide

/-- The same from the FRESH generator (counter 0, not an id): after `k + 1` calls the counter is
    `k mod 2^53 + 1`. -/
theorem nextIter_fresh (k : Nat) : (nextIter (k + 1) 0).toNat = k % 2 ^ 53 + 1 :=
  WpD.nextIter_fresh k

/-- The closed form claimed for EVERY counter `s ≤ 2^53`, i.e. including the fresh counter 0. -/
def nextIter_closed_full : Prop :=
  ∀ (k : Nat) (s : UInt64), s.toNat ≤ 2 ^ 53 → (nextIter k s).toNat = (s.toNat - 1 + k) % 2 ^ 53 + 1

/-- … is FALSE at the boundary `s = 0`, `k = 0` (zero calls leave the counter at 0, which is not an
    id; the formula says 1).  `nextIter_closed` (hypothesis `1 ≤ s`) and `nextIter_fresh` (`s = 0`,
    at least one call) together cover every reachable counter. -/
theorem nextIter_closed_full_fails : ¬ nextIter_closed_full := by
  intro h
  have := h 0 0 (by decide)
  revert this; decide

/-- `nextIter` is the generator of the property: the state of a fresh `IDGen` after `n` calls is
    `nextIter n 0`, and the n-th id issued (0-based) is `nextIter (n + 1) 0`.  So every statement
    below about `nextIter k last` is about the ids `IDGen.Next` issues. -/
theorem idgen_is_nextIter (n : Nat) : idGenState n = nextIter n 0 ∧ idGenSeq n = nextIter (n + 1) 0 :=
  ⟨WpD.idGenState_eq_nextIter n, WpD.idGenSeq_eq_nextIter n⟩

/-- EXACTLY which numbers of `Next` calls lead from an issued id `last` to an issued id `id`:
    those congruent to `stepsTo last id = (id − last) mod 2^53` modulo the cycle length. -/
theorem nextIter_eq_iff (k : Nat) (last id : UInt64)
    (h1 : 1 ≤ last.toNat) (hl : last.toNat ≤ 2 ^ 53) (hi1 : 1 ≤ id.toNat) (hi2 : id.toNat ≤ 2 ^ 53) :
    nextIter k last = id ↔ k % 2 ^ 53 = WpD.stepsTo last.toNat id.toNat :=
  WpD.nextIter_eq_iff k last id h1 hl hi1 hi2

/-- `stepsTo last id` is the LEAST number of `Next` calls from `last` to `id`: that many calls
    arrive at `id`, and every `k` that arrives at `id` is at least that large. -/
theorem stepsTo_is_least (last id : UInt64)
    (h1 : 1 ≤ last.toNat) (hl : last.toNat ≤ 2 ^ 53) (hi1 : 1 ≤ id.toNat) (hi2 : id.toNat ≤ 2 ^ 53) :
    nextIter (WpD.stepsTo last.toNat id.toNat) last = id ∧
    ∀ k, nextIter k last = id → WpD.stepsTo last.toNat id.toNat ≤ k :=
  ⟨WpD.nextIter_stepsTo last id h1 hl hi1 hi2, fun k h => WpD.stepsTo_le k last id h1 hl hi1 hi2 h⟩

-- non-vacuity: from 2^53 − 2 to 3 the least count is 5; from 7 to 7 it is 0; from 3 to 2^53 − 2 it is 2^53 − 5
example : WpD.stepsTo 9007199254740990 3 = 5 ∧ WpD.stepsTo 7 7 = 0 ∧
    WpD.stepsTo 3 9007199254740990 = 9007199254740987 := by decide

/-- Audit a3: `wrapDistance last id` (used in `isnew_in_words` / `isnew_reachable`) is not merely
    SOME number of `Next` steps from `last` to a smaller `id` (`wrapDistance_is_next_steps`) but the
    LEAST one, and every other step count that arrives at `id` differs from it by a multiple of the
    cycle length `2^53`. -/
theorem wrapDistance_is_least_steps (last id : UInt64)
    (hid : 1 ≤ id.toNat) (hlt : id.toNat < last.toNat) (hlast : last.toNat ≤ 2 ^ 53)
    (k : Nat) (hk : nextIter k last = id) :
    wrapDistance last.toNat id.toNat ≤ k ∧ k % 2 ^ 53 = wrapDistance last.toNat id.toNat := by
  have h := (WpD.nextIter_eq_iff k last id (by omega) hlast hid (by omega)).mp hk
  unfold WpD.stepsTo at h
  unfold wrapDistance
  omega

-- non-vacuity: 5 and 2^53 + 5 steps both lead from 2^53 − 2 to 3
example : nextIter 5 9007199254740990 = 3 ∧ (2 ^ 53 + 5) % 2 ^ 53 = wrapDistance 9007199254740990 3 := by decide

/-- Audit d1, the wrap-around window read as a number of `Next` steps (independent of the
    arithmetic rearrangement `wrapDistance`): with a previous id `last ∈ [1, 2^53]`, a received id is
    new exactly when it is a valid id and it is larger than `last` or the generator, continuing from
    `last`, issues it within fewer than `deltaID = 500` further calls of `Next` (wrap included).
    The statement proposed by the audit is correct as it stands, boundaries included (`k = 499` is
    in, `k = 500` is out: `next_ids_are_new_500_full_fails`; `k = 0`, the same id, is out:
    `isnew_self`). -/
theorem isnew_iff_steps (last id : UInt64) (h1 : 1 ≤ last.toNat) (hl : last.toNat ≤ 2 ^ 53) :
    isNewRecvID last id = true ↔
      (1 ≤ id.toNat ∧ id.toNat ≤ 2 ^ 53) ∧
      (id.toNat > last.toNat ∨ ∃ k, 1 ≤ k ∧ k < 500 ∧ nextIter k last = id) := by
  rw [isNewRecvID_iff last id hl]
  constructor
  · rintro ⟨hv, h⟩
    refine ⟨hv, ?_⟩
    rcases h with h0 | hgt | ⟨hlt, hw⟩
    · omega
    · exact Or.inl hgt
    · refine Or.inr ⟨wrapDistance last.toNat id.toNat, ?_, ?_,
        wrapDistance_is_next_steps last id hv.1 hlt hl⟩ <;> unfold wrapDistance <;> omega
  · rintro ⟨hv, h⟩
    refine ⟨hv, ?_⟩
    rcases h with hgt | ⟨k, hk1, hk2, hk⟩
    · exact Or.inr (Or.inl hgt)
    · have hc := WpD.nextIter_closed k last h1 hl
      rw [hk] at hc
      omega

-- non-vacuity: last = 2^53 − 2; id 3 is 5 steps ahead (new), id 600 is not within 499 steps (not new)
example : 1 ≤ (9007199254740990 : UInt64).toNat ∧ (9007199254740990 : UInt64).toNat ≤ 2 ^ 53 ∧
    nextIter 5 9007199254740990 = 3 ∧ isNewRecvID 9007199254740990 3 = true ∧
    isNewRecvID 9007199254740990 600 = false := by decide

/-- The same with the LEAST step count made explicit: new ⇔ valid ∧ (larger ∨ the least number of
    `Next` calls from `last` to `id` (`stepsTo_is_least`) lies in `[1, 500)`). -/
theorem isnew_iff_least_steps (last id : UInt64) (h1 : 1 ≤ last.toNat) (hl : last.toNat ≤ 2 ^ 53) :
    isNewRecvID last id = true ↔
      (1 ≤ id.toNat ∧ id.toNat ≤ 2 ^ 53) ∧
      (id.toNat > last.toNat ∨
        (1 ≤ WpD.stepsTo last.toNat id.toNat ∧ WpD.stepsTo last.toNat id.toNat < 500)) := by
  rw [isNewRecvID_iff last id hl]
  unfold WpD.stepsTo
  constructor <;> rintro ⟨hv, h⟩ <;> refine ⟨hv, ?_⟩ <;> omega

example : WpD.stepsTo 9007199254740990 3 = 5 ∧ WpD.stepsTo 9007199254740990 600 = 602 := by decide

/-- FULL STRENGTH over reachable states, in steps: after ANY history of received ids on a fresh
    session, the next id is new ⇔ valid ∧ (nothing accepted yet ∨ larger than the last accepted ∨
    issued by the generator within fewer than 500 `Next` calls after the last accepted id). -/
theorem isnew_reachable_steps (history : List UInt64) (id : UInt64) :
    let last := (recvRun 0 history).2
    isNewRecvID last id = true ↔
      (1 ≤ id.toNat ∧ id.toNat ≤ 2 ^ 53) ∧
      (last.toNat = 0 ∨ id.toNat > last.toNat ∨ ∃ k, 1 ≤ k ∧ k < 500 ∧ nextIter k last = id) := by
  intro last
  have hl : last.toNat ≤ 2 ^ 53 := recv_last_invariant history 0 (by decide)
  by_cases h0 : last.toNat = 0
  · rw [isNewRecvID_iff last id hl]
    constructor <;> rintro ⟨hv, _⟩ <;> exact ⟨hv, Or.inl h0⟩
  · rw [isnew_iff_steps last id (by omega) hl]
    constructor <;> rintro ⟨hv, h⟩ <;> refine ⟨hv, ?_⟩
    · exact Or.inr h
    · rcases h with h | h
      · exact absurd h h0
      · exact h

/-- Audit d2, GENERATOR/RECEIVER COMPATIBILITY.  If the receiver's stored id is the sender's
    generator counter `last ≤ 2^53` (0 = both fresh), every id the generator issues within the
    next `k ∈ [1, 500)` calls of `Next` — i.e. the sender may skip up to 498 ids, over the wrap
    too — is accepted as new.  (Stronger than proposed: `last = 0` is included.) -/
theorem next_ids_are_new (last : UInt64) (hl : last.toNat ≤ 2 ^ 53) (k : Nat) (hk : 1 ≤ k ∧ k < 500) :
    isNewRecvID last (nextIter k last) = true := by
  have hr := WpD.nextIter_range k last hl (Or.inl hk.1)
  by_cases h1 : 1 ≤ last.toNat
  · exact (isnew_iff_steps last _ h1 hl).mpr ⟨hr, Or.inr ⟨k, hk.1, hk.2, rfl⟩⟩
  · exact (isNewRecvID_iff last _ hl).mpr ⟨hr, Or.inl (by omega)⟩

-- non-vacuity: fresh/fresh, mid-range, and across the wrap with the largest allowed skip
example : isNewRecvID 0 (nextIter 1 0) = true ∧ isNewRecvID 41 (nextIter 1 41) = true ∧
    nextIter 3 MaxID_u64 = 3 ∧ isNewRecvID MaxID_u64 (nextIter 3 MaxID_u64) = true := by decide
example : isNewRecvID MaxID_u64 (nextIter 499 MaxID_u64) = true :=
  next_ids_are_new MaxID_u64 (by decide) 499 (by omega)

/-- The bound 500 of `next_ids_are_new` claimed to be 501 (i.e. `k = 500` allowed). -/
def next_ids_are_new_500_full : Prop :=
  ∀ last : UInt64, 1 ≤ last.toNat → last.toNat ≤ 2 ^ 53 → isNewRecvID last (nextIter 500 last) = true

/-- … is FALSE: from `last = 2^53` the 500th next id is 500, and `2^53 − (2^53 − 500) = 500` is not
    `< deltaID`.  So `k < 500` is exactly the window (this is the Go code's behaviour, and the
    property's "allowed wrap-around window"; not a defect). -/
theorem next_ids_are_new_500_full_fails : ¬ next_ids_are_new_500_full := by
  intro h
  have h500 : nextIter 500 MaxID_u64 = 500 := by
    apply UInt64.toNat_inj.mp
    rw [WpD.nextIter_closed 500 MaxID_u64 (by decide) (by decide), maxID_u64_toNat]
    decide
  have h1 := h MaxID_u64 (by decide) (by decide)
  rw [h500] at h1
  revert h1; decide

/-- Ids a sender issues from counter `s` when it calls `Next` `k₁` times, sends the result, calls
    `Next` `k₂` more times, sends, … (`kᵢ = 1`: consecutive ids; `kᵢ > 1`: ids skipped). -/
def skipRun : UInt64 → List Nat → List UInt64
  | _, [] => []
  | s, k :: ks => nextIter k s :: skipRun (nextIter k s) ks

/-- Compatibility over whole sequences: a receiver whose stored id equals the sender's counter
    accepts EVERY id of such a sequence, however long (any number of wraps), as long as fewer than
    499 ids are skipped between two consecutive messages; and afterwards its stored id is the
    sender's counter again. -/
theorem recv_accepts_generated (s : UInt64) (hs : s.toNat ≤ 2 ^ 53) (ks : List Nat)
    (hks : ∀ k ∈ ks, 1 ≤ k ∧ k < 500) :
    recvRun s (skipRun s ks) = (ks.map (fun _ => true), nextIter ks.sum s) := by
  induction ks generalizing s with
  | nil => rfl
  | cons k ks ih =>
    have hk := hks k (List.mem_cons_self ..)
    have hnew := next_ids_are_new s hs k hk
    have hr := WpD.nextIter_range k s hs (Or.inl hk.1)
    have hu : updateLastRecvID s (nextIter k s) = (nextIter k s, true) := by
      rw [updateLastRecvID_eq, hnew]; rfl
    simp only [skipRun, recvRun, hu, List.map_cons, List.sum_cons]
    rw [ih (nextIter k s) hr.2 (fun k' hk' => hks k' (List.mem_cons_of_mem _ hk')), WpD.nextIter_add]

-- non-vacuity: from the fresh pair, skips 1, 3, 2 (and 499) satisfy the hypothesis
example : (∀ k ∈ [1, 3, 2, 499], 1 ≤ k ∧ k < 500) ∧ skipRun 0 [1, 3, 2] = [1, 4, 6] ∧
    recvRun 0 (skipRun 0 [1, 3, 2]) = ([true, true, true], 6) := by decide

theorem recvRun_append (s : UInt64) (a b : List UInt64) :
    recvRun s (a ++ b) = ((recvRun s a).1 ++ (recvRun (recvRun s a).2 b).1, (recvRun (recvRun s a).2 b).2) := by
  induction a generalizing s with
  | nil => rfl
  | cons x a ih => simp only [List.cons_append, recvRun, ih]

/-- The property's two halves meet: a fresh session receiving, in order, the first `n` ids a fresh
    `IDGen` issues (`idGenSeq 0 … idGenSeq (n−1)`, the sequence of `idgen_closed_form`, through any
    number of wraps) answers "new" to every one of them and ends with `lastRecvID` = the generator's
    counter. -/
theorem recv_accepts_idgen (n : Nat) :
    recvRun 0 ((List.range n).map idGenSeq) = (List.replicate n true, idGenState n) := by
  induction n with
  | zero => rfl
  | succ n ih =>
    have hs : (idGenState n).toNat ≤ 2 ^ 53 := by
      rw [WpD.idGenState_eq_nextIter]
      cases n with
      | zero => decide
      | succ m => exact (WpD.nextIter_range (m + 1) 0 (by decide) (Or.inl (by omega))).2
    have hnew : isNewRecvID (idGenState n) (idGenState (n + 1)) = true :=
      next_ids_are_new (idGenState n) hs 1 (by omega)
    have hseq : idGenSeq n = idGenState (n + 1) := ((idGenNext_toNat (idGenState n)).2).symm
    rw [List.range_succ, List.map_append, recvRun_append, ih]
    simp only [List.map_cons, List.map_nil, recvRun, hseq, updateLastRecvID_eq, hnew, if_true]
    rw [List.replicate_succ']

example : recvRun 0 ((List.range 3).map idGenSeq) = ([true, true, true], 3) := by decide

/-- Audit d3: the id stored as last received is never new — for EVERY 64-bit value (0 and values
    above 2^53 are invalid, any other value equals the stored one). -/
theorem isnew_self (id : UInt64) : isNewRecvID id id = false := by
  unfold isNewRecvID
  by_cases h0 : id = 0
  · simp [h0]
  · by_cases hm : id > MaxID_u64
    · simp [hm]
    · simp [h0, hm, UInt64.lt_irrefl]

/-- Audit d3, REPLAY of the id just presented: after `UpdateLastRecvID(id)` — whether it answered
    "new" or not — the same id presented again is not new.  Holds for all 64-bit values, no
    hypothesis. -/
theorem same_id_not_new_twice (last id : UInt64) :
    isNewRecvID (updateLastRecvID last id).1 id = false := by
  rw [updateLastRecvID_eq]
  cases h : isNewRecvID last id with
  | true => exact isnew_self id
  | false => exact h

/-- The form proposed by the audit (hypothesis: the id was accepted). -/
theorem accepted_not_new_again (last id : UInt64) (_h : isNewRecvID last id = true) :
    isNewRecvID (updateLastRecvID last id).1 id = false :=
  same_id_not_new_twice last id

-- non-vacuity, and the run form: the second presentation is answered `false`
example : isNewRecvID 41 42 = true ∧ (recvRun 41 [42, 42]).1 = [true, false] := by decide

/-- How far replay protection goes: an id `id` smaller than the stored `last` (both valid) is new
    again exactly when `last − id > 2^53 − 500`. -/
theorem older_id_new_iff (last id : UInt64) (hid : 1 ≤ id.toNat) (hlt : id.toNat < last.toNat)
    (hl : last.toNat ≤ 2 ^ 53) :
    isNewRecvID last id = true ↔ last.toNat - id.toNat > 2 ^ 53 - 500 := by
  rw [isNewRecvID_iff last id hl]
  constructor
  · rintro ⟨_, h⟩; omega
  · intro h; exact ⟨by omega, by omega⟩

example : 1 ≤ (5 : UInt64).toNat ∧ (5 : UInt64).toNat < MaxID_u64.toNat ∧ MaxID_u64.toNat ≤ 2 ^ 53 := by decide

/-- "An id that was accepted is not accepted again once a later id has been accepted" — a
    replay-protection reading STRONGER than the property text (which only says when an id counts
    as new relative to the last one). -/
def accepted_id_stays_old_full : Prop :=
  ∀ last id id' : UInt64, isNewRecvID last id = true → isNewRecvID id id' = true →
    isNewRecvID id' id = false

/-- … is FALSE, of the model and of the Go code alike (by design of the wrap-around window, see the
    comment on `IsNewRecvID` in wamp/session.go): on a fresh session the ids 5, 2^53, 5 are ALL
    answered "new" — after a jump to within 500 of 2^53 the ids `1 … 499 − (2^53 − last)` are open
    again although they may have been used (`older_id_new_iff` is the exact extent).  Recorded as an
    observation, not as a violation of C19's text. -/
theorem accepted_id_stays_old_full_fails : ¬ accepted_id_stays_old_full := by
  intro h
  have := h 0 5 MaxID_u64 (by decide) (by decide)
  revert this; decide

example : (recvRun 0 [5, MaxID_u64, 5]).1 = [true, true, true] := by decide

/-! ## WpD — `AsID` on any platform and on any dynamic type (audit b "float out-of-range", d6, d7) -/

/-- Audit d6.  WHATEVER int64 value `oor` a platform's conversion produces for a float operand whose
    truncation `t` does not fit into int64 (or is NaN/±Inf: `t = none`), `AsID` rejects it —
    provided that value is outside `[1, 2^53]`. -/
theorem asid_float_oor_rejected (oor : Int64) (h : ¬ (1 ≤ oor.toInt ∧ oor.toInt ≤ 2 ^ 53))
    (t : Option Int) (ht : WpD.fitsInt64 t = false) :
    asIDOfInt64 (WpD.truncToInt64P oor t) = none := by
  rw [WpD.truncToInt64P_oor oor t ht]
  exact (asIDOfInt64_none_iff oor).mpr h

-- non-vacuity: MinInt64 (amd64), 0 and MaxInt64 (saturating platforms) are such values; NaN, +Inf
-- and 1e19 (≥ 2^63) are such operands
example : ¬ (1 ≤ Int64.minValue.toInt ∧ Int64.minValue.toInt ≤ 2 ^ 53) ∧
    ¬ (1 ≤ (0 : Int64).toInt ∧ (0 : Int64).toInt ≤ 2 ^ 53) ∧
    ¬ (1 ≤ Int64.maxValue.toInt ∧ Int64.maxValue.toInt ≤ 2 ^ 53) :=
  ⟨WpD.known_values_outside _ (Or.inr (Or.inl rfl)), WpD.known_values_outside _ (Or.inl rfl),
   WpD.known_values_outside _ (Or.inr (Or.inr rfl))⟩
example : WpD.fitsInt64 (f64Trunc 0x7ff8000000000000) = false ∧ WpD.fitsInt64 (f64Trunc 0x7ff0000000000000) = false ∧
    WpD.fitsInt64 (f64Trunc 0x43E158E460913D00) = false ∧ WpD.fitsInt64 (f32Trunc 0x7fc00000) = false ∧
    WpD.fitsInt64 (f64Trunc 0x4340000000000000) = true := by decide

/-- The same for `AsID` itself on a platform `P` given as a function of the operand's bits (so
    operand-dependent answers like arm64's NaN ↦ 0 / saturation are covered): a float64 / float32
    value in an implementation-defined case is rejected whenever the platform's answer for it is
    outside `[1, 2^53]`. -/
theorem asid_float_oor_rejected_on (P : WpD.FloatConv) :
    (∀ b : UInt64, WpD.fitsInt64 (f64Trunc b) = false →
      ¬ (1 ≤ (P.oor64 b).toInt ∧ (P.oor64 b).toInt ≤ 2 ^ 53) → WpD.asIDP P (.float64 b) = none) ∧
    (∀ b : UInt32, WpD.fitsInt64 (f32Trunc b) = false →
      ¬ (1 ≤ (P.oor32 b).toInt ∧ (P.oor32 b).toInt ≤ 2 ^ 53) → WpD.asIDP P (.float32 b) = none) :=
  ⟨fun _ hb h => asid_float_oor_rejected _ h _ hb, fun _ hb h => asid_float_oor_rejected _ h _ hb⟩

/-- amd64 (the existing model: `asIDP amd64 = asID`) and arm64 are benign, and so is every platform
    whose conversion only ever yields 0, MinInt64 or MaxInt64 in the implementation-defined cases
    (all Go ports known to us). -/
theorem asid_known_platforms_benign :
    (∀ n, WpD.asIDP WpD.amd64 n = asID n) ∧ WpD.amd64.Benign ∧ WpD.arm64.Benign ∧
    ∀ P : WpD.FloatConv,
      (∀ b, P.oor64 b = 0 ∨ P.oor64 b = Int64.minValue ∨ P.oor64 b = Int64.maxValue) →
      (∀ b, P.oor32 b = 0 ∨ P.oor32 b = Int64.minValue ∨ P.oor32 b = Int64.maxValue) → P.Benign :=
  ⟨WpD.asIDP_amd64, WpD.amd64_benign, WpD.arm64_benign,
   fun _ h64 h32 => ⟨fun b _ => WpD.known_values_outside _ (h64 b), fun b _ => WpD.known_values_outside _ (h32 b)⟩⟩

/-- PLATFORM INDEPENDENCE of `asid_iff_value`: on every benign platform (`FloatConv.Benign`: its
    answers in the implementation-defined cases are outside `[1, 2^53]`), for all nine
    representations and every bit pattern, `AsID` accepts iff the mathematical value lies in
    `[1, 2^53]`, and the id is that value.  This replaces the prose "every platform's choice is
    rejected" of the trusted base by a theorem with the exact side condition. -/
theorem asid_iff_value_on (P : WpD.FloatConv) (hP : P.Benign) (n : GoNum) (id : UInt64) :
    WpD.asIDP P n = some id ↔ ∃ v, n.value = some v ∧ 1 ≤ v ∧ v ≤ 2 ^ 53 ∧ (id.toNat : Int) = v := by
  rw [WpD.asIDP_eq_asID P hP n, asid_iff_value]

example : WpD.asIDP WpD.arm64 (.float64 0x7ff8000000000000) = none ∧
    WpD.asIDP WpD.arm64 (.float64 0x43E158E460913D00) = none ∧
    WpD.asIDP WpD.arm64 (.float64 0x4340000000000000) = some 9007199254740992 := by decide

/-- "`AsID` behaves the same on EVERY platform", without the side condition — the literal reading of
    the trusted-base sentence "every platform's choice is rejected by AsID". -/
def asid_every_platform_full : Prop := ∀ (P : WpD.FloatConv) (n : GoNum), WpD.asIDP P n = asID n

/-- … is FALSE as a statement about the Go language (the honest counter-witness the audit asks
    for): the spec allows a conversion that yields, say, 7 for NaN; on such a HYPOTHETICAL platform
    `AsID(math.NaN())` would be `(7, true)` although NaN denotes no integer.  No existing Go port
    behaves so (`asid_known_platforms_benign`); the side condition `Benign` is what has to be
    trusted per platform. -/
theorem asid_every_platform_full_fails : ¬ asid_every_platform_full := by
  intro h
  have := h WpD.hypothetical7 (.float64 0x7ff8000000000000)
  revert this; decide

example : WpD.asIDP WpD.hypothetical7 (.float64 0x7ff8000000000000) = some 7 ∧
    (GoNum.float64 0x7ff8000000000000).value = none := by decide

/-- Audit a2/d7: a value whose dynamic type is none of the nine cases of `AsInt64`'s switch
    (int8/int16/uint8/uint16, string, nil, json.Number, …) is rejected by `AsID`.  (`GoVal`,
    `asInt64Any`, `asIDAny` are WpD model ADDITIONS in Nexus/Ids/WpDAsID.lean — the fall-through
    `return 0, false` of the switch and `AsID`'s `if …; ok` — they are hand-written and tied only by
    reading; `gen ids` already shape-checks that the switch has no other case and no default.) -/
theorem asid_other_rejected : WpD.asIDAny .other = none := rfl

/-- "ids read from messages are accepted ONLY within that range", over every dynamic type:
    accepted iff the value is one of the nine numeric representations AND its mathematical value
    lies in `[1, 2^53]`; the id is that value. -/
theorem asid_any_iff (v : WpD.GoVal) (id : UInt64) :
    WpD.asIDAny v = some id ↔
      ∃ n, v = .num n ∧ ∃ x, n.value = some x ∧ 1 ≤ x ∧ x ≤ 2 ^ 53 ∧ (id.toNat : Int) = x := by
  cases v with
  | other =>
    constructor
    · intro h; cases h
    · rintro ⟨n, hn, _⟩; cases hn
  | num n =>
    have e : WpD.asIDAny (.num n) = asID n := rfl
    rw [e, asid_iff_value]
    constructor
    · intro h; exact ⟨n, rfl, h⟩
    · rintro ⟨n', hn, h⟩; cases hn; exact h

example : WpD.asIDAny (.num (.int64 7)) = some 7 ∧ WpD.asIDAny (.num (.int64 0)) = none ∧
    WpD.asInt64Any .other = (0, false) := by decide


end Nexus.C19
