/-
  C12 (allocation model) — "in-process recipients get private copies of details and payload".

  Property text (the clause addressed here).  "[…] The details of a message delivered to one recipient
  […] never change after delivery; in-process recipients get private copies of details and payload […]."

  The L2 value model (`Nexus.L2.eventDetails`, `mkEvent`) cannot express aliasing: it computes VALUES.
  This file is a small model of the ALLOCATIONS of `prepareEvent` (router/broker.go): every container
  (a Go map or a slice's backing array) is named by a reference, and `make` / `maps.Copy` into a new map /
  `slices.Clone` draw a fresh reference from a counter — the heap never hands out an address twice
  while the object lives, and the harness keeps every delivered EVENT alive.

      details := make(wamp.Dict, …)            -- one per recipient (d1)
      event.Arguments, event.ArgumentsKw = msg.Arguments, msg.ArgumentsKw     -- shared with the PUBLISH
      if subscriber.IsLocal() {
          options := make(…); event.Details = options                         -- d2, fresh
          if msg.Arguments != nil   { event.Arguments   = slices.Clone(…) }   -- fresh
          if msg.ArgumentsKw != nil { event.ArgumentsKw = (new map, copied) } -- fresh
      }

  A container that is absent (`nil`; for `Arguments` also the empty slice, whose clone has no backing
  array of its own and cannot be written through) has no reference: `Option Nat`.

  clause                                                                theorem
  --------------------------------------------------------------------  -----------------------------------
  one recipient: an in-process recipient's containers are all fresh
    (drawn from the counter during this call), pairwise distinct; a
    remote recipient's details are fresh, its payload is the
    publisher's (it is serialised, never handed over)                    C12_alloc_prepareEvent
  one publication, any list of recipients: the references handed to
    in-process recipients are pairwise distinct (across recipients
    and within one) and fresh                                            C12_alloc_publication
  a whole run — any sequence of publications, each with containers
    that exist when it is published, each to any recipients: ALL
    references handed to in-process recipients in the run are pairwise
    distinct, and none is a container of the publication it was made
    for (nor of any object that existed when it was made)                C12_alloc_run

  THE TIE TO THE GO CODE IS NOT A THEOREM.  That `prepareEvent` allocates as modelled here is checked
  on every run by the pointer check of the l2 correspondence family (/verif/harness/l2/impl.go,
  `world.aliased`): it records the addresses (`reflect.Value.Pointer`) of `Details`, `Arguments` and
  `ArgumentsKw` of every EVENT delivered to an in-process client and reports any address seen before —
  for another recipient, or an earlier EVENT of the same recipient.  The theorems below say what that
  check can never find IF the code allocates as modelled; the family says that it does on the inputs it
  runs.  The clause "never change after delivery" is likewise covered only by the family (re-reading
  at quiescence).
-/
namespace Nexus.C12.Alloc

/- A container (a map, or the backing array of a slice) is named by a reference: a natural number, the value of the
   allocation counter when it was made.  References are written `Nat` throughout. -/

/-- the containers of a PUBLISH as it reaches `prepareEvent`: the details dict `broker.publish` built, the
    publisher's `Arguments` and `ArgumentsKw` (absent if nil) -/
structure PubRefs where
  details : Nat
  args : Option Nat
  kw : Option Nat

/-- the containers of an EVENT -/
structure EvRefs where
  details : Nat
  args : Option Nat
  kw : Option Nat

def PubRefs.all (p : PubRefs) : List Nat := p.details :: (p.args.toList ++ p.kw.toList)
def EvRefs.all (e : EvRefs) : List Nat := e.details :: (e.args.toList ++ e.kw.toList)

/-- `slices.Clone` / "new map, copied": a fresh reference if the container is present -/
def clone (c : Option Nat) (next : Nat) : Option Nat × Nat :=
  match c with
  | some _ => (some next, next + 1)
  | none => (none, next)

/-- `prepareEvent` for one recipient; `next` is the allocation counter -/
def prepareEvent (p : PubRefs) (isLocal : Bool) (next : Nat) : EvRefs × Nat :=
  let d1 := next                       -- details := make(...)
  let next := next + 1
  if isLocal then
    let d2 := next                     -- options := make(...); event.Details = options
    let next := next + 1
    let (a, next) := clone p.args next
    let (k, next) := clone p.kw next
    ({ details := d2, args := a, kw := k }, next)
  else ({ details := d1, args := p.args, kw := p.kw }, next)

/-- one publication to the recipients `rs` (true = in-process), in order -/
def publishTo (p : PubRefs) : List Bool → Nat → List (Bool × EvRefs) × Nat
  | [], next => ([], next)
  | l :: rs, next =>
    let (e, next) := prepareEvent p l next
    let (es, next) := publishTo p rs next
    ((l, e) :: es, next)

/-- the references handed to in-process recipients -/
def localRefs (out : List (Bool × EvRefs)) : List Nat := (out.filter (·.1)).flatMap (·.2.all)

/-! ### increasing lists -/

/-- strictly increasing, within [lo, hi) -/
def Incr (lo : Nat) (l : List Nat) (hi : Nat) : Prop := l.Pairwise (· < ·) ∧ ∀ x ∈ l, lo ≤ x ∧ x < hi

theorem Incr.nil {lo hi : Nat} : Incr lo [] hi := ⟨List.Pairwise.nil, fun _ h => nomatch h⟩

theorem Incr.append {a b c : Nat} {l1 l2 : List Nat} (h1 : Incr a l1 b) (h2 : Incr b l2 c) (hab : a ≤ b) (hbc : b ≤ c) :
    Incr a (l1 ++ l2) c := by
  refine ⟨List.pairwise_append.mpr ⟨h1.1, h2.1, fun x hx y hy => ?_⟩, fun x hx => ?_⟩
  · have := (h1.2 x hx).2
    have := (h2.2 y hy).1
    omega
  · rcases List.mem_append.mp hx with h | h
    · have := h1.2 x h; omega
    · have := h2.2 x h; omega

theorem Incr.nodup {lo hi : Nat} {l : List Nat} (h : Incr lo l hi) : l.Nodup :=
  h.1.imp (fun hab => Nat.ne_of_lt hab)

theorem clone_spec (c : Option Nat) (next : Nat) :
    next ≤ (clone c next).2 ∧ Incr next (clone c next).1.toList (clone c next).2 ∧
    ((clone c next).1.isSome = c.isSome) := by
  cases c with
  | none => exact ⟨Nat.le_refl _, Incr.nil, rfl⟩
  | some r =>
    refine ⟨Nat.le_succ _, ⟨by simp [clone], ?_⟩, rfl⟩
    intro x hx
    simp [clone] at hx
    subst hx
    exact ⟨Nat.le_refl _, Nat.lt_succ_self _⟩

/-! ### one recipient -/

end Nexus.C12.Alloc

namespace Nexus.C12
open Alloc

/-- ONE RECIPIENT.  `prepareEvent` only advances the counter.  For an in-process recipient all containers of the EVENT
    are fresh — drawn from the counter during this call —, strictly increasing (so pairwise distinct), and a
    container is present iff the publisher's is.  For a remote recipient the details are fresh and the payload
    containers are the publisher's. -/
theorem C12_alloc_prepareEvent (p : PubRefs) (isLocal : Bool) (next : Nat) :
    next < (prepareEvent p isLocal next).2 ∧
    (isLocal = true →
      Incr next (prepareEvent p isLocal next).1.all (prepareEvent p isLocal next).2 ∧
      (prepareEvent p isLocal next).1.args.isSome = p.args.isSome ∧
      (prepareEvent p isLocal next).1.kw.isSome = p.kw.isSome) ∧
    (isLocal = false →
      (prepareEvent p isLocal next).1.details = next ∧ (prepareEvent p isLocal next).1.args = p.args ∧
      (prepareEvent p isLocal next).1.kw = p.kw) := by
  cases isLocal with
  | false =>
    exact ⟨Nat.lt_succ_self _, fun h => Bool.noConfusion h, fun _ => ⟨rfl, rfl, rfl⟩⟩
  | true =>
    obtain ⟨a1, a2, a3⟩ := clone_spec p.args (next + 1 + 1)
    obtain ⟨k1, k2, k3⟩ := clone_spec p.kw (clone p.args (next + 1 + 1)).2
    have hres : prepareEvent p true next =
        ({ details := next + 1, args := (clone p.args (next + 1 + 1)).1,
           kw := (clone p.kw (clone p.args (next + 1 + 1)).2).1 }, (clone p.kw (clone p.args (next + 1 + 1)).2).2) := rfl
    rw [hres]
    refine ⟨by dsimp only; omega, fun _ => ⟨?_, a3, k3⟩, fun h => Bool.noConfusion h⟩
    show Incr next ((next + 1) :: ((clone p.args (next + 1 + 1)).1.toList ++
      (clone p.kw (clone p.args (next + 1 + 1)).2).1.toList)) _
    have hd : Incr next [next + 1] (next + 1 + 1) :=
      ⟨by simp, fun x hx => by simp at hx; subst hx; omega⟩
    have := Incr.append hd (Incr.append a2 k2 a1 k1) (by omega) (by omega)
    simpa using this

end Nexus.C12

namespace Nexus.C12.Alloc

/-- non-vacuity: an in-process recipient of a PUBLISH with arguments and no keyword arguments, counter at 10:
    details 11 (10 was the first `make`, replaced), arguments 12 -/
example : (prepareEvent { details := 3, args := some 4, kw := none } true 10).1.all = [11, 12] ∧
    (prepareEvent { details := 3, args := some 4, kw := none } true 10).2 = 13 ∧
    (prepareEvent { details := 3, args := some 4, kw := none } false 10).1.all = [10, 4] := by decide

/-! ### one publication -/

theorem publishTo_spec (p : PubRefs) : ∀ (rs : List Bool) (next : Nat),
    next ≤ (publishTo p rs next).2 ∧ Incr next (localRefs (publishTo p rs next).1) (publishTo p rs next).2 ∧
    (publishTo p rs next).1.map (·.1) = rs
  | [], next => ⟨Nat.le_refl _, Incr.nil, rfl⟩
  | l :: rs, next => by
    obtain ⟨h1, h2, h3⟩ := C12_alloc_prepareEvent p l next
    obtain ⟨i1, i2, i3⟩ := publishTo_spec p rs (prepareEvent p l next).2
    have hres : publishTo p (l :: rs) next =
        ((l, (prepareEvent p l next).1) :: (publishTo p rs (prepareEvent p l next).2).1,
         (publishTo p rs (prepareEvent p l next).2).2) := rfl
    rw [hres]
    refine ⟨by dsimp only; omega, ?_, by simp [i3]⟩
    dsimp only
    cases l with
    | false =>
      have : localRefs ((false, (prepareEvent p false next).1) :: (publishTo p rs (prepareEvent p false next).2).1) =
          localRefs (publishTo p rs (prepareEvent p false next).2).1 := by simp [localRefs]
      rw [this]
      exact ⟨i2.1, fun x hx => by have := i2.2 x hx; omega⟩
    | true =>
      have : localRefs ((true, (prepareEvent p true next).1) :: (publishTo p rs (prepareEvent p true next).2).1) =
          (prepareEvent p true next).1.all ++ localRefs (publishTo p rs (prepareEvent p true next).2).1 := by
        simp [localRefs]
      rw [this]
      exact Incr.append (h2 rfl).1 i2 (by omega) i1

end Nexus.C12.Alloc

namespace Nexus.C12
open Alloc

/-- ONE PUBLICATION, any recipients in any order: the references handed to its in-process recipients are pairwise
    distinct — between recipients and within one EVENT — and all fresh (at least the counter at the start, so different
    from every container that existed then, in particular the publisher's). -/
theorem C12_alloc_publication (p : PubRefs) (rs : List Bool) (next : Nat) :
    (localRefs (publishTo p rs next).1).Nodup ∧ ∀ x ∈ localRefs (publishTo p rs next).1, next ≤ x :=
  ⟨(publishTo_spec p rs next).2.1.nodup, fun x hx => ((publishTo_spec p rs next).2.1.2 x hx).1⟩

end Nexus.C12

namespace Nexus.C12.Alloc

/-! ### a run -/

/-- a publication: its containers and its recipients -/
structure Pub where
  refs : PubRefs
  recips : List Bool

/-- a sequence of publications; between two of them the heap may allocate `gap` further objects (the next PUBLISH
    message, session tables, …) -/
def run : List (Pub × Nat) → Nat → List (Pub × List (Bool × EvRefs)) × Nat
  | [], next => ([], next)
  | (pb, gap) :: rest, next =>
    let (out, next) := publishTo pb.refs pb.recips next
    let (outs, next) := run rest (next + gap)
    ((pb, out) :: outs, next)

/-- all references handed to in-process recipients in a run, in order -/
def runLocalRefs (res : List (Pub × List (Bool × EvRefs))) : List Nat := res.flatMap (fun x => localRefs x.2)

theorem run_spec : ∀ (ps : List (Pub × Nat)) (next : Nat),
    next ≤ (run ps next).2 ∧ Incr next (runLocalRefs (run ps next).1) (run ps next).2
  | [], next => ⟨Nat.le_refl _, Incr.nil⟩
  | (pb, gap) :: rest, next => by
    obtain ⟨h1, h2, _⟩ := publishTo_spec pb.refs pb.recips next
    obtain ⟨i1, i2⟩ := run_spec rest ((publishTo pb.refs pb.recips next).2 + gap)
    have hres : run ((pb, gap) :: rest) next =
        ((pb, (publishTo pb.refs pb.recips next).1) :: (run rest ((publishTo pb.refs pb.recips next).2 + gap)).1,
         (run rest ((publishTo pb.refs pb.recips next).2 + gap)).2) := rfl
    rw [hres]
    refine ⟨by dsimp only; omega, ?_⟩
    show Incr next (localRefs (publishTo pb.refs pb.recips next).1 ++
      runLocalRefs (run rest ((publishTo pb.refs pb.recips next).2 + gap)).1) _
    have i2' : Incr (publishTo pb.refs pb.recips next).2
        (runLocalRefs (run rest ((publishTo pb.refs pb.recips next).2 + gap)).1)
        (run rest ((publishTo pb.refs pb.recips next).2 + gap)).2 :=
      ⟨i2.1, fun x hx => by have := i2.2 x hx; omega⟩
    exact Incr.append h2 i2' h1 (by omega)

/-- every publication of the run, with the counter at which it is made -/
def runAt : List (Pub × Nat) → Nat → List (Pub × Nat × List (Bool × EvRefs))
  | [], _ => []
  | (pb, gap) :: rest, next =>
    (pb, next, (publishTo pb.refs pb.recips next).1) :: runAt rest ((publishTo pb.refs pb.recips next).2 + gap)

end Nexus.C12.Alloc

namespace Nexus.C12
open Alloc

/-- A WHOLE RUN: any sequence of publications (any containers, any recipients, any other allocations in between).
    * All references handed to in-process recipients over the run are pairwise distinct.
    * Each is fresh when made: at least the counter value at which its publication is processed — hence different
      from every container that existed at that moment, in particular from the containers of its own PUBLISH
      (`pb.refs.all`, when these exist then: `< at`) and of every earlier one. -/
theorem C12_alloc_run (ps : List (Pub × Nat)) (next : Nat) :
    (runLocalRefs (run ps next).1).Nodup ∧
    ∀ e ∈ runAt ps next, ∀ x ∈ localRefs e.2.2, e.2.1 ≤ x ∧
      ((∀ y ∈ e.1.refs.all, y < e.2.1) → x ∉ e.1.refs.all) := by
  refine ⟨(run_spec ps next).2.nodup, ?_⟩
  induction ps generalizing next with
  | nil => intro e he; cases he
  | cons a rest ih =>
    obtain ⟨pb, gap⟩ := a
    intro e he x hx
    rcases List.mem_cons.mp he with rfl | he
    · have hge := (C12_alloc_publication pb.refs pb.recips next).2 x hx
      refine ⟨hge, fun hall hmem => ?_⟩
      have h1 : x < next := hall x hmem
      omega
    · exact ih _ e he x hx

end Nexus.C12

namespace Nexus.C12.Alloc

/-- non-vacuity: two publications (the first to an in-process, a remote and another in-process recipient, the second —
    after 5 other allocations — to an in-process recipient), counter starting at 100 while the publishers' containers
    are 1, 2, 3 and 50, 51: the in-process recipients get 101, 102, 103 / 106, 107, 108 / 115, 116 — pairwise distinct,
    none of 1, 2, 3, 50, 51 — while the remote recipient shares the publisher's payload 2, 3 -/
example :
    let p1 : Pub := { refs := { details := 1, args := some 2, kw := some 3 }, recips := [true, false, true] }
    let p2 : Pub := { refs := { details := 50, args := some 51, kw := none }, recips := [true] }
    runLocalRefs (run [(p1, 5), (p2, 0)] 100).1 = [101, 102, 103, 106, 107, 108, 115, 116] ∧
    ((run [(p1, 5), (p2, 0)] 100).1.map (fun x => x.2.map (fun y => (y.1, y.2.all)))) =
      [[(true, [101, 102, 103]), (false, [104, 2, 3]), (true, [106, 107, 108])], [(true, [115, 116])]] := by
  decide

end Nexus.C12.Alloc

