/-
  C18 — Meta API and meta events mirror the realm's actual state.

  Property text.  "The session, registration and subscription meta procedures answer consistently
  with the realm's state as of all requests completed before the call: counts equal the lengths of
  the lists, every listed id can be fetched, lookup/match agree with how a call or publication to
  that URI would actually be routed, and unknown ids yield the documented errors.  Each change is
  announced by exactly one meta event of the right kind and order (session on_join/on_leave;
  on_create before on_subscribe/on_register; on_unsubscribe/on_unregister before on_delete), to
  that realm's subscribers of the meta topic (subscription meta events are not echoed to the
  session that caused them), and a refused or ineffective request announces nothing; kill
  procedures end exactly the targeted sessions with the given reason and never the caller;
  testaments are published or flushed exactly as requested."

  The theorems are about `Realm.metaProc` (router/realm.go `metaProcedureHandler` and the handlers
  in realm.go / dealer.go / broker.go it dispatches to) for EVERY realm state `r` (no invariant
  is needed: a meta procedure reads the very tables the router routes with), and about the exact
  outputs of the state-changing transitions (`stepOp`, `Realm.leave`, `Broker.syncSubscribe`,
  `Broker.syncUnsubscribe`, `syncRegister`, `syncUnregister`).  The answer `(m, r')` of a meta
  procedure is the message handed back through the meta session and the new realm state.

  clause                                                          theorem
  --------------------------------------------------------------  -------------------------------
  session.count = length of session.list (same filter; invalid     C18_session_count_list
  filter: both invalid_argument); no filter: all attached sessions
  every listed session id can be fetched with session.get          C18_session_get_listed
  unknown / malformed session id → wamp.error.no_such_session      C18_session_get_unknown
  registration.list lists exactly the ids of `ds.d.regs` by kind   C18_reg_list
  every listed registration can be fetched; count_callees =        C18_reg_get_listed
  length of list_callees
  unknown registration id → wamp.error.no_such_registration        C18_reg_unknown
  (get, list_callees, count_callees)
  registration.match p = the registration a CALL to p is routed    C18_reg_match_routes
  to (`Dealer.matchProcedure`, the first thing `syncCall` does);
  registration.lookup = the exact-table lookup (uri, match kind)
  subscription.list lists exactly the ids of `broker.subs`         C18_sub_list
  every listed subscription can be fetched (subscription.get)      C18_sub_get_listed
  count_subscribers = length of list_subscribers, for EVERY       C18_sub_count_list
  existing subscription (also a memberless pre-created history
  subscription: empty list, count 0)
  the details shown by session.get / carried by on_join never     C18_no_transport_auth
  contain a `transport.auth` dict
  unknown subscription id → wamp.error.no_such_subscription        C18_sub_unknown
  subscription.match t = the subscriptions a PUBLISH to t is        C18_sub_match_routes
  delivered through (`Broker.matching`, what `syncPublish`
  iterates); subscription.lookup = exact-table lookup
  join → exactly one on_join (cleaned details)                     C18_events_join
  leave (every mode but the realm shutdown, kill_all included)   C18_events_leave
  → registration meta events, then testaments, on_leave LAST;
  shutdown: silent by design
  SUBSCRIBE creating → on_create then on_subscribe; joining →      C18_events_subscribe
  on_subscribe only; already a member → none
  UNSUBSCRIBE → on_unsubscribe then on_delete iff emptied;         C18_events_unsubscribe
  not a member / unknown id → ERROR only, no meta event, no change
  a departing session's memberships are announced like an          C18_events_departure
  UNSUBSCRIBE: per subscription on_unsubscribe, then on_delete
  iff the subscription was deleted with it; nothing else
  subscription meta events never go to the causing session         C18_events_not_echoed
  REGISTER new → [on_create, on_register]; shared join →            C18_events_register
  [on_register]; refused → none, state unchanged; `wamp.*`
  (meta session) registrations announce nothing
  UNREGISTER → [on_unregister] then on_delete iff deleted;         C18_events_unregister
  refused → none
  kill procedures: exactly the selected sessions that are not      C18_kill
  already ending get the GOODBYE with the given reason/message;
  never the caller
  add_testament stores under the caller, in the requested scope     C18_testament_add, C18_testament_flush,
  (default destroyed) — nothing for a caller that is no longer      C18_testament_add_unattached
  attached; flush_testaments empties exactly the scope

  -- work package A (audit A §3) --------------------------------------------------------------------
  WHO receives a subscription meta event, exactly once, with what:   C18_meta_event_exact
  through each subscription `s` of the broker, session `k` gets
  exactly one EVENT (id of `s`, the publication id, topic detail
  iff `s` is a pattern subscription, the arguments) iff `s` matches
  the meta topic, `k` is a member and `k` did not cause the event;
  nothing through ids that name no subscription; every send has
  that form
  kill procedures end EXACTLY the targeted sessions: the full        C18_kill_exact, C18_kill_exact_session,
  result of `metaProc` with the selector given declaratively —       C18_kill_errors, C18_kill_targets
  leave tasks (GOODBYE reason/message, `all` for kill_all) for
  exactly the attached sessions matching the selector, not the
  caller, not already ending, in `clients` order; their keys
  appended to `ending`; the count answered; error cases unchanged
  testaments (and every other meta publication) are published        C18_testament_published, C18_testament_ppt,
  exactly as requested: valid topic, disclosure not refused →        C18_testament_dropped, C18_testament_reachable,
  one publication by the meta session, delivered as C01 says, an     C18_metaS_const
  `acknowledge` option changes nothing, `ppt_*` options are passed
  through (the meta session has the feature in every reachable
  realm); invalid topic or refused disclose_me → DROPPED, nobody     C18_testament_cases, C18_testament_ppt
  is told (recorded behaviour)
  meta topics are valid URIs (strict or not): on_join / on_leave /   C18_meta_topics_valid, C18_session_events_published
  registration events are never dropped for URI reasons
  first steps of the meta-call round trip: the `metaInvoke` task     C18_meta_invoke_task, C18_meta_answer_task,
  runs `metaProc` on the state at that moment and queues the         C18_meta_call_drain
  answer; the answer is the meta session's YIELD / ERROR (authz
  never applies to the meta session)
  a CALL of a meta procedure by an attached client is answered in    C18_call_roundtrip_stmt (statement),
  the same step with RESULT / ERROR rendered from `metaProc` on      C18_call_roundtrip_stmt_holds (every
  the state after the CALL was routed — in EVERY reachable realm:    reachable realm), C18_call_roundtrip_partial
  the meta registrations are intact (`Realm.Reachable.metaRegs`)     (state level), C18_meta_regs_intact,
                                                                     C18_meta_answer_delivered
  registration events on leave: per registration the session is a   C18_events_leave_regs,
  callee of, in callee-index order, on_unregister then on_delete     C18_events_leave_exact (state level),
                                                                     C18_events_leave_exact_reachable,
                                                                     C18_events_leave_regs_reachable
  iff it was the last callee; nothing for other registrations;
  all tasks of a departure = pending ++ these ++ testaments ++ [on_leave]

  HISTORY.  An earlier version of this file proved `C18_sub_count_list_full_fails`: for a
  subscription without subscribers (a pre-created history subscription) `list_subscribers` answered
  ERROR no_such_subscription while `count_subscribers` answered 0.  The real router did the same;
  it was fixed in /repo a37425d (list_subscribers answers the empty list for an existing
  subscription), the model follows, and the clause is now proved at full strength.

  ASSUMPTION made explicit where needed: ids handed to a meta procedure are read with `AsID`, which
  accepts `1 … 2^53`; session ids (`sidOf k = 2^40 + k`) and router-assigned ids are in that range
  for every id a history can produce within the "fewer than 2^53 ids" assumption of DESIGN §3.
-/
import Nexus.L2.Proofs.RealmMetaEvents
import Nexus.L2.Proofs.RealmLeave
import Nexus.L2.Proofs.WpAC18Call
import Nexus.L2.Proofs.RealmMetaRegs

namespace Nexus.C18
open Nexus.L2 Nexus.L2.Realm Nexus.Gen.N

/-! ## Sessions -/

/-- `session.count` and `session.list` with the same arguments: either both refuse the filter
    (invalid_argument) or they answer the length of, resp. the ids of, the same selection of
    attached sessions; without arguments the selection is all of `r.clients`.  Neither changes the
    state. -/
theorem C18_session_count_list (r : Realm) (req : Nat) (details : Dict) (args : List WVal) (kw : Dict) :
    (metaProc r MetaProcSessionCount req details args kw = (mErr req ErrInvalidArgument, r) ∧
     metaProc r MetaProcSessionList req details args kw = (mErr req ErrInvalidArgument, r)) ∨
    (∃ sel : List Session,
      metaProc r MetaProcSessionCount req details args kw = (mYield req [.int sel.length], r) ∧
      metaProc r MetaProcSessionList req details args kw = (mYield req [.list (sel.map (fun c => sidVal c.key))], r) ∧
      (∀ c ∈ sel, c ∈ r.clients) ∧ (args = [] → sel = r.clients)) := by
  rw [metaProc_sessionCount, metaProc_sessionList]
  cases hf : sessFilter args with
  | none => exact Or.inl ⟨rfl, rfl⟩
  | some f =>
    refine Or.inr ⟨sessSel r f, rfl, rfl, fun c hc => (List.mem_filter.mp hc).1, ?_⟩
    intro ha
    subst ha
    have : f = [] := by simpa [sessFilter] using hf.symm
    subst this
    simp [sessSel]

/-- Every session the list shows can be fetched: `session.get` of the id of an attached session
    answers with (cleaned) details of a session with that id, never with an error. -/
theorem C18_session_get_listed (r : Realm) (req : Nat) (details : Dict) (kw : Dict) (c : Session)
    (hc : c ∈ r.clients) (hid : sidOf c.key ≤ maxID) :
    ∃ s ∈ r.clients, sidOf s.key = sidOf c.key ∧
      metaProc r MetaProcSessionGet req details [sidVal c.key] kw = (mYield req [.dict (r.cleanDetails s.details)], r) := by
  rw [metaProc_sessionGet]
  have hpos : 0 < sidOf c.key := by unfold sidOf sidBase; split <;> omega
  have hasid : (sidVal c.key).asID = some (sidOf c.key) := by
    unfold sidVal WVal.asID
    simp only
    rw [if_pos ⟨by exact_mod_cast hpos, by exact_mod_cast hid⟩]
    simp
  simp only [hasid]
  cases hk : r.keyOfSid (sidOf c.key) with
  | none =>
    have := List.find?_eq_none.mp hk c hc
    simp at this
  | some s =>
    have hs := List.mem_of_find?_eq_some hk
    have he : sidOf s.key = sidOf c.key := by simpa using List.find?_some hk
    exact ⟨s, hs, he, rfl⟩

example : sidOf 5 ≤ maxID := by decide

/-- Unknown or malformed session ids give wamp.error.no_such_session. -/
theorem C18_session_get_unknown (r : Realm) (req : Nat) (details : Dict) (kw : Dict) :
    metaProc r MetaProcSessionGet req details [] kw = (mErr req ErrNoSuchSession, r) ∧
    (∀ a rest, a.asID = none → metaProc r MetaProcSessionGet req details (a :: rest) kw = (mErr req ErrNoSuchSession, r)) ∧
    (∀ a rest sid, a.asID = some sid → (∀ c ∈ r.clients, sidOf c.key ≠ sid) →
      metaProc r MetaProcSessionGet req details (a :: rest) kw = (mErr req ErrNoSuchSession, r)) := by
  refine ⟨by rw [metaProc_sessionGet], ?_, ?_⟩
  · intro a rest h
    rw [metaProc_sessionGet]; simp only [h]
  · intro a rest sid h hno
    rw [metaProc_sessionGet]
    have : r.keyOfSid sid = none := List.find?_eq_none.mpr (fun c hc => by simpa using hno c hc)
    simp only [h, this]

/-- `cleanSessionDetails`: whatever the session details are (strict mode or not), the dict answered
    by `wamp.session.get` and carried by `wamp.session.on_join` (`r.cleanDetails details`) never has a
    `transport` dict containing an `auth` dict. -/
theorem C18_no_transport_auth (r : Realm) (details : Dict) (t a : Dict)
    (h : Dict.get? (r.cleanDetails details) "transport" = some (.dict t)) : Dict.get? t "auth" ≠ some (.dict a) :=
  cleanDetails_no_transport_auth r details t a h

-- non-vacuity: details with transport.auth; the shown transport keeps the other keys
example : Dict.get? (({} : Realm).cleanDetails [("transport", .dict [("type", .str "ws"), ("auth", .dict [("pw", .str "x")])])])
    "transport" = some (.dict [("type", .str "ws")]) := rfl

/-! ## Registrations -/

/-- `registration.list` answers exactly the ids of the registration table, split by match kind. -/
theorem C18_reg_list (r : Realm) (req : Nat) (details : Dict) (args : List WVal) (kw : Dict) :
    metaProc r MetaProcRegList req details args kw =
      (mYield req [.dict [(MatchExact, .list (((r.ds.d.regs.filter (fun g => g.kind == .exact)).map (fun g => .int g.id)))),
                          (MatchPrefix, .list (((r.ds.d.regs.filter (fun g => g.kind == .pfx)).map (fun g => .int g.id)))),
                          (MatchWildcard, .list (((r.ds.d.regs.filter (fun g => g.kind == .wild)).map (fun g => .int g.id))))]], r) := by
  rw [metaProc_regList]
  simp [idLists, List.filter_map, List.map_map, Function.comp_def]

/-- Every listed registration can be fetched, and its callee count equals the length of its callee
    list: for the id of any registration of the table, `get`, `list_callees`, `count_callees`
    answer about one and the same registration `g'` with that id (the registration itself when
    ids are distinct, which `DealerInv` guarantees). -/
theorem C18_reg_get_listed (r : Realm) (req : Nat) (details : Dict) (kw : Dict) (g : Reg) (hg : g ∈ r.ds.d.regs)
    (hpos : 0 < g.id) (hid : g.id ≤ maxID) :
    ∃ g' ∈ r.ds.d.regs, g'.id = g.id ∧
      metaProc r MetaProcRegGet req details [.int g.id] kw =
        (mYield req [regDetailsDict g'.id g'.proc g'.«match» g'.policy], r) ∧
      metaProc r MetaProcRegListCallees req details [.int g.id] kw = (mYield req [.list (g'.callees.map sidVal)], r) ∧
      metaProc r MetaProcRegCountCallees req details [.int g.id] kw =
        (mYield req [.int (g'.callees.map sidVal).length], r) := by
  have hasid : (WVal.int g.id).asID = some g.id := by
    unfold WVal.asID
    simp only
    rw [if_pos ⟨by exact_mod_cast hpos, by exact_mod_cast hid⟩]
    simp
  have harg : regArg r [.int g.id] = r.ds.d.findReg g.id := by simp [regArg, hasid]
  cases hf : r.ds.d.findReg g.id with
  | none =>
    have := List.find?_eq_none.mp hf g hg
    simp at this
  | some g' =>
    have hm := List.mem_of_find?_eq_some hf
    have he : g'.id = g.id := by simpa using List.find?_some hf
    refine ⟨g', hm, he, ?_, ?_, ?_⟩
    · rw [metaProc_regGet, harg, hf]
    · rw [metaProc_regListCallees, harg, hf]
    · rw [metaProc_regCountCallees, harg, hf]; simp

/-- Unknown or malformed registration ids give wamp.error.no_such_registration. -/
theorem C18_reg_unknown (r : Realm) (req : Nat) (details : Dict) (args : List WVal) (kw : Dict)
    (h : regArg r args = none) :
    metaProc r MetaProcRegGet req details args kw = (mErr req ErrNoSuchRegistration, r) ∧
    metaProc r MetaProcRegListCallees req details args kw = (mErr req ErrNoSuchRegistration, r) ∧
    metaProc r MetaProcRegCountCallees req details args kw = (mErr req ErrNoSuchRegistration, r) := by
  rw [metaProc_regGet, metaProc_regListCallees, metaProc_regCountCallees, h]
  exact ⟨rfl, rfl, rfl⟩

-- `regArg` is none for: no argument, a non-id argument, an id that is not in the table
example (r : Realm) : regArg r [] = none ∧ regArg r [.str "x"] = none ∧ regArg r [.int 0] = none := ⟨rfl, rfl, rfl⟩
example (r : Realm) (id : Nat) (h : ∀ g ∈ r.ds.d.regs, g.id ≠ id) (a : WVal) (ha : a.asID = some id) :
    regArg r [a] = none := by
  simp only [regArg, ha]
  exact List.find?_eq_none.mpr (fun g hg => by simpa using h g hg)

/-- `registration.match [p]` answers the id of exactly the registration `Dealer.matchProcedure p`
    selects — the function `syncCall` routes a CALL with (exact, then longest prefix, then longest
    wildcard) — or 0 when a CALL to `p` would get no_such_procedure; `registration.lookup [p, {match}]`
    answers the id of the registration stored under exactly (p, kind of match), or 0. -/
theorem C18_reg_match_routes (r : Realm) (req : Nat) (details : Dict) (kw : Dict) (p : String) (rest : List WVal) :
    metaProc r MetaProcRegMatch req details (.str p :: rest) kw =
      (mYield req [.int (match r.ds.d.matchProcedure p with | some g => g.id | none => 0)], r) ∧
    metaProc r MetaProcRegLookup req details (.str p :: rest) kw =
      (mYield req [.int (match r.ds.d.findProc p (matchKind (lookupMatchOpt (.str p :: rest))) with
                         | some g => g.id | none => 0)], r) ∧
    (∀ env caller creq opts args ckw rnd, r.ds.d.matchProcedure p = none → (r.ds.d.byCall? ⟨caller, creq⟩) = none →
      syncCall env r.ds caller creq opts p args ckw rnd =
        { st := r.ds, sends := [⟨caller, errMsg tCALL creq ErrNoSuchProcedure⟩] }) := by
  refine ⟨by rw [metaProc_regMatch]; rfl, by rw [metaProc_regLookup]; rfl, ?_⟩
  intro env caller creq opts args ckw rnd hm hb
  unfold syncCall
  simp only [hm, hb]

/-! ## Subscriptions -/

theorem C18_sub_list (r : Realm) (req : Nat) (details : Dict) (args : List WVal) (kw : Dict) :
    metaProc r MetaProcSubList req details args kw =
      (mYield req [.dict [(MatchExact, .list (((r.broker.subs.filter (fun s => s.kind == .exact)).map (fun s => .int s.id)))),
                          (MatchPrefix, .list (((r.broker.subs.filter (fun s => s.kind == .pfx)).map (fun s => .int s.id)))),
                          (MatchWildcard, .list (((r.broker.subs.filter (fun s => s.kind == .wild)).map (fun s => .int s.id))))]], r) := by
  rw [metaProc_subList]
  simp [idLists, List.filter_map, List.map_map, Function.comp_def]

/-- Every listed subscription can be fetched with `subscription.get`. -/
theorem C18_sub_get_listed (r : Realm) (req : Nat) (details : Dict) (kw : Dict) (s : Sub) (hs : s ∈ r.broker.subs)
    (hpos : 0 < s.id) (hid : s.id ≤ maxID) :
    ∃ s' ∈ r.broker.subs, s'.id = s.id ∧ subArg r [.int s.id] = some s' ∧
      metaProc r MetaProcSubGet req details [.int s.id] kw = (mYield req [subDetailsDict s'], r) := by
  have hasid : (WVal.int s.id).asID = some s.id := by
    unfold WVal.asID
    simp only
    rw [if_pos ⟨by exact_mod_cast hpos, by exact_mod_cast hid⟩]
    simp
  have harg : subArg r [.int s.id] = r.broker.findId s.id := by simp [subArg, hasid]
  cases hf : r.broker.findId s.id with
  | none =>
    have := List.find?_eq_none.mp hf s hs
    simp at this
  | some s' =>
    have hm := List.mem_of_find?_eq_some hf
    have he : s'.id = s.id := by simpa using List.find?_some hf
    exact ⟨s', hm, he, by rw [harg, hf], by rw [metaProc_subGet, harg, hf]⟩

/-- For EVERY existing subscription (with or without subscribers), `count_subscribers` equals the
    length of `list_subscribers`, and the list is the subscription's members. -/
theorem C18_sub_count_list (r : Realm) (req : Nat) (details : Dict) (args : List WVal) (kw : Dict) (s : Sub)
    (hs : subArg r args = some s) :
    metaProc r MetaProcSubListSubscribers req details args kw = (mYield req [.list (s.members.map sidVal)], r) ∧
    metaProc r MetaProcSubCountSubscribers req details args kw = (mYield req [.int (s.members.map sidVal).length], r) := by
  rw [metaProc_subListSubscribers, metaProc_subCountSubscribers, hs]
  simp

-- the former counterexample: a pre-created history subscription nobody subscribed to
example : let r0 : Realm := { broker := { subs := [{ id := 1, topic := "t", «match» := "", members := [] }], nextSub := 1,
                                            hist := [{ sub := 1, limit := 10, entries := [] }] } }
    metaProc r0 MetaProcSubCountSubscribers 7 [] [.int 1] [] = (mYield 7 [.int 0], r0) ∧
    metaProc r0 MetaProcSubListSubscribers 7 [] [.int 1] [] = (mYield 7 [.list []], r0) := by
  intro r0
  have harg : subArg r0 [.int 1] = some { id := 1, topic := "t", «match» := "", members := [] } := rfl
  rw [metaProc_subCountSubscribers, metaProc_subListSubscribers, harg]
  exact ⟨rfl, rfl⟩

/-- Unknown or malformed subscription ids give wamp.error.no_such_subscription. -/
theorem C18_sub_unknown (r : Realm) (req : Nat) (details : Dict) (args : List WVal) (kw : Dict)
    (h : subArg r args = none) :
    metaProc r MetaProcSubGet req details args kw = (mErr req ErrNoSuchSubscription, r) ∧
    metaProc r MetaProcSubListSubscribers req details args kw = (mErr req ErrNoSuchSubscription, r) ∧
    metaProc r MetaProcSubCountSubscribers req details args kw = (mErr req ErrNoSuchSubscription, r) := by
  rw [metaProc_subGet, metaProc_subListSubscribers, metaProc_subCountSubscribers, h]
  exact ⟨rfl, rfl, rfl⟩

/-- `subscription.match [t]` answers the ids of exactly the subscriptions `Broker.matching t`
    yields, in that order — the list `syncPublish` iterates to deliver a PUBLISH to `t` (exact,
    then prefix, then wildcard matches); `subscription.lookup [t, {match}]` answers the id stored
    under exactly (t, kind of match), or 0. -/
theorem C18_sub_match_routes (r : Realm) (req : Nat) (details : Dict) (kw : Dict) (t : String) (rest : List WVal) :
    metaProc r MetaProcSubMatch req details (.str t :: rest) kw =
      (mYield req [.list ((r.broker.matching t).map (fun p => .int p.1.id))], r) ∧
    metaProc r MetaProcSubLookup req details (.str t :: rest) kw =
      (mYield req [.int (match r.broker.findTopic t (matchKind (lookupMatchOpt (.str t :: rest))) with
                         | some s => s.id | none => 0)], r) ∧
    (∀ sess now (p : Publication), p.topic = t →
      (r.broker.syncPublish sess now p).2 =
        (r.broker.matching t).flatMap (fun x => eventsFor sess p (mkFilter p.opts) x.1 x.2)) := by
  refine ⟨by rw [metaProc_subMatch]; rfl, by rw [metaProc_subLookup]; rfl, ?_⟩
  intro sess now p hp
  rw [syncPublish_sends, hp]

/-! ## Meta events -/

/-- A join (under a session id as the router draws it: not the meta session's, not one in use) is
    announced by exactly one `wamp.session.on_join` publication task carrying the cleaned session
    details; nothing else is queued.  A `join` under the meta session's key or the key of an attached
    client cannot occur; in the model it changes nothing (and announces nothing). -/
theorem C18_events_join (r : Realm) (k : SessKey) (isLocal : Bool) (details : Dict) (roles : Roles) (cap : Nat) :
    ((k ≠ metaKey ∧ ∀ c ∈ r.clients, c.key ≠ k) →
      (r.stepOp (.join k isLocal details roles cap)).tasks =
        r.tasks ++ [.metaPub { topic := MetaEventSessionOnJoin, args := [.dict (r.cleanDetails details)] }]) ∧
    (¬ (k ≠ metaKey ∧ ∀ c ∈ r.clients, c.key ≠ k) → r.stepOp (.join k isLocal details roles cap) = r) := by
  constructor
  · rintro ⟨h1, h2⟩
    rw [stepOp_join_fresh _ _ _ _ h1 h2]; rfl
  · intro h
    apply stepOp_join_noop
    apply Classical.byContradiction
    intro hg
    exact h (join_guard_false hg)

/-- A departure in any non-shutdown mode (lost, killed by kill / kill_by_* / kill_all, aborted,
    violation) appends, after whatever
    the table removal queued (the `on_unregister` / `on_delete` publications of the dealer, in
    registration order), the testaments and LAST exactly one `wamp.session.on_leave`
    [session id, authid, authrole] — also for sessions ended by kill_all (F30 fixed); only the realm
    shutdown announces nothing.  (The broker's announcements of the departure — `on_unsubscribe`, then
    `on_delete`, per subscription of the session — are EVENTs sent during the table removal, not tasks:
    `C18_events_departure`.) -/
theorem C18_events_leave (r : Realm) (k : SessKey) (s : Session) (mode : LeaveMode)
    (hf : r.clients.find? (fun c => c.key == k) = some s) :
    (mode.isShutdown = false →
      (r.leave k mode).tasks =
        leaveBaseTasks r k mode ++ (testamentTasks (bucketOf r k) ++
          [.metaPub { topic := MetaEventSessionOnLeave,
                      args := [sidVal s.key, detailOr s.details "authid", detailOr s.details "authrole"] }])) ∧
    (mode.isShutdown = true → (r.leave k mode).tasks = leaveBaseTasks r k mode) := by
  refine ⟨fun h => ?_, fun h => ?_⟩
  · rw [leave_tasks' mode hf, h]; rfl
  · rw [leave_tasks' mode hf, h]; simp

/-- SUBSCRIBE.  Creating a subscription: SUBSCRIBED, then the `on_create` EVENTs, then the
    `on_subscribe` EVENTs (so each observer gets on_create before on_subscribe), two publication
    ids.  Joining an existing subscription: SUBSCRIBED then `on_subscribe` only.  Already a member:
    SUBSCRIBED again, NO meta event, broker unchanged. -/
theorem C18_events_subscribe (b : Broker) (k : SessKey) (req : Nat) (topic m : String) (p : Nat) :
    (b.findTopic topic (matchKind m) = none →
      (b.syncSubscribe k req topic m p).2.1 =
        [⟨k, .subscribed req (b.nextSub + 1)⟩] ++
          (afterCreate b k topic m).metaEvent MetaEventSubOnCreate (pubBase + p) k [sidVal k, subDetailsDict (newSub b k topic m)] ++
          (afterCreate b k topic m).metaEvent MetaEventSubOnSubscribe (pubBase + p + 1) k [sidVal k, .int (b.nextSub + 1)] ∧
      (b.syncSubscribe k req topic m p).2.2 = 2) ∧
    (∀ sub, b.findTopic topic (matchKind m) = some sub → k ∉ sub.members →
      (b.syncSubscribe k req topic m p).2.1 =
        [⟨k, .subscribed req sub.id⟩] ++
          (afterJoin b k sub).metaEvent MetaEventSubOnSubscribe (pubBase + p) k [sidVal k, .int sub.id] ∧
      (b.syncSubscribe k req topic m p).2.2 = 1) ∧
    (∀ sub, b.findTopic topic (matchKind m) = some sub → k ∈ sub.members →
      b.syncSubscribe k req topic m p = (b, [⟨k, .subscribed req sub.id⟩], 0)) := by
  refine ⟨fun h => ?_, fun sub h hk => ?_, fun sub h hk => syncSubscribe_again h hk⟩
  · rw [syncSubscribe_create h]; exact ⟨rfl, rfl⟩
  · rw [syncSubscribe_join_sends h hk]; exact ⟨rfl, rfl⟩

/-- UNSUBSCRIBE by a member: UNSUBSCRIBED, `on_unsubscribe`, then `on_delete` iff the subscription
    was emptied (and has no history store).  By a non-member or for an unknown id: one ERROR
    no_such_subscription, no meta event, broker unchanged. -/
theorem C18_events_unsubscribe (b : Broker) (k : SessKey) (req subId p : Nat) :
    (∀ sub, b.findId subId = some sub → k ∈ sub.members →
      (b.syncUnsubscribe k req subId p).2.1 =
        [⟨k, .unsubscribed req⟩] ++
          (b.syncUnsubscribe k req subId p).1.metaEvent MetaEventSubOnUnsubscribe (pubBase + p) k [sidVal k, .int subId] ++
          (if (sub.members.filter (· != k)).isEmpty && !b.hasHist sub.id
           then (b.syncUnsubscribe k req subId p).1.metaEvent MetaEventSubOnDelete (pubBase + p + 1) k [sidVal k, .int subId]
           else [])) ∧
    ((∀ sub, b.findId subId = some sub → k ∉ sub.members) →
      b.syncUnsubscribe k req subId p = (b, [⟨k, errMsg tUNSUBSCRIBE req ErrNoSuchSubscription⟩], 0)) :=
  ⟨fun _ hf hk => (syncUnsubscribe_sends hf hk).1, fun h => syncUnsubscribe_err_state b k req subId p h⟩

/-- DEPARTURE of a session from its subscriptions (`Broker.syncRemoveSession`, run when the session's handler
    exits in any non-shutdown mode): announced like an UNSUBSCRIBE — `on_unsubscribe` BEFORE `on_delete`.
    * One subscription (`Broker.removeMember`, one iteration of the loop): the broker is `afterDepart b k sub`
      (subscription deleted iff `k` was its last member and it has no history store, otherwise `k` struck
      from its members); the sends are exactly the `on_unsubscribe` EVENTs (publication id `pubBase + p`)
      followed — iff the subscription was deleted — by the `on_delete` EVENTs (`pubBase + p + 1`), nothing
      else; 2 resp. 1 publication ids are drawn.  An id naming no subscription: nothing at all.
    * A session with no index entry (subscribed to nothing): broker unchanged, nothing announced.
    * Otherwise (under `BrokerInv`) the ids the loop runs over are exactly the subscriptions `k` is a member
      of, each once, and the sends of the whole departure are, subscription by subscription in index
      order, that block (`Departure`: computed in the broker state reached so far, with consecutive
      publication ids) — and nothing else. -/
theorem C18_events_departure (b : Broker) (k : SessKey) (p : Nat) :
    (∀ subId sub, b.findId subId = some sub →
      b.removeMember k subId p =
        (afterDepart b k sub,
         (afterDepart b k sub).metaEvent MetaEventSubOnUnsubscribe (pubBase + p) k [sidVal k, .int subId] ++
           (if (sub.members.filter (· != k)).isEmpty && !b.hasHist sub.id
            then (afterDepart b k sub).metaEvent MetaEventSubOnDelete (pubBase + p + 1) k [sidVal k, .int subId]
            else []),
         if (sub.members.filter (· != k)).isEmpty && !b.hasHist sub.id then 2 else 1)) ∧
    (∀ subId, b.findId subId = none → b.removeMember k subId p = (b, [], 0)) ∧
    (idxGet b.index k = none → b.syncRemoveSession k p = (b, [], 0)) ∧
    (BrokerInv b → ∀ ids, idxGet b.index k = some ids →
      ids.Nodup ∧ (∀ id, id ∈ ids ↔ b.isMember k id) ∧
      Departure k { b with index := idxDrop b.index k } p ids
        (b.syncRemoveSession k p).1 (b.syncRemoveSession k p).2.1 (b.syncRemoveSession k p).2.2) := by
  refine ⟨fun subId sub hf => ?_, fun _ hf => removeMember_unknown hf, syncRemoveSession_none p,
    fun hb ids hg => syncRemoveSession_departure hb p hg⟩
  have hid : sub.id = subId := (findId_some hf).2
  rw [removeMember_sends hf, ← hid]
  rfl

-- the block one subscription contributes, spelled out (`Departure.member`)
example (b : Broker) (k : SessKey) (sub : Sub) (p : Nat) :
    departEvents b k sub p =
      (afterDepart b k sub).metaEvent MetaEventSubOnUnsubscribe (pubBase + p) k [sidVal k, .int sub.id] ++
        (if departDeletes b k sub
         then (afterDepart b k sub).metaEvent MetaEventSubOnDelete (pubBase + p + 1) k [sidVal k, .int sub.id] else []) ∧
    departCount b k sub = (if departDeletes b k sub then 2 else 1) ∧
    departDeletes b k sub = ((sub.members.filter (· != k)).isEmpty && !b.hasHist sub.id) := ⟨rfl, rfl, rfl⟩

-- non-vacuity: session 1 is the only member of subscription 1 ("t") and one of two members of subscription 2
-- ("u"); session 3 observes both meta topics.  Its departure deletes 1 (on_unsubscribe, on_delete) and
-- shrinks 2 (on_unsubscribe only): three EVENTs for the observer, in that order, publication ids p, p+1, p+2.
example : let b0 : Broker :=
      { subs := [{ id := 1, topic := "t", «match» := "", members := [1] },
                 { id := 2, topic := "u", «match» := "", members := [1, 2] },
                 { id := 3, topic := MetaEventSubOnUnsubscribe, «match» := "", members := [3] },
                 { id := 4, topic := MetaEventSubOnDelete, «match» := "", members := [3] }],
        nextSub := 4, index := [(1, [1, 2]), (2, [2]), (3, [3, 4])] }
    ((b0.syncRemoveSession 1 0).2.1.map (fun x => (x.to, match x.msg with | .event sub pub _ _ _ => (sub, pub - pubBase) | _ => (0, 0)))) =
      [(3, 3, 0), (3, 4, 1), (3, 3, 2)] ∧
    (b0.syncRemoveSession 1 0).2.2 = 3 ∧
    (b0.syncRemoveSession 1 0).1.subs.map (fun s => (s.id, s.members)) = [(2, [2]), (3, [3]), (4, [3])] := by
  decide

/-- Subscription meta events are sent to members of subscriptions matching the meta topic and
    never to the session that caused them. -/
theorem C18_events_not_echoed (b : Broker) (metaTopic : String) (pubId : Nat) (cause : SessKey) (args : List WVal)
    (x : Send) (hx : x ∈ b.metaEvent metaTopic pubId cause args) :
    x.to ≠ cause ∧ ∃ s ∈ b.subs, s.matchesTopic metaTopic = true ∧ x.to ∈ s.members := by
  refine ⟨(metaEvent_to hx).2, ?_⟩
  unfold Broker.metaEvent at hx
  obtain ⟨ms, hms, hx'⟩ := List.mem_flatMap.mp hx
  obtain ⟨k, hk, rfl⟩ := List.mem_map.mp hx'
  obtain ⟨sub, st⟩ := ms
  exact ⟨sub, ((mem_matching b metaTopic sub st).mp hms).1, ((mem_matching b metaTopic sub st).mp hms).2.1,
    (List.mem_filter.mp hk).1⟩

/-- REGISTER.  New registration: REGISTERED and the publications [on_create, on_register] in that
    order.  Joining a shared registration: [on_register].  Refused (existing registration with the
    single policy, a different policy, or the same callee again): ERROR procedure_already_exists,
    NO publication, dealer state unchanged.  Registrations of `wamp.*` procedures (only the meta
    session may make them) announce nothing. -/
theorem C18_events_register (s : DState) (callee : SessKey) (req : Nat) (proc m invoke : String) (disclose fwd : Bool) :
    (s.d.findProc proc (matchKind m) = none →
      (syncRegister s callee req proc m invoke disclose fwd false).metaPubs =
        [ { topic := MetaEventRegOnCreate, args := [sidVal callee, regDetailsDict (s.d.nextReg + 1) proc m invoke] },
          { topic := MetaEventRegOnRegister, args := [sidVal callee, .int (s.d.nextReg + 1)] } ] ∧
      (syncRegister s callee req proc m invoke disclose fwd true).metaPubs = []) ∧
    (∀ reg, s.d.findProc proc (matchKind m) = some reg →
      reg.policy ≠ "" → reg.policy ≠ InvokeSingle → reg.policy = invoke → callee ∉ reg.callees →
      (syncRegister s callee req proc m invoke disclose fwd false).metaPubs =
        [ { topic := MetaEventRegOnRegister, args := [sidVal callee, .int reg.id] } ]) ∧
    (∀ reg wampURI, s.d.findProc proc (matchKind m) = some reg →
      (reg.policy = "" ∨ reg.policy = InvokeSingle ∨ reg.policy ≠ invoke ∨ callee ∈ reg.callees) →
      syncRegister s callee req proc m invoke disclose fwd wampURI =
        { st := s, sends := [⟨callee, errMsg tREGISTER req ErrProcedureAlreadyExists⟩] }) := by
  refine ⟨fun h => ⟨?_, ?_⟩, fun reg h h1 h2 h3 h4 => ?_, fun reg w h hr => syncRegister_refused h hr⟩
  · rw [(syncRegister_create h).2]; rfl
  · rw [(syncRegister_create h).2]; rfl
  · rw [(syncRegister_shared h h1 h2 h3 h4).2]; rfl

/-- UNREGISTER: refused → ERROR no_such_registration and no publication; otherwise UNREGISTERED and
    [on_unregister] followed by [on_delete] exactly when the registration is gone afterwards. -/
theorem C18_events_unregister (s : DState) (callee : SessKey) (req regId : Nat) :
    ((syncUnregister s callee req regId).sends = [⟨callee, errMsg tUNREGISTER req ErrNoSuchRegistration⟩] ∧
     (syncUnregister s callee req regId).metaPubs = []) ∨
    ((syncUnregister s callee req regId).sends = [⟨callee, .unregistered req⟩] ∧
     ∃ deleted : Bool,
      (syncUnregister s callee req regId).metaPubs =
        [ { topic := MetaEventRegOnUnregister, args := [sidVal callee, .int regId] } ] ++
        (if deleted then [ { topic := MetaEventRegOnDelete, args := [sidVal callee, .int regId] } ] else []) ∧
      (deleted = true ↔ (syncUnregister s callee req regId).st.d.findReg regId = none ∨
        ∀ g ∈ (syncUnregister s callee req regId).st.d.regs, g.id ≠ regId)) :=
  syncUnregister_events s callee req regId

/-! ## Kill procedures -/

/-- Every kill procedure ends exactly the sessions it selects that are not already ending: each
    gets one `leave` task carrying GOODBYE(reason or wamp.close.normal, {message}) — with the `all`
    mark for kill_all — and is marked ending; a session whose id is the caller's is NEVER among
    them; the answer counts them (kill answers nothing).  An invalid `reason` URI → ERROR
    invalid_uri and nobody is ended. -/
theorem C18_kill (r : Realm) (req : Nat) (details : Dict) (args : List WVal) (kw : Dict) (proc : String)
    (hp : proc = MetaProcSessionKill ∨ proc = MetaProcSessionKillByAuthid ∨ proc = MetaProcSessionKillByAuthrole ∨
          proc = MetaProcSessionKillAll) :
    (metaProc r proc req details args kw).2 = r ∨
    ∃ victims : List Session,
      (metaProc r proc req details args kw).2 =
        { r with tasks := r.tasks ++ victims.map (fun c => Task.leave c.key
                    (.killed (makeGoodbye (kwStr kw "reason") (kwStr kw "message") (proc == MetaProcSessionKillAll))
                             (proc == MetaProcSessionKillAll))),
                 ending := r.ending ++ victims.map (·.key) } ∧
      (∀ c ∈ victims, c ∈ r.clients ∧ some (sidOf c.key) ≠ callerOf details ∧ c.key ∉ r.ending) ∧
      badReasonOf kw = false := by
  have hmem : ∀ (sel : Session → Bool) (c : Session),
      c ∈ r.clients.filter (fun c => sel c && !r.ending.contains c.key) →
        c ∈ r.clients ∧ sel c = true ∧ c.key ∉ r.ending := by
    intro sel c hc
    have := List.mem_filter.mp hc
    simp only [Bool.and_eq_true, Bool.not_eq_true', List.contains_eq_mem, decide_eq_false_iff_not] at this
    exact ⟨this.1, this.2.1, this.2.2⟩
  rcases hp with rfl | rfl | rfl | rfl
  · rw [metaProc_kill]
    split
    · exact Or.inl rfl
    · split
      · exact Or.inl rfl
      · rename_i sid _
        split
        · exact Or.inl rfl
        · rename_i hcaller
          split
          · exact Or.inl rfl
          · rename_i hbad
            split
            · exact Or.inl rfl
            · rename_i s hs
              refine Or.inr ⟨_, (killWhere_spec r _ _ _).2, ?_, by simpa using hbad⟩
              intro c hc
              obtain ⟨h1, h2, h3⟩ := hmem _ c hc
              refine ⟨h1, ?_, h3⟩
              have hsid : sidOf s.key = sid := by simpa using List.find?_some hs
              have hck : c.key = s.key := by simpa using h2
              intro e
              apply hcaller
              rw [← e, hck, hsid]
              simp
  · rw [metaProc_killByAuthid]
    split
    · exact Or.inl rfl
    · split
      · exact Or.inl rfl
      · split
        · exact Or.inl rfl
        · rename_i hbad
          refine Or.inr ⟨_, (killWhere_spec r _ _ _).2, ?_, by simpa using hbad⟩
          intro c hc
          obtain ⟨h1, h2, h3⟩ := hmem _ c hc
          refine ⟨h1, ?_, h3⟩
          unfold killSel at h2
          simp only [Bool.and_eq_true, bne_iff_ne, ne_eq] at h2
          exact h2.1
  · rw [metaProc_killByAuthrole]
    split
    · exact Or.inl rfl
    · split
      · exact Or.inl rfl
      · split
        · exact Or.inl rfl
        · rename_i hbad
          refine Or.inr ⟨_, (killWhere_spec r _ _ _).2, ?_, by simpa using hbad⟩
          intro c hc
          obtain ⟨h1, h2, h3⟩ := hmem _ c hc
          refine ⟨h1, ?_, h3⟩
          unfold killSel at h2
          simp only [Bool.and_eq_true, bne_iff_ne, ne_eq] at h2
          exact h2.1
  · rw [metaProc_killAll]
    split
    · exact Or.inl rfl
    · rename_i hbad
      refine Or.inr ⟨_, (killWhere_spec r _ _ _).2, ?_, by simpa using hbad⟩
      intro c hc
      obtain ⟨h1, h2, h3⟩ := hmem _ c hc
      refine ⟨h1, ?_, h3⟩
      simpa using h2

-- the GOODBYE carries the given reason and message; kill_all adds the `all` mark
example : makeGoodbye "com.example.bye" "go away" false = .goodbye [("message", .str "go away")] "com.example.bye" ∧
    makeGoodbye "" "" false = .goodbye [] CloseNormal ∧
    makeGoodbye "" "x" true = .goodbye [("message", .str "x"), ("all", .null)] CloseNormal := ⟨rfl, rfl, rfl⟩

/-! ## Testaments -/

/-- `add_testament [topic, args, kwargs]` by caller `c`: an unknown scope is refused with invalid_argument;
    for a caller that is not (any longer) an attached client NOTHING is stored — same empty YIELD, state
    unchanged (`attachedCaller r c`: `c` is the session id of a session in `clients`); otherwise the
    testament is stored under the caller's session key, appended to the requested scope (`destroyed`
    when no scope is given), the other scope and all other sessions' buckets untouched. -/
theorem C18_testament_add (r : Realm) (req c : Nat) (details : Dict) (kw : Dict) (topic : String)
    (targs : List WVal) (tkw : Dict) (rest : List WVal) (hc : callerOf details = some c) :
    metaProc r MetaProcSessionAddTestament req details (.str topic :: .list targs :: .dict tkw :: rest) kw =
      if scopeOf kw != "destroyed" && scopeOf kw != "detached" then (mErr req ErrInvalidArgument, r)
      else if !attachedCaller r c then (mYield req [], r)
      else
        (mYield req [],
         { r with testaments := (r.testaments.filter (fun x => x.1 != c - sidBase)) ++
            [(c - sidBase,
              addToBucket (((r.testaments.find? (fun x => x.1 == c - sidBase)).map (·.2)).getD {}) (scopeOf kw)
                { topic := topic, args := targs, kw := tkw,
                  opts := (match kw.get? "publish_options" with
                    | some v => (v.asDict).getD []
                    | none => []) })] }) := by
  rw [metaProc_addTestament, hc]
  rfl

/-- which callers are attached: the caller id is a session id (`sidBase + key`) of a session in `clients` -/
theorem C18_attachedCaller (r : Realm) (c : Nat) :
    attachedCaller r c = true ↔ sidBase ≤ c ∧ ∃ s ∈ r.clients, s.key = c - sidBase :=
  ⟨attachedCaller_true, fun h => by
    unfold attachedCaller
    have h1 : decide (sidBase ≤ c) = true := by simpa using h.1
    have h2 : r.clients.any (fun s => s.key == c - sidBase) = true := by
      obtain ⟨s, hs, hk⟩ := h.2
      exact List.any_eq_true.mpr ⟨s, hs, by simpa using hk⟩
    rw [h1, h2]; rfl⟩

/-- `add_testament` by a caller that is not an attached client (F20: the session has left while its
    invocation was pending): the answer is the empty YIELD as for a stored testament and the realm
    state is UNCHANGED — in particular no bucket appears under the id of a session that does not exist. -/
theorem C18_testament_add_unattached (r : Realm) (req c : Nat) (details : Dict) (kw : Dict) (topic : String)
    (targs : List WVal) (tkw : Dict) (rest : List WVal) (hc : callerOf details = some c)
    (hs : scopeOf kw = "destroyed" ∨ scopeOf kw = "detached")
    (hna : c < sidBase ∨ ∀ s ∈ r.clients, s.key ≠ c - sidBase) :
    metaProc r MetaProcSessionAddTestament req details (.str topic :: .list targs :: .dict tkw :: rest) kw =
      (mYield req [], r) :=
  metaProc_addTestament_unattached r req c details kw topic targs tkw rest hc hs hna

-- non-vacuity: an attached caller's testament is stored; the same request from a session that has left is not
example : let r0 : Realm := { clients := [{ key := 5, details := [], roles := [], isLocal := true }] }
    (metaProc r0 MetaProcSessionAddTestament 7 [("caller", .int (sidBase + 5))] [.str "t", .list [], .dict []] []).2.testaments.map (·.1) = [5] ∧
    (metaProc r0 MetaProcSessionAddTestament 7 [("caller", .int (sidBase + 6))] [.str "t", .list [], .dict []] []).2.testaments = [] := by
  decide

example : scopeOf [] = "destroyed" ∧ scopeOf [("scope", .str "detached")] = "detached" := by decide
example (b : TBucket) (t : Testament) :
    (addToBucket b "destroyed" t).destroyed = b.destroyed ++ [t] ∧ (addToBucket b "destroyed" t).detached = b.detached ∧
    (addToBucket b "detached" t).detached = b.detached ++ [t] ∧ (addToBucket b "detached" t).destroyed = b.destroyed :=
  ⟨rfl, rfl, rfl, rfl⟩

/-- `flush_testaments` by caller `c`: empties exactly the requested scope of the caller's bucket
    (dropping the bucket when both scopes are empty), nothing else. -/
theorem C18_testament_flush (r : Realm) (req c : Nat) (details : Dict) (args : List WVal) (kw : Dict)
    (hc : callerOf details = some c) (hs : scopeOf kw = "destroyed" ∨ scopeOf kw = "detached") :
    (r.testaments.find? (fun x => x.1 == c - sidBase) = none →
      metaProc r MetaProcSessionFlushTestaments req details args kw = (mYield req [], r)) ∧
    (∀ key cur, r.testaments.find? (fun x => x.1 == c - sidBase) = some (key, cur) →
      (metaProc r MetaProcSessionFlushTestaments req details args kw).1 = mYield req [] ∧
      (metaProc r MetaProcSessionFlushTestaments req details args kw).2.testaments =
        r.testaments.filter (fun x => x.1 != c - sidBase) ++
          (if (flushBucket cur (scopeOf kw)).destroyed.isEmpty && (flushBucket cur (scopeOf kw)).detached.isEmpty then []
           else [(c - sidBase, flushBucket cur (scopeOf kw))])) := by
  have hsc : (scopeOf kw != "destroyed" && scopeOf kw != "detached") = false := by
    rcases hs with h | h <;> simp [h]
  refine ⟨fun hn => ?_, fun key cur hf => ?_⟩
  · rw [metaProc_flushTestaments, hc]
    simp only [hsc, hn, Bool.false_eq_true, if_false]
  · rw [metaProc_flushTestaments, hc]
    simp only [hsc, hf, Bool.false_eq_true, if_false]
    split <;> simp

/-! ## Work package A: exactness theorems -/

section WpA
open Nexus.L2.WpA Nexus.L2.Realm.WpA

/-! ### who receives a subscription meta event -/

/-- WHO receives a subscription meta event, EXACTLY ONCE, WITH WHAT (completeness of `C18_events_not_echoed`).
    For a broker satisfying its invariant:
    * through a subscription `s` of the broker, session `k` gets exactly one EVENT — `s`'s id, the publication
      id, `topic` in the details iff `s` is pattern-based, the arguments, no keyword arguments — iff `s` matches
      the meta topic under its own policy, `k` is a member of `s`, and `k` is not the session that caused the
      event; otherwise nothing;
    * nothing goes through an id that is not the id of a subscription;
    * every message sent has that form for some matching subscription and one of its members ≠ cause. -/
theorem C18_meta_event_exact {b : Broker} (hb : BrokerInv b) (t : String) (pid : Nat) (cause : SessKey)
    (args : List WVal) :
    (∀ s ∈ b.subs, ∀ k,
      through (b.metaEvent t pid cause args) k s.id =
        if s.matchesTopic t = true ∧ k ∈ s.members ∧ k ≠ cause then
          [⟨k, .event s.id pid (if s.isPattern then [("topic", .str t)] else []) args []⟩]
        else []) ∧
    (∀ k id, (∀ s ∈ b.subs, s.id ≠ id) → through (b.metaEvent t pid cause args) k id = []) ∧
    (∀ x ∈ b.metaEvent t pid cause args,
      ∃ s ∈ b.subs, s.matchesTopic t = true ∧ x.to ∈ s.members ∧ x.to ≠ cause ∧
        x = ⟨x.to, .event s.id pid (if s.isPattern then [("topic", .str t)] else []) args []⟩) :=
  ⟨fun _ hs k => through_metaEvent hb t pid cause args hs k,
   fun k id hno => through_metaEvent_none b t pid cause args k id hno,
   fun x hx => metaEvent_mem_shape b t pid cause args x hx⟩

-- non-vacuity: sessions 3 and 4 observe on_subscribe; session 4 causes an event: 3 gets it once, 4 does not
example : let b0 : Broker := (({} : Broker).run
      [.subscribe 3 1 MetaEventSubOnSubscribe "" 0, .subscribe 4 1 MetaEventSubOnSubscribe "" 1])
    BrokerInv b0 ∧
    (through (b0.metaEvent MetaEventSubOnSubscribe 9 4 []) 3 1).map (·.to) = [3] ∧
    (through (b0.metaEvent MetaEventSubOnSubscribe 9 4 []) 4 1).map (·.to) = [] := by
  intro b0
  exact ⟨(BrokerInv.empty false false).run _, by decide, by decide⟩

/-! ### kill procedures: exactly the targeted sessions -/

/-- "EXACTLY the targeted sessions": the sessions `killTargets r P` are the attached sessions satisfying the
    selector `P` that are not already ending — each once (as often as in `clients`), in `clients` order — and
    `endSessions` gives exactly them a `leave` task with the GOODBYE and marks exactly them as ending; nothing
    else of the realm changes. -/
theorem C18_kill_targets (r : Realm) (P : Session → Prop) (g : Msg) (all : Bool) :
    (∀ c, c ∈ killTargets r P ↔ c ∈ r.clients ∧ P c ∧ c.key ∉ r.ending) ∧
    (killTargets r P).Sublist r.clients ∧
    (endSessions r (killTargets r P) g all).tasks =
      r.tasks ++ (killTargets r P).map (fun c => Task.leave c.key (.killed g all)) ∧
    (endSessions r (killTargets r P) g all).ending = r.ending ++ (killTargets r P).map (·.key) ∧
    (∀ k, Task.leave k (.killed g all) ∈ (killTargets r P).map (fun c => Task.leave c.key (.killed g all)) ↔
      ∃ c ∈ r.clients, c.key = k ∧ P c ∧ c.key ∉ r.ending) ∧
    (endSessions r (killTargets r P) g all).clients = r.clients ∧
    (endSessions r (killTargets r P) g all).broker = r.broker ∧
    (endSessions r (killTargets r P) g all).ds = r.ds ∧
    (endSessions r (killTargets r P) g all).queues = r.queues ∧
    (endSessions r (killTargets r P) g all).testaments = r.testaments := by
  refine ⟨mem_killTargets r P, killTargets_sublist r P, rfl, rfl, ?_, rfl, rfl, rfl, rfl, rfl⟩
  intro k
  simp only [List.mem_map]
  constructor
  · rintro ⟨c, hc, he⟩
    have hk : c.key = k := by injection he
    exact ⟨c, ((mem_killTargets r P c).mp hc).1, hk, ((mem_killTargets r P c).mp hc).2⟩
  · rintro ⟨c, hc, hk, hp, he⟩
    exact ⟨c, (mem_killTargets r P c).mpr ⟨hc, hp, he⟩, by rw [hk]⟩

/-- THE THREE BULK KILL PROCEDURES, full result (`reason`, if given, a valid URI).
    `kill_by_authid [v]` / `kill_by_authrole [v]`: the targets are the sessions whose id is not the caller's and
    whose `authid` (resp. `authrole`) detail is the string `v`; `kill_all`: every session but the caller.  The
    answer is the number of sessions actually ended (`killTargets`: targets not already ending), the new state is
    `r` with exactly those told to end (`endSessions`: GOODBYE with the given reason — default wamp.close.normal —
    and message; `all` for kill_all). -/
theorem C18_kill_exact (r : Realm) (req : Nat) (details : Dict) (kw : Dict) (hr : badReasonOf kw = false) :
    (∀ v rest,
      metaProc r MetaProcSessionKillByAuthid req details (.str v :: rest) kw =
        (mYield req [.int (killTargets r (fun c => callerOf details ≠ some (sidOf c.key) ∧
                              c.details.get? "authid" = some (.str v))).length],
         endSessions r (killTargets r (fun c => callerOf details ≠ some (sidOf c.key) ∧
                              c.details.get? "authid" = some (.str v)))
           (makeGoodbye (kwStr kw "reason") (kwStr kw "message") false) false)) ∧
    (∀ v rest,
      metaProc r MetaProcSessionKillByAuthrole req details (.str v :: rest) kw =
        (mYield req [.int (killTargets r (fun c => callerOf details ≠ some (sidOf c.key) ∧
                              c.details.get? "authrole" = some (.str v))).length],
         endSessions r (killTargets r (fun c => callerOf details ≠ some (sidOf c.key) ∧
                              c.details.get? "authrole" = some (.str v)))
           (makeGoodbye (kwStr kw "reason") (kwStr kw "message") false) false)) ∧
    (∀ args,
      metaProc r MetaProcSessionKillAll req details args kw =
        (mYield req [.int (killTargets r (fun c => callerOf details ≠ some (sidOf c.key))).length],
         endSessions r (killTargets r (fun c => callerOf details ≠ some (sidOf c.key)))
           (makeGoodbye (kwStr kw "reason") (kwStr kw "message") true) true)) :=
  ⟨fun v rest => kill_by_authid_exact r req details v rest kw hr,
   fun v rest => kill_by_authrole_exact r req details v rest kw hr,
   fun args => kill_all_exact r req details args kw hr⟩

/-- `session.kill [sid]` for an attached session `sid` that is not the caller: empty YIELD, and exactly the
    session(s) with that id — not already ending — are told to end. -/
theorem C18_kill_exact_session (r : Realm) (req : Nat) (details : Dict) (a : WVal) (rest : List WVal) (kw : Dict)
    (sid : Nat) (ha : a.asID = some sid) (hc : callerOf details ≠ some sid) (hr : badReasonOf kw = false)
    (hex : ∃ c ∈ r.clients, sidOf c.key = sid) :
    metaProc r MetaProcSessionKill req details (a :: rest) kw =
      (mYield req [],
       endSessions r (killTargets r (fun c => sidOf c.key = sid))
         (makeGoodbye (kwStr kw "reason") (kwStr kw "message") false) false) :=
  kill_exact r req details a rest kw sid ha hc hr hex

/-- The refusals of the kill procedures; the state is UNCHANGED in every one of them.  `session.kill`: no / a
    malformed id → no_such_session; the caller's own id → no_such_session; an invalid `reason` URI →
    invalid_uri; an id naming no attached session → no_such_session.  Bulk procedures: no / a non-string
    argument → no_such_session; an invalid `reason` URI → invalid_uri. -/
theorem C18_kill_errors (r : Realm) (req : Nat) (details : Dict) (kw : Dict) :
    (metaProc r MetaProcSessionKill req details [] kw = (mErr req ErrNoSuchSession, r) ∧
     (∀ a rest, a.asID = none → metaProc r MetaProcSessionKill req details (a :: rest) kw = (mErr req ErrNoSuchSession, r)) ∧
     (∀ a rest sid, a.asID = some sid → callerOf details = some sid →
       metaProc r MetaProcSessionKill req details (a :: rest) kw = (mErr req ErrNoSuchSession, r)) ∧
     (∀ a rest sid, a.asID = some sid → callerOf details ≠ some sid → badReasonOf kw = true →
       metaProc r MetaProcSessionKill req details (a :: rest) kw = (mErr req ErrInvalidURI, r)) ∧
     (∀ a rest sid, a.asID = some sid → callerOf details ≠ some sid → badReasonOf kw = false →
       (∀ c ∈ r.clients, sidOf c.key ≠ sid) →
       metaProc r MetaProcSessionKill req details (a :: rest) kw = (mErr req ErrNoSuchSession, r))) ∧
    (∀ proc, proc = MetaProcSessionKillByAuthid ∨ proc = MetaProcSessionKillByAuthrole →
      metaProc r proc req details [] kw = (mErr req ErrNoSuchSession, r) ∧
      (∀ a rest, a.asString = none → metaProc r proc req details (a :: rest) kw = (mErr req ErrNoSuchSession, r)) ∧
      (∀ v rest, badReasonOf kw = true → metaProc r proc req details (.str v :: rest) kw = (mErr req ErrInvalidURI, r))) ∧
    (∀ args, badReasonOf kw = true → metaProc r MetaProcSessionKillAll req details args kw = (mErr req ErrInvalidURI, r)) :=
  ⟨kill_errors r req details kw, (kill_bulk_errors r req details kw).1, (kill_bulk_errors r req details kw).2⟩

-- non-vacuity: three sessions, two of them "bob", one of those already ending; session 1 (a bob) calls
example : badReasonOf [] = false ∧ badReasonOf [("reason", .str "com.example.bye")] = false ∧
    badReasonOf [("reason", .str "not a uri")] = true := by decide +kernel

example : let r0 : Realm :=
      { clients := [{ key := 1, details := [("authid", .str "bob")], roles := [], isLocal := true },
                    { key := 2, details := [("authid", .str "bob")], roles := [], isLocal := true },
                    { key := 3, details := [("authid", .str "bob")], roles := [], isLocal := true },
                    { key := 4, details := [("authid", .str "eve")], roles := [], isLocal := true }],
        ending := [3] }
    (metaProc r0 MetaProcSessionKillByAuthid 7 [("caller", .int (sidBase + 1))] [.str "bob"] []).2.ending = [3, 2] ∧
    (metaProc r0 MetaProcSessionKillAll 7 [("caller", .int (sidBase + 1))] [] []).2.ending = [3, 2, 4] ∧
    (metaProc r0 MetaProcSessionKill 7 [("caller", .int (sidBase + 1))] [.int (sidBase + 4)] []).2.ending = [3, 4] ∧
    (WVal.int (sidBase + 4)).asID = some (sidBase + 4) ∧
    callerOf [("caller", .int (sidBase + 1))] ≠ some (sidBase + 4) := by
  decide

/-! ### testaments (and the router's own meta publications) are published exactly as requested -/

/-- THE META SESSION IS NEVER CHANGED: in every reachable realm it is the session `newRealm` creates — key 0
    (`metaKey`), details {authrole: trusted}, publisher role with `payload_passthru_mode`. -/
theorem C18_metaS_const {cfg : Config} {r : Realm} (h : Realm.Reachable cfg r) :
    r.metaS = ({} : Realm).metaS ∧
    r.metaS.hasFeature RolePublisher FeaturePayloadPassthruMode = true ∧ r.metaS.key = metaKey :=
  ⟨reachable_metaS h, (reachable_metaS_ppt h).1, (reachable_metaS_ppt h).2.1⟩

example : (Realm.create {}).isSome = true := by decide +kernel

/-- TESTAMENTS ARE PUBLISHED EXACTLY AS REQUESTED.  The task queued for testament `t` when its owner leaves
    (`C18_events_leave`) IS the meta session's PUBLISH(options, topic, args, kwargs of the testament).  When the
    topic is a valid URI for the realm and `disclose_me` is not refused, the result is: one publication id
    drawn, the broker publishes exactly `pubOf r r.metaS t.opts t.topic t.args t.kw` (publisher = meta session,
    the testament's options — `exclude`, `eligible`, … —, topic, payload) and the EVENTs it computes are
    delivered: for every attached client `k` the queue afterwards is the old one offered exactly those EVENTs,
    which through each subscription are `deliveryOf` (C01).  This holds WITH OR WITHOUT `acknowledge` in the
    options: the PUBLISHED goes to the meta session, which ignores it. -/
theorem C18_testament_published (r : Realm) (t : Testament) (hk : r.metaS.key = metaKey)
    (hf : r.metaS.hasFeature RolePublisher FeaturePayloadPassthruMode = true)
    (hv : validUri r.broker.strict "" t.topic = true) (hd : discloseRefused r t.opts = false) :
    r.runTask (.metaPub (testamentPub t)) = r.metaPublish (testamentPub t) ∧
    r.metaPublish (testamentPub t) = handlePublish r r.metaS 0 t.opts t.topic t.args t.kw ∧
    r.metaPublish (testamentPub t) =
      ({ r with pubCount := r.pubCount + 1,
                broker := (r.broker.syncPublish r.session? r.now (pubOf r r.metaS t.opts t.topic t.args t.kw)).1 } : Realm).deliver
        (r.broker.syncPublish r.session? r.now (pubOf r r.metaS t.opts t.topic t.args t.kw)).2 ∧
    (∀ k c, k ≠ metaKey → r.client? k = some c →
      (r.metaPublish (testamentPub t)).queueOf k =
        accept c.cap (r.queueOf k)
          (msgsTo k (r.broker.syncPublish r.session? r.now (pubOf r r.metaS t.opts t.topic t.args t.kw)).2)) ∧
    (BrokerInv r.broker → ∀ s ∈ r.broker.subs, ∀ k,
      through (r.broker.syncPublish r.session? r.now (pubOf r r.metaS t.opts t.topic t.args t.kw)).2 k s.id =
        deliveryOf r.session? (pubOf r r.metaS t.opts t.topic t.args t.kw) s k) :=
  ⟨rfl, rfl, metaPublish_ok r (testamentPub t) hk hf hv hd,
   fun k c hne hc => (metaPublish_queue r (testamentPub t) hk hf hv hd k c hne hc).1,
   fun hb _ hs k => through_syncPublish_eq_deliveryOf hb _ _ _ hs k⟩

/-- … including payload passthru: the publication carries the testament's `ppt_*` options in the EVENT details
    (`pptInto`) iff `ppt_scheme` is given, and nothing otherwise; the publisher is the meta session, the
    options / topic / payload are the testament's.  (The meta session is never aborted: `C18_testament_cases`.) -/
theorem C18_testament_ppt (r : Realm) (t : Testament) :
    (pubOf r r.metaS t.opts t.topic t.args t.kw).publisher = r.metaS.key ∧
    (pubOf r r.metaS t.opts t.topic t.args t.kw).topic = t.topic ∧
    (pubOf r r.metaS t.opts t.topic t.args t.kw).args = t.args ∧
    (pubOf r r.metaS t.opts t.topic t.args t.kw).kw = t.kw ∧
    (pubOf r r.metaS t.opts t.topic t.args t.kw).opts = t.opts ∧
    (pubOf r r.metaS t.opts t.topic t.args t.kw).pubId = pubBase + r.pubCount ∧
    (pptScheme t.opts = "" → (pubOf r r.metaS t.opts t.topic t.args t.kw).baseDetails = []) ∧
    (pptScheme t.opts ≠ "" → (pubOf r r.metaS t.opts t.topic t.args t.kw).baseDetails = pptInto t.opts []) := by
  have h := pubOf_meta r t.opts t.topic t.args t.kw
  exact ⟨h.1, h.2.2.1, h.2.2.2.1, h.2.2.2.2.1, h.2.2.2.2.2.1, h.2.2.2.2.2.2.1, h.2.2.2.2.2.2.2.2.1, h.2.2.2.2.2.2.2.2.2⟩

/-- THE "NOT PUBLISHED" CASES (recorded behaviour): a testament whose topic is not a valid URI for the realm, or
    that asks for `disclose_me` in a realm that disallows disclosure, is DROPPED AND NOBODY IS TOLD — the realm
    state is exactly what it was, with or without `acknowledge` in the options (the ERROR would go to the meta
    session, which ignores it). -/
theorem C18_testament_dropped (r : Realm) (t : Testament) (hk : r.metaS.key = metaKey)
    (hf : r.metaS.hasFeature RolePublisher FeaturePayloadPassthruMode = true) :
    (validUri r.broker.strict "" t.topic = false → r.runTask (.metaPub (testamentPub t)) = r) ∧
    (validUri r.broker.strict "" t.topic = true → discloseRefused r t.opts = true →
      r.runTask (.metaPub (testamentPub t)) = r) :=
  ⟨fun hv => metaPublish_invalid r (testamentPub t) hk hv,
   fun hv hd => metaPublish_refused r (testamentPub t) hk hf hv hd⟩

/-- The three cases are exhaustive — in particular a testament with `ppt_scheme` is never answered with an
    ABORT of the meta session (ex-X3), no task is queued, no session is ended. -/
theorem C18_testament_cases (r : Realm) (t : Testament) (hk : r.metaS.key = metaKey)
    (hf : r.metaS.hasFeature RolePublisher FeaturePayloadPassthruMode = true) :
    r.runTask (.metaPub (testamentPub t)) = r ∨
    (validUri r.broker.strict "" t.topic = true ∧ discloseRefused r t.opts = false ∧
     r.runTask (.metaPub (testamentPub t)) =
      ({ r with pubCount := r.pubCount + 1,
                broker := (r.broker.syncPublish r.session? r.now (pubOf r r.metaS t.opts t.topic t.args t.kw)).1 } : Realm).deliver
        (r.broker.syncPublish r.session? r.now (pubOf r r.metaS t.opts t.topic t.args t.kw)).2) :=
  metaPublish_cases r (testamentPub t) hk hf

/-- In every REACHABLE realm the hypotheses about the meta session hold, so for every testament exactly one of:
    published as requested / dropped silently (invalid topic; refused disclose_me). -/
theorem C18_testament_reachable {cfg : Config} {r : Realm} (h : Realm.Reachable cfg r) (t : Testament) :
    (validUri r.broker.strict "" t.topic = true → discloseRefused r t.opts = false →
      r.runTask (.metaPub (testamentPub t)) =
        ({ r with pubCount := r.pubCount + 1,
                  broker := (r.broker.syncPublish r.session? r.now (pubOf r r.metaS t.opts t.topic t.args t.kw)).1 } : Realm).deliver
          (r.broker.syncPublish r.session? r.now (pubOf r r.metaS t.opts t.topic t.args t.kw)).2) ∧
    (validUri r.broker.strict "" t.topic = false → r.runTask (.metaPub (testamentPub t)) = r) ∧
    (validUri r.broker.strict "" t.topic = true → discloseRefused r t.opts = true →
      r.runTask (.metaPub (testamentPub t)) = r) := by
  obtain ⟨_, hf, hk⟩ := C18_metaS_const h
  exact ⟨fun hv hd => metaPublish_ok r (testamentPub t) hk hf hv hd,
    fun hv => metaPublish_invalid r (testamentPub t) hk hv,
    fun hv hd => metaPublish_refused r (testamentPub t) hk hf hv hd⟩

-- non-vacuity: the default realm; a testament with exclude_authid and ppt options is published, one with a bad
-- topic or with disclose_me (disclosure disallowed by default) is dropped
example : ({} : Realm).metaS.key = metaKey ∧
    ({} : Realm).metaS.hasFeature RolePublisher FeaturePayloadPassthruMode = true ∧
    validUri ({} : Realm).broker.strict "" "com.example.bye" = true ∧
    validUri ({} : Realm).broker.strict "" "a..b" = false ∧
    discloseRefused ({} : Realm) [("exclude_authid", .list [.str "bob"]), ("ppt_scheme", .str "x")] = false ∧
    discloseRefused ({} : Realm) [("disclose_me", .bool true)] = true := by decide +kernel

/-! ### meta topics are valid URIs -/

/-- Every meta topic the router publishes to is a valid URI, in strict mode too. -/
theorem C18_meta_topics_valid (strict : Bool) :
    validUri strict "" MetaEventSessionOnJoin = true ∧ validUri strict "" MetaEventSessionOnLeave = true ∧
    validUri strict "" MetaEventSubOnCreate = true ∧ validUri strict "" MetaEventSubOnSubscribe = true ∧
    validUri strict "" MetaEventSubOnUnsubscribe = true ∧ validUri strict "" MetaEventSubOnDelete = true ∧
    validUri strict "" MetaEventRegOnCreate = true ∧ validUri strict "" MetaEventRegOnRegister = true ∧
    validUri strict "" MetaEventRegOnUnregister = true ∧ validUri strict "" MetaEventRegOnDelete = true :=
  metaTopics_valid strict

/-- Consequence: the `on_join`, `on_leave` and registration meta publications queued by `C18_events_join`,
    `C18_events_leave`, `C18_events_register`, `C18_events_unregister`, `C18_events_leave_regs` are NEVER dropped:
    their task publishes (no options: nothing to refuse), in every reachable realm. -/
theorem C18_session_events_published {cfg : Config} {r : Realm} (h : Realm.Reachable cfg r) (p : MetaPub)
    (ht : p.topic = MetaEventSessionOnJoin ∨ p.topic = MetaEventSessionOnLeave ∨
          p.topic = MetaEventRegOnCreate ∨ p.topic = MetaEventRegOnRegister ∨
          p.topic = MetaEventRegOnUnregister ∨ p.topic = MetaEventRegOnDelete)
    (ho : p.opts = []) :
    r.runTask (.metaPub p) =
      ({ r with pubCount := r.pubCount + 1,
                broker := (r.broker.syncPublish r.session? r.now (pubOf r r.metaS [] p.topic p.args p.kw)).1 } : Realm).deliver
        (r.broker.syncPublish r.session? r.now (pubOf r r.metaS [] p.topic p.args p.kw)).2 := by
  obtain ⟨_, hf, hk⟩ := C18_metaS_const h
  have hv : validUri r.broker.strict "" p.topic = true := by
    have hm := metaTopics_valid r.broker.strict
    rcases ht with e | e | e | e | e | e <;> rw [e]
    · exact hm.1
    · exact hm.2.1
    · exact hm.2.2.2.2.2.2.1
    · exact hm.2.2.2.2.2.2.2.1
    · exact hm.2.2.2.2.2.2.2.2.1
    · exact hm.2.2.2.2.2.2.2.2.2
  have hd : discloseRefused r p.opts = false := by rw [ho]; rfl
  have := metaPublish_ok r p hk hf hv hd
  rw [ho] at this
  exact this

/-! ### registration events on leave -/

/-- REGISTRATION EVENTS OF A DEPARTURE (`leaveBaseTasks` of `C18_events_leave`, characterised).
    * Dealer: in a state satisfying the dealer invariant, the publications `syncRemoveSession k` hands to the meta
      session are, for each id of `k`'s callee-index entry in order, the block `regDepartPubs` of that
      registration; the ids of the entry are distinct and are exactly the registrations `k` is a callee of.
    * The block of a registration `k` is a callee of: `on_unregister [k, id]`, then `on_delete [k, id]` iff `k` was
      its only callee; of any other id: nothing.
    * Realm: for a non-shutdown departure of an attached session `k ≠ 0` these publications, in that order, are
      exactly the tasks the removal stage appends to the pending ones (the dealer's sends there are ERRORs for
      callers, the broker's are EVENTs: neither is a task); a shutdown appends nothing.  With `C18_events_leave`:
      tasks after the departure = pending ++ registration events ++ testaments ++ [on_leave]. -/
theorem C18_events_leave_regs :
    (∀ (env : DEnv) (s : DState) (k : SessKey), DealerInv s →
      (syncRemoveSession env s k).metaPubs = (idxIds s.d.index k).flatMap (regDepartPubs s.d k) ∧
      (idxIds s.d.index k).Nodup ∧
      (∀ id, id ∈ idxIds s.d.index k ↔ ∃ reg ∈ s.d.regs, reg.id = id ∧ k ∈ reg.callees)) ∧
    (∀ (d : Dealer) (k : SessKey) (reg : Reg), (d.regs.map (·.id)).Nodup → reg ∈ d.regs → k ∈ reg.callees →
      regDepartPubs d k reg.id =
        { topic := MetaEventRegOnUnregister, args := [sidVal k, .int reg.id] } ::
          (if reg.callees = [k] then [{ topic := MetaEventRegOnDelete, args := [sidVal k, .int reg.id] }] else [])) ∧
    (∀ (d : Dealer) (k : SessKey) (id : Nat), (∀ reg ∈ d.regs, reg.id = id → k ∉ reg.callees) →
      regDepartPubs d k id = []) ∧
    (∀ (r : Realm) (k : SessKey) (mode : LeaveMode), DealerInv r.ds → k ≠ metaKey →
      leaveBaseTasks r k mode =
        r.tasks ++ (if mode.isShutdown then []
                    else ((idxIds r.ds.d.index k).flatMap (regDepartPubs r.ds.d k)).map Task.metaPub)) :=
  ⟨fun _ _ k h => syncRemoveSession_metaPubs h k,
   fun _ _ _ hn hm hk => regDepartPubs_callee hn hm hk,
   fun _ _ _ h => regDepartPubs_other h,
   fun _ _ mode hd hk => leaveBaseTasks_eq hd hk mode⟩

-- non-vacuity: session 1 is the only callee of registration 1 and one of two callees of registration 2; session 2
-- is a callee of 2 and 3.  Departure of 1: on_unregister 1, on_delete 1, on_unregister 2 — nothing about 3.
example : let d0 : Dealer :=
      { regs := [{ id := 1, proc := "p", «match» := "", policy := "", disclose := false, fwdTimeout := false, callees := [1] },
                 { id := 2, proc := "q", «match» := "", policy := "roundrobin", disclose := false, fwdTimeout := false, callees := [1, 2] },
                 { id := 3, proc := "s", «match» := "", policy := "", disclose := false, fwdTimeout := false, callees := [2] }],
        nextReg := 3, index := [(1, [1, 2]), (2, [2, 3])] }
    ((syncRemoveSession { sess := fun _ => none, full := fun _ => false, now := 0 } { d := d0 } 1).metaPubs.map
        (fun p => (p.topic, match p.args with | [_, .int i] => i | _ => 0))) =
      [(MetaEventRegOnUnregister, 1), (MetaEventRegOnDelete, 1), (MetaEventRegOnUnregister, 2)] ∧
    ((idxIds d0.index 1).flatMap (regDepartPubs d0 1)).map (fun p => (p.topic, match p.args with | [_, .int i] => i | _ => 0)) =
      [(MetaEventRegOnUnregister, 1), (MetaEventRegOnDelete, 1), (MetaEventRegOnUnregister, 2)] := by
  decide

/-- `C18_events_leave` and `C18_events_leave_regs` combined: ALL tasks after a non-shutdown departure of an
    attached session `k ≠ 0` (dealer invariant): what was pending; then, per registration `k` was a callee of (callee-index
    order), `on_unregister` and `on_delete` iff it was the last callee; then the testaments (detached, destroyed);
    LAST `on_leave`. -/
theorem C18_events_leave_exact {r : Realm} (hd : DealerInv r.ds) {k : SessKey} (hk : k ≠ metaKey) {s : Session}
    (mode : LeaveMode) (hf : r.clients.find? (fun c => c.key == k) = some s) (hm : mode.isShutdown = false) :
    (r.leave k mode).tasks =
      r.tasks ++ ((idxIds r.ds.d.index k).flatMap (regDepartPubs r.ds.d k)).map Task.metaPub ++
        testamentTasks (bucketOf r k) ++
        [.metaPub { topic := MetaEventSessionOnLeave,
                    args := [sidVal s.key, detailOr s.details "authid", detailOr s.details "authrole"] }] := by
  rw [(C18_events_leave r k s mode hf).1 hm, leaveBaseTasks_eq hd hk mode, hm]
  simp only [Bool.false_eq_true, if_false, List.append_assoc]

-- non-vacuity of `C18_events_leave_exact`: the created default realm with one client that registered nothing
example : ∃ (r : Realm) (s : Session), DealerInv r.ds ∧ (5 : SessKey) ≠ metaKey ∧
    r.clients.find? (fun c => c.key == 5) = some s ∧ LeaveMode.lost.isShutdown = false :=
  ⟨{ registerMeta ({} : Realm) (metaProcNames {}) with
      clients := [{ key := 5, details := [], roles := [], isLocal := true }] },
   { key := 5, details := [], roles := [], isLocal := true },
   registerMeta_inv _ _ (DealerInv.init false false), by decide, rfl, rfl⟩

/-! ### the meta-call round trip -/

/-- First step of the round trip: the task `trySend` queues for an INVOCATION addressed to the meta session runs
    `metaProc` ON THE REALM STATE THE TASK FINDS (everything completed before it is visible to the procedure),
    keeps the state the procedure returns and queues its answer as the next task of the meta session; an
    invocation of a registration id that names no meta procedure is answered ERROR no_such_procedure. -/
theorem C18_meta_invoke_task (r : Realm) (req reg : Nat) (d : Dict) (a : List WVal) (kw : Dict) :
    (∀ reg' proc, r.metaProcs.find? (fun p => p.1 == reg) = some (reg', proc) →
      r.runTask (.metaInvoke req reg d a kw) =
        (metaProc r proc req d a kw).2.addTasks [.metaMsg (metaProc r proc req d a kw).1]) ∧
    (r.metaProcs.find? (fun p => p.1 == reg) = none →
      r.runTask (.metaInvoke req reg d a kw) = r.addTasks [.metaMsg (mErr req ErrNoSuchProcedure)]) ∧
    (∀ (tr : Realm) (s : Send), s.to = metaKey → ∀ q g dd aa kk, s.msg = .invocation q g dd aa kk →
      tr.trySend s = { tr with tasks := tr.tasks ++ [.metaInvoke q g dd aa kk] }) :=
  ⟨fun _ _ h => runTask_metaInvoke_some h, fun h => runTask_metaInvoke_none h, fun tr s hs q g dd aa kk hm => by
    obtain ⟨to, msg⟩ := s
    simp only at hs hm
    subst hs; subst hm
    exact trySend_meta_invocation tr q g dd aa kk⟩

/-- Second step: the answer task is the meta session's own message — `handleMsg` with the meta session — and the
    authorizer is never consulted for it; a YIELD is `dealer.yield(meta session, invocation id, {}, args, kwargs)`,
    an ERROR is `dealer.error(meta session, invocation id, {}, uri)`.  Every answer of a meta procedure is one of
    the two, carrying the invocation's request id. -/
theorem C18_meta_answer_task (r : Realm) (hk : r.metaS.key = metaKey) :
    (∀ m, r.runTask (.metaMsg m) = handleMsg r r.metaS m) ∧
    (∀ m, authzGate r r.metaS m = (true, r)) ∧
    (∀ req a kw, r.runTask (.metaMsg (mYield req a kw)) = handleYield r r.metaS req [] a kw) ∧
    (∀ req uri, r.runTask (.metaMsg (mErr req uri)) = handleError r r.metaS req [] uri [] []) ∧
    (∀ proc req details args kw,
      (∃ a kw', (metaProc r proc req details args kw).1 = mYield req a kw') ∨
      (∃ uri, (metaProc r proc req details args kw).1 = mErr req uri)) :=
  ⟨fun _ => rfl, fun m => authzGate_meta r r.metaS m hk, fun req a kw => runTask_metaMsg_yield r hk req a kw,
   fun req uri => runTask_metaMsg_err r hk req uri, fun proc req details args kw => metaProc_answer r proc req details args kw⟩

/-- The task-unfolding lemmas composed: a realm whose only pending task is the invocation of a meta procedure
    other than the kill procedures — two tasks later (`drain (fuel + 2)`) the state is the meta session's answer
    applied to the state `metaProc` returned (evaluated on the realm with the task taken off). -/
theorem C18_meta_call_drain {r : Realm} {req reg : Nat} {d : Dict} {a : List WVal} {kw : Dict}
    (h : r.tasks = [.metaInvoke req reg d a kw]) {reg' : Nat} {proc : String}
    (hmp : r.metaProcs.find? (fun p => p.1 == reg) = some (reg', proc)) (hnk : isKillProc proc = false) (fuel : Nat) :
    drain (fuel + 1 + 1) r =
      drain fuel (handleMsg { (metaProc { r with tasks := [] } proc req d a kw).2 with tasks := [] }
        (metaProc { r with tasks := [] } proc req d a kw).2.metaS (metaProc { r with tasks := [] } proc req d a kw).1) :=
  meta_call_drain h hmp hnk fuel

-- non-vacuity of `C18_meta_call_drain` (the hypotheses of `C18_meta_answer_delivered` are those the proof of
-- `C18_call_roundtrip_partial` derives from its own, which the example below that theorem satisfies)
example : let r0 : Realm := { tasks := [.metaInvoke 1 1 [] [] []], metaProcs := [(1, MetaProcSessionCount)] }
    r0.tasks = [.metaInvoke 1 1 [] [] []] ∧
    r0.metaProcs.find? (fun p => p.1 == 1) = some (1, MetaProcSessionCount) ∧
    isKillProc MetaProcSessionCount = false ∧ isKillProc MetaProcSessionKillAll = true :=
  ⟨rfl, rfl, by decide, by decide⟩

/-- The answer half at full strength: the meta session holds invocation `invId` of the pending call `(k, req)` of
    an attached client whose queue has room, and nothing else is pending: the answer task appends exactly
    `callerReply req m` — RESULT(req, {}, args, kwargs) for YIELD(invId, {}, args, kwargs), ERROR(CALL, req, {}, uri)
    for ERROR(INVOCATION, invId, {}, uri) — to that client's queue, and leaves no task. -/
theorem C18_meta_answer_delivered {r : Realm} (hd : DealerInv r.ds) (hms : r.metaS.key = metaKey) (ht : r.tasks = [])
    {v : Invk} {invId req : Nat} {k : SessKey} (hv : v ∈ r.ds.d.invs) (hvid : v.id = ⟨metaKey, invId⟩)
    (hvc : v.callId = ⟨k, req⟩) (hk : k ≠ metaKey)
    {c : Session} (hc : r.clients.find? (fun c => c.key == k) = some c) (hroom : r.queueLen k < c.cap)
    (m : Msg) (hmsg : (∃ a kw', m = mYield invId a kw') ∨ (∃ uri, m = mErr invId uri)) :
    (r.runTask (.metaMsg m)).tasks = [] ∧
    (r.runTask (.metaMsg m)).queueOf k = r.queueOf k ++ [callerReply req m] :=
  meta_answer_delivered hd hms ht hv hvid hvc hk hc hroom m hmsg

example (req inv : Nat) (a : List WVal) (kw : Dict) (uri : String) :
    callerReply req (mYield inv a kw) = .result req [] a kw ∧
    callerReply req (mErr inv uri) = .error tCALL req [] uri [] [] := ⟨rfl, rfl⟩

/-- THE ROUND TRIP, full statement (audit §3(d)3): in every reachable, quiescent realm, a plain CALL (no progress,
    no payload passthru) of a configured meta procedure other than the kill procedures by an attached client
    (handler idle, not ending, authorized, queue not full, no call pending under that request id) is answered
    WITHIN THE SAME STEP: exactly one message is appended to the caller's queue, the RESULT / ERROR rendered from
    `metaProc` evaluated on the realm state after the CALL was routed.

    PROVED: `C18_call_roundtrip_stmt_holds`, from `C18_call_roundtrip_partial` (the same conclusion from the state
    facts "the best match of `proc` is a registration of the meta session alone, bound to meta procedure `mp`")
    and the invariant `Realm.Reachable.metaRegs` (Nexus/L2/Proofs/RealmMetaRegs.lean): in every reachable realm
    every configured meta procedure still has its registration — exact match, only callee the meta session,
    caller disclosure on, bound to its name in `metaProcs` — because a registration loses a callee only by that
    callee's UNREGISTER or departure, and the meta session sends nothing but YIELD / ERROR and never leaves.
    (While `Reachable` admitted `Op.join metaKey …` the statement was false: a client attached under the meta
    session's key, leaving, took the meta registrations with it — the former witness
    `C18_call_roundtrip_stmt_full_fails`.  That input is now a no-op of the model; the hypothesis `k ≠ metaKey`
    the statement used to carry is derivable and has been dropped.)  For the kill procedures the answer is queued
    BEHIND the departures they cause, whose meta events may reach the caller first: the caller still gets its
    RESULT (by `C18_meta_answer_delivered`, if its queue has room then), but not "appended next". -/
def C18_call_roundtrip_stmt : Prop :=
  ∀ (cfg : Config) (r : Realm), Realm.Reachable cfg r → r.tasks = [] →
  ∀ (k : SessKey) (c : Session), r.clients.find? (fun c => c.key == k) = some c →
    r.ending.contains k = false → r.busy k = false →
  ∀ (req : Nat) (opts : Dict) (proc : String) (args : List WVal) (kw : Dict),
    proc ∈ metaProcNames cfg → isKillProc proc = false →
    authzGate r c (.call req opts proc args kw) = (true, r) →
    r.ds.d.byCall? ⟨k, req⟩ = none →
    opts.optFlag OptProgress = false → pptScheme opts = "" → r.queueLen k < c.cap →
    ∃ (R : Realm) (invId : Nat) (details : Dict),
      r.step (.msg k (.call req opts proc args kw)) = flush R ∧ R.tasks = [] ∧
      details.get? "caller" = some (sidVal k) ∧
      R.queueOf k = r.queueOf k ++
        [callerReply req (metaProc { handleCall r c req opts proc args kw with tasks := [] } proc invId details args kw).1]

/-- THE ROUND TRIP, proved from state facts (see `C18_call_roundtrip_stmt`).  `r`: dealer invariant, meta session
    under key 0, no task pending.  `k`: attached as `c`, handler idle, not ending, authorized, queue has room, no
    call pending under `req`.  The CALL is plain; its best match `reg` is a registration of the meta session alone
    (caller disclosure on), bound in `metaProcs` to the meta procedure `mp`, which is not a kill procedure.  Then
    the step is `flush R` for a state `R` without pending tasks in which `k`'s queue is its old queue plus exactly
    the RESULT / ERROR (`callerReply`) rendered from the answer of `metaProc` — evaluated on the state after the
    CALL was routed, with the fresh invocation id, the details built for the meta session (which carry
    `caller = k`'s session id) and the CALL's arguments. -/
theorem C18_call_roundtrip_partial {r : Realm} (hd : DealerInv r.ds) (hms : r.metaS.key = metaKey) (ht : r.tasks = [])
    {k : SessKey} {c : Session} (hk : k ≠ metaKey) (hc : r.clients.find? (fun c => c.key == k) = some c)
    (hend : r.ending.contains k = false) (hbusy : r.busy k = false)
    (req : Nat) (opts : Dict) (proc : String) (args : List WVal) (kw : Dict)
    (hauth : authzGate r c (.call req opts proc args kw) = (true, r))
    (hb : r.ds.d.byCall? ⟨k, req⟩ = none)
    {reg : Reg} (hm : r.ds.d.matchProcedure proc = some reg) (hcal : reg.callees = [metaKey])
    (hdis : reg.disclose = true)
    {reg' : Nat} {mp : String} (hmp : r.metaProcs.find? (fun p => p.1 == reg.id) = some (reg', mp))
    (hnk : isKillProc mp = false)
    (hprog : opts.optFlag OptProgress = false) (hppt : pptScheme opts = "")
    (hroom : r.queueLen k < c.cap) :
    ∃ R : Realm,
      r.step (.msg k (.call req opts proc args kw)) = flush R ∧ R.tasks = [] ∧
      (invDetails r.denv reg k metaKey opts proc).get? "caller" = some (sidVal k) ∧
      R.queueOf k = r.queueOf k ++
        [callerReply req (metaProc { handleCall r c req opts proc args kw with tasks := [] } mp
            (genOf r.ds.invGen metaKey + 1) (invDetails r.denv reg k metaKey opts proc) args kw).1] := by
  obtain ⟨R, h1, h2, h3⟩ := call_roundtrip hd hms ht hk hc hend hbusy req opts proc args kw hauth hb hm hcal hdis hmp hnk
    hprog hppt hroom
  exact ⟨R, h1, h2, invDetails_caller r.denv reg k metaKey opts proc hdis, h3⟩

-- non-vacuity: the realm `create {}` builds, with one attached client (key 5)
example : ∃ (r : Realm) (c : Session) (reg : Reg),
    DealerInv r.ds ∧ r.metaS.key = metaKey ∧ r.tasks = [] ∧ (5 : SessKey) ≠ metaKey ∧
    r.clients.find? (fun c => c.key == 5) = some c ∧ r.ending.contains 5 = false ∧ r.busy 5 = false ∧
    authzGate r c (.call 1 [] MetaProcSessionCount [] []) = (true, r) ∧
    r.ds.d.byCall? ⟨5, 1⟩ = none ∧ r.ds.d.matchProcedure MetaProcSessionCount = some reg ∧
    reg.callees = [metaKey] ∧ reg.disclose = true ∧
    r.metaProcs.find? (fun p => p.1 == reg.id) = some (reg.id, MetaProcSessionCount) ∧
    isKillProc MetaProcSessionCount = false ∧
    Nexus.Dict.optFlag [] OptProgress = false ∧ pptScheme [] = "" ∧ r.queueLen 5 < c.cap ∧
    -- … and what the client reads in that step: RESULT(1, [1]) — one session attached
    ((r.step (.msg 5 (.call 1 [] MetaProcSessionCount [] []))).1.out.map
      (fun q => (q.1, q.2.map (fun m => match m with | .result req _ [.int n] _ => (req, n) | _ => (0, 0))))) =
      [(5, [(1, 1)])] := by
  let c5 : Session := { key := 5, details := [("authid", .str "bob")], roles := [], isLocal := true, cap := 8 }
  let r : Realm := { registerMeta ({} : Realm) (metaProcNames {}) with clients := [c5], queues := [(5, [])] }
  have hmap : (r.ds.d.matchProcedure MetaProcSessionCount).map (fun g => (g.id, g.callees, g.disclose)) =
      some (1, [metaKey], true) := by decide +kernel
  obtain ⟨reg, hreg, hx⟩ := Option.map_eq_some_iff.mp hmap
  simp only [Prod.mk.injEq] at hx
  obtain ⟨hid, hcal, hdis⟩ := hx
  refine ⟨r, c5, reg, registerMeta_inv _ _ (DealerInv.init false false), ?_, (registerMeta_fields _ _).2.2.2.1, by decide,
    rfl, rfl, rfl, rfl, by decide +kernel, hreg, hcal, hdis, ?_, by decide, rfl, rfl, by decide +kernel, by decide +kernel⟩
  · show (registerMeta ({} : Realm) (metaProcNames {})).metaS.key = metaKey
    rw [(registerMeta_fields _ _).2.2.2.2.1]
  · rw [hid]; decide +kernel

/-- THE ROUND TRIP HOLDS in every reachable realm (see `C18_call_roundtrip_stmt`): the witnesses are the fresh
    invocation id of the meta session and the invocation details the dealer builds for it. -/
theorem C18_call_roundtrip_stmt_holds : C18_call_roundtrip_stmt := by
  intro cfg r h ht k c hc hend hbusy req opts proc args kw hproc hnk hauth hb hprog hppt hroom
  obtain ⟨g, _, _, _, gc, gd, gm, gf⟩ := h.metaRegs hproc
  obtain ⟨R, h1, h2, h3, h4⟩ := C18_call_roundtrip_partial h.inv.1.dinv h.metaSafe.mkey ht (h.find?_ne_meta hc) hc hend hbusy
    req opts proc args kw hauth hb gm gc gd gf hnk hprog hppt hroom
  exact ⟨R, genOf r.ds.invGen metaKey + 1, invDetails r.denv g k metaKey opts proc, h1, h2, h3, h4⟩

/-- the invariant behind it, as a property of its own: in every reachable realm every configured meta procedure
    is registered for the meta session alone (exact match, caller disclosure on), is the best match of its own
    URI, and is bound to its name in `metaProcs` — whatever the clients have sent -/
theorem C18_meta_regs_intact {cfg : Config} {r : Realm} (h : Realm.Reachable cfg r) {p : String}
    (hp : p ∈ metaProcNames cfg) :
    ∃ g ∈ r.ds.d.regs, g.proc = p ∧ g.kind = .exact ∧ g.callees = [metaKey] ∧ g.disclose = true ∧
      r.ds.d.matchProcedure p = some g ∧ r.metaProcs.find? (fun e => e.1 == g.id) = some (g.id, p) :=
  h.metaRegs hp

-- non-vacuity: the reachable realm of the former counterexample history — `join metaKey`, `drop metaKey`, `join 5`
-- (the first two are no-ops now) — answers `wamp.session.count` with RESULT(1, [1])
example : let r0 : Realm := registerMeta ({} : Realm) (metaProcNames {})
    let r3 : Realm := (((r0.step (.join metaKey true [] [] 8)).2.step (.drop metaKey)).2.step (.join 5 true [] [] 8)).2
    r3.clients.map (·.key) = [5] ∧
    ((r3.step (.msg 5 (.call 1 [] MetaProcSessionCount [] []))).1.out.map
      (fun q => (q.1, q.2.map (fun m => match m with | .result req _ [.int n] _ => (req, n) | _ => (0, 0))))) =
      [(5, [(1, 1)])] := by
  decide +kernel

/-- registration events of a departure in a REACHABLE realm: `C18_events_leave_exact` with its side conditions
    discharged — the dealer invariant holds, and the key of an attached client is not the meta session's
    (`Realm.Reachable.find?_ne_meta`), so "k is attached" is all that is asked -/
theorem C18_events_leave_exact_reachable {cfg : Config} {r : Realm} (h : Realm.Reachable cfg r) {k : SessKey}
    {s : Session} (mode : LeaveMode) (hf : r.clients.find? (fun c => c.key == k) = some s)
    (hm : mode.isShutdown = false) :
    (r.leave k mode).tasks =
      r.tasks ++ ((idxIds r.ds.d.index k).flatMap (regDepartPubs r.ds.d k)).map Task.metaPub ++
        testamentTasks (bucketOf r k) ++
        [.metaPub { topic := MetaEventSessionOnLeave,
                    args := [sidVal s.key, detailOr s.details "authid", detailOr s.details "authrole"] }] :=
  C18_events_leave_exact h.inv.1.dinv (h.find?_ne_meta hf) mode hf hm

/-- … and the realm clause of `C18_events_leave_regs` for every attached client of a reachable realm -/
theorem C18_events_leave_regs_reachable {cfg : Config} {r : Realm} (h : Realm.Reachable cfg r) {k : SessKey}
    {s : Session} (mode : LeaveMode) (hf : r.clients.find? (fun c => c.key == k) = some s) :
    leaveBaseTasks r k mode =
      r.tasks ++ (if mode.isShutdown then []
                  else ((idxIds r.ds.d.index k).flatMap (regDepartPubs r.ds.d k)).map Task.metaPub) :=
  C18_events_leave_regs.2.2.2 r k mode h.inv.1.dinv (h.find?_ne_meta hf)

end WpA

end Nexus.C18
